#!/bin/sh
# tools/reeval.sh "<seed ids>" [parallelism] : re-evaluate seeded changes (tools/seed_eval.py), the changes of one
# property one after the other (they share coq/<dir>/Generated.v), different properties side by side
cd "$(dirname "$0")/.."
P="${2:-4}"
for p in $(echo $1 | tr ' ' '\n' | cut -c1-3 | sort -u); do
  echo "$(echo $1 | tr ' ' '\n' | grep "^$p" | tr '\n' ' ')"
done | xargs -P "$P" -I{} sh -c 'for s in {}; do python3 tools/seed_eval.py $s 2>&1 | tail -n 1 | cut -c1-220; done'
