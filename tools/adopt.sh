#!/bin/sh
# tools/adopt.sh CNN "m5 m6" [extra check ids] : copy the seeding agent's artefacts from /tmp/mut_CNN/<k> into
# seeded/CNN_<k>, remove its worktree and evaluate each change (tools/seed_eval.py) — one result line per change.
P="$1"; KS="$2"; shift; shift
cd "$(dirname "$0")/.."
for k in $KS; do
  d=seeded/${P}_$k; mkdir -p $d
  cp /tmp/mut_$P/$k/patch.diff /tmp/mut_$P/$k/demo.py /tmp/mut_$P/$k/meta.json $d/ || exit 1
done
git -C /repo worktree remove --force /tmp/m_$P 2>/dev/null
for k in $KS; do python3 tools/seed_eval.py ${P}_$k $P "$@" 2>&1 | tail -n 1; done
