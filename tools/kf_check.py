#!/usr/bin/env python3
"""tools/kf_check.py <dir with CNN_<seed>.log files>: every OPEN finding of known_findings.json must have printed its
KNOWN-FINDING line in every run of its property, no fixed finding may print one, and every run must have ended rc 0
(last line '-> OK')."""
import glob, json, os, re, sys
d = sys.argv[1]
kf = json.load(open(os.path.join(os.path.dirname(os.path.dirname(os.path.abspath(__file__))), 'known_findings.json')))['findings']
bad = 0
for log in sorted(glob.glob(os.path.join(d, 'C*_*.log'))):
    prop = os.path.basename(log)[:3]
    txt = open(log, errors='replace').read()
    lines = [l for l in txt.split('\n') if l.startswith('KNOWN-FINDING')]
    if '-> OK' not in txt.strip().split('\n')[-1]:
        print('NOT OK :', log, txt.strip().split('\n')[-1][:160]); bad += 1
    if any(l.startswith('VIOLATION') for l in txt.split('\n')):
        print('VIOLATION in', log); bad += 1
    for f in kf:
        if f['property'] != prop:
            continue
        tag = '[%s]' % f['id']
        hit = any(tag in l for l in lines)
        if f['status'] == 'open' and not hit:
            print('open finding not printed:', f['id'], log); bad += 1
        if f['status'] != 'open' and hit:
            print('fixed finding printed:', f['id'], log); bad += 1
print('problems:', bad)
sys.exit(1 if bad else 0)
