#!/bin/sh
# tools/mk.sh [targets]: regenerate coq/Makefile if needed and make the targets
cd "$(dirname "$0")/.." && /venv/bin/python -B -c "
import sys; sys.path.insert(0,'harness'); import common
rc,out,dt=common.coq_make(sys.argv[1:], timeout=3000)
print(out[-6000:]); sys.exit(rc)" "$@"
