#!/bin/sh
# tools/merge_branch.sh <branch>: merge a builder branch; conflicts in generated files are resolved by regeneration
cd "$(dirname "$0")/.."
git merge -q --no-edit "$1" >/dev/null 2>&1
git checkout --ours MANIFEST.json known_findings.json 2>/dev/null
python3 tools/gen_manifest.py
git add MANIFEST.json known_findings.json
python3 tools/resolve_meta.py
if git diff --name-only --diff-filter=U | grep -q .; then echo "UNRESOLVED:"; git diff --name-only --diff-filter=U; exit 1; fi
git commit -q --no-edit -m "Merge branch '$1'" 2>/dev/null || git commit -q -m "Merge branch '$1'" 2>/dev/null
git log --oneline | head -1
