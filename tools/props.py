"""Table of the checks registered in MANIFEST.json (edited by hand, MANIFEST.json is generated from it)."""
CHECKS = {
 'C20': dict(
   coq='Weights', design='DESIGN.md §4 C20', partial=True,
   technique='Coq proof (induction over the weight list, lia/nia; PrimFloat sweeps lifted by forallb_forall) over a hand-written Gallina model + differential correspondence run against FlowIRConcrete/StatusMonitor',
   text='Theorems C20_weights, C20_default_path, C20_progress (all n, all three-decimal/missing/negative assignments, all progress vectors) and C20_float_tie (bounded sweeps) over the model coq/Weights/Model.v; the model is tied to inject_default_values, StatusMonitor.__init__ and CheckStatus by running both on ~750 generated assignments per run. Partial: the last float accumulation is compared (1e-9), not proved; four-decimal weights are a recorded finding (C20_four_decimals_refuted).',
   note='Trusted: Coq kernel + vm_compute, PrimFloat/PrimInt63 primitives (listed by Print Assumptions for C20_float_tie only), harness/c20.py fakes for experiment/controller, decimal weights with <= 4 decimals.'),
}
