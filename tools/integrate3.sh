#!/bin/sh
# tools/integrate3.sh CNN <agent-commit>...  : as integrate2.sh, for the gap-closing round (branches gCNN / fix3-CNN)
set -e
P="$1"; shift
cd /verif
git add -A; git commit -qm "WIP before merging $P" || true
tools/merge_branch.sh g$P
for h in "$@"; do
  (cd /repo && git cherry-pick "$h" >/dev/null 2>&1 || { echo "cherry-pick $h FAILED"; git cherry-pick --abort; exit 1; })
  n=$(git -C /repo log --format=%h -1)
  echo "$h -> $n : $(git -C /repo log --format=%s -1)"
  grep -rl "$h" . --include=*.json --include=*.py --include=*.v --include=*.md 2>/dev/null | grep -v "^./.git" | xargs -r sed -i "s/$h/$n/g"
done
python3 tools/gen_manifest.py
git worktree remove --force /tmp/v_$P 2>/dev/null || true
git -C /repo worktree remove --force /tmp/r_$P 2>/dev/null || true
git -C /repo branch -D fix3-$P -q 2>/dev/null || true
git branch -D g$P -q 2>/dev/null || true
git add -A; git commit -qm "Merged $P (gaps of the third seeding round closed); commit refs updated" || true
echo integrated $P
