#!/bin/sh
# tools/sweep.sh "<seeds>" [tier] ["<props>"] : every registered check under several seeds; prints one line per run.
# Any line not ending in "rc=0" on the unchanged tree is a false alarm (or a flaky check) to be diagnosed.
cd "$(dirname "$0")/.."
SEEDS="${1:-2 3 4}"; TIER="${2:-quick}"; PROPS="${3:-}"
./setup.sh > /dev/null 2>&1 || echo "setup failed"
mkdir -p .work/sweep
for s in $SEEDS; do
  for p in ${PROPS:-$(python3 -c "import json;print(' '.join(c['property_id'] for c in json.load(open('MANIFEST.json'))['checks']))")}; do
    echo "$s $p"
  done
done | xargs -P 3 -L 1 sh -c 'VERIF_SEED=$0 VERIF_EVIDENCE_DIR=.work/sweep/ev_$0 VERIF_REPLAY_DIR=.work/sweep/rp_$0 VERIF_WORK_DIR=.work/sweep/w_$0_$1 timeout 3000 ./check $1 --tier '"$TIER"' > .work/sweep/$1_$0.log 2>&1; echo "seed=$0 $1 rc=$? $(grep -c ^VIOLATION .work/sweep/$1_$0.log) violations; $(tail -n 1 .work/sweep/$1_$0.log | cut -c1-150)"'
