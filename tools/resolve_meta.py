#!/usr/bin/env python3
"""resolve add/add conflicts of seeded/*/meta.json during a merge: our copy, plus the verif_note of theirs"""
import json, subprocess, sys
out = subprocess.run(['git', 'diff', '--name-only', '--diff-filter=U'], capture_output=True, text=True).stdout.split()
for p in out:
    if not (p.startswith('seeded/') and p.endswith('meta.json')):
        continue
    ours = json.loads(subprocess.run(['git', 'show', ':2:' + p], capture_output=True, text=True).stdout)
    theirs = json.loads(subprocess.run(['git', 'show', ':3:' + p], capture_output=True, text=True).stdout)
    for k, v in theirs.items():
        if k not in ours or k == 'verif_note':
            ours[k] = v
    json.dump(ours, open(p, 'w'), indent=1)
    subprocess.run(['git', 'add', p])
    print('resolved', p)
