#!/usr/bin/env python3
import json, os, sys
here = os.path.dirname(os.path.abspath(__file__))
sys.path.insert(0, here)
from props import CHECKS
V = os.path.dirname(here)
props = [json.loads(l) for l in open(os.path.join(V, 'properties.jsonl'))]
hooks = json.load(open(os.path.join(V, 'tools', 'hooks.json')))
man = {
 'version': 1,
 'setup_cmd': 'cd /verif && ./setup.sh',
 'hooks': hooks,
 'engines': [{'name': 'coq-proof+correspondence', 'path': 'check',
              'serves_properties': sorted(CHECKS), 'kind_free_text':
              'Coq 8.16.1 theorems over executable Gallina models (coq/), tied to /repo by harness/*.py differential runs; ./check CNN --tier quick|thorough'}],
 'checks': [], 'not_applicable': [],
 'notes': 'Every check: (1) full .vo build of the property theorems + Print Assumptions audit, (2) correspondence model<->implementation on generated cases evaluated inside Coq by vm_compute, (3) property predicate on the implementation outputs; known_findings.json lists recorded genuine defects.',
}
for p in props:
    i = p['id']
    if i in CHECKS:
        c = CHECKS[i]
        man['checks'].append({
            'property_id': i,
            'quick_cmd': './check %s --tier quick' % i,
            'thorough_cmd': './check %s --tier thorough' % i,
            'evidence_file': 'evidence/%s.json' % i,
            'replay_cmd_template': './check %s --replay {path}' % i,
            'engine': 'coq-proof+correspondence',
            'level_claimed': {'category': 'proof', 'text': c['text'], 'design_ref': c['design']},
            'level_note': c['note'],
            'technique': c['technique'],
        })
    else:
        man['not_applicable'].append({'property_id': i, 'reason': 'check not built yet (work in progress; see DESIGN.md §4 for the planned model and theorems)'})
json.dump(man, open(os.path.join(V, 'MANIFEST.json'), 'w'), indent=1)
print('checks:', len(man['checks']), 'not_applicable:', len(man['not_applicable']))
