#!/usr/bin/env python3
"""tools/seed_eval.py <seed-id> [PROP ...]
Evaluates one seeded change (/verif/seeded/<seed-id>/{patch.diff,demo.py,meta.json}) without touching /repo:
a scratch worktree of /repo HEAD gets the patch; the demonstration must PASS on the clean worktree and FAIL
on the patched one; then the listed checks (default: the property named in meta.json) run against the patched
worktree (VERIF_REPO) with their work/evidence/replay directories redirected.  Writes seeded/<id>/result.json."""
import json, os, subprocess, sys, shutil, time
V = os.path.dirname(os.path.dirname(os.path.abspath(__file__)))
sid = sys.argv[1]
sd = os.path.join(V, 'seeded', sid)
meta = json.load(open(os.path.join(sd, 'meta.json')))
props = sys.argv[2:] or [meta['property']]
wt = '/tmp/seedwt_%s' % sid
def sh(cmd, **kw):
    p = subprocess.run(cmd, shell=True, stdout=subprocess.PIPE, stderr=subprocess.STDOUT, **kw)
    return p.returncode, p.stdout.decode('utf-8', 'replace')
sh('git -C /repo worktree remove --force %s' % wt)
rc, out = sh('git -C /repo worktree add -q --detach %s HEAD' % wt)
assert rc == 0, out
res = {'seed': sid, 'repo_head': sh('git -C /repo log --format=%h -1')[1].strip(), 'checks': {}}
try:
    env = dict(os.environ, PYTHONPATH=wt + '/python', PYTHONHASHSEED='0')
    demo = os.path.join(sd, 'demo.py')
    rc0, o0 = sh('cd /tmp && timeout 900 /venv/bin/python -W ignore %s' % demo, env=env)
    rc, out = sh('git -C %s apply %s' % (wt, os.path.join(sd, 'patch.diff')))
    res['patch_applies'] = (rc == 0)
    if rc != 0:
        res['apply_error'] = out[-500:]
    rc1, o1 = sh('cd /tmp && timeout 900 /venv/bin/python -W ignore %s' % demo, env=env)
    res['demo_clean_rc'] = rc0
    res['demo_patched_rc'] = rc1
    res['demo_ok'] = (rc0 == 0 and rc1 != 0)
    for p in props:
        alt = '/tmp/seedrun_%s_%s' % (sid, p)
        shutil.rmtree(alt, ignore_errors=True)
        os.makedirs(alt)
        e2 = dict(os.environ, VERIF_REPO=wt, VERIF_WORK_DIR=alt + '/work', VERIF_EVIDENCE_DIR=alt + '/evidence',
                  VERIF_REPLAY_DIR=alt + '/replays')
        t0 = time.time()
        rc, out = sh('cd %s && timeout 3000 ./check %s --tier quick' % (V, p), env=e2)
        viol = [l for l in out.split('\n') if l.startswith('VIOLATION')]
        res['checks'][p] = {'exit': rc, 'violation_lines': viol[:3], 'caught': rc == 1 and bool(viol),
                            'wall_s': round(time.time() - t0, 1), 'tail': out[-600:]}
        shutil.rmtree(alt, ignore_errors=True)
finally:
    sh('git -C /repo worktree remove --force %s' % wt)
    # the regenerated models (coq/*/Generated.v) were measured on the patched tree: restore the committed ones
    sh('cd %s && git checkout -- coq/Dosini/Generated.v coq/Valid/Generated.v coq/Cache/Generated.v' % V)
json.dump(res, open(os.path.join(sd, 'result.json'), 'w'), indent=1)
print(json.dumps({k: (v if k != 'checks' else {p: (c['caught'], c['exit']) for p, c in v.items()}) for k, v in res.items()}))
