#!/bin/sh
# Build the whole Coq development (full .vo build) from the files on disk. Offline.
set -e
cd "$(dirname "$0")"
/venv/bin/python -B -c "
import sys; sys.path.insert(0,'harness'); import common
common.ensure_coq_makefile()
rc,out,dt=common.coq_make([], timeout=3000)
print(out[-3000:]); print('coq build rc=%d %.0fs'%(rc,dt)); sys.exit(rc)"
