(* Helpers used by the generated cases.v files of the correspondence runs. *)
From Coq Require Import List Bool Arith.
Import ListNotations.

Fixpoint mismatch_from {A} (chk : A -> bool) (i : nat) (l : list A) : list nat :=
  match l with
  | [] => []
  | x :: r => if chk x then mismatch_from chk (S i) r else i :: mismatch_from chk (S i) r
  end.

Definition mismatch_idx {A} (chk : A -> bool) (l : list A) : list nat := mismatch_from chk 0 l.

Lemma mismatch_idx_nil_forallb {A} (chk : A -> bool) l i :
  mismatch_from chk i l = [] -> forallb chk l = true.
Proof.
  revert i; induction l as [|x r IH]; intros i H; [reflexivity|].
  cbn in *. destruct (chk x); [eauto | discriminate].
Qed.

(* gives the list literal of a generated cases file the element type of the checker's domain, so that
   terms such as [None] or [[]] in which no case fixes an implicit type argument still elaborate *)
Definition cases_for {A} (chk : A -> bool) (l : list A) : list A := l.
