(* YAML/JSON-like values as used by FlowIR documents; dictionaries are association lists with
   unique keys, compared up to key order.  [override] models FlowIR.override_object. *)
From Coq Require Import String List Bool ZArith.
Import ListNotations.
Open Scope string_scope.

Inductive jv :=
  | JNull | JBool (b : bool) | JInt (z : Z) | JFlt (repr : string) | JStr (s : string)
  | JList (l : list jv) | JDict (m : list (string * jv)).

Fixpoint lookup {A} (k : string) (m : list (string * A)) : option A :=
  match m with
  | [] => None
  | (k', v) :: r => if String.eqb k k' then Some v else lookup k r
  end.

Definition has_key {A} (k : string) (m : list (string * A)) : bool :=
  match lookup k m with Some _ => true | None => false end.

Fixpoint remove_key {A} (k : string) (m : list (string * A)) : list (string * A) :=
  match m with
  | [] => []
  | (k', v) :: r => if String.eqb k k' then remove_key k r else (k', v) :: remove_key k r
  end.

(* d[k] = v on an insertion-ordered dict *)
Fixpoint set_key {A} (k : string) (v : A) (m : list (string * A)) : list (string * A) :=
  match m with
  | [] => [(k, v)]
  | (k', v') :: r => if String.eqb k k' then (k, v) :: r else (k', v') :: set_key k v r
  end.

(* Python truthiness, as used by `new = new or {}` *)
Definition falsy (v : jv) : bool :=
  match v with
  | JNull | JBool false | JInt Z0 | JStr EmptyString | JList [] | JDict [] => true
  | JFlt r => String.eqb r "0.0"
  | _ => false
  end.

(* FlowIR.override_object(old, new): None models the AttributeError raised when old is a dict and
   new is a non-empty non-dict value.  Key order of the result: old's keys, then new's novel keys
   (the code iterates a set there; results are compared up to key order). *)
Fixpoint override (old new : jv) : option jv :=
  match old with
  | JDict mo =>
      if falsy new then Some old
      else match new with
           | JDict mn =>
               let fix go (mo : list (string * jv)) : option (list (string * jv)) :=
                 match mo with
                 | [] => Some []
                 | (k, v) :: r =>
                     match lookup k mn with
                     | Some v' => match override v v', go r with
                                  | Some x, Some y => Some ((k, x) :: y)
                                  | _, _ => None
                                  end
                     | None => option_map (cons (k, v)) (go r)
                     end
                 end in
               match go mo with
               | Some l => Some (JDict (l ++ filter (fun kv => negb (has_key (fst kv) mo)) mn))
               | None => None
               end
           | _ => None
           end
  | _ => match new with JNull => Some old | _ => Some new end
  end.

(* equality up to dictionary key order (keys assumed unique) *)
Fixpoint jv_eqb (a b : jv) : bool :=
  match a, b with
  | JNull, JNull => true
  | JBool x, JBool y => Bool.eqb x y
  | JInt x, JInt y => Z.eqb x y
  | JFlt x, JFlt y => String.eqb x y
  | JStr x, JStr y => String.eqb x y
  | JList la, JList lb =>
      (fix go (la lb : list jv) : bool :=
         match la, lb with
         | [], [] => true
         | x :: ra, y :: rb => jv_eqb x y && go ra rb
         | _, _ => false
         end) la lb
  | JDict ma, JDict mb =>
      Nat.eqb (length ma) (length mb) &&
      (fix go (ma : list (string * jv)) : bool :=
         match ma with
         | [] => true
         | (k, v) :: r => match lookup k mb with Some w => jv_eqb v w | None => false end && go r
         end) ma
  | _, _ => false
  end.

(* path lookup through nested dictionaries *)
Fixpoint get_path (p : list string) (v : jv) : option jv :=
  match p with
  | [] => Some v
  | k :: p' => match v with JDict m => match lookup k m with Some w => get_path p' w | None => None end | _ => None end
  end.

Definition jdict_of (v : jv) : list (string * jv) := match v with JDict m => m | _ => [] end.
