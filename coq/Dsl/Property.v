From Coq Require Import String List.
Require Import V.Dsl.Model.
Theorem C06_placeholder : True. Proof. exact I. Qed.
Print Assumptions C06_placeholder.
