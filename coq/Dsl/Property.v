(* C06 — DSL 2.0 compilation preserves the dataflow and parameter bindings.  Property theorems only.
   All statements are about the compiler model of Model.v (tied to dsl.py by the correspondence run).
   The specification is Spec.v ([spec_ns], the Gallina port of the flattener of harness/c06.py, tied to it and to
   [compile] on every generated namespace by the correspondence run).
   PARTIAL: the end-to-end refinement "compile ns = spec_ns ns" is NOT a theorem; what is proved for all inputs is
   every level of it taken separately — one workflow level of parameter propagation (C06_refines_step), the
   arguments of a component instance (C06_refines_args), the producer of a reference (C06_producer_is_spec,
   C06_refines_producer_spec) — plus uniqueness of names and locations in the output of compile, and rejection
   of faults found inside the traversal.  The global assembly (the traversal visits exactly the instance tree of
   the specification; resolve_all applies the step lemma to every scope, parents first) is checked by
   [check_refines] on every generated namespace only. *)
From Coq Require Import String Ascii List Bool Arith NArith.
Import ListNotations.
Require Import V.Lib.PyStr V.Dsl.Model V.Dsl.Proofs V.Dsl.Spec V.Dsl.Refine V.Dsl.Load V.Dsl.Outputs.
Open Scope list_scope.

(* the (stage, name) pairs given to ANY list of component scopes are pairwise distinct *)
Theorem C06_names_unique : forall comps, NoDup (map snd (n_names (assign_names comps))).
Proof. exact names_unique. Qed.
Print Assumptions C06_names_unique.

(* and only component scopes are named *)
Theorem C06_names_of_scopes : forall comps l,
  In l (map fst (n_names (assign_names comps))) -> In l (map s_loc comps).
Proof.
  intros comps l H. unfold assign_names in H. apply names_locs in H. destruct H as [[]|H]; exact H.
Qed.
Print Assumptions C06_names_of_scopes.

(* when the component-level substitution reports no error, every parameter reference left in the
   argument tokens is one of the component's own variables *)
Theorem C06_no_param_left : forall N sc c v,
  comp_args N sc c = (v, [], false) -> forall x, In x (refs_of v) -> mem x (c_vars c) = true.
Proof. intros N sc c v H. apply needs_more_false. eapply no_param_left; eauto. Qed.
Print Assumptions C06_no_param_left.

(* parameter propagation: if the parameters of the parent scope are resolved (closed), the
   "walk up one scope per round" loop of replace_parameter_references returns exactly the
   substitution of the value by the parent's parameters ([subst_d]: _replace_many_parameter_references WITH its
   dictionary branch), and the result is closed again *)
Theorem C06_refines_params : forall f scs cur ign v p v',
  needs_more ign v = true ->
  find_scope (parent_loc cur) scs = Some p ->
  closed_env ign (s_pars p) ->
  subst_d (s_pars p) ign v = SOk v' -> well_shaped v' = true ->
  resolve_loop (S f) scs cur ign v = SOk v' /\ needs_more ign v' = false.
Proof.
  intros. split; [eapply resolve_one_round; eauto | eapply subst_d_closed; eauto].
Qed.
Print Assumptions C06_refines_params.

(* the producer of an output reference is the LONGEST named component location that prefixes its
   absolute path; the rest of the path is the file *)
Theorem C06_refines_producer : forall names path l c,
  split_ref names path None = Some (l, c) ->
  In (l, c) names /\ path = l ++ skipn (length l) path /\
  forall l' c', In (l', c') names -> prefix_of l' path = true -> length l' <= length l.
Proof. exact producer_longest_prefix. Qed.
Print Assumptions C06_refines_producer.

(* a reference that no component location prefixes is never wired to a producer *)
Theorem C06_dangling_not_wired : forall names path m,
  (forall l c, In (l, c) names -> prefix_of l path = false) -> conv names path m = None.
Proof. intros names path m H. unfold conv. rewrite (no_producer names path None H). reflexivity. Qed.
Print Assumptions C06_dangling_not_wired.

(* rejection with locations: unknown entry template, duplicate template names *)
Theorem C06_reject_unknown_entry : forall N,
  get_template N (n_entry N) = None -> exists e, compile N = Err e /\ e <> [].
Proof. exact reject_unknown_entry. Qed.
Print Assumptions C06_reject_unknown_entry.

Theorem C06_reject_dup_template : forall N t e1 seen e2 seen',
  get_template N (n_entry N) = Some t ->
  dup_template_errs "workflows" [] 0 (map w_name (n_wfs N)) = (e1, seen) ->
  dup_template_errs "components" seen 0 (map c_name (n_comps N)) = (e2, seen') ->
  e1 ++ e2 <> [] -> compile N = Err (e1 ++ e2).
Proof. exact reject_dup_template. Qed.
Print Assumptions C06_reject_dup_template.

Theorem C06_dup_template_reported : forall kind names seen idx n,
  In n names -> mem n seen = true -> fst (dup_template_errs kind seen idx names) <> [].
Proof. exact dup_reported. Qed.
Print Assumptions C06_dup_template_reported.

(* ---------------------------------------------------------------- refinement against Spec.v *)
(* ONE WORKFLOW LEVEL (the inductive step of parameter propagation): if the parent scope p (a workflow instance
   at [loc], below the entry instance) holds a resolved environment (ground and absolute, [good_env]), then
   resolve_scope turns the raw parameters of the child scope at loc ++ [step] into exactly the values the
   specification assigns ([ev] in the parent's environment, siblings = the parent's other steps), reports no
   error, and the child's environment is resolved again. *)
Theorem C06_refines_step : forall st sc loc step p w pars',
  s_loc sc = loc ++ [step] -> (exists l', loc = ENTRY :: l') ->
  find_scope loc (r_scopes st) = Some p -> s_tmpl p = TW w -> good_env (s_pars p) ->
  mem ENTRY (map fst (w_steps w)) = false ->
  Forall2 (fun nv nv' => fst nv' = fst nv /\ well_shaped (snd nv) = true /\ no_replica (snd nv) /\
             ev (s_pars p) loc (Some (filter (fun s => negb (String.eqb s step)) (map fst (w_steps w)))) []
                (snd nv) = Some (snd nv')) (s_pars sc) pars' ->
  resolve_scope st sc = {| r_scopes := replace_scope (set_pars sc pars') (r_scopes st);
                           r_errs := r_errs st; r_unsupp := r_unsupp st |}
  /\ good_env pars'.
Proof. exact resolve_step. Qed.
Print Assumptions C06_refines_step.

(* one value: the three phases of the model (absolutise with the sibling check, walk up, absolutise again)
   compute the specification's [ev] *)
Theorem C06_refines_value : forall f scs cur loc sib v o p,
  find_scope (parent_loc cur) scs = Some p -> good_env (s_pars p) ->
  (exists l', loc = ENTRY :: l') -> mem ENTRY sib = false -> no_replica v ->
  ev (s_pars p) loc (Some sib) [] v = Some o ->
  forallb (sibling_ok sib) v = true /\
  resolve_loop (S f) scs cur ["replica"%string] (absolutise loc v) = SOk o /\
  absolutise loc o = o /\ ground o /\ absolute o.
Proof. exact resolve_value. Qed.
Print Assumptions C06_refines_value.

(* THE ARGUMENTS OF A COMPONENT INSTANCE: in a resolved environment the component-level substitution returns the
   specification's evaluation of the argument template, without error; every parameter reference left is one
   of the component's own variables *)
Theorem C06_refines_args : forall N sc c args,
  good_env (s_pars sc) ->
  (forall x, mem x (c_vars c) = true -> lookup x (s_pars sc) = None) ->
  ev (s_pars sc) [] None (c_vars c) (c_args c) = Some args ->
  comp_args N sc c = (args, [], false) /\ (forall x, In x (refs_of args) -> mem x (c_vars c) = true).
Proof. exact comp_args_ev. Qed.
Print Assumptions C06_refines_args.

(* PRODUCERS: the producer the compiler wires a reference to is the producer of the specification, and
   conversely (distinct, non-empty component locations): same producer, or no producer on both sides *)
Theorem C06_producer_is_spec : forall names path l c,
  split_ref names path None = Some (l, c) -> spec_producer (map fst names) path = Some l.
Proof. exact split_ref_is_spec. Qed.
Print Assumptions C06_producer_is_spec.

Theorem C06_refines_producer_spec : forall names path,
  NoDup (map fst names) -> (forall l c, In (l, c) names -> l <> []) ->
  match spec_producer (map fst names) path with
  | Some l => exists c, lookup_loc l names = Some c /\ split_ref names path None = Some (l, c)
  | None => split_ref names path None = None
  end.
Proof. exact producer_is_spec. Qed.
Print Assumptions C06_refines_producer_spec.

(* ---------------------------------------------------------------- uniqueness in the OUTPUT of compile *)
(* the traversal never records two scopes at the same location *)
Theorem C06_scope_locations_distinct : forall N scs, discover N = Ok scs -> NoDup (map s_loc scs).
Proof. exact discover_nodup. Qed.
Print Assumptions C06_scope_locations_distinct.

(* whatever compile returns: the (stage, name) pairs of the components are pairwise distinct, and so are the
   instance locations they stand for *)
Theorem C06_names_unique_compile : forall N cis,
  compile N = Ok cis -> NoDup (map ci_id cis) /\ NoDup (map ci_loc cis).
Proof. exact compile_unique. Qed.
Print Assumptions C06_names_unique_compile.

(* ---------------------------------------------------------------- rejection inside the traversal *)
(* an error result always lists at least one location *)
Theorem C06_err_nonempty : forall N e, compile N = Err e -> e <> [].
Proof. exact compile_err_nonempty. Qed.
Print Assumptions C06_err_nonempty.

(* errors are never forgotten by the rest of the traversal *)
Theorem C06_errors_kept : forall fuel N anc parent l dsl t args st,
  has_err st -> has_err (visit fuel N anc parent l dsl t args st).
Proof. exact visit_has_err. Qed.
Print Assumptions C06_errors_kept.

(* AT ANY DEPTH: when the traversal enters a workflow instance one of whose execute entries targets no step,
   names an unknown template, closes a template cycle, supplies an unknown argument, omits a required argument
   or refers to an unknown parameter, or one of whose steps is never executed ([wf_fault]), an error is recorded *)
Theorem C06_fault_reported : forall f N anc parent l dsl w args st,
  d_abort st = false -> wf_fault N anc w ->
  has_err (visit (S f) N anc parent l dsl (TW w) args st).
Proof. exact visit_fault. Qed.
Print Assumptions C06_fault_reported.

(* END TO END for the entry workflow: such a namespace is never compiled (with C06_err_nonempty: the result is
   Err with locations, or the model abstains — fuel sufficiency of the traversal is not proved) *)
Theorem C06_reject_entry_fault : forall N w,
  get_template N (n_entry N) = Some (TW w) -> wf_fault N [] w -> forall cis, compile N <> Ok cis.
Proof. exact reject_entry_fault. Qed.
Print Assumptions C06_reject_entry_fault.

(* ---------------------------------------------------------------- value kinds in STRING CONTEXT: mappings *)
(* ACCEPTANCE: a value that is nothing but a reference to a parameter bound to a mapping (dictionary) forwards the
   mapping itself, at the scope level and at the component level alike *)
Theorem C06_dict_forwarded_whole : forall env ign x vx,
  mem x ign = false -> lookup x env = Some vx -> is_dict vx = true -> subst_d env ign [Param x] = SOk vx.
Proof. exact subst_d_whole. Qed.
Print Assumptions C06_dict_forwarded_whole.

(* the dictionary branch changes nothing for a value the specification accepts ([dict_ok]: every reference to a
   mapping is the sole content of its value): there the substitution is the plain one *)
Theorem C06_dict_branch_conservative : forall e loc keep ign v,
  dict_ok e keep v = true -> (forall x, In x (refs_of v) -> mem x ign = mem x keep) ->
  subst_d e ign (map (abs_out loc) v) = subst e ign (map (abs_out loc) v).
Proof. exact subst_d_ev. Qed.
Print Assumptions C06_dict_branch_conservative.

(* THE SPECIFICATION calls a value that splices a mapping into more text invalid, in a step argument (keep = [])
   and in a component field (keep = the component's variables) *)
Theorem C06_spec_dict_splice_invalid : forall e loc sib keep v,
  dict_ok e keep v = false -> ev e loc sib keep v = None.
Proof. intros e loc sib keep v H. unfold ev. rewrite H. reflexivity. Qed.
Print Assumptions C06_spec_dict_splice_invalid.

(* REJECTION, scope level (the arguments a workflow passes to a step, AT ANY DEPTH): if the value, read in the
   parameters of the calling scope p, splices a mapping into more text ([dict_ref] = DSplice: the first reference
   bound to a mapping is not alone), the walk up the scopes fails ... *)
Theorem C06_dict_splice_rejected_value : forall f scs cur ign v p,
  find_scope (parent_loc cur) scs = Some p -> dict_ref (s_pars p) ign true v = DSplice ->
  resolve_loop (S f) scs cur ign v = SUnknown.
Proof. exact resolve_loop_splice. Qed.
Print Assumptions C06_dict_splice_rejected_value.

(* ... and resolve_scope records the location <execute entry>/signature/parameters/i of that argument, whatever
   the other arguments of the step are *)
Theorem C06_dict_splice_rejected_scope : forall st sc p i n v,
  In (i, (n, v)) (enum (s_pars sc)) ->
  forallb (sibling_ok (rs_siblings (r_scopes st) sc)) v = true ->
  find_scope (parent_loc (s_loc sc)) (r_scopes st) = Some p -> s_loc sc <> [] ->
  dict_ref (s_pars p) ["replica"%string] true (absolutise (parent_loc (s_loc sc)) v) = DSplice ->
  In (s_dsl sc ++ [LS "signature"; LS "parameters"; LN i]) (r_errs (resolve_scope st sc)).
Proof. exact resolve_scope_splice. Qed.
Print Assumptions C06_dict_splice_rejected_scope.

(* REJECTION, component level: command.arguments that splice a mapping parameter of the component into more text
   are reported at components/i/command/arguments *)
Theorem C06_dict_splice_rejected_component : forall N sc c,
  dict_ref (s_pars sc) (c_vars c) true (c_args c) = DSplice ->
  comp_args N sc c = (c_args c, [comp_index N c ++ [LS "command"; LS "arguments"]], false).
Proof. exact comp_args_splice. Qed.
Print Assumptions C06_dict_splice_rejected_component.

(* non-vacuity of the mapping theorems: a dictionary given at the entrypoint is forwarded whole through two
   workflow levels into the parameter `environment` of a component (valid); spliced into the component's arguments
   or into the argument a workflow passes to its step it is rejected at that field; the specification agrees.
   The component has a VARIABLE called env: references in a step argument belong to the CALLER's scope, so
   %(env)s in the arguments of the step is the workflow's parameter, not the component's variable. *)
Definition ex_dict (cargs : value) (msg : value) : ns :=
  {| n_entry := "main"; n_eargs := [("env", [Lit "{""MODE"": ""fast""}"])];
     n_wfs := [ {| w_name := "main"; w_params := [("env", None)]; w_steps := [("inner", "nested")];
                   w_exec := [("inner", [("env", [Param "env"])])] |};
                {| w_name := "nested"; w_params := [("env", None)]; w_steps := [("run", "runner")];
                   w_exec := [("run", [("environment", [Param "env"]); ("message", msg)])] |} ];
     n_comps := [ {| c_name := "runner"; c_params := [("environment", None); ("message", None)]; c_vars := ["env"];
                     c_args := cargs |} ] |}.
Example C06_dict_example :
  compile (ex_dict [Param "message"; Lit " ["; Param "env"; Lit "]"] [Lit "hello"])
  = Ok [ {| ci_loc := ["entry-instance"; "inner"; "run"]; ci_id := (0%N, "run"); ci_refs := [];
            ci_args := "hello [%(env)s]" |} ]
  /\ check_refines (ex_dict [Param "message"; Lit " ["; Param "env"; Lit "]"] [Lit "hello"]) = true
  /\ compile (ex_dict [Param "message"; Lit " --env "; Param "environment"] [Lit "hello"])
     = Err [[LS "components"; LN 0; LS "command"; LS "arguments"]]
  /\ spec_ns (ex_dict [Param "message"; Lit " --env "; Param "environment"] [Lit "hello"]) = None
  /\ compile (ex_dict [Param "message"] [Lit "running with "; Param "env"])
     = Err [[LS "workflows"; LN 1; LS "execute"; LN 0; LS "signature"; LS "parameters"; LN 1]]
  /\ spec_ns (ex_dict [Param "message"] [Lit "running with "; Param "env"]) = None
  /\ dict_ref [("env", [Lit "{""MODE"": ""fast""}"])] ["replica"%string] true [Lit "running with "; Param "env"] = DSplice
  /\ subst_d [("env", [Lit "{""MODE"": ""fast""}"])] ["replica"%string] [Param "env"] = SOk [Lit "{""MODE"": ""fast""}"].
Proof. vm_compute. repeat split; reflexivity. Qed.

(* non-vacuity: tests/test_dsl.py dsl_step_via_param_more_complex — a partial reference <producer/producer>
   forwarded through a workflow parameter and completed one level down *)
Definition ex_ns : ns :=
  {| n_entry := "main"; n_eargs := [];
     n_wfs := [ {| w_name := "main"; w_params := [];
                   w_steps := [("producer", "inner-produce"); ("consumer", "inner-consume")];
                   w_exec := [("producer", []); ("consumer", [("producer", [Out ["producer"; "producer"] None])])] |};
                {| w_name := "inner-produce"; w_params := []; w_steps := [("producer", "generate")];
                   w_exec := [("producer", [])] |};
                {| w_name := "inner-consume"; w_params := [("producer", None)]; w_steps := [("consumer", "echo")];
                   w_exec := [("consumer", [("message", [POut "producer" ["outputs"; "msg.txt"] (Some "output")])])] |} ];
     n_comps := [ {| c_name := "generate"; c_params := []; c_vars := []; c_args := [Lit "-c hi"] |};
                  {| c_name := "echo"; c_params := [("message", None)]; c_vars := []; c_args := [Param "message"] |} ] |}.

Example C06_example :
  compile ex_ns =
  Ok [ {| ci_loc := ["entry-instance"; "producer"; "producer"]; ci_id := (0%N, "producer");
          ci_refs := []; ci_args := "-c hi" |};
       {| ci_loc := ["entry-instance"; "consumer"; "consumer"]; ci_id := (0%N, "consumer");
          (* once for the parameter, once for the arguments: compared as a set *)
          ci_refs := ["stage0.producer/outputs/msg.txt:output"; "stage0.producer/outputs/msg.txt:output"];
          ci_args := "stage0.producer/outputs/msg.txt:output" |} ].
Proof. vm_compute. reflexivity. Qed.

(* the specification on the same namespace, and the refinement check the correspondence run evaluates *)
Example C06_example_spec :
  spec_ns ex_ns =
  Some [ {| so_loc := ["entry-instance"; "producer"; "producer"]; so_args := [Lit "-c hi"]; so_refs := [] |};
         {| so_loc := ["entry-instance"; "consumer"; "consumer"];
            so_args := [Out ["entry-instance"; "producer"; "producer"; "outputs"; "msg.txt"] (Some "output")];
            so_refs := [(["entry-instance"; "producer"; "producer"], ["outputs"; "msg.txt"], "output");
                        (["entry-instance"; "producer"; "producer"], ["outputs"; "msg.txt"], "output")] |} ]
  /\ check_refines ex_ns = true.
Proof. vm_compute. split; reflexivity. Qed.

(* the hypotheses of C06_refines_step are satisfiable: the scope of the workflow step "consumer" under the entry
   instance, whose parameter is the partial reference <producer/producer> *)
Definition ex_scs : list scope := match discover ex_ns with Ok s => s | _ => [] end.
Definition ex_get (l : list string) : scope :=
  match find_scope l ex_scs with Some s => s
  | None => {| s_loc := []; s_dsl := []; s_tl := []; s_tmpl := TW {| w_name := ""; w_params := []; w_steps := []; w_exec := [] |}; s_pars := [] |} end.
Example C06_step_example :
  let st := {| r_scopes := ex_scs; r_errs := []; r_unsupp := false |} in
  let sc := ex_get ["entry-instance"; "consumer"] in
  let p := ex_get ["entry-instance"] in
  exists w pars',
    s_loc sc = ["entry-instance"] ++ ["consumer"] /\ find_scope ["entry-instance"] (r_scopes st) = Some p /\
    s_tmpl p = TW w /\ good_env (s_pars p) /\ mem ENTRY (map fst (w_steps w)) = false /\
    pars' = [("producer", [Out ["entry-instance"; "producer"; "producer"] None])] /\
    Forall2 (fun nv nv' => fst nv' = fst nv /\ well_shaped (snd nv) = true /\ no_replica (snd nv) /\
               ev (s_pars p) ["entry-instance"] (Some (filter (fun s => negb (String.eqb s "consumer")) (map fst (w_steps w)))) []
                  (snd nv) = Some (snd nv')) (s_pars sc) pars'.
Proof.
  cbv zeta. eexists. eexists.
  split; [vm_compute; reflexivity|]. split; [vm_compute; reflexivity|]. split; [vm_compute; reflexivity|].
  split; [vm_compute; intros x v []|]. split; [vm_compute; reflexivity|]. split; [reflexivity|].
  vm_compute. constructor; [|constructor]. repeat split. intros [].
Qed.

(* the hypotheses of the rejection theorems are satisfiable: a step of the entry workflow names no template *)
Definition ex_bad : ns :=
  {| n_entry := "main"; n_eargs := [];
     n_wfs := [ {| w_name := "main"; w_params := []; w_steps := [("a", "nosuch")]; w_exec := [("a", [])] |} ];
     n_comps := [] |}.
Example C06_reject_example :
  wf_fault ex_bad [] {| w_name := "main"; w_params := []; w_steps := [("a", "nosuch")]; w_exec := [("a", [])] |}
  /\ compile ex_bad = Err [[LS "workflows"; LN 0; LS "execute"; LN 0]] /\ spec_ns ex_bad = None.
Proof.
  split; [|vm_compute; split; reflexivity].
  left. exists ("a", []). split; [left; reflexivity|]. vm_compute. exact I.
Qed.

(* ------------------------------------------------------------------ entry points and value kinds (Load.v) *)

(* REJECTION through every entry point - namespace_to_flowir with or without override_entrypoint_args, and
   DSLExperimentConfiguration with or without variable files, validate True or False: whenever the answer is an
   error it lists at least one location *)
Theorem C06_load_err_nonempty : forall v N uv e, load v N uv = Err e -> e <> [].
Proof. exact load_err_nonempty. Qed.
Print Assumptions C06_load_err_nonempty.

Theorem C06_override_err_nonempty : forall N ov e, compile_ov N ov = Err e -> e <> [].
Proof. exact compile_ov_err_nonempty. Qed.
Print Assumptions C06_override_err_nonempty.

(* a document whose entrypoint is missing or empty is rejected with a location by the loader in every mode *)
Theorem C06_load_no_entrypoint : forall v uv, exists e, load v None uv = Err e /\ e <> [].
Proof. exact load_no_entrypoint. Qed.
Print Assumptions C06_load_no_entrypoint.

(* and so is an entrypoint that names no template *)
Theorem C06_load_unknown_entry : forall v N uv,
  get_template N (n_entry N) = None -> exists e, load v (Some N) uv = Err e /\ e <> [].
Proof. exact load_unknown_entry. Qed.
Print Assumptions C06_load_unknown_entry.

(* without variable files the loader is the compiler: every theorem above about [compile] speaks about it *)
Theorem C06_load_no_files : forall v N, load v (Some N) NoFiles = compile N.
Proof. exact load_no_files. Qed.
Print Assumptions C06_load_no_files.

(* PARAMETER BINDING at the entry point: with variable files the namespace is compiled with every user variable as
   the argument of the entry instance, and the arguments of the entrypoint otherwise *)
Theorem C06_load_files_binding : forall v N g t,
  get_template N (n_entry N) = Some t ->
  exists ea, load v (Some N) (Files (Some g)) = compile (with_eargs N ea) /\
             forall k, lookup k ea = match lookup k g with Some x => Some x | None => lookup k (n_eargs N) end.
Proof. exact load_files_binding. Qed.
Print Assumptions C06_load_files_binding.

(* override_entrypoint_args wins over entrypoint.execute[0].args, name by name *)
Theorem C06_override_binding : forall (A : Type) k (eargs ov : list (string * A)),
  lookup k (update eargs ov) = match lookup k ov with Some v => Some v | None => lookup k eargs end.
Proof. exact update_lookup. Qed.
Print Assumptions C06_override_binding.

(* ACCEPTED BY THE VALIDATOR (its rule for variables): whatever the kinds of the values of the entry instance's
   parameters - declared defaults, entrypoint arguments, override - every global variable the compiler records is a
   string or a number, and the recorded ones are exactly the parameters that are neither null nor a dictionary *)
Theorem C06_globals_accepted : forall params eargs ov,
  forallb (fun nv => var_ok (fst (snd nv))) (globals (entry_kargs params eargs ov)) = true.
Proof. intros. apply globals_ok. Qed.
Print Assumptions C06_globals_accepted.

Theorem C06_globals_exact : forall ka n k v,
  In (n, (k, v)) (globals ka) <-> In (n, (k, v)) ka /\ k <> KNone /\ k <> KDict.
Proof. exact globals_spec. Qed.
Print Assumptions C06_globals_exact.

(* non-vacuity: a dictionary default, a null default and a number argument on the entry template; the user variable
   wins over the entrypoint argument; a namespace without entrypoint *)
Example C06_load_example :
  globals (entry_kargs [("env", Some (KDict, [Lit "{}"])); ("s", Some (KNone, [Lit "None"])); ("n", None)]
                       [("n", (KNum, [Lit "0"]))] (Some [("n", (KNum, [Lit "7"]))]))
  = [("n", (KNum, [Lit "7"]))]
  /\ load true (Some ex_ns) NoFiles = compile ex_ns
  /\ load true (Some ex_ns) (Files (Some [("zz", [Lit "1"])])) = Err [[LS "entrypoint"; LS "execute"; LN 0]]
  /\ load true None (Files None) = Err [[LS "entrypoint"; LS "entry-instance"]]
  /\ load false None (Files None) = Err [[LS "entrypoint"]]
  /\ load true (Some ex_bad) (Files (Some [])) = Err [[LS "workflows"; LN 0; LS "execute"; LN 0]].
Proof. vm_compute. repeat split; reflexivity. Qed.

(* ------------------------------------------------------------------ parameter references WITHOUT an enclosing scope,
   and the entry point lightweight_validate (Load.v) *)

(* AT ANY DEPTH and for ANY parent (also a parent with NO parameter at all, also NO parent: the entry instance): when
   the traversal enters an instance one of whose arguments - supplied or defaulted - refers to a name that is not a
   parameter of the parent scope, an error is recorded *)
Theorem C06_foreign_ref_reported : forall f N anc parent l dsl t args st,
  d_abort st = false -> foreign_ref parent t args ->
  has_err (visit (S f) N anc parent l dsl t args st).
Proof. exact visit_foreign_ref. Qed.
Print Assumptions C06_foreign_ref_reported.

(* END TO END for the arguments of the ENTRY instance (no enclosing scope: every reference is foreign - an unknown
   name, a parameter of the entry template itself, a reference nested in more text, "%(x)s"/path:method): never
   compiled, whether they come from entrypoint.execute[0].args / declared defaults ... *)
Theorem C06_entry_param_ref_rejected : forall N, entry_param_ref N -> forall cis, compile N <> Ok cis.
Proof. exact entry_param_ref_compile. Qed.
Print Assumptions C06_entry_param_ref_rejected.

(* ... from override_entrypoint_args ... *)
Theorem C06_override_param_ref_rejected : forall N ov,
  entry_param_ref (with_eargs N (ov_eargs N ov)) -> forall cis, compile_ov (Some N) ov <> Ok cis.
Proof. exact entry_param_ref_ov. Qed.
Print Assumptions C06_override_param_ref_rejected.

(* ... or from the user variable files of DSLExperimentConfiguration (validate True or False) *)
Theorem C06_uservar_param_ref_rejected : forall v N g,
  entry_param_ref (with_eargs N (update (n_eargs N) (update (n_eargs N) g))) ->
  forall cis, load v (Some N) (Files (Some g)) <> Ok cis.
Proof. exact entry_param_ref_load. Qed.
Print Assumptions C06_uservar_param_ref_rejected.

(* lightweight_validate: never accepts such a namespace, an error always lists a location, and it agrees with the
   compiler: what it reports is what the compiler reports, it never rejects what the compiler accepts *)
Theorem C06_lightweight_param_ref_rejected : forall N ov,
  entry_param_ref (with_eargs N (ov_eargs N ov)) -> lightweight (Some N) ov <> LwOk.
Proof. exact entry_param_ref_lightweight. Qed.
Print Assumptions C06_lightweight_param_ref_rejected.

Theorem C06_lightweight_err_nonempty : forall N ov e, lightweight N ov = LwErr e -> e <> [].
Proof. exact lightweight_err_nonempty. Qed.
Print Assumptions C06_lightweight_err_nonempty.

Theorem C06_lightweight_err_is_compile : forall N ov e,
  lightweight (Some N) ov = LwErr e -> compile_ov (Some N) ov = Err e.
Proof. exact lightweight_err_is_compile. Qed.
Print Assumptions C06_lightweight_err_is_compile.

Theorem C06_lightweight_accepts_compiled : forall N ov cis,
  compile_ov (Some N) ov = Ok cis -> lightweight (Some N) ov = LwOk.
Proof. exact compile_ok_lightweight. Qed.
Print Assumptions C06_lightweight_accepts_compiled.

(* non-vacuity: ex_ns (valid, compiled above) with a reference to the entry template's OWN parameter in the override;
   the hypothesis holds and every entry point answers with the location of the entrypoint *)
Definition ex_entry_ref : ns :=
  {| n_entry := "main"; n_eargs := [("p", [Lit "hello "; Param "q"])];
     n_wfs := [ {| w_name := "main"; w_params := [("p", None); ("q", Some [Lit "x"])]; w_steps := [("a", "c")];
                   w_exec := [("a", [("m", [Param "p"; Lit " "; Param "q"])])] |} ];
     n_comps := [ {| c_name := "c"; c_params := [("m", None)]; c_vars := []; c_args := [Lit "echo "; Param "m"] |} ] |}.
Example C06_entry_ref_example :
  entry_param_ref ex_entry_ref
  /\ compile ex_entry_ref = Err [[LS "entrypoint"]]
  /\ lightweight (Some ex_entry_ref) None = LwErr [[LS "entrypoint"]]
  /\ spec_ns ex_entry_ref = None
  /\ (exists cis, compile_ov (Some ex_entry_ref) (Some [("p", [Lit "hi"])]) = Ok cis)
  /\ lightweight (Some ex_entry_ref) (Some [("p", [Lit "hi"])]) = LwOk
  /\ load false (Some ex_entry_ref) (Files (Some [("p", [POut "zz" ["o"] (Some "ref")])])) = Err [[LS "entrypoint"]].
Proof.
  split.
  - eexists. split; [vm_compute; reflexivity|]. exists ("p", [Lit "hello "; Param "q"]), "q".
    vm_compute. repeat split; auto.
  - vm_compute. repeat split; try reflexivity. eexists; reflexivity.
Qed.

(* ---------------------------------------------------------------- KEY OUTPUTS (entrypoint.output[].data-in; Outputs.v)
   compile_out = namespace_to_flowir on a namespace that declares key outputs, lightweight_out = lightweight_validate *)
(* every compiled key output points to a COMPONENT instance: the one with the longest location that prefixes the
   data-in (never a workflow instance), rendered with that instance's (stage, name) and the rest of the path *)
Theorem C06_output_producer : forall N ov outs cis os n p m,
  compile_out N ov outs = Ok (cis, os) -> In (n, (p, m)) outs ->
  exists ci, In ci cis /\ p = ci_loc ci ++ skipn (length (ci_loc ci)) p /\
    (forall ci', In ci' cis -> prefix_of (ci_loc ci') p = true -> length (ci_loc ci') <= length (ci_loc ci)) /\
    In (n, render_ref (ci_id ci) (skipn (length (ci_loc ci)) p) m) os.
Proof. exact output_producer. Qed.
Print Assumptions C06_output_producer.

(* a data-in that no component instance prefixes (misspelt step, workflow instance, not absolute): never compiled, an
   error with locations, and - unless two outputs share a name - its own entrypoint.outputs[i] is listed *)
Theorem C06_output_no_producer_rejected : forall N ov outs cis i o,
  compile_ov N ov = Ok cis -> nth_error outs i = Some o ->
  (forall ci, In ci cis -> prefix_of (ci_loc ci) (fst (snd o)) = false) ->
  exists e, compile_out N ov outs = Err e /\ e <> [] /\ (dup_out_errs [] 0 outs = [] -> In (out_loc i) e).
Proof. exact output_no_producer_rejected. Qed.
Print Assumptions C06_output_no_producer_rejected.

Theorem C06_output_dup_rejected : forall N ov outs cis i o,
  compile_ov N ov = Ok cis -> nth_error outs i = Some o -> mem (fst o) (map fst (firstn i outs)) = true ->
  exists e, compile_out N ov outs = Err e /\ In (out_loc i) e.
Proof. exact output_dup_rejected. Qed.
Print Assumptions C06_output_dup_rejected.

Theorem C06_output_err_nonempty : forall N ov outs e, compile_out N ov outs = Err e -> e <> [].
Proof. exact compile_out_err_nonempty. Qed.
Print Assumptions C06_output_err_nonempty.

(* without key outputs the extended compiler is the compiler *)
Theorem C06_output_none : forall N ov,
  compile_out N ov [] = match compile_ov N ov with Ok cis => Ok (cis, []) | Err e => Err e | Unsupp => Unsupp end.
Proof. exact compile_out_none. Qed.
Print Assumptions C06_output_none.

Theorem C06_lightweight_output_err_nonempty : forall N ov outs e, lightweight_out N ov outs = LwErr e -> e <> [].
Proof. exact lightweight_out_err_nonempty. Qed.
Print Assumptions C06_lightweight_output_err_nonempty.

Example C06_output_example :
  (match compile_out (Some ex_ns) None
           [("k", (["entry-instance"; "producer"; "producer"; "out.txt"], "ref"));
            ("d", (["entry-instance"; "consumer"; "consumer"], "output"))]
   with Ok (_, os) => os | _ => [] end) = [("k", "stage0.producer/out.txt:ref"); ("d", "stage0.consumer:output")]
  /\ compile_out (Some ex_ns) None [("k", (["entry-instance"; "producer"; "out.txt"], "ref"))] = Err [out_loc 0]
  /\ compile_out (Some ex_ns) None [("k", (["entry-instance"; "producer"; "producer"], "ref"));
                                      ("k", (["entry-instance"; "consumer"; "consumer"], "ref"))] = Err [out_loc 1]
  /\ lightweight_out (Some ex_ns) None [("k", (["entry-instance"; "nosuch"], "ref"))] = LwOk.
Proof. vm_compute. repeat split; reflexivity. Qed.
