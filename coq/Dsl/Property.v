(* C06 — DSL 2.0 compilation preserves the dataflow and parameter bindings.  Property theorems only.
   All statements are about the compiler model of Model.v (tied to dsl.py by the correspondence run).
   PARTIAL: the end-to-end refinement "compile = denotational flattener" is NOT a theorem here; its two
   semantic ingredients are (C06_refines_params, C06_refines_producer) and the end-to-end statement is
   checked on every generated namespace by harness/c06.py (independent flattener [spec]). *)
From Coq Require Import String Ascii List Bool Arith NArith.
Import ListNotations.
Require Import V.Lib.PyStr V.Dsl.Model V.Dsl.Proofs.
Open Scope list_scope.

(* the (stage, name) pairs given to ANY list of component scopes are pairwise distinct *)
Theorem C06_names_unique : forall comps, NoDup (map snd (n_names (assign_names comps))).
Proof. exact names_unique. Qed.
Print Assumptions C06_names_unique.

(* and only component scopes are named *)
Theorem C06_names_of_scopes : forall comps l,
  In l (map fst (n_names (assign_names comps))) -> In l (map s_loc comps).
Proof.
  intros comps l H. unfold assign_names in H. apply names_locs in H. destruct H as [[]|H]; exact H.
Qed.
Print Assumptions C06_names_of_scopes.

(* when the component-level substitution reports no error, every parameter reference left in the
   argument tokens is one of the component's own variables *)
Theorem C06_no_param_left : forall N sc c v,
  comp_args N sc c = (v, [], false) -> forall x, In x (refs_of v) -> mem x (c_vars c) = true.
Proof. intros N sc c v H. apply needs_more_false. eapply no_param_left; eauto. Qed.
Print Assumptions C06_no_param_left.

(* parameter propagation: if the parameters of the parent scope are resolved (closed), the
   "walk up one scope per round" loop of replace_parameter_references returns exactly the
   substitution of the value by the parent's parameters, and the result is closed again *)
Theorem C06_refines_params : forall f scs cur ign v p v',
  needs_more ign v = true ->
  find_scope (parent_loc cur) scs = Some p ->
  closed_env ign (s_pars p) ->
  subst (s_pars p) ign v = SOk v' -> well_shaped v' = true ->
  resolve_loop (S f) scs cur ign v = SOk v' /\ needs_more ign v' = false.
Proof.
  intros. split; [eapply resolve_one_round; eauto | eapply subst_closed; eauto].
Qed.
Print Assumptions C06_refines_params.

(* the producer of an output reference is the LONGEST named component location that prefixes its
   absolute path; the rest of the path is the file *)
Theorem C06_refines_producer : forall names path l c,
  split_ref names path None = Some (l, c) ->
  In (l, c) names /\ path = l ++ skipn (length l) path /\
  forall l' c', In (l', c') names -> prefix_of l' path = true -> length l' <= length l.
Proof. exact producer_longest_prefix. Qed.
Print Assumptions C06_refines_producer.

(* a reference that no component location prefixes is never wired to a producer *)
Theorem C06_dangling_not_wired : forall names path m,
  (forall l c, In (l, c) names -> prefix_of l path = false) -> conv names path m = None.
Proof. intros names path m H. unfold conv. rewrite (no_producer names path None H). reflexivity. Qed.
Print Assumptions C06_dangling_not_wired.

(* rejection with locations: unknown entry template, duplicate template names *)
Theorem C06_reject_unknown_entry : forall N,
  get_template N (n_entry N) = None -> exists e, compile N = Err e /\ e <> [].
Proof. exact reject_unknown_entry. Qed.
Print Assumptions C06_reject_unknown_entry.

Theorem C06_reject_dup_template : forall N t e1 seen e2 seen',
  get_template N (n_entry N) = Some t ->
  dup_template_errs "workflows" [] 0 (map w_name (n_wfs N)) = (e1, seen) ->
  dup_template_errs "components" seen 0 (map c_name (n_comps N)) = (e2, seen') ->
  e1 ++ e2 <> [] -> compile N = Err (e1 ++ e2).
Proof. exact reject_dup_template. Qed.
Print Assumptions C06_reject_dup_template.

Theorem C06_dup_template_reported : forall kind names seen idx n,
  In n names -> mem n seen = true -> fst (dup_template_errs kind seen idx names) <> [].
Proof. exact dup_reported. Qed.
Print Assumptions C06_dup_template_reported.

(* non-vacuity: tests/test_dsl.py dsl_step_via_param_more_complex — a partial reference <producer/producer>
   forwarded through a workflow parameter and completed one level down *)
Definition ex_ns : ns :=
  {| n_entry := "main"; n_eargs := [];
     n_wfs := [ {| w_name := "main"; w_params := [];
                   w_steps := [("producer", "inner-produce"); ("consumer", "inner-consume")];
                   w_exec := [("producer", []); ("consumer", [("producer", [Out ["producer"; "producer"] None])])] |};
                {| w_name := "inner-produce"; w_params := []; w_steps := [("producer", "generate")];
                   w_exec := [("producer", [])] |};
                {| w_name := "inner-consume"; w_params := [("producer", None)]; w_steps := [("consumer", "echo")];
                   w_exec := [("consumer", [("message", [POut "producer" ["outputs"; "msg.txt"] (Some "output")])])] |} ];
     n_comps := [ {| c_name := "generate"; c_params := []; c_vars := []; c_args := [Lit "-c hi"] |};
                  {| c_name := "echo"; c_params := [("message", None)]; c_vars := []; c_args := [Param "message"] |} ] |}.

Example C06_example :
  compile ex_ns =
  Ok [ {| ci_loc := ["entry-instance"; "producer"; "producer"]; ci_id := (0%N, "producer");
          ci_refs := []; ci_args := "-c hi" |};
       {| ci_loc := ["entry-instance"; "consumer"; "consumer"]; ci_id := (0%N, "consumer");
          (* once for the parameter, once for the arguments: compared as a set *)
          ci_refs := ["stage0.producer/outputs/msg.txt:output"; "stage0.producer/outputs/msg.txt:output"];
          ci_args := "stage0.producer/outputs/msg.txt:output" |} ].
Proof. vm_compute. reflexivity. Qed.
