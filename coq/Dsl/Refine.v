(* C06 — refinement lemmas: the compiler model of Model.v against the specification of Spec.v *)
From Coq Require Import String Ascii List Bool Arith NArith Lia.
Require Import V.Lib.PyStr V.Dsl.Model V.Dsl.Proofs V.Dsl.Spec.
Import ListNotations.
Open Scope string_scope.
Open Scope list_scope.

(* ------------------------------------------------------------------ basic facts *)
Lemma strs_eqb_eq a : forall b, strs_eqb a b = true <-> a = b.
Proof.
  unfold strs_eqb. induction a as [|x a IH]; intros [|y b]; cbn; split; intros H; try discriminate; auto.
  - apply andb_true_iff in H. destruct H as [E H]. apply String.eqb_eq in E. apply IH in H. subst. reflexivity.
  - inversion H; subst. rewrite String.eqb_refl. cbn. apply IH. reflexivity.
Qed.
Lemma strs_eqb_refl a : strs_eqb a a = true.
Proof. apply strs_eqb_eq. reflexivity. Qed.

Lemma mem_in x l : mem x l = true <-> In x l.
Proof.
  unfold mem. rewrite existsb_exists. split.
  - intros [y [I E]]. apply String.eqb_eq in E. subst. exact I.
  - intros I. exists x. split; [exact I | apply String.eqb_refl].
Qed.
Lemma mem_not_in x l : mem x l = false <-> ~ In x l.
Proof.
  rewrite <- mem_in. destruct (mem x l); split; intros H.
  - discriminate.
  - exfalso. apply H. reflexivity.
  - intros H'. discriminate.
  - reflexivity.
Qed.

(* ------------------------------------------------------------------ environments of the specification *)
Definition ground (v : value) : Prop := refs_of v = [].
Definition absolute_tok (t : tok) : bool :=
  match t with Out (h :: _) _ => String.eqb h ENTRY | Out [] _ => false | _ => true end.
Definition absolute (v : value) : Prop := forallb absolute_tok v = true.
Definition good_env (e : env) : Prop := forall x v, In (x, v) e -> ground v /\ absolute v.

Lemma ground_app a b : ground a -> ground b -> ground (a ++ b).
Proof. unfold ground. rewrite refs_of_app. intros -> ->. reflexivity. Qed.
Lemma absolute_app a b : absolute a -> absolute b -> absolute (a ++ b).
Proof. unfold absolute. rewrite forallb_app. intros -> ->. reflexivity. Qed.

Lemma ground_closed ign v : ground v -> needs_more ign v = false.
Proof. unfold ground, needs_more. intros ->. reflexivity. Qed.
Lemma good_env_closed ign e : good_env e -> closed_env ign e.
Proof. intros G x v I. apply ground_closed. apply (G x v I). Qed.

Lemma absolutise_absolute up v : absolute v -> absolutise up v = v.
Proof.
  unfold absolute, absolutise. induction v as [|t r IH]; cbn; [reflexivity|].
  intros H. apply andb_true_iff in H. destruct H as [A H]. rewrite (IH H). f_equal.
  destruct t as [s|x|[|h p] m|x p m]; cbn in *; try reflexivity. rewrite A. reflexivity.
Qed.

(* ------------------------------------------------------------------ one token: substitution = evaluation *)
Definition abs_out (loc : list string) (t : tok) : tok :=
  match t with Out p m => Out (loc ++ p) m | _ => t end.

Lemma subst_tok_ev e loc sib keep ign t h :
  ev_tok e loc sib keep t = Some h ->
  (forall x, In x (tok_refs t) -> mem x ign = mem x keep) ->
  (forall x, mem x keep = true -> lookup x e = None) ->
  subst_tok e ign (abs_out loc t) = SOk h.
Proof.
  intros EV IG DJ. destruct t as [s|x|p m|x p m]; cbn in *.
  - inversion EV; reflexivity.
  - rewrite (IG x (or_introl eq_refl)). destruct (mem x keep); [inversion EV; reflexivity|].
    rewrite EV. reflexivity.
  - destruct sib as [s|]; [|discriminate]. destruct p as [|h0 r]; [discriminate|].
    destruct (mem h0 s); [|discriminate]. inversion EV; reflexivity.
  - rewrite (IG x (or_introl eq_refl)). destruct (mem x keep) eqn:K.
    + rewrite (DJ x K) in EV. discriminate.
    + destruct (lookup x e) as [[|[s|y|q [mm|]|y q mm] [|? ?]]|]; try discriminate.
      inversion EV; reflexivity.
Qed.

Lemma subst_ev e loc sib keep ign : forall v o,
  ev_toks e loc sib keep v = Some o ->
  (forall x, In x (refs_of v) -> mem x ign = mem x keep) ->
  (forall x, mem x keep = true -> lookup x e = None) ->
  subst e ign (map (abs_out loc) v) = SOk o.
Proof.
  induction v as [|t r IH]; intros o EV IG DJ; cbn in *.
  - inversion EV; reflexivity.
  - destruct (ev_tok e loc sib keep t) as [h|] eqn:T; [|discriminate].
    destruct (ev_toks e loc sib keep r) as [r'|] eqn:R; [|discriminate].
    inversion EV; subst.
    rewrite (subst_tok_ev _ _ _ _ _ _ _ T).
    + rewrite (IH _ eq_refl); [reflexivity | | exact DJ].
      intros x I. apply IG. unfold refs_of in *. cbn. apply in_app_iff. right. exact I.
    + intros x I. apply IG. unfold refs_of. cbn. apply in_app_iff. left. exact I.
    + exact DJ.
Qed.

(* a value the specification accepts ([dict_ok]: no mapping is spliced into more text) is substituted by the model
   exactly as before the dictionary branch: [subst_d] = [subst] *)
Lemma dict_ref_none e loc keep ign : forall v pre,
  forallb (fun t => match t with
                    | Param x => mem x keep || negb (bound_to_dict e x)
                    | POut x _ _ => negb (bound_to_dict e x)
                    | _ => true end) v = true ->
  (forall x, In x (refs_of v) -> mem x ign = mem x keep) ->
  dict_ref e ign pre (map (abs_out loc) v) = DNone.
Proof.
  induction v as [|t r IH]; intros pre F IG; cbn in *; [reflexivity|].
  apply andb_true_iff in F. destruct F as [F1 F].
  assert (forall x, In x (refs_of r) -> mem x ign = mem x keep) as IG'.
  { intros x I. apply IG. unfold refs_of in *. cbn. apply in_app_iff. right. exact I. }
  destruct t as [s|x|p m|x p m]; cbn.
  - apply IH; auto.
  - rewrite (IG x) by (unfold refs_of; cbn; left; reflexivity).
    destruct (mem x keep); [apply IH; auto|]. cbn in F1. unfold bound_to_dict in F1.
    destruct (lookup x e) as [vx|]; [|reflexivity].
    destruct (is_dict vx); [discriminate|apply IH; auto].
  - apply IH; auto.
  - rewrite (IG x) by (unfold refs_of; cbn; left; reflexivity).
    destruct (mem x keep); [apply IH; auto|]. unfold bound_to_dict in F1.
    destruct (lookup x e) as [vx|]; [|reflexivity].
    destruct (is_dict vx); [discriminate|apply IH; auto].
Qed.

Lemma subst_d_ev e loc keep ign v :
  dict_ok e keep v = true ->
  (forall x, In x (refs_of v) -> mem x ign = mem x keep) ->
  subst_d e ign (map (abs_out loc) v) = subst e ign (map (abs_out loc) v).
Proof.
  intros DK IG. unfold subst_d.
  assert (forall w, (forall x, In x (refs_of w) -> mem x ign = mem x keep) ->
            forallb (fun t => match t with
                              | Param x => mem x keep || negb (bound_to_dict e x)
                              | POut x _ _ => negb (bound_to_dict e x)
                              | _ => true end) w = true ->
            match dict_ref e ign true (map (abs_out loc) w) with
            | DSplice => SUnknown | DWhole vx => SOk vx | DNone => subst e ign (map (abs_out loc) w) end
            = subst e ign (map (abs_out loc) w)) as GEN.
  { intros w IGw F. rewrite (dict_ref_none _ _ _ _ _ _ F IGw). reflexivity. }
  destruct v as [|t r]; [apply GEN; [exact IG|exact DK]|].
  destruct t as [s|x|p m|x p m]; try (apply GEN; [exact IG|exact DK]).
  destruct r as [|t2 r]; [|apply GEN; [exact IG|exact DK]].
  cbn. destruct (mem x ign); [reflexivity|].
  destruct (lookup x e) as [vx|]; [|reflexivity].
  destruct (is_dict vx); [rewrite app_nil_r; reflexivity|reflexivity].
Qed.

(* what evaluation in a good environment returns *)
Lemma ev_tok_good e loc sib keep t h :
  good_env e -> (exists l', loc = ENTRY :: l') \/ sib = None ->
  ev_tok e loc sib keep t = Some h ->
  absolute h /\ (forall x, In x (refs_of h) -> mem x keep = true) /\
  (forall u, In u h -> match u with POut _ _ _ => False | _ => True end).
Proof.
  intros G L EV. destruct t as [s|x|p m|x p m]; cbn in EV.
  - inversion EV; subst. split; [reflexivity|]. split; [intros y []|]. intros u [<-|[]]; exact I.
  - destruct (mem x keep) eqn:K.
    + inversion EV; subst. split; [reflexivity|]. split.
      * intros y [<-|[]]; exact K.
      * intros u [<-|[]]; exact I.
    + apply lookup_in in EV. destruct (G _ _ EV) as [GR AB]. split; [exact AB|]. split.
      * intros y Hy. rewrite GR in Hy. destruct Hy.
      * intros u Hu. destruct u as [s|y|p m|y p m]; auto.
        assert (In y (refs_of h)) as HH.
        { unfold refs_of. apply in_flat_map. eexists; split; [exact Hu|]. cbn. auto. }
        rewrite GR in HH. destruct HH.
  - destruct sib as [s|]; [|discriminate]. destruct p as [|h0 r]; [discriminate|].
    destruct (mem h0 s); [|discriminate]. inversion EV; subst.
    destruct L as [[l' ->]|L]; [|discriminate].
    split; [reflexivity|]. split; [intros y []|]. intros u [<-|[]]; exact I.
  - destruct (lookup x e) as [[|[s|y|q [mm|]|y q mm] [|? ?]]|] eqn:LK; try discriminate.
    inversion EV; subst. apply lookup_in in LK. destruct (G _ _ LK) as [GR AB].
    split; [|split; [intros y []|intros u [<-|[]]; exact I]].
    unfold absolute in *. cbn in *. destruct q as [|h0 q]; [discriminate|]. cbn. exact AB.
Qed.

Lemma ev_toks_good e loc sib keep : forall v o,
  good_env e -> (exists l', loc = ENTRY :: l') \/ sib = None ->
  ev_toks e loc sib keep v = Some o ->
  absolute o /\ (forall x, In x (refs_of o) -> mem x keep = true) /\
  (forall u, In u o -> match u with POut _ _ _ => False | _ => True end).
Proof.
  induction v as [|t r IH]; intros o G L EV; cbn in EV.
  - inversion EV; subst. split; [reflexivity|]. split; intros ? [].
  - destruct (ev_tok e loc sib keep t) as [h|] eqn:T; [|discriminate].
    destruct (ev_toks e loc sib keep r) as [r'|] eqn:R; [|discriminate].
    inversion EV; subst.
    destruct (ev_tok_good _ _ _ _ _ _ G L T) as [A1 [B1 C1]].
    destruct (IH _ G L eq_refl) as [A2 [B2 C2]].
    split; [apply absolute_app; auto|]. split.
    + intros x Hx. rewrite refs_of_app in Hx. apply in_app_iff in Hx. destruct Hx as [Hx|Hx]; [apply B1|apply B2]; exact Hx.
    + intros u Hu. apply in_app_iff in Hu. destruct Hu as [Hu|Hu]; [apply C1|apply C2]; exact Hu.
Qed.

Lemma no_pout_shape o :
  (forall u, In u o -> match u with POut _ _ _ => False | _ => True end) ->
  well_shaped o = shape_ok o.
Proof.
  intros NP. unfold well_shaped, shape_ok. destruct o as [|a [|b r]]; try reflexivity.
  f_equal. revert NP. generalize (a :: b :: r). intros l. induction l as [|u l IH]; intros NP; cbn; [reflexivity|].
  rewrite IH by (intros u' Hu'; apply NP; right; exact Hu'). f_equal.
  specialize (NP u (or_introl eq_refl)). destruct u as [s|x|p [m|]|x p m]; cbn; try reflexivity. destruct NP.
Qed.

(* ------------------------------------------------------------------ one value of a workflow-level argument *)
Definition no_replica (v : value) : Prop := ~ In "replica" (refs_of v).

Lemma ev_tok_sibling e loc sib keep t h :
  ev_tok e loc (Some sib) keep t = Some h -> sibling_ok sib t = true.
Proof.
  destruct t as [s|x|[|h0 r] m|x p m]; cbn; intros H; try reflexivity; try discriminate.
  destruct (mem h0 sib); [reflexivity|discriminate].
Qed.

Lemma ev_toks_sibling e loc sib keep : forall v o,
  ev_toks e loc (Some sib) keep v = Some o -> forallb (sibling_ok sib) v = true.
Proof.
  induction v as [|t r IH]; intros o EV; cbn in *; [reflexivity|].
  destruct (ev_tok e loc (Some sib) keep t) as [h|] eqn:T; [|discriminate].
  destruct (ev_toks e loc (Some sib) keep r) as [r'|] eqn:R; [|discriminate].
  rewrite (ev_tok_sibling _ _ _ _ _ _ T), (IH _ eq_refl). reflexivity.
Qed.

Lemma absolutise_out loc sib : forall v,
  mem ENTRY sib = false -> forallb (sibling_ok sib) v = true -> absolutise loc v = map (abs_out loc) v.
Proof.
  intros v NE. unfold absolutise. induction v as [|t r IH]; cbn; [reflexivity|].
  intros H. apply andb_true_iff in H. destruct H as [S1 H]. rewrite (IH H). f_equal.
  destruct t as [s|x|[|h0 p] m|x p m]; cbn in *; try reflexivity; [discriminate|].
  destruct (String.eqb h0 ENTRY) eqn:E; [|reflexivity].
  apply String.eqb_eq in E. subst h0. congruence.
Qed.

Lemma subst_closed_id e ign : forall v o,
  needs_more ign v = false -> subst e ign v = SOk o -> o = v.
Proof.
  induction v as [|t r IH]; intros o NM SB; cbn in SB.
  - inversion SB; reflexivity.
  - change (t :: r) with ([t] ++ r) in NM. rewrite needs_more_app in NM.
    apply orb_false_iff in NM. destruct NM as [NT NR].
    destruct (subst_tok e ign t) as [h| |] eqn:T; try discriminate.
    destruct (subst e ign r) as [r'| |] eqn:R; try discriminate.
    inversion SB; subst. rewrite (IH _ NR eq_refl).
    assert (h = [t]) as ->; [|reflexivity].
    destruct t as [s|x|p m|x p m]; cbn in T; try (inversion T; reflexivity).
    + unfold needs_more in NT. cbn in NT. rewrite orb_false_r in NT. apply negb_false_iff in NT.
      rewrite NT in T. inversion T; reflexivity.
    + unfold needs_more in NT. cbn in NT. rewrite orb_false_r in NT. apply negb_false_iff in NT.
      rewrite NT in T. discriminate.
Qed.

Lemma resolve_value f scs cur loc sib v o p :
  find_scope (parent_loc cur) scs = Some p -> good_env (s_pars p) ->
  (exists l', loc = ENTRY :: l') -> mem ENTRY sib = false -> no_replica v ->
  ev (s_pars p) loc (Some sib) [] v = Some o ->
  forallb (sibling_ok sib) v = true /\
  resolve_loop (S f) scs cur ["replica"] (absolutise loc v) = SOk o /\
  absolutise loc o = o /\ ground o /\ absolute o.
Proof.
  intros FS G L NE NR EV. unfold ev in EV.
  destruct (dict_ok (s_pars p) [] v) eqn:DK; [|discriminate]. cbn [negb] in EV.
  destruct (ev_toks (s_pars p) loc (Some sib) [] v) as [o0|] eqn:T; [|discriminate].
  destruct (shape_ok o0) eqn:SH; [|discriminate]. inversion EV; subst o0. clear EV.
  pose proof (ev_toks_sibling _ _ _ _ _ _ T) as SIB.
  destruct (ev_toks_good _ _ _ _ _ _ G (or_introl L) T) as [AB [RF NP]].
  assert (ground o) as GR.
  { unfold ground. destruct (refs_of o) as [|x r] eqn:E; [reflexivity|].
    specialize (RF x (or_introl eq_refl)). discriminate. }
  split; [exact SIB|]. rewrite (absolutise_out _ _ _ NE SIB).
  assert (subst (s_pars p) ["replica"] (map (abs_out loc) v) = SOk o) as SB.
  { eapply subst_ev; [exact T| |].
    - intros x I. cbn. rewrite orb_false_r. destruct (String.eqb x "replica") eqn:E; [|reflexivity].
      apply String.eqb_eq in E. subst x. exfalso. apply NR. exact I.
    - intros x M. discriminate. }
  assert (subst_d (s_pars p) ["replica"] (map (abs_out loc) v) = SOk o) as SBD.
  { rewrite (subst_d_ev _ _ [] _ _ DK); [exact SB|].
    intros x I. cbn. rewrite orb_false_r. destruct (String.eqb x "replica") eqn:E; [|reflexivity].
    apply String.eqb_eq in E. subst x. exfalso. apply NR. exact I. }
  split; [|split; [apply absolutise_absolute; exact AB | split; [exact GR|exact AB]]].
  destruct (needs_more ["replica"] (map (abs_out loc) v)) eqn:NM.
  - eapply resolve_one_round; eauto.
    + apply good_env_closed. exact G.
    + rewrite (no_pout_shape _ NP). exact SH.
  - pose proof (subst_closed_id _ _ _ _ NM SB) as EO. rewrite EO. apply resolve_nothing. exact NM.
Qed.

(* ------------------------------------------------------------------ resolve_scope, one level *)
Definition rs_step (scs : list scope) (sc : scope) (up siblings : list string)
           (acc : list (string * value) * list loc * bool) (inv : nat * (string * value)) :=
  let '(pars, errs, uns) := acc in
  let '(i, (n, v)) := inv in
  let here := s_dsl sc ++ [LS "signature"; LS "parameters"; LN i] in
  let '(v1, e1) := if forallb (sibling_ok siblings) v then (absolutise up v, []) else (v, [here]) in
  let '(v2, e2, u2) := match resolve_loop (length (s_loc sc)) scs (s_loc sc) ["replica"] v1 with
                       | SOk v' => (v', [], false)
                       | SUnknown => (v1, [here], false)
                       | SUnsupp => (v1, [], true) end in
  let v3 := absolutise up v2 in
  (pars ++ [(n, v3)], errs ++ e1 ++ e2, uns || u2 || negb (well_shaped v)).

Definition rs_siblings (scs : list scope) (sc : scope) : list string :=
  match find_scope (parent_loc (s_loc sc)) scs with
  | Some p => match s_tmpl p with
              | TW w => filter (fun s => negb (String.eqb s (last (s_loc sc) ""))) (map fst (w_steps w))
              | TC _ => [] end
  | None => [] end.

Lemma resolve_scope_unfold st sc :
  resolve_scope st sc =
  let '(pars, errs, uns) := fold_left (rs_step (r_scopes st) sc (parent_loc (s_loc sc)) (rs_siblings (r_scopes st) sc))
                                      (enum (s_pars sc)) ([], [], false) in
  {| r_scopes := replace_scope (set_pars sc pars) (r_scopes st); r_errs := r_errs st ++ errs;
     r_unsupp := r_unsupp st || uns |}.
Proof. reflexivity. Qed.

(* REJECTION at one workflow level: an argument of the step whose scope is [sc] that splices a mapping
   (dictionary) parameter of the calling workflow into more text makes resolve_scope record the location
   <execute entry>/signature/parameters/i -- whatever the other arguments are *)
Definition errs_of (a : list (string * value) * list loc * bool) : list loc := snd (fst a).

Lemma rs_step_mono scs sc up sib acc inv :
  exists e, errs_of (rs_step scs sc up sib acc inv) = errs_of acc ++ e.
Proof.
  destruct acc as [[pars errs] uns]. destruct inv as [i [n v]]. unfold rs_step.
  destruct (forallb (sibling_ok sib) v); destruct (resolve_loop _ _ _ _ _); cbn; eexists; reflexivity.
Qed.

Lemma rs_fold_mono scs sc up sib : forall l acc,
  exists e, errs_of (fold_left (rs_step scs sc up sib) l acc) = errs_of acc ++ e.
Proof.
  induction l as [|x l IH]; intros acc; cbn.
  - exists []. rewrite app_nil_r. reflexivity.
  - destruct (IH (rs_step scs sc up sib acc x)) as [e2 E2]. destruct (rs_step_mono scs sc up sib acc x) as [e1 E1].
    exists (e1 ++ e2). rewrite E2, E1, app_assoc. reflexivity.
Qed.

Lemma rs_step_splice scs sc up sib acc i n v p :
  forallb (sibling_ok sib) v = true ->
  find_scope (parent_loc (s_loc sc)) scs = Some p -> s_loc sc <> [] ->
  dict_ref (s_pars p) ["replica"] true (absolutise up v) = DSplice ->
  errs_of (rs_step scs sc up sib acc (i, (n, v)))
  = errs_of acc ++ [s_dsl sc ++ [LS "signature"; LS "parameters"; LN i]].
Proof.
  intros SIB FS NE D. destruct acc as [[pars errs] uns]. unfold rs_step. rewrite SIB.
  destruct (s_loc sc) as [|h t] eqn:SL; [contradiction|]. cbn [length].
  rewrite (resolve_loop_splice _ _ _ _ _ _ FS D). reflexivity.
Qed.

Lemma resolve_scope_splice st sc p i n v :
  In (i, (n, v)) (enum (s_pars sc)) ->
  forallb (sibling_ok (rs_siblings (r_scopes st) sc)) v = true ->
  find_scope (parent_loc (s_loc sc)) (r_scopes st) = Some p -> s_loc sc <> [] ->
  dict_ref (s_pars p) ["replica"] true (absolutise (parent_loc (s_loc sc)) v) = DSplice ->
  In (s_dsl sc ++ [LS "signature"; LS "parameters"; LN i]) (r_errs (resolve_scope st sc)).
Proof.
  intros I SIB FS NE D. rewrite resolve_scope_unfold.
  apply in_split in I. destruct I as [l1 [l2 E]]. rewrite E, fold_left_app. cbn [fold_left].
  set (a1 := fold_left _ l1 _).
  destruct (rs_fold_mono (r_scopes st) sc (parent_loc (s_loc sc)) (rs_siblings (r_scopes st) sc) l2
              (rs_step (r_scopes st) sc (parent_loc (s_loc sc)) (rs_siblings (r_scopes st) sc) a1 (i, (n, v)))) as [e2 E2].
  rewrite (rs_step_splice _ _ _ _ a1 _ _ _ _ SIB FS NE D) in E2.
  destruct (fold_left _ l2 _) as [[pars errs] uns]. cbn in E2. cbn [r_errs]. subst errs.
  apply in_app_iff. right. apply in_app_iff. left. apply in_app_iff. right. left. reflexivity.
Qed.

(* the relation "the model's three phases turn v into v' without error" for every parameter *)
Definition par_ok (scs : list scope) (sc : scope) (up siblings : list string) (nv nv' : string * value) : Prop :=
  fst nv' = fst nv /\ well_shaped (snd nv) = true /\
  forallb (sibling_ok siblings) (snd nv) = true /\
  resolve_loop (length (s_loc sc)) scs (s_loc sc) ["replica"] (absolutise up (snd nv)) = SOk (snd nv') /\
  absolutise up (snd nv') = snd nv'.

Lemma rs_fold scs sc up siblings : forall pars pars' i acc errs uns,
  Forall2 (par_ok scs sc up siblings) pars pars' ->
  fold_left (rs_step scs sc up siblings) (enum_from i pars) (acc, errs, uns) = (acc ++ pars', errs, uns).
Proof.
  induction pars as [|[n v] r IH]; intros pars' i acc errs uns F; inversion F as [|? [n' v'] ? r' P F']; subst; cbn.
  - rewrite app_nil_r. reflexivity.
  - destruct P as [E [WS [SIB [RL AB]]]]. cbn [fst snd] in *. subst n'.
    rewrite SIB. cbv iota beta. rewrite RL. cbv iota beta. rewrite AB, WS. cbn [negb app]. rewrite !app_nil_r, !orb_false_r.
    rewrite (IH _ _ _ _ _ F'). rewrite <- app_assoc. reflexivity.
Qed.

Lemma Forall2_cons_inv {A B} (R : A -> B -> Prop) a l l' :
  Forall2 R (a :: l) l' -> exists b r', l' = b :: r' /\ R a b /\ Forall2 R l r'.
Proof. intros H. inversion H; subst. eauto. Qed.
Lemma Forall2_nil_inv {A B} (R : A -> B -> Prop) l' : Forall2 R [] l' -> l' = [].
Proof. intros H. inversion H. reflexivity. Qed.

Lemma removelast_snoc {A} (l : list A) a : removelast (l ++ [a]) = l.
Proof. apply removelast_last. Qed.

Lemma resolve_step st sc loc step p w pars' :
  s_loc sc = loc ++ [step] -> (exists l', loc = ENTRY :: l') ->
  find_scope loc (r_scopes st) = Some p -> s_tmpl p = TW w -> good_env (s_pars p) ->
  mem ENTRY (map fst (w_steps w)) = false ->
  Forall2 (fun nv nv' => fst nv' = fst nv /\ well_shaped (snd nv) = true /\ no_replica (snd nv) /\
             ev (s_pars p) loc (Some (filter (fun s => negb (String.eqb s step)) (map fst (w_steps w)))) []
                (snd nv) = Some (snd nv')) (s_pars sc) pars' ->
  resolve_scope st sc = {| r_scopes := replace_scope (set_pars sc pars') (r_scopes st);
                           r_errs := r_errs st; r_unsupp := r_unsupp st |}
  /\ good_env pars'.
Proof.
  intros SL L FS TM G NE F.
  assert (parent_loc (s_loc sc) = loc) as UP by (rewrite SL; apply removelast_last).
  assert (last (s_loc sc) "" = step) as LA by (rewrite SL; apply last_last).
  assert (rs_siblings (r_scopes st) sc = filter (fun s => negb (String.eqb s step)) (map fst (w_steps w))) as SI.
  { unfold rs_siblings. rewrite UP, FS, TM, LA. reflexivity. }
  set (sib := filter (fun s => negb (String.eqb s step)) (map fst (w_steps w))) in *.
  assert (mem ENTRY sib = false) as NE'.
  { apply mem_not_in. intros I. apply filter_In in I. destruct I as [I _].
    apply mem_in in I. congruence. }
  assert (Forall2 (par_ok (r_scopes st) sc loc sib) (s_pars sc) pars' /\ good_env pars') as [F2 G'].
  { clear SI. revert F. generalize (s_pars sc). intros pars. revert pars'.
    induction pars as [|nv r IH]; intros pars' F.
    - rewrite (Forall2_nil_inv _ _ F). split; [constructor|]. intros x v [].
    - destruct (Forall2_cons_inv _ _ _ _ F) as [nv' [r' [-> [P F']]]].
      destruct (IH _ F') as [A B]. destruct P as [E [WS [NR EV]]].
      assert (length (s_loc sc) = S (length loc)) as LN by (rewrite SL, app_length; cbn; lia).
      assert (find_scope (parent_loc (s_loc sc)) (r_scopes st) = Some p) as FS' by (rewrite UP; exact FS).
      destruct (resolve_value (length loc) _ _ _ _ _ _ _ FS' G L NE' NR EV) as [S1 [S2 [S3 [S4 S5]]]].
      split.
      + constructor; [|exact A]. unfold par_ok. rewrite LN. auto.
      + intros x v [I|I]; [|eapply B; eauto]. destruct nv' as [n' v']. inversion I; subst. cbn in *. auto. }
  rewrite resolve_scope_unfold. rewrite UP, SI. unfold enum.
  rewrite (rs_fold _ _ _ _ _ _ 0 [] [] false F2). cbn. rewrite app_nil_r, orb_false_r.
  split; [reflexivity|exact G'].
Qed.

(* ------------------------------------------------------------------ the arguments of a component instance *)
Lemma map_abs_out_nil v : map (abs_out []) v = v.
Proof. induction v as [|t r IH]; cbn; [reflexivity|]. rewrite IH. destruct t; reflexivity. Qed.

Lemma comp_args_ev N sc c args :
  good_env (s_pars sc) ->
  (forall x, mem x (c_vars c) = true -> lookup x (s_pars sc) = None) ->
  ev (s_pars sc) [] None (c_vars c) (c_args c) = Some args ->
  comp_args N sc c = (args, [], false) /\ (forall x, In x (refs_of args) -> mem x (c_vars c) = true).
Proof.
  intros G DJ EV. unfold ev in EV.
  destruct (dict_ok (s_pars sc) (c_vars c) (c_args c)) eqn:DK; [|discriminate]. cbn [negb] in EV.
  destruct (ev_toks (s_pars sc) [] None (c_vars c) (c_args c)) as [o|] eqn:T; [|discriminate].
  destruct (shape_ok o); [|discriminate]. inversion EV; subst o. clear EV.
  destruct (ev_toks_good _ _ _ _ _ _ G (or_intror eq_refl) T) as [_ [RF _]].
  split; [|exact RF].
  assert (subst (s_pars sc) (c_vars c) (c_args c) = SOk args) as SB.
  { rewrite <- (map_abs_out_nil (c_args c)). eapply subst_ev; [exact T| |exact DJ]. reflexivity. }
  assert (needs_more (c_vars c) args = false) as NM by (apply needs_more_false; exact RF).
  assert (subst_d (s_pars sc) (c_vars c) (c_args c) = SOk args) as SBD.
  { rewrite <- (map_abs_out_nil (c_args c)). rewrite (subst_d_ev _ _ (c_vars c) _ _ DK); [|reflexivity].
    rewrite map_abs_out_nil. exact SB. }
  unfold comp_args. destruct (needs_more (c_vars c) (c_args c)) eqn:NM0.
  - rewrite SBD, NM. reflexivity.
  - rewrite (subst_closed_id _ _ _ _ NM0 SB). reflexivity.
Qed.

(* ------------------------------------------------------------------ producers *)
Lemma spec_producer_spec locs path : forall l,
  spec_producer locs path = Some l ->
  In l locs /\ prefix_of l path = true /\
  forall l', In l' locs -> prefix_of l' path = true -> length l' <= length l.
Proof.
  induction locs as [|l0 r IH]; intros l H; cbn [spec_producer] in H; [discriminate|].
  destruct (prefix_of l0 path) eqn:P.
  - destruct (spec_producer r path) as [b|] eqn:R.
    + destruct (IH _ eq_refl) as [A [B C]].
      destruct (Nat.ltb (length l0) (length b)) eqn:LT; inversion H; subst.
      * apply Nat.ltb_lt in LT. split; [right; exact A|]. split; [exact B|].
        intros l' [<-|I] Pp; [lia | apply C; auto].
      * apply Nat.ltb_ge in LT. split; [left; reflexivity|]. split; [exact P|].
        intros l' [<-|I] Pp; [lia | specialize (C _ I Pp); lia].
    + inversion H; subst. split; [left; reflexivity|]. split; [exact P|].
      intros l' [<-|I] Pp; [lia|]. exfalso. clear IH H.
      induction r as [|l1 r IHr]; [destruct I|]. cbn [spec_producer] in R. destruct I as [<-|I].
      * rewrite Pp in R. destruct (spec_producer r path) as [b|]; [destruct (Nat.ltb _ _)|]; discriminate.
      * destruct (prefix_of l1 path); [destruct (spec_producer r path) as [b|]; [destruct (Nat.ltb _ _)|]; discriminate|].
        apply IHr; auto.
  - destruct (IH _ H) as [A [B C]]. split; [right; exact A|]. split; [exact B|].
    intros l' [<-|I] Pp; [congruence | apply C; auto].
Qed.

Lemma spec_producer_none locs path :
  spec_producer locs path = None -> forall l, In l locs -> prefix_of l path = false.
Proof.
  induction locs as [|l0 r IH]; intros H l I; [destruct I|]. cbn [spec_producer] in H.
  destruct (prefix_of l0 path) eqn:P.
  - destruct (spec_producer r path) as [b|]; [destruct (Nat.ltb _ _)|]; discriminate.
  - destruct I as [<-|I]; [exact P | apply IH; auto].
Qed.

Lemma prefix_same_len a : forall b p,
  prefix_of a p = true -> prefix_of b p = true -> length a = length b -> a = b.
Proof.
  induction a as [|x a IH]; intros [|y b] p A B L; cbn in *; try discriminate; [reflexivity|].
  destruct p as [|z p]; [discriminate|].
  apply andb_true_iff in A. destruct A as [E1 A]. apply andb_true_iff in B. destruct B as [E2 B].
  apply String.eqb_eq in E1. apply String.eqb_eq in E2. subst. f_equal. eapply IH; eauto.
Qed.

(* the producer chosen by the compiler is the producer of the specification *)
Lemma split_ref_is_spec names path l c :
  split_ref names path None = Some (l, c) -> spec_producer (map fst names) path = Some l.
Proof.
  intros H. destruct (split_ref_spec names path None l c I H) as [A [B [_ [C _]]]].
  destruct A as [A|A]; [|discriminate].
  assert (In l (map fst names)) as IL by (apply in_map_iff; exists (l, c); auto).
  destruct (spec_producer (map fst names) path) as [l2|] eqn:SP.
  - destruct (spec_producer_spec _ _ _ SP) as [A2 [B2 C2]].
    apply in_map_iff in A2. destruct A2 as [[l2' c2] [E I2]]. cbn in E. subst l2'.
    f_equal. eapply prefix_same_len; eauto.
    specialize (C _ _ I2 B2). specialize (C2 _ IL B). lia.
  - rewrite (spec_producer_none _ _ SP _ IL) in B. discriminate.
Qed.

Lemma split_ref_best_some names path : forall x, exists y, split_ref names path (Some x) = Some y.
Proof.
  induction names as [|[l0 c0] r IH]; intros x; cbn; [eauto|].
  destruct (_ && _); apply IH.
Qed.

Lemma split_ref_some names path : forall l c best,
  In (l, c) names -> prefix_of l path = true -> 0 < length l ->
  exists y, split_ref names path best = Some y.
Proof.
  induction names as [|[l0 c0] r IH]; intros l c best I P Z; [destruct I|].
  rewrite split_ref_cons. destruct I as [E|I].
  - inversion E; subst. rewrite P. destruct best as [[b cb]|]; rewrite andb_true_l.
    + destruct (Nat.ltb (length b) (length l)); apply split_ref_best_some.
    + apply Nat.ltb_lt in Z. rewrite Z. apply split_ref_best_some.
  - destruct (_ && _); eapply IH; eauto.
Qed.

Lemma lookup_loc_in names : forall l c,
  NoDup (map fst names) -> In (l, c) names -> lookup_loc l names = Some c.
Proof.
  induction names as [|[k v] r IH]; intros l c ND I; [destruct I|]. cbn in *.
  inversion ND as [|? ? NI ND']; subst. destruct I as [E|I].
  - inversion E; subst. rewrite strs_eqb_refl. reflexivity.
  - destruct (strs_eqb k l) eqn:E; [|apply IH; auto].
    apply strs_eqb_eq in E. subst k. exfalso. apply NI. apply in_map_iff. exists (l, c). auto.
Qed.

Lemma producer_is_spec names path :
  NoDup (map fst names) -> (forall l c, In (l, c) names -> l <> []) ->
  match spec_producer (map fst names) path with
  | Some l => exists c, lookup_loc l names = Some c /\ split_ref names path None = Some (l, c)
  | None => split_ref names path None = None
  end.
Proof.
  intros ND NE. destruct (spec_producer (map fst names) path) as [l|] eqn:SP.
  - destruct (spec_producer_spec _ _ _ SP) as [A [B _]].
    apply in_map_iff in A. destruct A as [[l' c] [E I0]]. cbn in E. subst l'.
    assert (0 < length l) as Z by (specialize (NE _ _ I0); destruct l; [congruence|cbn; lia]).
    destruct (split_ref_some names path l c None I0 B Z) as [[l2 c2] SR].
    pose proof (split_ref_is_spec _ _ _ _ SR) as SP2. rewrite SP in SP2. inversion SP2; subst l2.
    exists c2. split; [|exact SR].
    destruct (producer_longest_prefix _ _ _ _ SR) as [I2 _]. apply lookup_loc_in; auto.
  - apply no_producer. intros l c I0. eapply spec_producer_none; eauto.
    apply in_map_iff. exists (l, c). auto.
Qed.

(* ------------------------------------------------------------------ invariants of the traversal *)
Section VisitInv.
  Variable P : dstate -> Prop.
  Hypothesis P_same : forall st st', P st -> d_scopes st' = d_scopes st ->
    (exists e, d_errs st' = d_errs st ++ e) ->
    (d_override st' = d_override st \/ exists x, x <> [] /\ d_override st' = Some x) -> P st'.
  Hypothesis P_add : forall st st' sc, P st -> find_scope (s_loc sc) (d_scopes st) = None ->
    d_scopes st' = d_scopes st ++ [sc] -> (exists e, d_errs st' = d_errs st ++ e) ->
    d_override st' = d_override st -> P st'.

  Lemma visit_preserves : forall fuel N anc parent l dsl t args st,
    P st -> P (visit fuel N anc parent l dsl t args st).
  Proof.
    induction fuel as [|f IH]; intros N anc parent l dsl t args st HP.
    - cbn. destruct (d_abort st); [exact HP|].
      eapply P_same; [exact HP|reflexivity|exists []; cbn; rewrite app_nil_r; reflexivity|left; reflexivity].
    - cbn [visit]. destruct (d_abort st); [exact HP|].
      match goal with |- P (match ?e with [] => _ | _ :: _ => _ end) => destruct e as [|x xs] eqn:EE end.
      2:{ eapply P_same; [exact HP|reflexivity|eexists; reflexivity|left; reflexivity]. }
      apply app_eq_nil in EE. destruct EE as [EE _].
      assert (find_scope l (d_scopes st) = None) as FS by (destruct (find_scope l (d_scopes st)); [discriminate|reflexivity]).
      match goal with |- P (match ?e with [] => _ | _ :: _ => _ end) => destruct e as [|y ys] eqn:EU end.
      2:{ eapply P_same; [exact HP|reflexivity|eexists; reflexivity|right; eexists; split; [|reflexivity]; discriminate]. }
      match goal with |- P (match t with TW _ => _ | TC _ => ?s1 end) => assert (P s1) as HP1 end.
      { eapply P_add; [exact HP| |reflexivity|eexists; reflexivity|reflexivity]. exact FS. }
      destruct t as [w|c]; [|exact HP1].
      destruct (exec_entries _ _ _ _ _ _ _) as [[errs chs] seen].
      match goal with |- P (fold_left _ ?o ?s0) => assert (P s0) as HP0; [|generalize dependent s0; generalize o] end.
      { eapply P_same; [exact HP1|reflexivity|eexists; reflexivity|left; reflexivity]. }
      intros o. induction o as [|c0 o IHo]; intros s0 HP0; cbn; [exact HP0|].
      apply IHo. apply IH. exact HP0.
  Qed.
End VisitInv.

Lemma find_scope_none l scs : find_scope l scs = None -> ~ In l (map s_loc scs).
Proof.
  unfold find_scope. intros H I. apply in_map_iff in I. destruct I as [s [E I]].
  pose proof (find_none _ _ H _ I) as F. cbn in F. rewrite E, strs_eqb_refl in F. discriminate.
Qed.

(* the locations of the scopes found by the traversal are pairwise distinct *)
Lemma visit_nodup fuel N anc parent l dsl t args st :
  NoDup (map s_loc (d_scopes st)) -> NoDup (map s_loc (d_scopes (visit fuel N anc parent l dsl t args st))).
Proof.
  apply (visit_preserves (fun st => NoDup (map s_loc (d_scopes st)))).
  - intros s s' H E _ _. rewrite E. exact H.
  - intros s s' sc H F E _ _. rewrite E, map_app. cbn. apply NoDup_snoc; [exact H|].
    apply find_scope_none. exact F.
Qed.

Lemma discover_nodup N scs : discover N = Ok scs -> NoDup (map s_loc scs).
Proof.
  unfold discover.
  destruct (dup_template_errs "workflows" [] 0 (map w_name (n_wfs N))) as [e1 seen].
  destruct (dup_template_errs "components" seen 0 (map c_name (n_comps N))) as [e2 seen'].
  destruct (get_template N (n_entry N)) as [t|]; [|discriminate].
  destruct (e1 ++ e2); [|discriminate].
  match goal with |- context [visit ?f ?n ?a ?p ?l ?d ?t ?ar ?s] =>
    pose proof (visit_nodup f n a p l d t ar s) as ND; set (fin := visit f n a p l d t ar s) in * end.
  destruct (d_fuel fin); [discriminate|]. destruct (d_override fin); [discriminate|].
  destruct (d_errs fin); [|discriminate]. intros H; inversion H; subst. apply ND. constructor.
Qed.

(* errors are never forgotten *)
Definition has_err (st : dstate) : Prop :=
  d_errs st <> [] \/ exists x, x <> [] /\ d_override st = Some x.
Definition ov_ok (st : dstate) : Prop := forall x, d_override st = Some x -> x <> [].

Lemma visit_has_err fuel N anc parent l dsl t args st :
  has_err st -> has_err (visit fuel N anc parent l dsl t args st).
Proof.
  apply (visit_preserves has_err).
  - intros s s' [H|[x [NE H]]] _ [e E] O.
    + left. rewrite E. intros A. apply app_eq_nil in A. destruct A; auto.
    + destruct O as [O|[y [NY O]]]; right; [exists x; rewrite O; auto | exists y; auto].
  - intros s s' sc [H|[x [NE H]]] _ _ [e E] O.
    + left. rewrite E. intros A. apply app_eq_nil in A. destruct A; auto.
    + right. exists x. rewrite O. auto.
Qed.

Lemma visit_ov_ok fuel N anc parent l dsl t args st :
  ov_ok st -> ov_ok (visit fuel N anc parent l dsl t args st).
Proof.
  apply (visit_preserves ov_ok).
  - intros s s' H _ _ [O|[y [NY O]]] x E; rewrite O in E; [eauto | inversion E; subst; exact NY].
  - intros s s' sc H _ _ _ O x E. rewrite O in E. eauto.
Qed.

Lemma discover_err_nonempty N e : discover N = Err e -> e <> [].
Proof.
  unfold discover.
  destruct (dup_template_errs "workflows" [] 0 (map w_name (n_wfs N))) as [e1 seen].
  destruct (dup_template_errs "components" seen 0 (map c_name (n_comps N))) as [e2 seen'].
  destruct (get_template N (n_entry N)) as [t|].
  - destruct (e1 ++ e2) eqn:E12; [|intros H; inversion H; discriminate].
    match goal with |- context [visit ?f ?n ?a ?p ?l ?d ?t ?ar ?s] =>
      pose proof (visit_ov_ok f n a p l d t ar s) as OV; set (fin := visit f n a p l d t ar s) in * end.
    destruct (d_fuel fin); [discriminate|]. destruct (d_override fin) eqn:O.
    + intros H; inversion H; subst. eapply OV; [|exact O]. intros x Hx. discriminate.
    + destruct (d_errs fin); [discriminate|]. intros H; inversion H; discriminate.
  - intros H; inversion H. intros A. apply app_eq_nil in A. destruct A as [_ A].
    apply app_eq_nil in A. destruct A as [_ A]. discriminate.
Qed.

Definition one_comp (N : ns) (names : list (list string * cid)) (sc : scope) : option (cinst * list loc * bool) :=
  match s_tmpl sc, lookup_loc (s_loc sc) names with
  | TC c, Some id =>
    let '(args, e1, u) := comp_args N sc c in
    let '(refs, e2) := convert names sc args in
    Some ({| ci_loc := s_loc sc; ci_id := id; ci_refs := refs;
             ci_args := String.concat "" (map (render_tok names) args) |}, e1 ++ e2, u)
  | _, _ => None
  end.

Definition comps_of (scs0 : list scope) : list scope :=
  filter (fun s => negb (is_wf_scope s)) (r_scopes (resolve_all scs0)).

Lemma compile_ok N cis : compile N = Ok cis ->
  exists scs0, discover N = Ok scs0 /\
    let nst := assign_names (comps_of scs0) in
    n_nofuel nst = false /\ n_errs nst = [] /\
    let results := map (one_comp N (n_names nst)) (comps_of scs0) in
    existsb (fun r => match r with Some (_, _, u) => u | None => true end) results = false /\
    cis = flat_map (fun r => match r with Some (ci, _, _) => [ci] | None => [] end) results.
Proof.
  unfold compile. destruct (discover N) as [scs0| |]; try discriminate.
  intros H. exists scs0. split; [reflexivity|].
  destruct (r_unsupp (resolve_all scs0)); [discriminate|].
  destruct (r_errs (resolve_all scs0)); [|discriminate].
  fold (comps_of scs0) in H. cbv zeta.
  destruct (n_nofuel (assign_names (comps_of scs0))); [discriminate|].
  destruct (n_errs (assign_names (comps_of scs0))); [|discriminate].
  split; [reflexivity|]. split; [reflexivity|].
  change (fun sc : scope => match s_tmpl sc with
     | TW _ => None
     | TC c => match lookup_loc (s_loc sc) (n_names (assign_names (comps_of scs0))) with
               | Some id => let '(args, e1, u) := comp_args N sc c in
                            let '(refs, e2) := convert (n_names (assign_names (comps_of scs0))) sc args in
                            Some ({| ci_loc := s_loc sc; ci_id := id; ci_refs := refs;
                                     ci_args := String.concat "" (map (render_tok (n_names (assign_names (comps_of scs0)))) args) |}, e1 ++ e2, u)
               | None => None end end)
    with (one_comp N (n_names (assign_names (comps_of scs0)))) in H.
  destruct (existsb _ _); [discriminate|]. split; [reflexivity|].
  destruct (flat_map (fun r => match r with Some (_, e, _) => e | None => [] end) _); [|discriminate].
  inversion H. reflexivity.
Qed.

Lemma compile_err_nonempty N e : compile N = Err e -> e <> [].
Proof.
  unfold compile. destruct (discover N) as [scs0|e0|] eqn:D; try discriminate.
  - destruct (r_unsupp (resolve_all scs0)); [discriminate|].
    destruct (r_errs (resolve_all scs0)) eqn:RE; [|intros H; inversion H; discriminate].
    cbv zeta. destruct (n_nofuel _); [discriminate|].
    destruct (n_errs _); [|intros H; inversion H; discriminate].
    destruct (existsb _ _); [discriminate|].
    destruct (flat_map (fun r => match r with Some (_, e, _) => e | None => [] end) _); [discriminate|].
    intros H; inversion H; discriminate.
  - intros H; inversion H; subst. eapply discover_err_nonempty; eauto.
Qed.

(* ------------------------------------------------------------------ uniqueness, lifted to the output of compile *)
Lemma replace_scope_locs sc scs : map s_loc (replace_scope sc scs) = map s_loc scs.
Proof.
  unfold replace_scope. rewrite map_map. apply map_ext_in. intros s _.
  destruct (strs_eqb (s_loc s) (s_loc sc)) eqn:E; [|reflexivity].
  apply strs_eqb_eq in E. auto.
Qed.

Lemma resolve_scope_locs st sc : map s_loc (r_scopes (resolve_scope st sc)) = map s_loc (r_scopes st).
Proof.
  rewrite resolve_scope_unfold. destruct (fold_left _ _ _) as [[pars errs] uns]. cbn.
  apply replace_scope_locs.
Qed.

Lemma fold_resolve_locs l : forall st,
  map s_loc (r_scopes (fold_left resolve_scope l st)) = map s_loc (r_scopes st).
Proof.
  induction l as [|sc r IH]; intros st; cbn; [reflexivity|]. rewrite IH. apply resolve_scope_locs.
Qed.

Lemma resolve_all_locs scs : map s_loc (r_scopes (resolve_all scs)) = map s_loc scs.
Proof. unfold resolve_all. rewrite !fold_resolve_locs. reflexivity. Qed.

Lemma NoDup_map_filter {A B} (f : A -> B) (p : A -> bool) l :
  NoDup (map f l) -> NoDup (map f (filter p l)).
Proof.
  induction l as [|x r IH]; cbn; intros H; [constructor|].
  inversion H as [|? ? NI ND]; subst. destruct (p x); cbn; [|auto].
  constructor; [|auto]. intros I. apply NI. apply in_map_iff in I. destruct I as [y [E I]].
  apply filter_In in I. destruct I as [I _]. apply in_map_iff. exists y. auto.
Qed.

Lemma fold_assign_locs comps : forall st,
  n_errs (fold_left assign_one comps st) = [] -> n_nofuel (fold_left assign_one comps st) = false ->
  map fst (n_names (fold_left assign_one comps st)) = map fst (n_names st) ++ map s_loc comps
  /\ n_errs st = [] /\ n_nofuel st = false.
Proof.
  induction comps as [|sc r IH]; intros st E F; cbn in *.
  - rewrite app_nil_r. auto.
  - destruct (IH _ E F) as [A [B C]]. rewrite A. clear IH A E F.
    unfold assign_one in *. destruct (pick_name _ _ _ _) as [c counts|counts|]; cbn in *.
    + rewrite map_app, <- app_assoc. auto.
    + apply app_eq_nil in B. destruct B as [_ B]. discriminate.
    + discriminate.
Qed.

Lemma lookup_loc_self names :
  NoDup (map fst names) ->
  map (fun l => lookup_loc l names) (map fst names) = map Some (map snd names).
Proof.
  intros ND. rewrite !map_map. apply map_ext_in. intros [l c] I. cbn. apply lookup_loc_in; auto.
Qed.

Lemma map_some_inj {A} (a : list A) : forall b, map Some a = map Some b -> a = b.
Proof.
  induction a as [|x a IH]; intros [|y b] H; cbn in *; try discriminate; [reflexivity|].
  inversion H; subst. f_equal. auto.
Qed.

Lemma one_comp_id N names sc ci e u :
  one_comp N names sc = Some (ci, e, u) -> ci_loc ci = s_loc sc /\ lookup_loc (s_loc sc) names = Some (ci_id ci).
Proof.
  unfold one_comp. destruct (s_tmpl sc) as [w|c]; [discriminate|].
  destruct (lookup_loc (s_loc sc) names) as [id|]; [|discriminate].
  destruct (comp_args N sc c) as [[args e1] u1]. destruct (convert names sc args) as [refs e2].
  intros H; inversion H; subst. cbn. auto.
Qed.

Lemma results_ids N names : forall comps,
  existsb (fun r => match r with Some (_, _, u) => u | None => true end) (map (one_comp N names) comps) = false ->
  let cis := flat_map (fun r => match r with Some (ci, _, _) => [ci] | None => [] end) (map (one_comp N names) comps) in
  map ci_loc cis = map s_loc comps /\
  map Some (map ci_id cis) = map (fun l => lookup_loc l names) (map s_loc comps).
Proof.
  induction comps as [|sc r IH]; intros H; cbn in *; [auto|].
  apply orb_false_iff in H. destruct H as [H1 H2]. destruct (IH H2) as [A B].
  destruct (one_comp N names sc) as [[[ci e] u]|] eqn:O; [|discriminate].
  destruct (one_comp_id _ _ _ _ _ _ O) as [L I]. cbn. rewrite A, B, L, I. auto.
Qed.

Lemma compile_unique N cis :
  compile N = Ok cis -> NoDup (map ci_id cis) /\ NoDup (map ci_loc cis).
Proof.
  intros H. destruct (compile_ok _ _ H) as [scs0 [D [NF [NE [EX ->]]]]].
  pose proof (discover_nodup _ _ D) as ND0.
  assert (NoDup (map s_loc (comps_of scs0))) as ND.
  { unfold comps_of. apply NoDup_map_filter. rewrite resolve_all_locs. exact ND0. }
  destruct (results_ids N _ _ EX) as [A B].
  unfold assign_names in *. destruct (fold_assign_locs _ _ NE NF) as [LC _]. cbn in LC.
  split; [|rewrite A; exact ND].
  rewrite <- LC in B. rewrite lookup_loc_self in B by (rewrite LC; exact ND).
  apply map_some_inj in B. rewrite B. apply names_unique.
Qed.

(* ------------------------------------------------------------------ faults detected inside the traversal *)
(* what is wrong with one execute entry  e = (target, args)  of workflow w, instantiated below [anc] *)
Definition entry_fault (N : ns) (anc : list string) (w : wf) (e : string * list (string * value)) : Prop :=
  match lookup (fst e) (w_steps w) with
  | None => True                                                    (* the target is not a step *)
  | Some tn =>
    match get_template N tn with
    | None => True                                                  (* unknown template *)
    | Some t =>
      mem tn anc = true                                             (* template cycle *)
      \/ (exists n v, In (n, v) (snd e) /\ mem n (map fst (t_params t)) = false)     (* unknown argument *)
      \/ (exists n, In (n, None) (t_params t) /\ mem n (map fst (snd e)) = false)    (* missing argument *)
      \/ (exists n v x, In (n, v) (snd e) /\ In x (refs_of v) /\ mem x (map fst (w_params w)) = false)
                                                                    (* unknown parameter of the workflow *)
    end
  end.

Lemma flat_map_nonempty {A B} (f : A -> list B) l x : In x l -> f x <> [] -> flat_map f l <> [].
Proof.
  induction l as [|y r IH]; intros I NE; [destruct I|]. cbn. intros E. apply app_eq_nil in E. destruct E as [E1 E2].
  destruct I as [<-|I]; [auto | apply IH; auto].
Qed.

Lemma app_nonempty_r {A} (a b : list A) : b <> [] -> a ++ b <> [].
Proof. intros NE E. apply app_eq_nil in E. destruct E; auto. Qed.
Lemma app_nonempty_l {A} (a b : list A) : a <> [] -> a ++ b <> [].
Proof. intros NE E. apply app_eq_nil in E. destruct E; auto. Qed.

Lemma entry_fault_err N anc w TL seen idx e :
  entry_fault N anc w e -> fst (exec_entry N anc w TL seen idx e) <> [].
Proof.
  unfold entry_fault, exec_entry. destruct (lookup (fst e) (w_steps w)) as [tn|]; [|intros _; apply app_nonempty_r; discriminate].
  destruct (get_template N tn) as [t|]; [|intros _; apply app_nonempty_r; discriminate].
  intros F. destruct (mem tn anc) eqn:CY; [apply app_nonempty_r; discriminate|].
  set (here := TL ++ [LS "execute"; LN idx]).
  match goal with |- fst (match ?a ++ ?b with [] => _ | _ :: _ => _ end) <> [] =>
    assert (a ++ b <> []) as NE; [|destruct (a ++ b); [congruence|cbn; apply app_nonempty_r; discriminate]] end.
  destruct F as [F|[[n [v [I M]]]|[[n [I M]]|[n [v [x [I [R M]]]]]]]]; [discriminate| | |].
  - apply app_nonempty_l. eapply flat_map_nonempty; [exact I|]. cbn. apply app_nonempty_r. rewrite M. discriminate.
  - apply app_nonempty_r. eapply flat_map_nonempty; [exact I|]. cbn. rewrite M. discriminate.
  - apply app_nonempty_l. eapply flat_map_nonempty; [exact I|]. cbn. apply app_nonempty_l.
    eapply flat_map_nonempty; [exact R|]. rewrite M. discriminate.
Qed.

Lemma exec_entries_cons N anc w TL seen idx e r :
  exec_entries N anc w TL seen idx (e :: r) =
  let '(errs, ch) := exec_entry N anc w TL seen idx e in
  let seen' := if mem (fst e) seen then seen else seen ++ [fst e] in
  let '(errs', chs, seen'') := exec_entries N anc w TL seen' (S idx) r in
  (errs ++ errs', match ch with Some c => c :: chs | None => chs end, seen'').
Proof. reflexivity. Qed.

Lemma exec_entries_err N anc w TL e : forall es seen idx,
  In e es -> entry_fault N anc w e -> fst (fst (exec_entries N anc w TL seen idx es)) <> [].
Proof.
  induction es as [|e0 r IH]; intros seen idx I F; [destruct I|]. rewrite exec_entries_cons.
  destruct (exec_entry N anc w TL seen idx e0) as [errs ch] eqn:EE. cbv zeta.
  set (seen' := if mem (fst e0) seen then seen else seen ++ [fst e0]).
  specialize (IH seen' (S idx)).
  destruct (exec_entries N anc w TL seen' (S idx) r) as [[errs' chs] seen''] eqn:ER. cbn.
  destruct I as [<-|I].
  - apply app_nonempty_l. pose proof (entry_fault_err N anc w TL seen idx e0 F) as H. rewrite EE in H. exact H.
  - apply app_nonempty_r. apply (IH I F).
Qed.

Lemma exec_entries_seen N anc w TL s : forall es seen idx,
  In s (snd (exec_entries N anc w TL seen idx es)) -> In s seen \/ In s (map fst es).
Proof.
  induction es as [|e0 r IH]; intros seen idx H; [left; exact H|]. rewrite exec_entries_cons in H.
  destruct (exec_entry N anc w TL seen idx e0) as [errs ch]. cbv zeta in H.
  set (seen' := if mem (fst e0) seen then seen else seen ++ [fst e0]) in *.
  specialize (IH seen' (S idx)).
  destruct (exec_entries N anc w TL seen' (S idx) r) as [[errs' chs] seen'']. cbn in *.
  destruct (IH H) as [A|A]; [|right; right; exact A].
  unfold seen' in A. destruct (mem (fst e0) seen); [left; exact A|].
  apply in_app_iff in A. destruct A as [A|[A|[]]]; [left; exact A | right; left; exact A].
Qed.

Definition wf_fault (N : ns) (anc : list string) (w : wf) : Prop :=
  (exists e, In e (w_exec w) /\ entry_fault N (anc ++ [w_name w]) w e)
  \/ (exists s, In s (map fst (w_steps w)) /\ ~ In s (map fst (w_exec w))).   (* a step that is never executed *)

Lemma wf_fault_errs N anc w TL errs chs seen :
  wf_fault N anc w ->
  exec_entries N (anc ++ [w_name w]) w TL [] 0 (w_exec w) = (errs, chs, seen) ->
  errs ++ flat_map (fun s : string * string => if mem (fst s) seen then [] else [TL ++ [LS "execute"]]) (w_steps w) <> [].
Proof.
  intros [[e [I F]]|[s [I NI]]] EE.
  - apply app_nonempty_l. pose proof (exec_entries_err N _ w TL e _ [] 0 I F) as H. rewrite EE in H. exact H.
  - apply app_nonempty_r. apply in_map_iff in I. destruct I as [[s' tn] [E I]]. cbn in E. subst s'.
    eapply flat_map_nonempty; [exact I|]. cbn.
    destruct (mem s seen) eqn:M; [|discriminate]. exfalso. apply mem_in in M.
    pose proof (exec_entries_seen N (anc ++ [w_name w]) w TL s (w_exec w) [] 0) as H. rewrite EE in H.
    destruct (H M) as [[]|A]. auto.
Qed.

Lemma fold_visit_has_err f N anc parent l : forall (o : list child) st,
  has_err st ->
  has_err (fold_left (fun st' c => visit f N anc parent (l ++ [ch_step c]) (ch_dsl c) (ch_tmpl c) (ch_args c) st') o st).
Proof.
  induction o as [|c o IH]; intros st H; cbn; [exact H|]. apply IH. apply visit_has_err. exact H.
Qed.

(* a faulty workflow that the traversal enters leaves an error, at any depth *)
Lemma visit_fault f N anc parent l dsl w args st :
  d_abort st = false -> wf_fault N anc w ->
  has_err (visit (S f) N anc parent l dsl (TW w) args st).
Proof.
  intros AB WF. cbn [visit]. rewrite AB.
  match goal with |- has_err (match ?e with [] => _ | _ :: _ => _ end) => destruct e as [|x xs] eqn:EE end.
  2:{ left. cbn. apply app_nonempty_r. discriminate. }
  match goal with |- has_err (match ?e with [] => _ | _ :: _ => _ end) => destruct e as [|y ys] eqn:EU end.
  2:{ right. cbn. eexists. split; [|reflexivity]. discriminate. }
  destruct (exec_entries _ _ _ _ _ _ _) as [[errs chs] seen] eqn:EX.
  apply fold_visit_has_err. left. cbn. apply app_nonempty_r.
  eapply wf_fault_errs; eauto.
Qed.

Lemma discover_has_err N t :
  get_template N (n_entry N) = Some t ->
  has_err (visit (S (S (length (n_wfs N)))) N [] None [ENTRY] (template_location N t) t (entry_args t (n_eargs N))
                 {| d_scopes := []; d_errs := []; d_abort := false; d_override := None; d_fuel := false |}) ->
  forall scs, discover N <> Ok scs.
Proof.
  intros T HE scs. unfold discover.
  destruct (dup_template_errs "workflows" [] 0 (map w_name (n_wfs N))) as [e1 seen].
  destruct (dup_template_errs "components" seen 0 (map c_name (n_comps N))) as [e2 seen'].
  rewrite T. destruct (e1 ++ e2); [|discriminate].
  match goal with |- context [d_fuel ?s] => set (fin := s) in * end.
  destruct (d_fuel fin); [discriminate|].
  destruct HE as [HE|[x [NX HE]]].
  - destruct (d_override fin); [discriminate|]. destruct (d_errs fin); [congruence|discriminate].
  - rewrite HE. discriminate.
Qed.

Lemma reject_entry_fault N w :
  get_template N (n_entry N) = Some (TW w) -> wf_fault N [] w -> forall cis, compile N <> Ok cis.
Proof.
  intros T WF cis H. destruct (compile_ok _ _ H) as [scs0 [D _]].
  revert D. apply discover_has_err with (t := TW w); [exact T|].
  apply visit_fault; [reflexivity|exact WF].
Qed.
