(* C06 — refinement lemmas: the compiler model of Model.v against the specification of Spec.v *)
From Coq Require Import String Ascii List Bool Arith NArith Lia.
Require Import V.Lib.PyStr V.Dsl.Model V.Dsl.Proofs V.Dsl.Spec.
Import ListNotations.
Open Scope string_scope.
Open Scope list_scope.

(* ------------------------------------------------------------------ basic facts *)
Lemma strs_eqb_eq a : forall b, strs_eqb a b = true <-> a = b.
Proof.
  unfold strs_eqb. induction a as [|x a IH]; intros [|y b]; cbn; split; intros H; try discriminate; auto.
  - apply andb_true_iff in H. destruct H as [E H]. apply String.eqb_eq in E. apply IH in H. subst. reflexivity.
  - inversion H; subst. rewrite String.eqb_refl. cbn. apply IH. reflexivity.
Qed.
Lemma strs_eqb_refl a : strs_eqb a a = true.
Proof. apply strs_eqb_eq. reflexivity. Qed.

Lemma mem_in x l : mem x l = true <-> In x l.
Proof.
  unfold mem. rewrite existsb_exists. split.
  - intros [y [I E]]. apply String.eqb_eq in E. subst. exact I.
  - intros I. exists x. split; [exact I | apply String.eqb_refl].
Qed.
Lemma mem_not_in x l : mem x l = false <-> ~ In x l.
Proof.
  rewrite <- mem_in. destruct (mem x l); split; intros H.
  - discriminate.
  - exfalso. apply H. reflexivity.
  - intros H'. discriminate.
  - reflexivity.
Qed.

(* ------------------------------------------------------------------ environments of the specification *)
Definition ground (v : value) : Prop := refs_of v = [].
Definition absolute_tok (t : tok) : bool :=
  match t with Out (h :: _) _ => String.eqb h ENTRY | Out [] _ => false | _ => true end.
Definition absolute (v : value) : Prop := forallb absolute_tok v = true.
Definition good_env (e : env) : Prop := forall x v, In (x, v) e -> ground v /\ absolute v.

Lemma ground_app a b : ground a -> ground b -> ground (a ++ b).
Proof. unfold ground. rewrite refs_of_app. intros -> ->. reflexivity. Qed.
Lemma absolute_app a b : absolute a -> absolute b -> absolute (a ++ b).
Proof. unfold absolute. rewrite forallb_app. intros -> ->. reflexivity. Qed.

Lemma ground_closed ign v : ground v -> needs_more ign v = false.
Proof. unfold ground, needs_more. intros ->. reflexivity. Qed.
Lemma good_env_closed ign e : good_env e -> closed_env ign e.
Proof. intros G x v I. apply ground_closed. apply (G x v I). Qed.

Lemma absolutise_absolute up v : absolute v -> absolutise up v = v.
Proof.
  unfold absolute, absolutise. induction v as [|t r IH]; cbn; [reflexivity|].
  intros H. apply andb_true_iff in H. destruct H as [A H]. rewrite (IH H). f_equal.
  destruct t as [s|x|[|h p] m|x p m]; cbn in *; try reflexivity. rewrite A. reflexivity.
Qed.

(* ------------------------------------------------------------------ one token: substitution = evaluation *)
Definition abs_out (loc : list string) (t : tok) : tok :=
  match t with Out p m => Out (loc ++ p) m | _ => t end.

Lemma subst_tok_ev e loc sib keep ign t h :
  ev_tok e loc sib keep t = Some h ->
  (forall x, In x (tok_refs t) -> mem x ign = mem x keep) ->
  (forall x, mem x keep = true -> lookup x e = None) ->
  subst_tok e ign (abs_out loc t) = SOk h.
Proof.
  intros EV IG DJ. destruct t as [s|x|p m|x p m]; cbn in *.
  - inversion EV; reflexivity.
  - rewrite (IG x (or_introl eq_refl)). destruct (mem x keep); [inversion EV; reflexivity|].
    rewrite EV. reflexivity.
  - destruct sib as [s|]; [|discriminate]. destruct p as [|h0 r]; [discriminate|].
    destruct (mem h0 s); [|discriminate]. inversion EV; reflexivity.
  - rewrite (IG x (or_introl eq_refl)). destruct (mem x keep) eqn:K.
    + rewrite (DJ x K) in EV. discriminate.
    + destruct (lookup x e) as [[|[s|y|q [mm|]|y q mm] [|? ?]]|]; try discriminate.
      inversion EV; reflexivity.
Qed.

Lemma subst_ev e loc sib keep ign : forall v o,
  ev_toks e loc sib keep v = Some o ->
  (forall x, In x (refs_of v) -> mem x ign = mem x keep) ->
  (forall x, mem x keep = true -> lookup x e = None) ->
  subst e ign (map (abs_out loc) v) = SOk o.
Proof.
  induction v as [|t r IH]; intros o EV IG DJ; cbn in *.
  - inversion EV; reflexivity.
  - destruct (ev_tok e loc sib keep t) as [h|] eqn:T; [|discriminate].
    destruct (ev_toks e loc sib keep r) as [r'|] eqn:R; [|discriminate].
    inversion EV; subst.
    rewrite (subst_tok_ev _ _ _ _ _ _ _ T).
    + rewrite (IH _ eq_refl); [reflexivity | | exact DJ].
      intros x I. apply IG. unfold refs_of in *. cbn. apply in_app_iff. right. exact I.
    + intros x I. apply IG. unfold refs_of. cbn. apply in_app_iff. left. exact I.
    + exact DJ.
Qed.

(* what evaluation in a good environment returns *)
Lemma ev_tok_good e loc sib keep t h :
  good_env e -> (exists l', loc = ENTRY :: l') \/ sib = None ->
  ev_tok e loc sib keep t = Some h ->
  absolute h /\ (forall x, In x (refs_of h) -> mem x keep = true) /\
  (forall u, In u h -> match u with POut _ _ _ => False | _ => True end).
Proof.
  intros G L EV. destruct t as [s|x|p m|x p m]; cbn in EV.
  - inversion EV; subst. split; [reflexivity|]. split; [intros y []|]. intros u [<-|[]]; exact I.
  - destruct (mem x keep) eqn:K.
    + inversion EV; subst. split; [reflexivity|]. split.
      * intros y [<-|[]]; exact K.
      * intros u [<-|[]]; exact I.
    + apply lookup_in in EV. destruct (G _ _ EV) as [GR AB]. split; [exact AB|]. split.
      * intros y Hy. rewrite GR in Hy. destruct Hy.
      * intros u Hu. destruct u as [s|y|p m|y p m]; auto.
        assert (In y (refs_of h)) as HH.
        { unfold refs_of. apply in_flat_map. eexists; split; [exact Hu|]. cbn. auto. }
        rewrite GR in HH. destruct HH.
  - destruct sib as [s|]; [|discriminate]. destruct p as [|h0 r]; [discriminate|].
    destruct (mem h0 s); [|discriminate]. inversion EV; subst.
    destruct L as [[l' ->]|L]; [|discriminate].
    split; [reflexivity|]. split; [intros y []|]. intros u [<-|[]]; exact I.
  - destruct (lookup x e) as [[|[s|y|q [mm|]|y q mm] [|? ?]]|] eqn:LK; try discriminate.
    inversion EV; subst. apply lookup_in in LK. destruct (G _ _ LK) as [GR AB].
    split; [|split; [intros y []|intros u [<-|[]]; exact I]].
    unfold absolute in *. cbn in *. destruct q as [|h0 q]; [discriminate|]. cbn. exact AB.
Qed.

Lemma ev_toks_good e loc sib keep : forall v o,
  good_env e -> (exists l', loc = ENTRY :: l') \/ sib = None ->
  ev_toks e loc sib keep v = Some o ->
  absolute o /\ (forall x, In x (refs_of o) -> mem x keep = true) /\
  (forall u, In u o -> match u with POut _ _ _ => False | _ => True end).
Proof.
  induction v as [|t r IH]; intros o G L EV; cbn in EV.
  - inversion EV; subst. split; [reflexivity|]. split; intros ? [].
  - destruct (ev_tok e loc sib keep t) as [h|] eqn:T; [|discriminate].
    destruct (ev_toks e loc sib keep r) as [r'|] eqn:R; [|discriminate].
    inversion EV; subst.
    destruct (ev_tok_good _ _ _ _ _ _ G L T) as [A1 [B1 C1]].
    destruct (IH _ G L eq_refl) as [A2 [B2 C2]].
    split; [apply absolute_app; auto|]. split.
    + intros x Hx. rewrite refs_of_app in Hx. apply in_app_iff in Hx. destruct Hx as [Hx|Hx]; [apply B1|apply B2]; exact Hx.
    + intros u Hu. apply in_app_iff in Hu. destruct Hu as [Hu|Hu]; [apply C1|apply C2]; exact Hu.
Qed.

Lemma no_pout_shape o :
  (forall u, In u o -> match u with POut _ _ _ => False | _ => True end) ->
  well_shaped o = shape_ok o.
Proof.
  intros NP. unfold well_shaped, shape_ok. destruct o as [|a [|b r]]; try reflexivity.
  f_equal. revert NP. generalize (a :: b :: r). intros l. induction l as [|u l IH]; intros NP; cbn; [reflexivity|].
  rewrite IH by (intros u' Hu'; apply NP; right; exact Hu'). f_equal.
  specialize (NP u (or_introl eq_refl)). destruct u as [s|x|p [m|]|x p m]; cbn; try reflexivity. destruct NP.
Qed.

(* ------------------------------------------------------------------ one value of a workflow-level argument *)
Definition no_replica (v : value) : Prop := ~ In "replica" (refs_of v).

Lemma ev_tok_sibling e loc sib keep t h :
  ev_tok e loc (Some sib) keep t = Some h -> sibling_ok sib t = true.
Proof.
  destruct t as [s|x|[|h0 r] m|x p m]; cbn; intros H; try reflexivity; try discriminate.
  destruct (mem h0 sib); [reflexivity|discriminate].
Qed.

Lemma ev_toks_sibling e loc sib keep : forall v o,
  ev_toks e loc (Some sib) keep v = Some o -> forallb (sibling_ok sib) v = true.
Proof.
  induction v as [|t r IH]; intros o EV; cbn in *; [reflexivity|].
  destruct (ev_tok e loc (Some sib) keep t) as [h|] eqn:T; [|discriminate].
  destruct (ev_toks e loc (Some sib) keep r) as [r'|] eqn:R; [|discriminate].
  rewrite (ev_tok_sibling _ _ _ _ _ _ T), (IH _ eq_refl). reflexivity.
Qed.

Lemma absolutise_out loc sib : forall v,
  mem ENTRY sib = false -> forallb (sibling_ok sib) v = true -> absolutise loc v = map (abs_out loc) v.
Proof.
  intros v NE. unfold absolutise. induction v as [|t r IH]; cbn; [reflexivity|].
  intros H. apply andb_true_iff in H. destruct H as [S1 H]. rewrite (IH H). f_equal.
  destruct t as [s|x|[|h0 p] m|x p m]; cbn in *; try reflexivity; [discriminate|].
  destruct (String.eqb h0 ENTRY) eqn:E; [|reflexivity].
  apply String.eqb_eq in E. subst h0. congruence.
Qed.

Lemma subst_closed_id e ign : forall v o,
  needs_more ign v = false -> subst e ign v = SOk o -> o = v.
Proof.
  induction v as [|t r IH]; intros o NM SB; cbn in SB.
  - inversion SB; reflexivity.
  - change (t :: r) with ([t] ++ r) in NM. rewrite needs_more_app in NM.
    apply orb_false_iff in NM. destruct NM as [NT NR].
    destruct (subst_tok e ign t) as [h| |] eqn:T; try discriminate.
    destruct (subst e ign r) as [r'| |] eqn:R; try discriminate.
    inversion SB; subst. rewrite (IH _ NR eq_refl).
    assert (h = [t]) as ->; [|reflexivity].
    destruct t as [s|x|p m|x p m]; cbn in T; try (inversion T; reflexivity).
    + unfold needs_more in NT. cbn in NT. rewrite orb_false_r in NT. apply negb_false_iff in NT.
      rewrite NT in T. inversion T; reflexivity.
    + unfold needs_more in NT. cbn in NT. rewrite orb_false_r in NT. apply negb_false_iff in NT.
      rewrite NT in T. discriminate.
Qed.

Lemma resolve_value f scs cur loc sib v o p :
  find_scope (parent_loc cur) scs = Some p -> good_env (s_pars p) ->
  (exists l', loc = ENTRY :: l') -> mem ENTRY sib = false -> no_replica v ->
  ev (s_pars p) loc (Some sib) [] v = Some o ->
  forallb (sibling_ok sib) v = true /\
  resolve_loop (S f) scs cur ["replica"] (absolutise loc v) = SOk o /\
  absolutise loc o = o /\ ground o /\ absolute o.
Proof.
  intros FS G L NE NR EV. unfold ev in EV.
  destruct (ev_toks (s_pars p) loc (Some sib) [] v) as [o0|] eqn:T; [|discriminate].
  destruct (shape_ok o0) eqn:SH; [|discriminate]. inversion EV; subst o0. clear EV.
  pose proof (ev_toks_sibling _ _ _ _ _ _ T) as SIB.
  destruct (ev_toks_good _ _ _ _ _ _ G (or_introl L) T) as [AB [RF NP]].
  assert (ground o) as GR.
  { unfold ground. destruct (refs_of o) as [|x r] eqn:E; [reflexivity|].
    specialize (RF x (or_introl eq_refl)). discriminate. }
  split; [exact SIB|]. rewrite (absolutise_out _ _ _ NE SIB).
  assert (subst (s_pars p) ["replica"] (map (abs_out loc) v) = SOk o) as SB.
  { eapply subst_ev; [exact T| |].
    - intros x I. cbn. rewrite orb_false_r. destruct (String.eqb x "replica") eqn:E; [|reflexivity].
      apply String.eqb_eq in E. subst x. exfalso. apply NR. exact I.
    - intros x M. discriminate. }
  split; [|split; [apply absolutise_absolute; exact AB | split; [exact GR|exact AB]]].
  destruct (needs_more ["replica"] (map (abs_out loc) v)) eqn:NM.
  - eapply resolve_one_round; eauto.
    + apply good_env_closed. exact G.
    + rewrite (no_pout_shape _ NP). exact SH.
  - pose proof (subst_closed_id _ _ _ _ NM SB) as EO. rewrite EO. apply resolve_nothing. exact NM.
Qed.

(* ------------------------------------------------------------------ resolve_scope, one level *)
Definition rs_step (scs : list scope) (sc : scope) (up siblings : list string)
           (acc : list (string * value) * list loc * bool) (inv : nat * (string * value)) :=
  let '(pars, errs, uns) := acc in
  let '(i, (n, v)) := inv in
  let here := s_dsl sc ++ [LS "signature"; LS "parameters"; LN i] in
  let '(v1, e1) := if forallb (sibling_ok siblings) v then (absolutise up v, []) else (v, [here]) in
  let '(v2, e2, u2) := match resolve_loop (length (s_loc sc)) scs (s_loc sc) ["replica"] v1 with
                       | SOk v' => (v', [], false)
                       | SUnknown => (v1, [here], false)
                       | SUnsupp => (v1, [], true) end in
  let v3 := absolutise up v2 in
  (pars ++ [(n, v3)], errs ++ e1 ++ e2, uns || u2 || negb (well_shaped v)).

Definition rs_siblings (scs : list scope) (sc : scope) : list string :=
  match find_scope (parent_loc (s_loc sc)) scs with
  | Some p => match s_tmpl p with
              | TW w => filter (fun s => negb (String.eqb s (last (s_loc sc) ""))) (map fst (w_steps w))
              | TC _ => [] end
  | None => [] end.

Lemma resolve_scope_unfold st sc :
  resolve_scope st sc =
  let '(pars, errs, uns) := fold_left (rs_step (r_scopes st) sc (parent_loc (s_loc sc)) (rs_siblings (r_scopes st) sc))
                                      (enum (s_pars sc)) ([], [], false) in
  {| r_scopes := replace_scope (set_pars sc pars) (r_scopes st); r_errs := r_errs st ++ errs;
     r_unsupp := r_unsupp st || uns |}.
Proof. reflexivity. Qed.

(* the relation "the model's three phases turn v into v' without error" for every parameter *)
Definition par_ok (scs : list scope) (sc : scope) (up siblings : list string) (nv nv' : string * value) : Prop :=
  fst nv' = fst nv /\ well_shaped (snd nv) = true /\
  forallb (sibling_ok siblings) (snd nv) = true /\
  resolve_loop (length (s_loc sc)) scs (s_loc sc) ["replica"] (absolutise up (snd nv)) = SOk (snd nv') /\
  absolutise up (snd nv') = snd nv'.

Lemma rs_fold scs sc up siblings : forall pars pars' i acc errs uns,
  Forall2 (par_ok scs sc up siblings) pars pars' ->
  fold_left (rs_step scs sc up siblings) (enum_from i pars) (acc, errs, uns) = (acc ++ pars', errs, uns).
Proof.
  induction pars as [|[n v] r IH]; intros pars' i acc errs uns F; inversion F as [|? [n' v'] ? r' P F']; subst; cbn.
  - rewrite app_nil_r. reflexivity.
  - destruct P as [E [WS [SIB [RL AB]]]]. cbn [fst snd] in *. subst n'.
    rewrite SIB. cbv iota beta. rewrite RL. cbv iota beta. rewrite AB, WS. cbn [negb app]. rewrite !app_nil_r, !orb_false_r.
    rewrite (IH _ _ _ _ _ F'). rewrite <- app_assoc. reflexivity.
Qed.

Lemma Forall2_cons_inv {A B} (R : A -> B -> Prop) a l l' :
  Forall2 R (a :: l) l' -> exists b r', l' = b :: r' /\ R a b /\ Forall2 R l r'.
Proof. intros H. inversion H; subst. eauto. Qed.
Lemma Forall2_nil_inv {A B} (R : A -> B -> Prop) l' : Forall2 R [] l' -> l' = [].
Proof. intros H. inversion H. reflexivity. Qed.

Lemma removelast_snoc {A} (l : list A) a : removelast (l ++ [a]) = l.
Proof. apply removelast_last. Qed.

Lemma resolve_step st sc loc step p w pars' :
  s_loc sc = loc ++ [step] -> (exists l', loc = ENTRY :: l') ->
  find_scope loc (r_scopes st) = Some p -> s_tmpl p = TW w -> good_env (s_pars p) ->
  mem ENTRY (map fst (w_steps w)) = false ->
  Forall2 (fun nv nv' => fst nv' = fst nv /\ well_shaped (snd nv) = true /\ no_replica (snd nv) /\
             ev (s_pars p) loc (Some (filter (fun s => negb (String.eqb s step)) (map fst (w_steps w)))) []
                (snd nv) = Some (snd nv')) (s_pars sc) pars' ->
  resolve_scope st sc = {| r_scopes := replace_scope (set_pars sc pars') (r_scopes st);
                           r_errs := r_errs st; r_unsupp := r_unsupp st |}
  /\ good_env pars'.
Proof.
  intros SL L FS TM G NE F.
  assert (parent_loc (s_loc sc) = loc) as UP by (rewrite SL; apply removelast_last).
  assert (last (s_loc sc) "" = step) as LA by (rewrite SL; apply last_last).
  assert (rs_siblings (r_scopes st) sc = filter (fun s => negb (String.eqb s step)) (map fst (w_steps w))) as SI.
  { unfold rs_siblings. rewrite UP, FS, TM, LA. reflexivity. }
  set (sib := filter (fun s => negb (String.eqb s step)) (map fst (w_steps w))) in *.
  assert (mem ENTRY sib = false) as NE'.
  { apply mem_not_in. intros I. apply filter_In in I. destruct I as [I _].
    apply mem_in in I. congruence. }
  assert (Forall2 (par_ok (r_scopes st) sc loc sib) (s_pars sc) pars' /\ good_env pars') as [F2 G'].
  { clear SI. revert F. generalize (s_pars sc). intros pars. revert pars'.
    induction pars as [|nv r IH]; intros pars' F.
    - rewrite (Forall2_nil_inv _ _ F). split; [constructor|]. intros x v [].
    - destruct (Forall2_cons_inv _ _ _ _ F) as [nv' [r' [-> [P F']]]].
      destruct (IH _ F') as [A B]. destruct P as [E [WS [NR EV]]].
      assert (length (s_loc sc) = S (length loc)) as LN by (rewrite SL, app_length; cbn; lia).
      assert (find_scope (parent_loc (s_loc sc)) (r_scopes st) = Some p) as FS' by (rewrite UP; exact FS).
      destruct (resolve_value (length loc) _ _ _ _ _ _ _ FS' G L NE' NR EV) as [S1 [S2 [S3 [S4 S5]]]].
      split.
      + constructor; [|exact A]. unfold par_ok. rewrite LN. auto.
      + intros x v [I|I]; [|eapply B; eauto]. destruct nv' as [n' v']. inversion I; subst. cbn in *. auto. }
  rewrite resolve_scope_unfold. rewrite UP, SI. unfold enum.
  rewrite (rs_fold _ _ _ _ _ _ 0 [] [] false F2). cbn. rewrite app_nil_r, orb_false_r.
  split; [reflexivity|exact G'].
Qed.
