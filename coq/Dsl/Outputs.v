(* C06 — the KEY OUTPUTS of a DSL 2.0 namespace (entrypoint.output[].data-in).
   namespace_to_flowir (dsl.py), last block: after the components have been named, the data-in of every key output
   (an absolute, complete OutputReference) is partitioned with OutputReference.split against the locations of the
   COMPONENT instances only (uid_to_name) and rendered as the DataReference of the producer; a data-in that no
   component location prefixes is reported at ["entrypoint"; "outputs"; idx].  _common_syntax_checks reports a second
   output with a name already seen at the same kind of location (also through lightweight_validate).
   Modelled on top of [compile_ov] (Load.v): the errors of the compiler itself come first.  (Not modelled: a namespace
   that the compiler rejects in its last phases AND declares two outputs with one name - never generated.) *)
From Coq Require Import String Ascii List Bool Arith NArith Lia.
Import ListNotations.
Require Import V.Lib.PyStr V.Dsl.Model V.Dsl.Proofs V.Dsl.Load.
Open Scope string_scope.
Open Scope list_scope.

(* name, absolute location (steps then file), method *)
Definition kout := (string * (list string * string))%type.

Definition out_loc (i : nat) : loc := [LS "entrypoint"; LS "outputs"; LN i].

(* _common_syntax_checks: an output whose name has already been defined *)
Fixpoint dup_out_errs (seen : list string) (i : nat) (outs : list kout) : list loc :=
  match outs with
  | [] => []
  | o :: r => (if mem (fst o) seen then [out_loc i] else []) ++ dup_out_errs (fst o :: seen) (S i) r
  end.

(* uid_to_name: the locations of the compiled COMPONENT instances with their (stage, name) *)
Definition names_of (cis : list cinst) : list (list string * cid) := map (fun ci => (ci_loc ci, ci_id ci)) cis.

(* the key-output block: (compiled outputs, errors) *)
Fixpoint conv_outs (names : list (list string * cid)) (i : nat) (outs : list kout)
  : list (string * string) * list loc :=
  match outs with
  | [] => ([], [])
  | o :: r =>
    let rest := conv_outs names (S i) r in
    match conv names (fst (snd o)) (snd (snd o)) with
    | Some s => ((fst o, s) :: fst rest, snd rest)
    | None => (fst rest, out_loc i :: snd rest)
    end
  end.

Definition compile_out (N : option ns) (ov : option (list (string * value))) (outs : list kout)
  : res (list cinst * list (string * string)) :=
  match compile_ov N ov with
  | Unsupp => Unsupp
  | Err e => Err e
  | Ok cis =>
    match dup_out_errs [] 0 outs with
    | (_ :: _) as e => Err e
    | [] => match conv_outs (names_of cis) 0 outs with
            | (os, []) => Ok (cis, os)
            | (_, e) => Err e
            end
    end
  end.

(* lightweight_validate: the syntax checks, then the traversal; everything found is reported together *)
Definition lightweight_out (N : option ns) (ov : option (list (string * value))) (outs : list kout) : lw_res :=
  match lightweight N ov, dup_out_errs [] 0 outs with
  | LwUnsupp, _ => LwUnsupp
  | LwOk, [] => LwOk
  | LwOk, d => LwErr d
  | LwErr e, d => LwErr (d ++ e)
  end.

(* ------------------------------------------------------------------ correspondence checkers *)
Definition pair_eqb (a b : string * string) : bool := String.eqb (fst a) (fst b) && String.eqb (snd a) (snd b).

Definition check_out (x : option ns * option (list (string * value)) * list kout * impl_res * list (string * string)) : bool :=
  let '(N, ov, outs, i, ios) := x in
  match compile_out N ov outs, i with
  | Ok (cis, os), IOk _ => same_result (Ok cis) i && Nat.eqb (length os) (length ios) && set_eqb pair_eqb os ios
  | Err e, IErr ls => set_eqb loc_eqb e ls
  | _, _ => false
  end.

Definition check_lw_out (x : option ns * option (list (string * value)) * list kout * lw_impl) : bool :=
  let '(N, ov, outs, i) := x in
  match lightweight_out N ov outs, i with
  | LwOk, LIOk => true
  | LwErr e, LIErr ls => set_eqb loc_eqb e ls
  | _, _ => false
  end.

(* ------------------------------------------------------------------ proofs *)
Lemma in_names_of cis l c : In (l, c) (names_of cis) -> exists ci, In ci cis /\ ci_loc ci = l /\ ci_id ci = c.
Proof.
  unfold names_of. intros H. apply in_map_iff in H. destruct H as [ci [E I]]. inversion E; subst. eauto.
Qed.

(* a compiled output names the component instance with the longest location that prefixes its data-in *)
Lemma conv_outs_sound names : forall outs i n p m,
  snd (conv_outs names i outs) = [] -> In (n, (p, m)) outs ->
  exists l c, In (l, c) names /\ p = l ++ skipn (length l) p /\
    (forall l' c', In (l', c') names -> prefix_of l' p = true -> length l' <= length l) /\
    In (n, render_ref c (skipn (length l) p) m) (fst (conv_outs names i outs)).
Proof.
  induction outs as [|o r IH]; intros i n p m E I; [destruct I|].
  cbn in E |- *. destruct (conv names (fst (snd o)) (snd (snd o))) as [s|] eqn:C; cbn in E |- *; [|discriminate].
  destruct I as [I|I].
  - subst o. cbn in C. unfold conv in C. destruct (split_ref names p None) as [[l c]|] eqn:S; [|discriminate].
    inversion C; subst s. destruct (producer_longest_prefix _ _ _ _ S) as [A [B D]].
    exists l, c. repeat split; try assumption. left; reflexivity.
  - destruct (IH (S i) n p m E I) as [l [c [A [B [D F]]]]]. exists l, c. repeat split; try assumption. right; exact F.
Qed.

(* a data-in that no component location prefixes is reported at its own index *)
Lemma conv_outs_reports names : forall outs k i o,
  nth_error outs i = Some o -> conv names (fst (snd o)) (snd (snd o)) = None ->
  In (out_loc (k + i)) (snd (conv_outs names k outs)).
Proof.
  induction outs as [|o0 r IH]; intros k i o H C; [destruct i; discriminate|].
  destruct i as [|i]; cbn in H.
  - inversion H; subst o0. cbn. rewrite C. cbn. left. f_equal. f_equal. f_equal. lia.
  - cbn. specialize (IH (S k) i o H C). replace (S k + i) with (k + S i) in IH by lia.
    destruct (conv names (fst (snd o0)) (snd (snd o0))); cbn; [exact IH | right; exact IH].
Qed.

Lemma conv_no_prefix names p m :
  (forall l c, In (l, c) names -> prefix_of l p = false) -> conv names p m = None.
Proof. intros H. unfold conv. rewrite (no_producer names p None H). reflexivity. Qed.

Lemma compile_out_ok N ov outs cis os :
  compile_out N ov outs = Ok (cis, os) ->
  compile_ov N ov = Ok cis /\ dup_out_errs [] 0 outs = [] /\ conv_outs (names_of cis) 0 outs = (os, []).
Proof.
  unfold compile_out. destruct (compile_ov N ov) as [cis0|e|]; try discriminate.
  destruct (dup_out_errs [] 0 outs) eqn:D; [|discriminate].
  destruct (conv_outs (names_of cis0) 0 outs) as [os0 [|e0 er]] eqn:C; [|discriminate].
  intros H. inversion H; subst. repeat split; assumption.
Qed.

Lemma output_producer N ov outs cis os n p m :
  compile_out N ov outs = Ok (cis, os) -> In (n, (p, m)) outs ->
  exists ci, In ci cis /\ p = ci_loc ci ++ skipn (length (ci_loc ci)) p /\
    (forall ci', In ci' cis -> prefix_of (ci_loc ci') p = true -> length (ci_loc ci') <= length (ci_loc ci)) /\
    In (n, render_ref (ci_id ci) (skipn (length (ci_loc ci)) p) m) os.
Proof.
  intros H I. destruct (compile_out_ok _ _ _ _ _ H) as [_ [_ C]].
  assert (E : snd (conv_outs (names_of cis) 0 outs) = []) by (rewrite C; reflexivity).
  destruct (conv_outs_sound _ _ 0 n p m E I) as [l [c [A [B [D F]]]]].
  destruct (in_names_of _ _ _ A) as [ci [Ici [El Ec]]]. subst l c.
  exists ci. split; [exact Ici|]. split; [exact B|]. split.
  - intros ci' I' P. apply (D (ci_loc ci') (ci_id ci')); [|exact P].
    unfold names_of. apply in_map_iff. exists ci'. split; [reflexivity | exact I'].
  - rewrite C in F. exact F.
Qed.

Lemma output_no_producer_rejected N ov outs cis i o :
  compile_ov N ov = Ok cis -> nth_error outs i = Some o ->
  (forall ci, In ci cis -> prefix_of (ci_loc ci) (fst (snd o)) = false) ->
  exists e, compile_out N ov outs = Err e /\ e <> [] /\ (dup_out_errs [] 0 outs = [] -> In (out_loc i) e).
Proof.
  intros C H NP. unfold compile_out. rewrite C.
  destruct (dup_out_errs [] 0 outs) as [|d dr] eqn:D.
  - assert (R : In (out_loc i) (snd (conv_outs (names_of cis) 0 outs))).
    { apply (conv_outs_reports _ _ 0 i o H). apply conv_no_prefix. intros l c I.
      destruct (in_names_of _ _ _ I) as [ci [Ici [El _]]]. subst l. apply NP; exact Ici. }
    destruct (conv_outs (names_of cis) 0 outs) as [os [|e0 er]]; cbn in R; [destruct R|].
    exists (e0 :: er). split; [reflexivity|]. split; [discriminate | intros _; exact R].
  - exists (d :: dr). split; [reflexivity|]. split; [discriminate | intros X; discriminate].
Qed.

Lemma compile_out_err_nonempty N ov outs e : compile_out N ov outs = Err e -> e <> [].
Proof.
  unfold compile_out. destruct (compile_ov N ov) as [cis|e0|] eqn:C; try discriminate.
  - destruct (dup_out_errs [] 0 outs) eqn:D.
    + destruct (conv_outs (names_of cis) 0 outs) as [os [|e1 er]]; [discriminate|]. intros H; inversion H; discriminate.
    + intros H; inversion H; discriminate.
  - intros H; inversion H; subst. eapply compile_ov_err_nonempty; eauto.
Qed.

(* two outputs with one name: the later one is reported *)
Lemma dup_out_reported : forall outs seen k i o,
  nth_error outs i = Some o -> mem (fst o) (seen ++ map fst (firstn i outs)) = true ->
  In (out_loc (k + i)) (dup_out_errs seen k outs).
Proof.
  induction outs as [|o0 r IH]; intros seen k i o H M; [destruct i; discriminate|].
  destruct i as [|i]; cbn in H.
  - inversion H; subst o0. cbn in M. rewrite app_nil_r in M. cbn. rewrite M. left. f_equal. f_equal. f_equal. lia.
  - cbn. apply in_or_app. right. replace (k + S i) with (S k + i) by lia. apply (IH (fst o0 :: seen) (S k) i o H).
    cbn in M. unfold mem in *. rewrite existsb_app in M. cbn in M. cbn. rewrite existsb_app.
    rewrite ?orb_true_iff in *. tauto.
Qed.

Lemma output_dup_rejected N ov outs cis i o :
  compile_ov N ov = Ok cis -> nth_error outs i = Some o -> mem (fst o) (map fst (firstn i outs)) = true ->
  exists e, compile_out N ov outs = Err e /\ In (out_loc i) e.
Proof.
  intros C H M. pose proof (dup_out_reported outs [] 0 i o H M) as R. cbn in R.
  unfold compile_out. rewrite C. destruct (dup_out_errs [] 0 outs) as [|d dr]; [destruct R|].
  exists (d :: dr). split; [reflexivity | exact R].
Qed.

Lemma compile_out_none N ov :
  compile_out N ov [] = match compile_ov N ov with Ok cis => Ok (cis, []) | Err e => Err e | Unsupp => Unsupp end.
Proof. unfold compile_out. destruct (compile_ov N ov); reflexivity. Qed.

Lemma lightweight_out_err_nonempty N ov outs e : lightweight_out N ov outs = LwErr e -> e <> [].
Proof.
  unfold lightweight_out. destruct (lightweight N ov) as [|e0|] eqn:L; destruct (dup_out_errs [] 0 outs) eqn:D;
    try discriminate; intros H; inversion H; subst; try discriminate.
  cbn. eapply lightweight_err_nonempty; eauto.
Qed.
