(* C06 — the ENTRY POINTS around the compiler and the KINDS of parameter values.

   Model.v models namespace_to_flowir(namespace) on a token namespace whose entrypoint exists and whose values are
   all strings.  This file adds what sits around it:

   * [update]      dict.update on association lists (order of first insertion, last value wins);
   * [compile_ov]  namespace_to_flowir(namespace, override_entrypoint_args) for a namespace whose entrypoint may be
                   missing / empty (Namespace.entrypoint is Optional);
   * [load]        DSLExperimentConfiguration.__init__ (python/experiment/model/conf.py): the loader used by
                   elaunch/etest, with or without user VARIABLE FILES, validate True/False;
   * [lightweight] lightweight_validate(namespace, override_entrypoint_args): the traversal alone (end of the file),
                   with [foreign_ref] / [entry_param_ref]: parameter references in the arguments of an instance whose
                   parent scope has no such parameter - in particular the entry instance, which has no parent;
   * [kind], [entry_kargs], [globals], [var_ok]: the YAML type of a parameter value (string / number / mapping /
                   null), the arguments of the entry instance (defaults, updated by entrypoint.execute[0].args,
                   updated by the override), the global variables the last loop of namespace_to_flowir records for
                   them, and the rule of the FlowIR validator for a variable value.
   The token reading of a typed value is its Python str() (that is what _replace_many_parameter_references
   interpolates); a mapping is only ever forwarded whole, so its token is an opaque literal. *)
From Coq Require Import String Ascii List Bool Arith NArith.
Import ListNotations.
Require Import V.Lib.PyStr V.Dsl.Model V.Dsl.Proofs V.Dsl.Spec V.Dsl.Refine.
Open Scope string_scope.
Open Scope list_scope.

(* ------------------------------------------------------------------ dict.update *)
Definition update {A} (a b : list (string * A)) : list (string * A) :=
  map (fun nv => (fst nv, match lookup (fst nv) b with Some v => v | None => snd nv end)) a
  ++ filter (fun nv => negb (mem (fst nv) (map fst a))) b.

Definition with_eargs (N : ns) (ea : list (string * value)) : ns :=
  {| n_entry := n_entry N; n_eargs := ea; n_wfs := n_wfs N; n_comps := n_comps N |}.

(* namespace_to_flowir(namespace, override_entrypoint_args); None = the namespace has no entrypoint object *)
Definition compile_ov (N : option ns) (ov : option (list (string * value))) : res (list cinst) :=
  match N with
  | None => Err [[LS "entrypoint"]]
  | Some N => compile (with_eargs N (match ov with None => n_eargs N | Some o => update (n_eargs N) o end))
  end.

(* the user variable files of DSLExperimentConfiguration *)
Inductive uvars :=
| NoFiles                                          (* variable_files is empty / None *)
| Files (g : option (list (string * value))).      (* the layered files; g = their "global" section when it is a dict *)

Definition entry_template (N : option ns) : option tmpl :=
  match N with Some n => get_template n (n_entry n) | None => None end.

Definition load (validate : bool) (N : option ns) (uv : uvars) : res (list cinst) :=
  match uv with
  | NoFiles => compile_ov N None
  | Files g =>
    match entry_template N with
    | None => if validate then Err [[LS "entrypoint"; LS "entry-instance"]] else compile_ov N None
    | Some _ =>
      match g, N with
      | Some g, Some n => compile_ov N (Some (update (n_eargs n) g))
      | _, _ => compile_ov N None
      end
    end
  end.

(* ------------------------------------------------------------------ kinds of values *)
Inductive kind := KStr | KNum | KDict | KNone.
Definition kind_eqb (a b : kind) : bool :=
  match a, b with KStr, KStr | KNum, KNum | KDict, KDict | KNone, KNone => true | _, _ => false end.
Definition kval := (kind * value)%type.
Definition erase {A} (l : list (string * (kind * A))) : list (string * A) := map (fun nv => (fst nv, snd (snd nv))) l.

(* generic form of Model.entry_args: the defaults (signature order) updated by the arguments, then the other arguments *)
Definition entry_args_gen {A} (params : list (string * option A)) (eargs : list (string * A)) : list (string * A) :=
  let defaulted := flat_map (fun pd => match snd pd with
                                       | Some d => [(fst pd, match lookup (fst pd) eargs with Some v => v | None => d end)]
                                       | None => [] end) params in
  defaulted ++ filter (fun nv => negb (mem (fst nv) (map fst defaulted))) eargs.

(* the parameters of the entry instance with their kinds *)
Definition entry_kargs (params : list (string * option kval)) (eargs : list (string * kval))
           (ov : option (list (string * kval))) : list (string * kval) :=
  entry_args_gen params (match ov with None => eargs | Some o => update eargs o end).

(* step 6 of namespace_to_flowir: one global variable per parameter of the entry instance, except null and mappings *)
Definition is_global (k : kind) : bool := match k with KNone | KDict => false | _ => true end.
Definition globals (ka : list (string * kval)) : list (string * kval) := filter (fun nv => is_global (fst (snd nv))) ka.

(* FlowIRConcrete.validate on variables: the value must be a str / int / float / bool *)
Definition var_ok (k : kind) : bool := match k with KStr | KNum => true | _ => false end.

(* ------------------------------------------------------------------ correspondence checkers *)
Definition same_result (r : res (list cinst)) (i : impl_res) : bool :=
  match r, i with
  | Ok cis, IOk cs => Nat.eqb (length cis) (length cs)
                      && forallb (fun ci => existsb (inst_eqb ci) cs) cis
                      && forallb (fun c => existsb (fun ci => inst_eqb ci c) cis) cs
  | Err e, IErr ls => set_eqb loc_eqb e ls
  | _, _ => false
  end.

(* direct call with an override *)
Definition check_ov (x : option ns * option (list (string * value)) * impl_res) : bool :=
  let '(N, ov, i) := x in same_result (compile_ov N ov) i.

(* through DSLExperimentConfiguration *)
Definition check_load (x : bool * option ns * uvars * impl_res) : bool :=
  let '(v, N, uv, i) := x in same_result (load v N uv) i.

Definition val_eqb (a b : value) : bool :=
  list_eqb (fun s t => match s, t with Lit x, Lit y => String.eqb x y | _, _ => false end) a b.
Definition val_text (v : value) : string :=
  String.concat "" (map (fun t => match t with Lit x => x | _ => "?" end) v).
Definition gl_eqb (a b : string * kval) : bool :=
  String.eqb (fst a) (fst b) && kind_eqb (fst (snd a)) (fst (snd b))
  && String.eqb (val_text (snd (snd a))) (val_text (snd (snd b))).
Definition args_eqb (a b : list (string * value)) : bool :=
  list_eqb (fun x y => String.eqb (fst x) (fst y) && val_eqb (snd x) (snd y)) a b.

(* the global variables of the compiled FlowIR are those of the model (as a set), all of them acceptable to the
   validator, and the kinded reading erases to the token-level arguments of Model.entry_args *)
Definition check_globals (x : list (string * option kval) * list (string * kval) * option (list (string * kval))
                              * list (string * kval)) : bool :=
  let '(params, eargs, ov, impl) := x in
  let ka := entry_kargs params eargs ov in
  let g := globals ka in
  subset gl_eqb g impl && subset gl_eqb impl g
  && forallb (fun nv => var_ok (fst (snd nv))) impl
  && args_eqb (erase ka)
              (entry_args_gen (map (fun pd => (fst pd, option_map snd (snd pd))) params)
                              (match ov with None => erase eargs | Some o => update (erase eargs) (erase o) end)).

(* ------------------------------------------------------------------ proofs *)
Lemma lookup_app_l : forall A k (a b : list (string * A)) v, lookup k a = Some v -> lookup k (a ++ b) = Some v.
Proof. induction a as [|[k' v'] a IH]; simpl; intros; [discriminate|]. destruct (String.eqb k k'); auto. Qed.

Lemma lookup_app_r : forall A k (a b : list (string * A)), lookup k a = None -> lookup k (a ++ b) = lookup k b.
Proof. induction a as [|[k' v'] a IH]; simpl; intros; auto. destruct (String.eqb k k'); [discriminate|auto]. Qed.

Lemma lookup_mem : forall A k (a : list (string * A)), mem k (map fst a) = match lookup k a with Some _ => true | None => false end.
Proof.
  induction a as [|[k' v'] a IH]; simpl; auto. unfold mem in *. simpl.
  destruct (String.eqb k k'); simpl; auto.
Qed.

Lemma lookup_update_map : forall A k (a b : list (string * A)),
  lookup k (map (fun nv => (fst nv, match lookup (fst nv) b with Some v => v | None => snd nv end)) a)
  = match lookup k a with
    | Some v => Some (match lookup k b with Some w => w | None => v end)
    | None => None end.
Proof.
  induction a as [|[k' v'] a IH]; simpl; intros; auto.
  destruct (String.eqb k k') eqn:E; auto. apply String.eqb_eq in E. subst. reflexivity.
Qed.

Lemma lookup_filter_notin : forall A k (a b : list (string * A)),
  lookup k (filter (fun nv => negb (mem (fst nv) (map fst a))) b)
  = if mem k (map fst a) then None else lookup k b.
Proof.
  induction b as [|[k' v'] b IH]; simpl; intros.
  - destruct (mem k (map fst a)); reflexivity.
  - destruct (mem k' (map fst a)) eqn:M; simpl.
    + rewrite IH. destruct (String.eqb k k') eqn:E; auto.
      apply String.eqb_eq in E. subst. rewrite M. reflexivity.
    + destruct (String.eqb k k') eqn:E; auto.
      apply String.eqb_eq in E. subst. rewrite M. reflexivity.
Qed.

(* dict.update: the value of the second dictionary wins, the first one is kept otherwise *)
Lemma update_lookup : forall A k (a b : list (string * A)),
  lookup k (update a b) = match lookup k b with Some v => Some v | None => lookup k a end.
Proof.
  intros. unfold update.
  destruct (lookup k a) eqn:La.
  - erewrite lookup_app_l; [|rewrite lookup_update_map, La; reflexivity].
    destruct (lookup k b); reflexivity.
  - rewrite lookup_app_r; [|rewrite lookup_update_map, La; reflexivity].
    rewrite lookup_filter_notin, lookup_mem, La. destruct (lookup k b); reflexivity.
Qed.

Lemma globals_ok : forall ka, forallb (fun nv => var_ok (fst (snd nv))) (globals ka) = true.
Proof.
  intros. apply forallb_forall. intros [n [k v]] H. unfold globals in H. apply filter_In in H.
  destruct H as [_ H]. simpl in *. destruct k; simpl in *; auto; discriminate.
Qed.

Lemma globals_spec : forall ka n k v,
  In (n, (k, v)) (globals ka) <-> In (n, (k, v)) ka /\ k <> KNone /\ k <> KDict.
Proof.
  intros. unfold globals. rewrite filter_In. simpl. split; intros [H1 H2]; split; auto.
  - destruct k; simpl in *; split; congruence.
  - destruct H2. destruct k; simpl; congruence.
Qed.

Lemma with_eargs_same : forall N, with_eargs N (n_eargs N) = N.
Proof. destruct N; reflexivity. Qed.

Lemma get_template_with_eargs : forall N ea x, get_template (with_eargs N ea) x = get_template N x.
Proof. reflexivity. Qed.

Lemma entry_args_is_gen : forall t ea, entry_args t ea = entry_args_gen (t_params t) ea.
Proof. reflexivity. Qed.

(* ------------------------------------------------------------------ rejection through every entry point *)
Lemma compile_ov_err_nonempty : forall N ov e, compile_ov N ov = Err e -> e <> [].
Proof.
  intros [N|] ov e H; simpl in H.
  - eapply compile_err_nonempty; eauto.
  - inversion H. discriminate.
Qed.

Lemma load_err_nonempty : forall v N uv e, load v N uv = Err e -> e <> [].
Proof.
  intros v N uv e H. unfold load in H. destruct uv as [|g].
  - eapply compile_ov_err_nonempty; eauto.
  - destruct (entry_template N).
    + destruct g; destruct N; eapply compile_ov_err_nonempty; eauto.
    + destruct v; [inversion H; discriminate | eapply compile_ov_err_nonempty; eauto].
Qed.

Lemma load_no_entrypoint : forall v uv, exists e, load v None uv = Err e /\ e <> [].
Proof.
  intros v uv. destruct uv as [|g]; simpl.
  - eexists; split; [reflexivity|discriminate].
  - destruct v; eexists; (split; [reflexivity|discriminate]).
Qed.

Lemma load_unknown_entry : forall v N uv,
  get_template N (n_entry N) = None -> exists e, load v (Some N) uv = Err e /\ e <> [].
Proof.
  intros v N uv H. destruct uv as [|g]; unfold load; simpl.
  - rewrite with_eargs_same. apply reject_unknown_entry; exact H.
  - rewrite H. destruct v.
    + eexists; split; [reflexivity|discriminate].
    + rewrite with_eargs_same. apply reject_unknown_entry; exact H.
Qed.

Lemma load_no_files : forall v N, load v (Some N) NoFiles = compile N.
Proof. intros. simpl. rewrite with_eargs_same. reflexivity. Qed.

(* with variable files whose global section is a dictionary the namespace is compiled with every user variable
   bound as the argument of the entry instance, the entrypoint's own arguments kept otherwise *)
Lemma load_files_binding : forall v N g t,
  get_template N (n_entry N) = Some t ->
  exists ea, load v (Some N) (Files (Some g)) = compile (with_eargs N ea) /\
             forall k, lookup k ea = match lookup k g with Some x => Some x | None => lookup k (n_eargs N) end.
Proof.
  intros v N g t H. unfold load. simpl. rewrite H. eexists. split; [reflexivity|].
  intro k. rewrite !update_lookup. destruct (lookup k g); [reflexivity|]. destruct (lookup k (n_eargs N)); reflexivity.
Qed.

(* ------------------------------------------------------------------ lightweight_validate and parameter references
   in places that have NO enclosing parameter scope

   lightweight_validate(namespace, override_entrypoint_args) (dsl.py): the syntax checks, the per-template checks
   (references of a component to names that are neither its parameters nor its variables, parameter defaults that
   hold references - none of which the token fragment can express) and, when there is an entrypoint, the TRAVERSAL
   ScopeStack.discover_all_instances_of_templates alone - no resolution of values, no naming, no conversion.  On the
   fragment it is therefore [discover] on the namespace with the overridden entrypoint arguments. *)
Inductive lw_res :=
| LwOk                        (* returns None: nothing found *)
| LwErr (e : list loc)        (* DSLInvalidError: locations *)
| LwUnsupp.
Definition lightweight (N : option ns) (ov : option (list (string * value))) : lw_res :=
  match N with
  | None => LwOk            (* "can deal with Namespaces which do not have an entrypoint" *)
  | Some N => match discover (with_eargs N (match ov with None => n_eargs N | Some o => update (n_eargs N) o end)) with
              | Ok _ => LwOk | Err e => LwErr e | Unsupp => LwUnsupp end
  end.

Inductive lw_impl := LIOk | LIErr (ls : list loc) | LIExc (s : string).
Definition check_lw (x : option ns * option (list (string * value)) * lw_impl) : bool :=
  let '(N, ov, i) := x in
  match lightweight N ov, i with
  | LwOk, LIOk => true
  | LwErr e, LIErr ls => set_eqb loc_eqb e ls
  | _, _ => false
  end.

(* the names an argument value of a new scope may refer to: the parameters of the PARENT scope - none at all for the
   entry instance, whose arguments (entrypoint.execute[0].args, override_entrypoint_args, user variables, declared
   defaults of the entry template) have no enclosing scope *)
Definition parent_names (parent : option scope) : list string :=
  match parent with Some p => map fst (s_pars p) | None => [] end.

(* an argument (supplied or defaulted) of the instance refers to a name that is not a parameter of the parent *)
Definition foreign_ref (parent : option scope) (t : tmpl) (args : list (string * value)) : Prop :=
  exists nv p, In nv (fold_defaults (t_params t) args) /\ In p (refs_of (snd nv))
               /\ mem p (parent_names parent) = false /\ String.eqb p "replica" = false.

Lemma visit_foreign_ref f N anc parent l dsl t args st :
  d_abort st = false -> foreign_ref parent t args ->
  has_err (visit (S f) N anc parent l dsl t args st).
Proof.
  intros AB [nv [p [I [R [M NR]]]]]. cbn [visit]. rewrite AB.
  match goal with |- has_err (match ?e with [] => _ | _ :: _ => _ end) => destruct e as [|x xs] eqn:EE end.
  2:{ left. cbn. apply app_nonempty_r. discriminate. }
  match goal with |- has_err (match ?e with [] => _ | _ :: _ => _ end) => destruct e as [|y ys] eqn:EU end.
  2:{ right. cbn. eexists. split; [|reflexivity]. discriminate. }
  assert (flat_map (fun nv0 : string * value =>
            flat_map (fun p0 : string =>
              if mem p0 (match parent with Some p1 => map fst (s_pars p1) | None => [] end) then []
              else if String.eqb p0 "replica" then []
              else [match parent with Some p1 => s_dsl p1 | None => [LS "entrypoint"] end])
            (refs_of (snd nv0))) (fold_defaults (t_params t) args) <> []) as NE.
  { eapply flat_map_nonempty; [exact I|]. eapply flat_map_nonempty; [exact R|].
    unfold parent_names in M. rewrite M, NR. discriminate. }
  destruct t as [w|c].
  - destruct (exec_entries _ _ _ _ _ _ _) as [[errs chs] seen] eqn:EX.
    apply fold_visit_has_err. left. cbn. apply app_nonempty_l. apply app_nonempty_r. apply app_nonempty_r. exact NE.
  - left. cbn. apply app_nonempty_r. apply app_nonempty_r. exact NE.
Qed.

(* END TO END for the entry instance: its arguments have no enclosing scope, so ANY reference to a parameter in
   them - an unknown name, a parameter of the entry template itself, a reference nested in more text - is fatal *)
Definition entry_param_ref (N : ns) : Prop :=
  exists t, get_template N (n_entry N) = Some t /\ foreign_ref None t (entry_args t (n_eargs N)).

Lemma entry_param_ref_discover N : entry_param_ref N -> forall scs, discover N <> Ok scs.
Proof.
  intros [t [T F]]. apply discover_has_err with (t := t); [exact T|].
  apply visit_foreign_ref; [reflexivity|exact F].
Qed.

Lemma entry_param_ref_compile N : entry_param_ref N -> forall cis, compile N <> Ok cis.
Proof.
  intros H cis C. destruct (compile_ok _ _ C) as [scs0 [D _]]. revert D. apply entry_param_ref_discover. exact H.
Qed.

Definition ov_eargs (N : ns) (ov : option (list (string * value))) : list (string * value) :=
  match ov with None => n_eargs N | Some o => update (n_eargs N) o end.

Lemma entry_param_ref_ov N ov :
  entry_param_ref (with_eargs N (ov_eargs N ov)) -> forall cis, compile_ov (Some N) ov <> Ok cis.
Proof. intros H cis. unfold compile_ov. apply entry_param_ref_compile. exact H. Qed.

Lemma entry_param_ref_load v N g :
  entry_param_ref (with_eargs N (update (n_eargs N) (update (n_eargs N) g))) ->
  forall cis, load v (Some N) (Files (Some g)) <> Ok cis.
Proof.
  intros H cis. destruct H as [t [T F]]. pose proof T as T'. rewrite get_template_with_eargs in T'. cbn in T'.
  unfold load. cbn [entry_template]. rewrite T'. apply entry_param_ref_ov. exists t. split; [exact T|exact F].
Qed.

Lemma entry_param_ref_lightweight N ov :
  entry_param_ref (with_eargs N (ov_eargs N ov)) -> lightweight (Some N) ov <> LwOk.
Proof.
  intros H. unfold lightweight. fold (ov_eargs N ov).
  destruct (discover (with_eargs N (ov_eargs N ov))) as [scs|e|] eqn:D; try discriminate.
  exfalso. exact (entry_param_ref_discover _ H _ D).
Qed.

Lemma lightweight_err_nonempty N ov e : lightweight N ov = LwErr e -> e <> [].
Proof.
  unfold lightweight. destruct N as [N|]; [|discriminate].
  destruct (discover _) as [scs|e0|] eqn:D; try discriminate. intros H; inversion H; subst.
  eapply discover_err_nonempty; eauto.
Qed.

(* lightweight validation and compilation agree: what the lightweight validation reports is exactly what the
   compiler reports (same locations), and it never rejects a namespace the compiler accepts *)
Lemma lightweight_err_is_compile N ov e : lightweight (Some N) ov = LwErr e -> compile_ov (Some N) ov = Err e.
Proof.
  unfold lightweight, compile_ov, compile. destruct (discover _) as [scs|e0|]; try discriminate.
  intros H; inversion H; reflexivity.
Qed.

Lemma compile_ok_lightweight N ov cis : compile_ov (Some N) ov = Ok cis -> lightweight (Some N) ov = LwOk.
Proof.
  unfold lightweight, compile_ov. intros C. destruct (compile_ok _ _ C) as [scs0 [D _]]. rewrite D. reflexivity.
Qed.
