(* C06 — lemmas about the compiler model of coq/Dsl/Model.v *)
From Coq Require Import String Ascii List Bool Arith NArith Lia.
Require Import V.Lib.PyStr V.Dsl.Model.
Import ListNotations.
Open Scope list_scope.

(* ------------------------------------------------------------------ names are pairwise distinct *)
Lemma cid_eqb_eq a b : cid_eqb a b = true <-> a = b.
Proof.
  destruct a as [n s], b as [m t]. unfold cid_eqb; cbn. rewrite andb_true_iff, N.eqb_eq, String.eqb_eq.
  split; [intros [-> ->]; reflexivity | intros H; inversion H; auto].
Qed.

Lemma cid_mem_false c l : cid_mem c l = false -> ~ In c l.
Proof.
  unfold cid_mem. intros H HI.
  assert (existsb (cid_eqb c) l = true) as E.
  { apply existsb_exists. exists c. split; [exact HI | apply cid_eqb_eq; reflexivity]. }
  congruence.
Qed.

Lemma pick_name_fresh fuel : forall step counts taken c counts',
  pick_name fuel step counts taken = Picked c counts' -> cid_mem c taken = false.
Proof.
  induction fuel as [|f IH]; intros step counts taken c counts' H; cbn in H; [discriminate|].
  destruct (lookup step counts) as [k|].
  - destruct (parse_name _) as [c0|]; [|discriminate].
    destruct (cid_mem c0 taken) eqn:M; [eapply IH; eauto | inversion H; subst; exact M].
  - destruct (parse_name _) as [c0|]; [|discriminate].
    destruct (cid_mem c0 taken) eqn:M; [eapply IH; eauto | inversion H; subst; exact M].
Qed.

Lemma NoDup_snoc {A} (l : list A) x : NoDup l -> ~ In x l -> NoDup (l ++ [x]).
Proof.
  induction l as [|y l IH]; intros ND NI; cbn.
  - constructor; [intros []|constructor].
  - inversion ND as [|? ? NIy NDl]; subst. constructor.
    + rewrite in_app_iff. intros [H|[H|[]]]; [auto | subst; apply NI; left; reflexivity].
    + apply IH; [exact NDl | intros H; apply NI; right; exact H].
Qed.

Lemma assign_one_nodup st sc :
  NoDup (map snd (n_names st)) -> NoDup (map snd (n_names (assign_one st sc))).
Proof.
  intros ND. unfold assign_one.
  destruct (pick_name _ _ _ _) as [c counts|counts|] eqn:P; cbn; auto.
  rewrite map_app. cbn. apply NoDup_snoc; [exact ND|].
  apply cid_mem_false. eapply pick_name_fresh; eauto.
Qed.

Lemma fold_assign_nodup comps : forall st,
  NoDup (map snd (n_names st)) -> NoDup (map snd (n_names (fold_left assign_one comps st))).
Proof.
  induction comps as [|sc r IH]; intros st ND; cbn; [exact ND|].
  apply IH. apply assign_one_nodup. exact ND.
Qed.

Lemma names_unique comps : NoDup (map snd (n_names (assign_names comps))).
Proof. unfold assign_names. apply fold_assign_nodup. cbn. constructor. Qed.

(* every named location is the location of one of the component scopes, in order *)
Lemma assign_one_locs st sc l :
  In l (map fst (n_names (assign_one st sc))) -> In l (map fst (n_names st)) \/ l = s_loc sc.
Proof.
  unfold assign_one. destruct (pick_name _ _ _ _); cbn; auto.
  rewrite map_app, in_app_iff. cbn. intros [H|[H|[]]]; auto.
Qed.

Lemma names_locs comps : forall st l,
  In l (map fst (n_names (fold_left assign_one comps st))) ->
  In l (map fst (n_names st)) \/ In l (map s_loc comps).
Proof.
  induction comps as [|sc r IH]; intros st l H; cbn in *; [auto|].
  apply IH in H. destruct H as [H|H]; [|auto].
  apply assign_one_locs in H. destruct H; auto.
Qed.

(* ------------------------------------------------------------------ no parameter is left *)
Lemma no_param_left N sc c v :
  comp_args N sc c = (v, [], false) -> needs_more (c_vars c) v = false.
Proof.
  unfold comp_args. destruct (needs_more (c_vars c) (c_args c)) eqn:E.
  - destruct (subst_d _ _ _) as [v'| |]; try discriminate.
    destruct (needs_more (c_vars c) v') eqn:E'; [discriminate|].
    intros H; inversion H; subst; exact E'.
  - intros H; inversion H; subst; exact E.
Qed.

(* needs_more = false says exactly: every reference is one of the ignored names *)
Lemma needs_more_false ign v :
  needs_more ign v = false <-> forall x, In x (refs_of v) -> mem x ign = true.
Proof.
  unfold needs_more. split.
  - intros H x Hx. destruct (mem x ign) eqn:M; [reflexivity|].
    assert (existsb (fun x => negb (mem x ign)) (refs_of v) = true) as E.
    { apply existsb_exists. exists x. rewrite M. auto. }
    congruence.
  - intros H. destruct (existsb _ _) eqn:E; [|reflexivity].
    apply existsb_exists in E. destruct E as [x [Hx Hn]]. rewrite (H x Hx) in Hn. discriminate.
Qed.

(* ------------------------------------------------------------------ one round of substitution by a closed
   environment resolves everything: "walking up one scope per round" = substitution by the parent's
   resolved parameters *)
Definition closed_env (ign : list string) (env : list (string * value)) : Prop :=
  forall x vx, In (x, vx) env -> needs_more ign vx = false.

Lemma lookup_in {A} k (m : list (string * A)) v : lookup k m = Some v -> In (k, v) m.
Proof.
  induction m as [|[k' v'] r IH]; cbn; [discriminate|].
  destruct (String.eqb k k') eqn:E; intros H.
  - apply String.eqb_eq in E. inversion H; subst. left; reflexivity.
  - right; auto.
Qed.

Lemma refs_of_app a b : refs_of (a ++ b) = refs_of a ++ refs_of b.
Proof. unfold refs_of. apply flat_map_app. Qed.

Lemma needs_more_app ign a b : needs_more ign (a ++ b) = needs_more ign a || needs_more ign b.
Proof. unfold needs_more. rewrite refs_of_app, existsb_app. reflexivity. Qed.

Lemma subst_tok_closed env ign t h :
  closed_env ign env -> subst_tok env ign t = SOk h -> needs_more ign h = false.
Proof.
  intros CE. destruct t as [s|x|p m|x p m]; cbn.
  - intros H; inversion H; reflexivity.
  - destruct (mem x ign) eqn:M.
    + intros H; inversion H; subst. unfold needs_more; cbn. rewrite M. reflexivity.
    + destruct (lookup x env) as [vx|] eqn:L; [|discriminate].
      intros H; inversion H; subst. eapply CE. eapply lookup_in; eauto.
  - intros H; inversion H; reflexivity.
  - destruct (mem x ign); [discriminate|].
    destruct (lookup x env) as [[|[s|y|q [mm|]|y q mm] [|? ?]]|]; try discriminate.
    intros H; inversion H; reflexivity.
Qed.

Lemma subst_closed env ign : forall v v',
  closed_env ign env -> subst env ign v = SOk v' -> needs_more ign v' = false.
Proof.
  induction v as [|t r IH]; intros v' CE H; cbn in H.
  - inversion H; reflexivity.
  - destruct (subst_tok env ign t) as [h| |] eqn:T; try discriminate.
    destruct (subst env ign r) as [r'| |] eqn:R; try discriminate.
    inversion H; subst. rewrite needs_more_app.
    rewrite (subst_tok_closed _ _ _ _ CE T), (IH _ CE eq_refl). reflexivity.
Qed.

(* ------------------------------------------------------------------ mapping (dictionary) values *)
(* a mapping returned whole is the value some parameter is bound to *)
Lemma dict_ref_whole env ign : forall v pre vx,
  dict_ref env ign pre v = DWhole vx -> exists x, lookup x env = Some vx /\ is_dict vx = true.
Proof.
  induction v as [|t r IH]; intros pre vx H; cbn in H; [discriminate|].
  destruct t as [s|x|p m|x p m].
  - eapply IH; eauto.
  - destruct (mem x ign); [eapply IH; eauto|].
    destruct (lookup x env) as [vy|] eqn:L; [|discriminate].
    destruct (is_dict vy) eqn:D; [|eapply IH; eauto].
    destruct (pre && forallb empty_lit r); [|discriminate].
    inversion H; subst. exists x. auto.
  - eapply IH; eauto.
  - destruct (mem x ign); [eapply IH; eauto|].
    destruct (lookup x env) as [vy|]; [|discriminate].
    destruct (is_dict vy); [discriminate|eapply IH; eauto].
Qed.

(* a spliced mapping is referenced by a name that is not ignored: the substitution is attempted *)
Lemma dict_ref_splice_needs env ign : forall v pre,
  dict_ref env ign pre v = DSplice -> needs_more ign v = true.
Proof.
  induction v as [|t r IH]; intros pre H; cbn in H; [discriminate|].
  change (t :: r) with ([t] ++ r). rewrite needs_more_app.
  destruct t as [s|x|p m|x p m].
  - rewrite (IH _ H). apply orb_true_r.
  - destruct (mem x ign) eqn:M; [rewrite (IH _ H); apply orb_true_r|].
    unfold needs_more at 1. cbn. rewrite M. reflexivity.
  - rewrite (IH _ H). apply orb_true_r.
  - destruct (mem x ign) eqn:M; [rewrite (IH _ H); apply orb_true_r|].
    unfold needs_more at 1. cbn. rewrite M. reflexivity.
Qed.

Lemma subst_d_closed env ign v v' :
  closed_env ign env -> subst_d env ign v = SOk v' -> needs_more ign v' = false.
Proof.
  intros CE H. unfold subst_d in H. destruct (dict_ref env ign true v) as [|vx|] eqn:D.
  - eapply subst_closed; eauto.
  - inversion H; subst. destruct (dict_ref_whole _ _ _ _ _ D) as [x [L _]].
    eapply CE. eapply lookup_in; eauto.
  - discriminate.
Qed.

(* the rejection half: a value that splices a mapping into more text is a ValueError of the substitution *)
Lemma subst_d_splice env ign v : dict_ref env ign true v = DSplice -> subst_d env ign v = SUnknown.
Proof. intros D. unfold subst_d. rewrite D. reflexivity. Qed.

(* the acceptance half: a sole reference to a mapping forwards the mapping itself *)
Lemma subst_d_whole env ign x vx :
  mem x ign = false -> lookup x env = Some vx -> is_dict vx = true -> subst_d env ign [Param x] = SOk vx.
Proof. intros M L D. unfold subst_d. cbn. rewrite M, L, D. reflexivity. Qed.

Lemma resolve_one_round f scs cur ign v p v' :
  needs_more ign v = true ->
  find_scope (parent_loc cur) scs = Some p ->
  closed_env ign (s_pars p) ->
  subst_d (s_pars p) ign v = SOk v' -> well_shaped v' = true ->
  resolve_loop (S f) scs cur ign v = SOk v'.
Proof.
  intros NM FS CE SB WS. cbn. rewrite NM, FS, SB, WS.
  pose proof (subst_d_closed _ _ _ _ CE SB) as C.
  destruct f; cbn; rewrite C; reflexivity.
Qed.

(* scope level: the argument of a step that splices a mapping of the calling workflow into more text is refused
   by the walk up the scopes (resolve_parameter_references_of_instance records the ValueError) *)
Lemma resolve_loop_splice f scs cur ign v p :
  find_scope (parent_loc cur) scs = Some p ->
  dict_ref (s_pars p) ign true v = DSplice ->
  resolve_loop (S f) scs cur ign v = SUnknown.
Proof.
  intros FS D. cbn. rewrite (dict_ref_splice_needs _ _ _ _ D), FS, (subst_d_splice _ _ _ D). reflexivity.
Qed.

(* component level: command.arguments that splice a mapping parameter of the component into more text are
   reported at components/i/command/arguments *)
Lemma comp_args_splice N sc c :
  dict_ref (s_pars sc) (c_vars c) true (c_args c) = DSplice ->
  comp_args N sc c = (c_args c, [comp_index N c ++ [LS "command"; LS "arguments"]], false).
Proof.
  intros D. unfold comp_args. rewrite (dict_ref_splice_needs _ _ _ _ D), (subst_d_splice _ _ _ D). reflexivity.
Qed.

Lemma resolve_nothing fuel scs cur ign v :
  needs_more ign v = false -> resolve_loop fuel scs cur ign v = SOk v.
Proof. intros H. destruct fuel; cbn; rewrite H; reflexivity. Qed.

(* ------------------------------------------------------------------ the producer of a reference *)
Lemma prefix_of_app l : forall p, prefix_of l p = true -> p = l ++ skipn (length l) p.
Proof.
  induction l as [|x l IH]; intros p H; cbn in *; [reflexivity|].
  destruct p as [|y p]; [discriminate|].
  apply andb_true_iff in H. destruct H as [E H]. apply String.eqb_eq in E. subst.
  cbn. f_equal. auto.
Qed.

Definition split_inv (path : list string)
           (best : option (list string * cid)) : Prop :=
  match best with
  | Some (b, c) => prefix_of b path = true /\ 0 < length b
  | None => True
  end.

Lemma split_ref_cons l0 c0 r path best :
  split_ref ((l0, c0) :: r) path best =
  if prefix_of l0 path &&
     match best with Some (b, _) => Nat.ltb (length b) (length l0) | None => Nat.ltb 0 (length l0) end
  then split_ref r path (Some (l0, c0)) else split_ref r path best.
Proof. reflexivity. Qed.

Lemma split_ref_spec names : forall path best l c,
  split_inv path best ->
  split_ref names path best = Some (l, c) ->
  (In (l, c) names \/ best = Some (l, c)) /\ prefix_of l path = true /\ 0 < length l /\
  (forall l' c', In (l', c') names -> prefix_of l' path = true -> length l' <= length l) /\
  (forall b cb, best = Some (b, cb) -> length b <= length l).
Proof.
  induction names as [|[l0 c0] r IH]; intros path best l c INV H; [cbn in H | rewrite split_ref_cons in H].
  - subst best. cbn in INV. destruct INV as [P Z].
    split; [right; reflexivity|]. split; [exact P|]. split; [exact Z|].
    split; [intros ? ? []|]. intros b cb E; inversion E; subst; lia.
  - destruct (prefix_of l0 path) eqn:P0; [rewrite andb_true_l in H | rewrite andb_false_l in H].
    + destruct best as [[b cb]|].
      * destruct (Nat.ltb (length b) (length l0)) eqn:LT.
        -- apply Nat.ltb_lt in LT.
           assert (split_inv path (Some (l0, c0))) as INV' by (cbn; split; [exact P0|lia]).
           destruct (IH _ _ _ _ INV' H) as [A [B [Z [C D]]]].
           split; [destruct A as [A|A]; [left; right; exact A | inversion A; subst; left; left; reflexivity]|].
           split; [exact B|]. split; [exact Z|]. split.
           ++ intros l' c' [E|I] Pp; [inversion E; subst; eapply D; reflexivity | eapply C; eauto].
           ++ intros b' cb' E; inversion E; subst. specialize (D _ _ eq_refl). lia.
        -- apply Nat.ltb_ge in LT.
           destruct (IH _ _ _ _ INV H) as [A [B [Z [C D]]]].
           split; [destruct A as [A|A]; [left; right; exact A | right; exact A]|].
           split; [exact B|]. split; [exact Z|]. split.
           ++ intros l' c' [E|I] Pp; [inversion E; subst; specialize (D _ _ eq_refl); lia | eapply C; eauto].
           ++ exact D.
      * destruct (Nat.ltb 0 (length l0)) eqn:LT.
        -- apply Nat.ltb_lt in LT.
           assert (split_inv path (Some (l0, c0))) as INV' by (cbn; split; [exact P0|lia]).
           destruct (IH _ _ _ _ INV' H) as [A [B [Z [C D]]]].
           split; [destruct A as [A|A]; [left; right; exact A | inversion A; subst; left; left; reflexivity]|].
           split; [exact B|]. split; [exact Z|]. split.
           ++ intros l' c' [E|I] Pp; [inversion E; subst; eapply D; reflexivity | eapply C; eauto].
           ++ intros ? ? E; discriminate.
        -- apply Nat.ltb_ge in LT.
           destruct (IH _ _ _ _ INV H) as [A [B [Z [C D]]]].
           split; [destruct A as [A|A]; [left; right; exact A | discriminate]|].
           split; [exact B|]. split; [exact Z|]. split.
           ++ intros l' c' [E|I] Pp; [inversion E; subst; lia | eapply C; eauto].
           ++ intros ? ? E; discriminate.
    + destruct (IH _ _ _ _ INV H) as [A [B [Z [C D]]]].
      split; [destruct A as [A|A]; [left; right; exact A | right; exact A]|].
      split; [exact B|]. split; [exact Z|]. split.
      * intros l' c' [E|I] Pp; [inversion E; subst; congruence | eapply C; eauto].
      * exact D.
Qed.

Lemma producer_longest_prefix names path l c :
  split_ref names path None = Some (l, c) ->
  In (l, c) names /\ path = l ++ skipn (length l) path /\
  forall l' c', In (l', c') names -> prefix_of l' path = true -> length l' <= length l.
Proof.
  intros H. destruct (split_ref_spec names path None l c I H) as [A [B [_ [C _]]]].
  split; [destruct A as [A|A]; [exact A|discriminate]|].
  split; [apply prefix_of_app; exact B | exact C].
Qed.

(* a reference that no named location prefixes has no producer (it is reported, never wired) *)
Lemma no_producer names : forall path best,
  (forall l c, In (l, c) names -> prefix_of l path = false) ->
  split_ref names path best = best.
Proof.
  induction names as [|[l0 c0] r IH]; intros path best H; cbn; [reflexivity|].
  rewrite (H l0 c0 (or_introl eq_refl)). cbn. apply IH. intros l c I. apply (H l c). right; exact I.
Qed.

(* ------------------------------------------------------------------ rejection *)
Lemma reject_unknown_entry N :
  get_template N (n_entry N) = None -> exists e, compile N = Err e /\ e <> [].
Proof.
  intros H. unfold compile, discover.
  destruct (dup_template_errs "workflows" [] 0 (map w_name (n_wfs N))) as [e1 seen].
  destruct (dup_template_errs "components" seen 0 (map c_name (n_comps N))) as [e2 seen'].
  rewrite H. eexists. split; [reflexivity|].
  intros E. apply app_eq_nil in E. destruct E as [_ E]. apply app_eq_nil in E. destruct E as [_ E]. discriminate.
Qed.

Lemma reject_dup_template N t e1 seen e2 seen' :
  get_template N (n_entry N) = Some t ->
  dup_template_errs "workflows" [] 0 (map w_name (n_wfs N)) = (e1, seen) ->
  dup_template_errs "components" seen 0 (map c_name (n_comps N)) = (e2, seen') ->
  e1 ++ e2 <> [] -> compile N = Err (e1 ++ e2).
Proof.
  intros T E1 E2 NE. unfold compile, discover. rewrite E1, E2, T.
  destruct (e1 ++ e2); [congruence | reflexivity].
Qed.

(* a duplicated name is reported: the error list of dup_template_errs is non-empty *)
Lemma dup_cons kind seen idx m r :
  dup_template_errs kind seen idx (m :: r) =
  let '(e, seen') := dup_template_errs kind (m :: seen) (S idx) r in
  ((if mem m seen then [[LS kind; LN idx; LS "signature"; LS "name"]] else []) ++ e, seen').
Proof. reflexivity. Qed.

Lemma mem_cons_r n m seen : mem n seen = true -> mem n (m :: seen) = true.
Proof. unfold mem. cbn [existsb]. intros ->. apply orb_true_r. Qed.

Lemma dup_reported kind : forall names seen idx n,
  In n names -> mem n seen = true -> fst (dup_template_errs kind seen idx names) <> [].
Proof.
  induction names as [|m r IH]; intros seen idx n I M; [destruct I|].
  rewrite dup_cons. destruct (dup_template_errs kind (m :: seen) (S idx) r) as [e s'] eqn:E. cbn [fst].
  destruct I as [I|I].
  - subst m. rewrite M. discriminate.
  - destruct (mem m seen); [discriminate|]. cbn [app].
    specialize (IH (m :: seen) (S idx) n I (mem_cons_r _ _ _ M)). rewrite E in IH. exact IH.
Qed.
