(* C06 — the SPECIFICATION: a denotational flattener of a DSL 2.0 namespace, over the abstract syntax of
   Model.v but independent of the compiler model (no scopes, no worklist, no repeated substitution):

     - the instance tree is defined by LOCATION: the entry instance is at [entry-instance], the instance
       of step s of the workflow instance at l is at l ++ [s];
     - the environment of an instance is obtained top-down: the value of parameter x is the argument
       supplied by the parent, evaluated in the PARENT's environment ([ev]: a parameter reference is
       replaced by its value, a reference to a sibling step is made absolute by prefixing the parent's
       location, a parameter bound to a partial reference is extended), or the declared default;
     - the arguments of a component instance are its argument template evaluated in its environment
       (the component's own variables are kept);
     - a parameter bound to a mapping (dictionary) is forwarded whole by a value that is nothing but the
       reference to it; any value that mixes such a reference with more text makes the namespace invalid;
     - the producer of a complete output reference is the LONGEST component-instance location that
       prefixes its absolute path; the rest of the path is the file.

   This file is the Gallina port of the function [spec] of harness/c06.py (the property predicate of the
   correspondence run); [check_spec] compares the two on every generated namespace and [check_refines]
   evaluates "compile refines spec_ns" on every generated namespace inside Coq. *)
From Coq Require Import String Ascii List Bool Arith NArith.
Require Import V.Lib.PyStr V.Dsl.Model.
Import ListNotations.
Open Scope string_scope.
Open Scope list_scope.

Definition env := list (string * value).

Definition partial_out (t : tok) : bool := match t with Out _ None => true | _ => false end.
(* a partial reference is never mixed with other text *)
Definition shape_ok (v : value) : bool :=
  match v with [] => true | [_] => true | _ => negb (existsb partial_out v) end.

(* the meaning of one token written in a workflow instance at [loc] whose environment is [e] and whose
   other steps are [sib] (None: the token is written in a component); [keep]: names left alone *)
Definition ev_tok (e : env) (loc : list string) (sib : option (list string)) (keep : list string) (t : tok)
  : option value :=
  match t with
  | Lit _ => Some [t]
  | Param x => if mem x keep then Some [t] else lookup x e
  | Out p m => match sib, p with
               | Some s, h :: _ => if mem h s then Some [Out (loc ++ p) m] else None
               | _, _ => None
               end
  | POut x p m => match lookup x e with
                  | Some [Out q None] => Some [Out (q ++ p) m]
                  | _ => None
                  end
  end.

Fixpoint ev_toks (e : env) (loc : list string) (sib : option (list string)) (keep : list string) (v : value)
  : option value :=
  match v with
  | [] => Some []
  | t :: r => match ev_tok e loc sib keep t, ev_toks e loc sib keep r with
              | Some h, Some r' => Some (h ++ r')
              | _, _ => None
              end
  end.

(* a parameter whose value is a MAPPING (dictionary) may only be referenced by a value that consists of nothing
   but that reference (the mapping is then forwarded whole); a value that splices it into more text is invalid *)
Definition bound_to_dict (e : env) (x : string) : bool :=
  match lookup x e with Some vx => is_dict vx | None => false end.
Definition dict_ok (e : env) (keep : list string) (v : value) : bool :=
  match v with
  | [Param _] => true
  | _ => forallb (fun t => match t with
                           | Param x => mem x keep || negb (bound_to_dict e x)
                           | POut x _ _ => negb (bound_to_dict e x)
                           | _ => true end) v
  end.

Definition ev (e : env) (loc : list string) (sib : option (list string)) (keep : list string) (v : value)
  : option value :=
  if negb (dict_ok e keep v) then None else
  match ev_toks e loc sib keep v with
  | Some o => if shape_ok o then Some o else None
  | None => None
  end.

(* the environment of an instance: signature order; supplied argument (evaluated in the parent) or default *)
Fixpoint build_env (params : list (string * option value)) (supplied : list (string * value))
         (eo : env) (lo : list string) (sib : list string) : option env :=
  match params with
  | [] => Some []
  | (n, d) :: r =>
    match (match lookup n supplied with Some v => ev eo lo (Some sib) [] v | None => d end),
          build_env r supplied eo lo sib with
    | Some v, Some e => Some ((n, v) :: e)
    | _, _ => None
    end
  end.

Fixpoint nodupb (l : list string) : bool :=
  match l with [] => true | x :: r => negb (mem x r) && nodupb r end.

(* template names are unique in a valid namespace: the order of the search does not matter *)
Definition find_tmpl (N : ns) (name : string) : option tmpl :=
  match List.find (fun w => String.eqb (w_name w) name) (n_wfs N) with
  | Some w => Some (TW w)
  | None => match List.find (fun c => String.eqb (c_name c) name) (n_comps N) with
            | Some c => Some (TC c)
            | None => None
            end
  end.

Record sinst := { si_loc : list string; si_comp : comp; si_env : env }.

(* the component instances below the instance of template [tname] at [loc]; [chain]: the templates on
   the call chain (a template never instantiates itself); None: the namespace is invalid *)
Fixpoint spec_inst (fuel : nat) (N : ns) (chain : list string) (loc : list string) (tname : string)
         (supplied : list (string * value)) (eo : env) (lo : list string) (sib : list string)
  : option (list sinst) :=
  match fuel with
  | O => None
  | S f =>
    match find_tmpl N tname with
    | None => None
    | Some t =>
      let pn := map fst (t_params t) in
      if negb (nodupb pn && forallb (fun n => mem n pn) (map fst supplied)) then None else
      match build_env (t_params t) supplied eo lo sib with
      | None => None
      | Some e =>
        match t with
        | TC c => Some [{| si_loc := loc; si_comp := c; si_env := e |}]
        | TW w =>
          let steps := map fst (w_steps w) in
          let targets := map fst (w_exec w) in
          if negb (nodupb steps && nodupb targets && forallb (fun s => mem s steps) targets
                   && forallb (fun s => mem s targets) steps) then None else
          (fix go (es : list (string * list (string * value))) : option (list sinst) :=
             match es with
             | [] => Some []
             | (tg, args) :: r =>
               match lookup tg (w_steps w) with
               | None => None
               | Some tn =>
                 if mem tn (chain ++ [tname]) then None else
                 match spec_inst f N (chain ++ [tname]) (loc ++ [tg]) tn args e loc
                                 (filter (fun s => negb (String.eqb s tg)) steps), go r with
                 | Some a, Some b => Some (a ++ b)
                 | _, _ => None
                 end
               end
             end) (w_exec w)
        end
      end
    end
  end.

(* the longest location that prefixes the path *)
Fixpoint spec_producer (locs : list (list string)) (path : list string) : option (list string) :=
  match locs with
  | [] => None
  | l :: r =>
    let rest := spec_producer r path in
    if prefix_of l path then
      match rest with
      | Some b => if Nat.ltb (length l) (length b) then Some b else Some l
      | None => Some l
      end
    else rest
  end.

Definition sref := (list string * list string * string)%type.   (* producer location, file, method *)
Record sout := { so_loc : list string; so_args : value; so_refs : list sref }.

Definition complete_outs (v : value) : list (list string * string) :=
  flat_map (fun t => match t with Out p (Some m) => [(p, m)] | _ => [] end) v.

Definition spec_one (locs : list (list string)) (i : sinst) : option sout :=
  match parse_name (last (si_loc i) "") with
  | None => None                                  (* the step name cannot name a component *)
  | Some _ =>
    match ev (si_env i) [] None (c_vars (si_comp i)) (c_args (si_comp i)) with
    | None => None
    | Some args =>
      if existsb partial_out args then None else
      let complete := map fst (complete_outs args) in
      let all := args ++ flat_map snd (si_env i) in
      if negb (forallb (fun t => match t with
                                 | Out p None => existsb (strs_eqb p) complete
                                 | _ => true end) all) then None else
      let refs := map (fun pm => match spec_producer locs (fst pm) with
                                 | Some l => Some (l, skipn (length l) (fst pm), snd pm)
                                 | None => None end) (complete_outs all) in
      if forallb (fun o => match o with Some _ => true | None => false end) refs
      then Some {| so_loc := si_loc i; so_args := args;
                   so_refs := flat_map (fun o => match o with Some r => [r] | None => [] end) refs |}
      else None
    end
  end.

Fixpoint sequence {A} (l : list (option A)) : option (list A) :=
  match l with
  | [] => Some []
  | Some a :: r => match sequence r with Some r' => Some (a :: r') | None => None end
  | None :: _ => None
  end.

Definition spec_fuel (N : ns) : nat := S (S (length (n_wfs N))).

Definition spec_ns (N : ns) : option (list sout) :=
  if negb (nodupb (map w_name (n_wfs N) ++ map c_name (n_comps N))) then None else
  match spec_inst (spec_fuel N) N [] [ENTRY] (n_entry N) (n_eargs N) [] [] [] with
  | None => None
  | Some insts => sequence (map (spec_one (map si_loc insts)) insts)
  end.

(* ------------------------------------------------------------------ "the compiled components refine the specification" *)
Definition name_of (cis : list cinst) (l : list string) : option cid :=
  match List.find (fun ci => strs_eqb (ci_loc ci) l) cis with Some ci => Some (ci_id ci) | None => None end.

Definition render_sref (cis : list cinst) (r : sref) : string :=
  let '(l, file, m) := r in
  match name_of cis l with Some c => render_ref c file m | None => "?" end.

Definition render_stok (cis : list cinst) (locs : list (list string)) (t : tok) : string :=
  match t with
  | Lit s => s
  | Param x => "%(" +s+ x +s+ ")s"
  | Out p (Some m) => match spec_producer locs p with
                      | Some l => render_sref cis (l, skipn (length l) p, m)
                      | None => "?" end
  | _ => "?"
  end.

Fixpoint cids_nodupb (l : list cid) : bool :=
  match l with [] => true | x :: r => negb (cid_mem x r) && cids_nodupb r end.

(* one component per instance (same locations), uniquely named, whose argument string is the rendering of
   the specified argument tokens and whose references are the specified producer/file/method triples *)
Definition refines_b (cis : list cinst) (SP : list sout) : bool :=
  let locs := map so_loc SP in
  Nat.eqb (length cis) (length SP)
  && cids_nodupb (map ci_id cis)
  && forallb (fun s =>
       match List.find (fun ci => strs_eqb (ci_loc ci) (so_loc s)) cis with
       | Some ci => String.eqb (ci_args ci) (String.concat "" (map (render_stok cis locs) (so_args s)))
                    && set_eqb String.eqb (ci_refs ci) (map (render_sref cis) (so_refs s))
       | None => false
       end) SP.

Definition check_refines (N : ns) : bool :=
  match compile N, spec_ns N with
  | Ok cis, Some SP => refines_b cis SP
  | Err (_ :: _), None => true
  | _, _ => false
  end.

(* ------------------------------------------------------------------ tie to the Python flattener of harness/c06.py *)
Definition tok_eqb (a b : tok) : bool :=
  match a, b with
  | Lit x, Lit y => String.eqb x y
  | Param x, Param y => String.eqb x y
  | Out p m, Out q n => strs_eqb p q && opt_eqb String.eqb m n
  | POut x p m, POut y q n => String.eqb x y && strs_eqb p q && opt_eqb String.eqb m n
  | _, _ => false
  end.
Definition sref_eqb (a b : sref) : bool :=
  let '(l, f, m) := a in let '(l', f', m') := b in strs_eqb l l' && strs_eqb f f' && String.eqb m m'.

Definition py_out := (list string * value * list sref)%type.
Definition sout_eqb (s : sout) (p : py_out) : bool :=
  let '(l, args, refs) := p in
  strs_eqb (so_loc s) l && list_eqb tok_eqb (so_args s) args && set_eqb sref_eqb (so_refs s) refs.

(* x = (namespace, what the Python flattener returned: None = Invalid) *)
Definition check_spec (x : ns * option (list py_out)) : bool :=
  match spec_ns (fst x), snd x with
  | None, None => true
  | Some SP, Some P => Nat.eqb (length SP) (length P)
                      && forallb (fun s => existsb (sout_eqb s) P) SP
                      && forallb (fun p => existsb (fun s => sout_eqb s p) SP) P
  | _, _ => false
  end
  && check_refines (fst x).
