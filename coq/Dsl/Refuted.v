(* C06 — what was false before the repairs (finding F6, fixed by 11f7d86 in the code under test).
   The naming loop used to give step / step-I / step-II ... without looking at the names already taken:
   component steps a, a, a-I of three different workflows were named a, a-I, a-I. *)
From Coq Require Import String Ascii List Bool Arith NArith.
Import ListNotations.
Require Import V.Lib.PyStr V.Dsl.Model V.Dsl.Proofs.
Open Scope list_scope.

Definition dummy : comp := {| c_name := "c"; c_params := []; c_vars := []; c_args := [Lit "hi"] |}.
Definition sc_at (l : list string) : scope :=
  {| s_loc := l; s_dsl := []; s_tl := []; s_tmpl := TC dummy; s_pars := [] |}.
Definition f6_witness : list scope :=
  [sc_at ["entry-instance"; "a"]; sc_at ["entry-instance"; "w"; "a"]; sc_at ["entry-instance"; "v"; "a-I"]].

Theorem C06_names_refuted :
  exists comps, ~ NoDup (map snd (n_names (assign_names_old comps))) /\
                NoDup (map snd (n_names (assign_names comps))).
Proof.
  exists f6_witness. split.
  - vm_compute. intros H. inversion H as [|? ? _ H1]; subst. inversion H1 as [|? ? NI _]; subst.
    apply NI. left. reflexivity.
  - apply V.Dsl.Proofs.names_unique.
Qed.
Print Assumptions C06_names_refuted.

(* The hypothesis  well_shaped (snd nv) = true  of C06_refines_step is necessary: a value made of a parameter
   whose value is the EMPTY text followed by a partial reference means a partial reference for the
   specification, while the token-level model abstains (Unsupp: meaning depends on textual adjacency). *)
Require Import V.Dsl.Spec.
Definition shape_witness : ns :=
  {| n_entry := "main"; n_eargs := [("q", [])];
     n_wfs := [ {| w_name := "main"; w_params := [("q", None)];
                   w_steps := [("a", "gen"); ("b", "use")];
                   w_exec := [("a", []); ("b", [("p", [Param "q"; Out ["a"] None])])] |} ];
     n_comps := [ {| c_name := "gen"; c_params := []; c_vars := []; c_args := [Lit "hi"] |};
                  {| c_name := "use"; c_params := [("p", None)]; c_vars := [];
                     c_args := [POut "p" [] (Some "ref")] |} ] |}.

Theorem C06_refines_step_shape_refuted :
  exists N, (exists S, spec_ns N = Some S) /\ compile N = Unsupp.
Proof. exists shape_witness. split; [eexists; vm_compute; reflexivity | vm_compute; reflexivity]. Qed.
Print Assumptions C06_refines_step_shape_refuted.
