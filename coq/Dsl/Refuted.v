(* C06 — what was false before the repairs (finding F6, fixed by 11f7d86 in the code under test).
   The naming loop used to give step / step-I / step-II ... without looking at the names already taken:
   component steps a, a, a-I of three different workflows were named a, a-I, a-I. *)
From Coq Require Import String Ascii List Bool Arith NArith.
Import ListNotations.
Require Import V.Lib.PyStr V.Dsl.Model V.Dsl.Proofs.
Open Scope list_scope.

Definition dummy : comp := {| c_name := "c"; c_params := []; c_vars := []; c_args := [Lit "hi"] |}.
Definition sc_at (l : list string) : scope :=
  {| s_loc := l; s_dsl := []; s_tl := []; s_tmpl := TC dummy; s_pars := [] |}.
Definition f6_witness : list scope :=
  [sc_at ["entry-instance"; "a"]; sc_at ["entry-instance"; "w"; "a"]; sc_at ["entry-instance"; "v"; "a-I"]].

Theorem C06_names_refuted :
  exists comps, ~ NoDup (map snd (n_names (assign_names_old comps))) /\
                NoDup (map snd (n_names (assign_names comps))).
Proof.
  exists f6_witness. split.
  - vm_compute. intros H. inversion H as [|? ? _ H1]; subst. inversion H1 as [|? ? NI _]; subst.
    apply NI. left. reflexivity.
  - apply V.Dsl.Proofs.names_unique.
Qed.
Print Assumptions C06_names_refuted.
