(* C06 — DSL 2.0 compilation (python/experiment/model/frontends/dsl.py).

   Abstract-syntax model.  A value is a token list; the textual layer (the module's regular
   expressions that tokenise a string into these tokens, pydantic validation) is NOT modelled: the
   harness renders token lists to strings (several spellings) and the correspondence run ties the
   token-level algorithm below to the real string-level code.

     Lit s             plain text without  < > %  / :
     Param x           %(x)s
     Out p (Some m)    <a/b/c>:m      (also spelled <a/b>/c:m , <a/b>/c:m)
     Out p None        <a/b/c>        partial reference (no method); only as the sole token of a value
     POut x p m        %(x)s/a/b:m    a parameter bound to a partial reference, extended by a path
                                      and/or a method (%(x)s/a/b:m is the quoted spelling)

   COMPILER MODEL (this file, [compile]): the algorithm as implemented —
     ScopeStack.discover_all_instances_of_templates  -> [discover]/[visit] (the worklist is a
        depth-first pre-order walk: Component children first in REVERSE execute order, then Workflow
        children in execute order; modelled as the equivalent recursion, with the break of the
        worklist loop as the [d_abort] flag);
     ScopeStack.from_namespace / resolve_scope       -> [resolve_all]/[resolve_scope]
        (absolutise output references with the sibling check -> replace parameter references walking
        up one scope per round -> absolutise again), Workflow scopes first, then Component scopes;
     namespace_to_flowir                             -> [assign_names] (step, step-I, step-II, ... ;
        names already taken are skipped; stageN. prefix honoured), [comp_args] (component level
        parameter substitution) and [convert] (ComponentFlowIR.convert_outputreferences_to_datareferences
        with OutputReference.split).
   VALUE KINDS: numbers / null are read as the literal of their Python str(); a MAPPING (dictionary) is one
   literal holding its JSON text ([is_dict]); [subst_d] = _replace_many_parameter_references with its
   dictionary branch (a mapping is forwarded whole by a sole reference, rejected when spliced into more text).
   Shapes whose meaning depends on textual adjacency (a partial reference next to other text) give
   [Unsupp]; the generators never produce them and the checker counts them as mismatches.        *)
From Coq Require Import String Ascii List Bool Arith NArith.
Require Import V.Lib.PyStr.
Import ListNotations.
Open Scope string_scope.
Open Scope list_scope.

Notation "a +s+ b" := (String.append a b) (at level 60, right associativity).

(* ------------------------------------------------------------------ syntax *)
Inductive tok :=
| Lit (s : string)
| Param (x : string)
| Out (p : list string) (m : option string)
| POut (x : string) (p : list string) (m : option string).
Definition value := list tok.

Record comp := { c_name : string; c_params : list (string * option value);
                 c_vars : list string; c_args : value }.
Record wf := { w_name : string; w_params : list (string * option value);
               w_steps : list (string * string);                 (* step -> template name *)
               w_exec : list (string * list (string * value)) }. (* execute: target, args *)
Record ns := { n_entry : string; n_eargs : list (string * value);
               n_wfs : list wf; n_comps : list comp }.

Inductive tmpl := TW (w : wf) | TC (c : comp).
Definition t_name t := match t with TW w => w_name w | TC c => c_name c end.
Definition t_params t := match t with TW w => w_params w | TC c => c_params c end.

(* error locations *)
Inductive lel := LS (s : string) | LN (n : nat).
Definition loc := list lel.

Inductive res (A : Type) := Ok (a : A) | Err (l : list loc) | Unsupp.
Arguments Ok {A} a. Arguments Err {A} l. Arguments Unsupp {A}.

(* ------------------------------------------------------------------ helpers *)
Definition mem (s : string) (l : list string) : bool := existsb (String.eqb s) l.
Fixpoint lookup {A} (k : string) (m : list (string * A)) : option A :=
  match m with [] => None | (k', v) :: r => if String.eqb k k' then Some v else lookup k r end.
Fixpoint list_eqb {A} (e : A -> A -> bool) (a b : list A) : bool :=
  match a, b with
  | [], [] => true
  | x :: a', y :: b' => e x y && list_eqb e a' b'
  | _, _ => false
  end.
Definition strs_eqb := list_eqb String.eqb.
Definition opt_eqb {A} (e : A -> A -> bool) (a b : option A) : bool :=
  match a, b with Some x, Some y => e x y | None, None => true | _, _ => false end.
Fixpoint index_of {A} (p : A -> bool) (l : list A) (i : nat) : option (nat * A) :=
  match l with [] => None | x :: r => if p x then Some (i, x) else index_of p r (S i) end.
Fixpoint enum_from {A} (i : nat) (l : list A) : list (nat * A) :=
  match l with [] => [] | x :: r => (i, x) :: enum_from (S i) r end.
Definition enum {A} (l : list A) := enum_from 0 l.
Fixpoint prefix_of (p l : list string) : bool :=
  match p, l with
  | [], _ => true
  | x :: p', y :: l' => String.eqb x y && prefix_of p' l'
  | _ :: _, [] => false
  end.

(* Namespace.get_template: components first, then workflows *)
Definition get_template (N : ns) (name : string) : option tmpl :=
  match List.find (fun c => String.eqb (c_name c) name) (n_comps N) with
  | Some c => Some (TC c)
  | None => match List.find (fun w => String.eqb (w_name w) name) (n_wfs N) with
            | Some w => Some (TW w)
            | None => None
            end
  end.

(* ScopeStack._get_template_location *)
Definition template_location (N : ns) (t : tmpl) : loc :=
  match t with
  | TW w => match index_of (fun w' => String.eqb (w_name w') (w_name w)) (n_wfs N) 0 with
            | Some (i, _) => [LS "workflows"; LN i] | None => [LS "workflows"] end
  | TC c => match index_of (fun c' => String.eqb (c_name c') (c_name c)) (n_comps N) 0 with
            | Some (i, _) => [LS "components"; LN i] | None => [LS "components"] end
  end.

(* names of the parameters a value refers to: rg_param.findall *)
Definition tok_refs (t : tok) : list string :=
  match t with Param x => [x] | POut x _ _ => [x] | _ => [] end.
Definition refs_of (v : value) : list string := flat_map tok_refs v.

(* ------------------------------------------------------------------ scopes *)
Record scope := { s_loc : list string;      (* ["entry-instance"; ...] *)
                  s_dsl : loc;              (* the execute entry that instantiates it *)
                  s_tl : loc;               (* where its template is defined *)
                  s_tmpl : tmpl;
                  s_pars : list (string * value) }.

Definition find_scope (l : list string) (scs : list scope) : option scope :=
  List.find (fun s => strs_eqb (s_loc s) l) scs.

Record dstate := { d_scopes : list scope; d_errs : list loc; d_abort : bool;
                   d_override : option (list loc); d_fuel : bool (* ran out of fuel *) }.
Definition add_errs (st : dstate) (e : list loc) : dstate :=
  {| d_scopes := d_scopes st; d_errs := d_errs st ++ e; d_abort := d_abort st;
     d_override := d_override st; d_fuel := d_fuel st |}.

(* Scope.fold_in_defaults_of_parameters *)
Definition fold_defaults (params : list (string * option value)) (args : list (string * value))
  : list (string * value) :=
  args ++ flat_map (fun pd => match snd pd with
                              | Some d => if mem (fst pd) (map fst args) then [] else [(fst pd, d)]
                              | None => [] end) params.

(* one execute entry of a Workflow scope: the checks of discover_all_instances_of_templates *)
Record child := { ch_step : string; ch_dsl : loc; ch_tmpl : tmpl; ch_args : list (string * value) }.

Definition exec_entry (N : ns) (anc : list string) (w : wf) (TL : loc) (seen : list string)
           (idx : nat) (e : string * list (string * value)) : list loc * option child :=
  let target := fst e in
  let args := snd e in
  let here := TL ++ [LS "execute"; LN idx] in
  let e_dup := if mem target seen then [here] else [] in
  match lookup target (w_steps w) with
  | None => (e_dup ++ [here], None)
  | Some tname =>
    match get_template N tname with
    | None => (e_dup ++ [here], None)
    | Some t =>
      if mem tname anc then (e_dup ++ [here], None) else
      let e_refs := flat_map (fun nv =>
                       flat_map (fun p => if mem p (map fst (w_params w)) then [] else [here])
                                (refs_of (snd nv))
                       ++ (if mem (fst nv) (map fst (t_params t)) then [] else [here])) args in
      let e_missing := flat_map (fun pd => if mem (fst pd) (map fst args) then []
                                           else match snd pd with
                                                | None => [here ++ [LS "args"]]
                                                | Some _ => [] end) (t_params t) in
      match e_refs ++ e_missing with
      | [] => (e_dup, Some {| ch_step := target; ch_dsl := here; ch_tmpl := t; ch_args := args |})
      | errs => (e_dup ++ errs, None)
      end
    end
  end.

Fixpoint exec_entries (N : ns) (anc : list string) (w : wf) (TL : loc) (seen : list string)
         (idx : nat) (es : list (string * list (string * value)))
  : list loc * list child * list string :=
  match es with
  | [] => ([], [], seen)
  | e :: r =>
    let '(errs, ch) := exec_entry N anc w TL seen idx e in
    let seen' := if mem (fst e) seen then seen else seen ++ [fst e] in
    let '(errs', chs, seen'') := exec_entries N anc w TL seen' (S idx) r in
    (errs ++ errs', match ch with Some c => c :: chs | None => chs end, seen'')
  end.

Definition is_wf_child (c : child) : bool := match ch_tmpl c with TW _ => true | TC _ => false end.

(* duplicate parameter names of a signature *)
Fixpoint dup_param_errs (dsl : loc) (seen : list string) (idx : nat) (ps : list (string * option value))
  : list loc :=
  match ps with
  | [] => []
  | (n, _) :: r => (if mem n seen then [dsl ++ [LS "signature"; LS "parameters"; LN idx; LS "name"]] else [])
                   ++ dup_param_errs dsl (n :: seen) (S idx) r
  end.

Definition ENTRY := "entry-instance".

(* enter one scope and (for Workflows) its children, depth first *)
Fixpoint visit (fuel : nat) (N : ns) (anc : list string) (parent : option scope)
         (l : list string) (dsl : loc) (t : tmpl) (args : list (string * value)) (st : dstate) : dstate :=
  if d_abort st then st else
  match fuel with
  | O => {| d_scopes := d_scopes st; d_errs := d_errs st; d_abort := true;
            d_override := d_override st; d_fuel := true |}
  | S f =>
    (* ScopeStack.enter *)
    let e_enter :=
        (match find_scope l (d_scopes st) with Some _ => [dsl] | None => [] end)
        ++ flat_map (fun ip => let '(i, (n, d)) := ip in
                               if mem n (map fst args) then []
                               else match d with None => [dsl ++ [LS "signature"; LS "parameters"; LN i]]
                                                | Some _ => [] end) (enum (t_params t)) in
    match e_enter with
    | _ :: _ => {| d_scopes := d_scopes st; d_errs := d_errs st ++ e_enter; d_abort := true;
                   d_override := d_override st; d_fuel := d_fuel st |}
    | [] =>
      let e_dup := dup_param_errs dsl [] 0 (t_params t) in
      (* Scope.verify_parameters raises on its own (only reachable for the entry instance) *)
      let unknown := filter (fun n => negb (mem n (map fst (t_params t)))) (map fst args) in
      match unknown with
      | _ :: _ => {| d_scopes := d_scopes st; d_errs := d_errs st ++ e_dup; d_abort := true;
                     d_override := Some (map (fun _ => match parent with
                                                       | None => [LS "entrypoint"; LS "execute"; LN 0]
                                                       | Some _ => dsl end) unknown);
                     d_fuel := d_fuel st |}
      | [] =>
        let pars := fold_defaults (t_params t) args in
        let sc := {| s_loc := l; s_dsl := dsl; s_tl := template_location N t; s_tmpl := t; s_pars := pars |} in
        let parent_params := match parent with Some p => map fst (s_pars p) | None => [] end in
        let parent_dsl := match parent with Some p => s_dsl p | None => [LS "entrypoint"] end in
        let e_refs := flat_map (fun nv => flat_map (fun p => if mem p parent_params then []
                                                             else if String.eqb p "replica" then []
                                                             else [parent_dsl]) (refs_of (snd nv))) pars in
        let st1 := {| d_scopes := d_scopes st ++ [sc]; d_errs := d_errs st ++ e_dup ++ e_refs;
                      d_abort := false; d_override := d_override st; d_fuel := d_fuel st |} in
        match t with
        | TC _ => st1
        | TW w =>
          let TL := s_tl sc in
          let '(errs, chs, seen) := exec_entries N (anc ++ [w_name w]) w TL [] 0 (w_exec w) in
          let e_missing := flat_map (fun s => if mem (fst s) seen then [] else [TL ++ [LS "execute"]])
                                    (w_steps w) in
          let ordered := rev (filter (fun c => negb (is_wf_child c)) chs) ++ filter is_wf_child chs in
          fold_left (fun st' c => visit f N (anc ++ [w_name w]) (Some sc) (l ++ [ch_step c]) (ch_dsl c)
                                        (ch_tmpl c) (ch_args c) st')
                    ordered (add_errs st1 (errs ++ e_missing))
        end
      end
    end
  end.

(* duplicate template names: workflows first, then components *)
Fixpoint dup_template_errs (kind : string) (seen : list string) (idx : nat) (names : list string)
  : list loc * list string :=
  match names with
  | [] => ([], seen)
  | n :: r => let '(e, seen') := dup_template_errs kind (n :: seen) (S idx) r in
              ((if mem n seen then [[LS kind; LN idx; LS "signature"; LS "name"]] else []) ++ e, seen')
  end.

(* the arguments of the entry instance: its defaults first (signature order), updated by entrypoint.execute[0].args *)
Definition entry_args (t : tmpl) (eargs : list (string * value)) : list (string * value) :=
  let defaulted := flat_map (fun pd => match snd pd with
                                       | Some d => [(fst pd, match lookup (fst pd) eargs with Some v => v | None => d end)]
                                       | None => [] end) (t_params t) in
  defaulted ++ filter (fun nv => negb (mem (fst nv) (map fst defaulted))) eargs.

Definition discover (N : ns) : res (list scope) :=
  let '(e1, seen) := dup_template_errs "workflows" [] 0 (map w_name (n_wfs N)) in
  let '(e2, _) := dup_template_errs "components" seen 0 (map c_name (n_comps N)) in
  match get_template N (n_entry N) with
  | None => Err (e1 ++ e2 ++ [[LS "entrypoint"; LS "entry-instance"]])
  | Some t =>
    match e1 ++ e2 with
    | _ :: _ => Err (e1 ++ e2)
    | [] =>
      let st := visit (S (S (length (n_wfs N)))) N [] None [ENTRY] (template_location N t) t (entry_args t (n_eargs N))
                      {| d_scopes := []; d_errs := []; d_abort := false; d_override := None; d_fuel := false |} in
      if d_fuel st then Unsupp else
      match d_override st with
      | Some e => Err e
      | None => match d_errs st with [] => Ok (d_scopes st) | e => Err e end
      end
    end
  end.

(* ------------------------------------------------------------------ resolution of one scope *)
Definition parent_loc (l : list string) : list string := removelast l.

(* Scope.replace_step_references on one token *)
Definition abs_tok (uid_parent : list string) (t : tok) : tok :=
  match t with
  | Out (h :: r) m => if String.eqb h ENTRY then t else Out (uid_parent ++ h :: r) m
  | _ => t
  end.
Definition absolutise (uid_parent : list string) (v : value) : value := map (abs_tok uid_parent) v.

Definition sibling_ok (siblings : list string) (t : tok) : bool :=
  match t with
  | Out (h :: _) _ => mem h siblings
  | Out [] _ => false
  | _ => true
  end.

(* the shape discipline of the token level: a partial reference is the sole token of its value *)
Definition is_partial_tok (t : tok) : bool :=
  match t with Out _ None => true | POut _ _ None => true | _ => false end.
Definition well_shaped (v : value) : bool :=
  match v with
  | [_] => true
  | _ => negb (existsb is_partial_tok v)
  end.

Inductive sres := SOk (v : value) | SUnknown | SUnsupp.

(* _replace_many_parameter_references: left to right, every reference not in [ign] is replaced by
   its value in [env]; the text filled in is not rescanned *)
Definition subst_tok (env : list (string * value)) (ign : list string) (t : tok) : sres :=
  match t with
  | Param x => if mem x ign then SOk [t]
               else match lookup x env with Some vx => SOk vx | None => SUnknown end
  | POut x p m => if mem x ign then SUnsupp
                  else match lookup x env with
                       | Some [Out q None] => SOk [Out (q ++ p) m]
                       | Some _ => SUnsupp
                       | None => SUnknown end
  | _ => SOk [t]
  end.
Fixpoint subst (env : list (string * value)) (ign : list string) (v : value) : sres :=
  match v with
  | [] => SOk []
  | t :: r => match subst_tok env ign t with
              | SOk h => match subst env ign r with SOk r' => SOk (h ++ r') | other => other end
              | other => other
              end
  end.

Definition needs_more (ign : list string) (v : value) : bool :=
  existsb (fun x => negb (mem x ign)) (refs_of v).

(* MAPPING (dictionary) values.  A mapping is written by the harness as ONE literal that holds its canonical
   JSON text; that text starts with "{" and the literal text of the fragment never does.  The branch
   `if isinstance(fillin, dict)` of _replace_many_parameter_references: the first reference (left to right, names
   in [ign] skipped) that is bound to a mapping ends the substitution -- with the mapping itself when the string
   is nothing but that reference (start == 0, match.start() == 0, match.end() == len(what): everything before it
   has been replaced by the empty text and nothing but empty text follows), with a ValueError otherwise
   ("Reference to a dictionary parameter ... in a string that contains more characters"). *)
Definition is_dict (v : value) : bool :=
  match v with [Lit s] => prefixb "{" s | _ => false end.
Definition empty_lit (t : tok) : bool := match t with Lit s => String.eqb s "" | _ => false end.

Inductive dref := DNone | DWhole (vx : value) | DSplice.

(* [pre]: the text before the current token (after substitution) is empty *)
Fixpoint dict_ref (env : list (string * value)) (ign : list string) (pre : bool) (v : value) : dref :=
  match v with
  | [] => DNone
  | Lit s :: r => dict_ref env ign (pre && String.eqb s "") r
  | Param x :: r =>
    if mem x ign then dict_ref env ign false r else
    match lookup x env with
    | Some vx => if is_dict vx then (if pre && forallb empty_lit r then DWhole vx else DSplice)
                 else dict_ref env ign (pre && forallb empty_lit vx) r
    | None => DNone                         (* unknown parameter: [subst] reports it *)
    end
  | POut x _ _ :: r =>
    if mem x ign then dict_ref env ign false r else
    match lookup x env with
    | Some vx => if is_dict vx then DSplice else dict_ref env ign false r
    | None => DNone
    end
  | Out _ _ :: r => dict_ref env ign false r
  end.

(* _replace_many_parameter_references with its dictionary branch; ValueError = SUnknown *)
Definition subst_d (env : list (string * value)) (ign : list string) (v : value) : sres :=
  match dict_ref env ign true v with
  | DSplice => SUnknown
  | DWhole vx => SOk vx
  | DNone => subst env ign v
  end.

(* replace_parameter_references: walk up one scope per round *)
Fixpoint resolve_loop (fuel : nat) (scs : list scope) (cur : list string) (ign : list string) (v : value) : sres :=
  if needs_more ign v then
    match fuel with
    | O => SUnknown
    | S f => match find_scope (parent_loc cur) scs with
             | None => SUnknown
             | Some p => match subst_d (s_pars p) ign v with
                         | SOk v' => if well_shaped v' then resolve_loop f scs (parent_loc cur) ign v' else SUnsupp
                         | other => other
                         end
             end
    end
  else SOk v.

Record rstate := { r_scopes : list scope; r_errs : list loc; r_unsupp : bool }.

Definition set_pars (sc : scope) (pars : list (string * value)) : scope :=
  {| s_loc := s_loc sc; s_dsl := s_dsl sc; s_tl := s_tl sc; s_tmpl := s_tmpl sc; s_pars := pars |}.
Definition replace_scope (sc : scope) (scs : list scope) : list scope :=
  map (fun s => if strs_eqb (s_loc s) (s_loc sc) then sc else s) scs.

(* resolve_scope of from_namespace for the scope at [s_loc sc] *)
Definition resolve_scope (st : rstate) (sc : scope) : rstate :=
  let scs := r_scopes st in
  let up := parent_loc (s_loc sc) in
  let siblings := match find_scope up scs with
                  | Some p => match s_tmpl p with
                              | TW w => filter (fun s => negb (String.eqb s (last (s_loc sc) "")))
                                               (map fst (w_steps w))
                              | TC _ => [] end
                  | None => [] end in
  let step (acc : list (string * value) * list loc * bool) (inv : nat * (string * value)) :=
      let '(pars, errs, uns) := acc in
      let '(i, (n, v)) := inv in
      let here := s_dsl sc ++ [LS "signature"; LS "parameters"; LN i] in
      (* 1. absolutise with the sibling check *)
      let '(v1, e1) := if forallb (sibling_ok siblings) v then (absolutise up v, []) else (v, [here]) in
      (* 2. parameters, walking up *)
      let '(v2, e2, u2) := match resolve_loop (length (s_loc sc)) scs (s_loc sc) ["replica"] v1 with
                           | SOk v' => (v', [], false)
                           | SUnknown => (v1, [here], false)
                           | SUnsupp => (v1, [], true) end in
      (* 3. absolutise again, no check *)
      let v3 := absolutise up v2 in
      (pars ++ [(n, v3)], errs ++ e1 ++ e2, uns || u2 || negb (well_shaped v)) in
  let '(pars, errs, uns) := fold_left step (enum (s_pars sc)) ([], [], false) in
  {| r_scopes := replace_scope (set_pars sc pars) scs; r_errs := r_errs st ++ errs;
     r_unsupp := r_unsupp st || uns |}.

Definition is_wf_scope (s : scope) : bool := match s_tmpl s with TW _ => true | TC _ => false end.

Definition resolve_all (scs : list scope) : rstate :=
  let st0 := {| r_scopes := scs; r_errs := []; r_unsupp := false |} in
  let st1 := fold_left resolve_scope (filter is_wf_scope scs) st0 in
  (* the component scopes are looked up again: their parents have been rewritten meanwhile *)
  fold_left resolve_scope (filter (fun s => negb (is_wf_scope s)) scs) st1.

(* ------------------------------------------------------------------ names *)
Fixpoint roman_aux (fuel n : nat) : string :=
  match fuel with
  | O => ""
  | S f => if Nat.leb 10 n then "X" +s+ roman_aux f (n - 10)
           else if Nat.leb 9 n then "IX" +s+ roman_aux f (n - 9)
           else if Nat.leb 5 n then "V" +s+ roman_aux f (n - 5)
           else if Nat.leb 4 n then "IV" +s+ roman_aux f (n - 4)
           else if Nat.leb 1 n then "I" +s+ roman_aux f (n - 1)
           else ""
  end.
Definition roman (n : nat) : string := roman_aux n n.

Definition is_lower (a : ascii) : bool := let n := nat_of_ascii a in Nat.leb 97 n && Nat.leb n 122.
Definition name_last (a : ascii) : bool :=
  is_upper a || is_lower a || Ascii.eqb a "_"%char || Ascii.eqb a "-"%char.
Definition name_char (a : ascii) : bool := name_last a || is_digit a || Ascii.eqb a "."%char.
Fixpoint last_char (s : string) : option ascii :=
  match s with EmptyString => None | String a EmptyString => Some a | String _ r => last_char r end.
Definition valid_name (s : string) : bool :=
  all_chars name_char s && match last_char s with Some a => name_last a | None => false end.
Fixpoint span_digits (s : string) : nat :=
  match s with String a r => if is_digit a then S (span_digits r) else O | EmptyString => O end.

(* SignatureNamePattern.fullmatch(name) -> (int(stage or 0), name) *)
Definition parse_name (s : string) : option (N * string) :=
  let plain := if valid_name s then Some (0%N, s) else None in
  if prefixb "stage" s then
    let r := drop 5 s in
    let k := span_digits r in
    let r2 := drop k r in
    match k, r2 with
    | S _, String "."%char nm =>
      if valid_name nm then match undec (take k r) with Some n => Some (n, nm) | None => plain end
      else plain
    | _, _ => plain
    end
  else plain.

Definition cid := (N * string)%type.
Definition cid_eqb (a b : cid) : bool := N.eqb (fst a) (fst b) && String.eqb (snd a) (snd b).
Definition cid_mem (a : cid) (l : list cid) : bool := existsb (cid_eqb a) l.

Fixpoint set_count (k : string) (n : nat) (m : list (string * nat)) : list (string * nat) :=
  match m with
  | [] => [(k, n)]
  | (k', v) :: r => if String.eqb k k' then (k, n) :: r else (k', v) :: set_count k n r
  end.

Inductive pick := Picked (c : cid) (counts : list (string * nat)) | BadName (counts : list (string * nat)) | NoFuel.

(* the while-loop that names one component *)
Fixpoint pick_name (fuel : nat) (step : string) (counts : list (string * nat)) (taken : list cid) : pick :=
  match fuel with
  | O => NoFuel
  | S f =>
    let '(name, counts') := match lookup step counts with
                            | None => (step, set_count step 0 counts)
                            | Some k => (step +s+ "-" +s+ roman (S k), set_count step (S k) counts)
                            end in
    match parse_name name with
    | None => BadName counts'
    | Some c => if cid_mem c taken then pick_name f step counts' taken else Picked c counts'
    end
  end.

Record nstate := { n_names : list (list string * cid); n_counts : list (string * nat);
                   n_errs : list loc; n_nofuel : bool }.

Definition assign_one (st : nstate) (sc : scope) : nstate :=
  match pick_name (S (S (length (n_names st)))) (last (s_loc sc) "") (n_counts st) (map snd (n_names st)) with
  | Picked c counts => {| n_names := n_names st ++ [(s_loc sc, c)]; n_counts := counts;
                          n_errs := n_errs st; n_nofuel := n_nofuel st |}
  | BadName counts => {| n_names := n_names st; n_counts := counts;
                         n_errs := n_errs st ++ [s_dsl sc]; n_nofuel := n_nofuel st |}
  | NoFuel => {| n_names := n_names st; n_counts := n_counts st; n_errs := n_errs st; n_nofuel := true |}
  end.

Definition assign_names (comps : list scope) : nstate :=
  fold_left assign_one comps {| n_names := []; n_counts := []; n_errs := []; n_nofuel := false |}.

(* ------------------------------------------------------------------ producers *)
(* OutputReference.split: the longest named location that is a prefix of the path *)
Fixpoint split_ref (names : list (list string * cid)) (path : list string) (best : option (list string * cid))
  : option (list string * cid) :=
  match names with
  | [] => best
  | (l, c) :: r =>
    let better := match best with Some (b, _) => Nat.ltb (length b) (length l) | None => Nat.ltb 0 (length l) end in
    if prefix_of l path && better then split_ref r path (Some (l, c)) else split_ref r path best
  end.

Definition render_ref (c : cid) (file : list string) (m : string) : string :=
  "stage" +s+ dec (fst c) +s+ "." +s+ snd c
  +s+ (match file with [] => "" | _ => "/" +s+ join "/" file end) +s+ ":" +s+ m.

(* Out p (Some m) -> its DataReference string *)
Definition conv (names : list (list string * cid)) (p : list string) (m : string) : option string :=
  match split_ref names p None with
  | Some (l, c) => Some (render_ref c (skipn (length l) p) m)
  | None => None
  end.

(* ------------------------------------------------------------------ one component *)
Record cinst := { ci_loc : list string; ci_id : cid; ci_refs : list string; ci_args : string }.

Definition render_tok (names : list (list string * cid)) (t : tok) : string :=
  match t with
  | Lit s => s
  | Param x => "%(" +s+ x +s+ ")s"
  | Out p (Some m) => match conv names p m with Some s => s | None => "?" end
  | Out p None => "?"
  | POut x p m => "?"
  end.

Definition outs_of (v : value) : list (list string * string) :=
  flat_map (fun t => match t with Out p (Some m) => [(p, m)] | _ => [] end) v.
Definition partials_of (v : value) : list (list string) :=
  flat_map (fun t => match t with Out p None => [p] | _ => [] end) v.

Definition comp_index (N : ns) (c : comp) : loc := template_location N (TC c).

(* ComponentFlowIR.resolve_parameter_references on command.arguments: (tokens, errors, unsupported) *)
Definition comp_args (N : ns) (sc : scope) (c : comp) : value * list loc * bool :=
  let here := comp_index N c ++ [LS "command"; LS "arguments"] in
  if needs_more (c_vars c) (c_args c) then
    match subst_d (s_pars sc) (c_vars c) (c_args c) with
    | SOk v => if needs_more (c_vars c) v then (c_args c, [here], false) else (v, [], false)
    | SUnknown => (c_args c, [here], false)
    | SUnsupp => (c_args c, [], true)
    end
  else (c_args c, [], false).

(* ComponentFlowIR.convert_outputreferences_to_datareferences: (refs, errors) *)
Definition convert (names : list (list string * cid)) (sc : scope) (args : value)
  : list string * list loc :=
  match partials_of args with
  | _ :: _ => ([], [s_dsl sc])      (* raises; caught by namespace_to_flowir, reported at the scope location *)
  | [] =>
    let aouts := outs_of args in
    let e_partial := flat_map (fun inv => let '(i, (n, v)) := inv in
                        flat_map (fun p => if existsb (fun pm => strs_eqb (fst pm) p) aouts then []
                                           else [s_dsl sc ++ [LS "signature"; LS "parameters"; LN i; LS n]])
                                 (partials_of v)) (enum (s_pars sc)) in
    let pouts := flat_map (fun nv => outs_of (snd nv)) (s_pars sc) in
    let conv_all := map (fun pm => conv names (fst pm) (snd pm)) (pouts ++ aouts) in
    let e_conv := flat_map (fun o => match o with None => [s_dsl sc] | Some _ => [] end) conv_all in
    (flat_map (fun o => match o with Some s => [s] | None => [] end) conv_all, e_partial ++ e_conv)
  end.

Fixpoint lookup_loc (l : list string) (m : list (list string * cid)) : option cid :=
  match m with [] => None | (k, v) :: r => if strs_eqb k l then Some v else lookup_loc l r end.

(* ------------------------------------------------------------------ the compiler *)
Definition compile (N : ns) : res (list cinst) :=
  match discover N with
  | Err e => Err e
  | Unsupp => Unsupp
  | Ok scs0 =>
    let rs := resolve_all scs0 in
    if r_unsupp rs then Unsupp else
    match r_errs rs with
    | _ :: _ => Err (r_errs rs)
    | [] =>
      let comps := filter (fun s => negb (is_wf_scope s)) (r_scopes rs) in
      let nst := assign_names comps in
      if n_nofuel nst then Unsupp else
      match n_errs nst with
      | _ :: _ => Err (n_errs nst)
      | [] =>
        let names := n_names nst in
        let one (sc : scope) : option (cinst * list loc * bool) :=
            match s_tmpl sc, lookup_loc (s_loc sc) names with
            | TC c, Some id =>
              let '(args, e1, u) := comp_args N sc c in
              let '(refs, e2) := convert names sc args in
              Some ({| ci_loc := s_loc sc; ci_id := id; ci_refs := refs;
                       ci_args := String.concat "" (map (render_tok names) args) |}, e1 ++ e2, u)
            | _, _ => None
            end in
        let results := map one comps in
        if existsb (fun r => match r with Some (_, _, u) => u | None => true end) results then Unsupp else
        match flat_map (fun r => match r with Some (_, e, _) => e | None => [] end) results with
        | (_ :: _) as e => Err e
        | [] => Ok (flat_map (fun r => match r with Some (ci, _, _) => [ci] | None => [] end) results)
        end
      end
    end
  end.

(* ------------------------------------------------------------------ correspondence checker *)
Inductive impl_res :=
| IOk (cs : list (N * string * list string * string))   (* stage, name, references, arguments *)
| IErr (ls : list loc)                                  (* DSLInvalidError: locations *)
| IExc (s : string).                                    (* any other exception: its class *)

Definition lel_eqb (a b : lel) : bool :=
  match a, b with LS x, LS y => String.eqb x y | LN x, LN y => Nat.eqb x y | _, _ => false end.
Definition loc_eqb := list_eqb lel_eqb.
Definition subset {A} (e : A -> A -> bool) (a b : list A) : bool := forallb (fun x => existsb (e x) b) a.
Definition set_eqb {A} (e : A -> A -> bool) (a b : list A) : bool := subset e a b && subset e b a.

Definition inst_eqb (ci : cinst) (c : N * string * list string * string) : bool :=
  let '(st, nm, refs, args) := c in
  cid_eqb (ci_id ci) (st, nm) && set_eqb String.eqb (ci_refs ci) refs && String.eqb (ci_args ci) args.

Definition check_case (x : ns * impl_res) : bool :=
  match compile (fst x), snd x with
  | Ok cis, IOk cs => Nat.eqb (length cis) (length cs)
                      && forallb (fun ci => existsb (inst_eqb ci) cs) cis
                      && forallb (fun c => existsb (fun ci => inst_eqb ci c) cis) cs
  | Err e, IErr ls => set_eqb loc_eqb e ls
  | _, _ => false
  end.

(* ------------------------------------------------------------------ the naming loop BEFORE fix 11f7d86
   (kept only for Refuted.v): one iteration, the names already taken are not consulted *)
Definition assign_one_old (st : nstate) (sc : scope) : nstate :=
  match pick_name 1 (last (s_loc sc) "") (n_counts st) [] with
  | Picked c counts => {| n_names := n_names st ++ [(s_loc sc, c)]; n_counts := counts;
                          n_errs := n_errs st; n_nofuel := n_nofuel st |}
  | BadName counts => {| n_names := n_names st; n_counts := counts;
                         n_errs := n_errs st ++ [s_dsl sc]; n_nofuel := n_nofuel st |}
  | NoFuel => st
  end.
Definition assign_names_old (comps : list scope) : nstate :=
  fold_left assign_one_old comps {| n_names := []; n_counts := []; n_errs := []; n_nofuel := false |}.
