(* C10 — executable model of what a declared reference is worth in a command line:
   DataReference.absoluteReference / relativeReference (the two spellings), DataReference.resolve
   (python/experiment/model/graph.py) for the non-loop methods, and the way resolveArguments turns the
   outcome of resolve into the substituted value.

   A reference is given as the real DataReference object exposes it: producer identifier
   ("stage0.A"), relative identifier ("A"), file part as written (None if absent), method; whether
   the producer is a node of the graph (else: a direct reference to a path under the instance) and
   the location resolve starts from (rootStorage.workingDirectoryForComponent / resolvePath).
   The file system is a finite map from normalised absolute paths to nodes.  A producer is repeating
   (workflowAttributes.isRepeat) or not: the stdout of a repeating producer is the archived stream file
   streams/<n>.stdout with the greatest INTEGER n (ComponentSpecification.path_to_stdout; RepeatingEngine
   archives the stdout of every execution there, experiment.runtime.engine.archive_stream, keeping the 5
   newest).  Not modelled: loopref / loopoutput (placeholders of DoWhile loops), glob patterns in the
   file part, "..", symbolic links, non-ASCII contents, files in a streams directory whose name before
   ".stdout" is not a string of decimal digits (int() of the code raises ValueError on them). *)
From Coq Require Import String Ascii List Bool Arith NArith.
Import ListNotations.
Require Import V.Lib.PyStr V.Args.Model.
Open Scope string_scope.

Record sref := mk_sref {
  s_id : string;              (* producerIdentifier.identifier *)
  s_relid : string;           (* producerIdentifier.relativeIdentifier *)
  s_file : option string;     (* fileRef, as written in the declaration *)
  s_method : string;
  s_direct : bool;            (* no node of that name in the graph: direct reference *)
  s_loc : string;             (* working directory of the producer / resolved path of the direct producer *)
  s_repeat : bool             (* the producer is a repeating component (workflowAttributes['isRepeat']) *)
}.

(* ---- posixpath.join(a, b) *)
Fixpoint ends_slash (s : string) : bool :=
  match s with
  | EmptyString => false
  | String c EmptyString => Ascii.eqb c "/"%char
  | String _ s' => ends_slash s'
  end.
Definition path_join (a b : string) : string :=
  if prefixb "/" b then b
  else if (negb (nonempty a)) || ends_slash a then a ++ b
  else a ++ "/" ++ b.

(* ---- the spellings: "%s:%s" % (os.path.join(identifier, fileRef) | identifier, method) *)
Definition spelling (id : string) (file : option string) (m : string) : string :=
  (match file with None => id | Some f => path_join id f end) ++ ":" ++ m.
Definition s_abs (r : sref) : string := spelling (s_id r) (s_file r) (s_method r).
Definition s_rel (r : sref) : string := spelling (s_relid r) (s_file r) (s_method r).

(* ---- the file system as resolve sees it (glob.glob of a pattern without magic characters,
   os.path.exists, os.path.isfile, open().read()) *)
Inductive node := File (c : string) | Dir.
Definition fsys := list (string * node).

Definition keep_seg (s : string) : bool := negb (String.eqb s "" || String.eqb s ".").
(* what the kernel makes of a path when it walks it: empty and "." segments are skipped *)
Definition norm_path (p : string) : string :=
  (if prefixb "/" p then "/" else "") ++ join "/" (filter keep_seg (split_on "/"%char p)).
(* a path whose last segment is empty or "." names a directory or nothing *)
Definition wants_dir (p : string) : bool := negb (keep_seg (List.last (split_on "/"%char p) "x")).
Fixpoint assoc (k : string) (fs : fsys) : option node :=
  match fs with
  | [] => None
  | (k', n) :: rest => if String.eqb k k' then Some n else assoc k rest
  end.
Definition lookup (fs : fsys) (p : string) : option node :=
  match assoc (norm_path p) fs with
  | Some (File c) => if wants_dir p then None else Some (File c)
  | x => x
  end.

(* ---- str.rstrip('\n') *)
Definition nl : ascii := "010"%char.
Fixpoint rstrip_nl (s : string) : string :=
  match s with
  | EmptyString => EmptyString
  | String c s' => match rstrip_nl s' with
                   | EmptyString => if Ascii.eqb c nl then EmptyString else String c EmptyString
                   | t => String c t
                   end
  end.

(* ---- DataReference.resolve *)
Inductive rres :=
| Val (v : string)
| Missing            (* DataReferenceFilesDoNotExistError *)
| Inconsistent       (* DataReferenceInconsistencyError: an :output reference to a directory *)
| Unmodelled.        (* loopref / loopoutput *)

Definition is_loop (m : string) : bool := String.eqb m "loopref" || String.eqb m "loopoutput".
Definition is_output (m : string) : bool := String.eqb m "output".
Definition is_some {A} (o : option A) : bool := match o with Some _ => true | None => false end.

Definition reference_path (r : sref) : string :=
  match s_file r with None => s_loc r | Some f => path_join (s_loc r) f end.

(* ---- ComponentSpecification.path_to_stdout: out.stdout in the working directory; for a repeating
   producer the archived stream with the greatest index:
     existing = glob.glob(<location>/streams/*.stdout)      (names starting with "." do not match "*")
     existing = [stream_path_to_index(p) ...]               (int() of the name before ".stdout")
     none -> DataReferenceFilesDoNotExistError; else <location>/streams/<"%d" % max(existing)>.stdout
   The indices are compared as INTEGERS (9 < 10) and the path is rebuilt from the index. *)
Fixpoint suffixb (suf s : string) : bool :=
  String.eqb suf s || match s with EmptyString => false | String _ s' => suffixb suf s' end.
(* the name of [key] inside the directory [dir] (None: not a direct child of it) *)
Definition child_name (dir key : string) : option string :=
  let d := norm_path dir ++ "/" in
  if prefixb d key then
    let n := drop (String.length d) key in
    if occurs "/" n || negb (nonempty n) then None else Some n
  else None.
(* glob "*.<type>" + os.path.splitext: the part of the file name before ".<type>" *)
Definition stream_name (ext fn : string) : option string :=
  if suffixb ext fn && negb (prefixb "." fn) then Some (take (String.length fn - String.length ext) fn) else None.
(* int(name): strings of decimal digits (leading zeros allowed); anything else is outside the model *)
Definition stream_index (nm : string) : option N :=
  if nonempty nm && all_chars is_digit nm then undec nm else None.
Definition entry_index (dir : string) (kn : string * node) : list N :=
  match child_name dir (fst kn) with
  | Some fn => match stream_name ".stdout" fn with
               | Some nm => match stream_index nm with Some i => [i] | None => [] end
               | None => []
               end
  | None => []
  end.
Definition stream_indices (fs : fsys) (dir : string) : list N := flat_map (entry_index dir) fs.
(* max(existing) over integers; None for the empty list *)
Definition max_index (l : list N) : option N :=
  match l with [] => None | i :: rest => Some (fold_left N.max rest i) end.
Definition streams_dir (r : sref) : string := path_join (s_loc r) "streams".
Definition stream_path (r : sref) (i : N) : string := path_join (streams_dir r) (dec i ++ ".stdout").
Definition path_to_stdout (fs : fsys) (r : sref) : option string :=
  if s_repeat r then
    match max_index (stream_indices fs (streams_dir r)) with
    | Some i => Some (stream_path r i)
    | None => None                                   (* DataReferenceFilesDoNotExistError *)
    end
  else Some (path_join (s_loc r) "out.stdout").

Definition resolve (fs : fsys) (r : sref) : rres :=
  if is_loop (s_method r) then Unmodelled
  else if is_output (s_method r) then
    let input :=
      if s_direct r || is_some (s_file r) then
        (* matched = glob.glob(reference): the path as written if it exists *)
        match lookup fs (reference_path r) with Some _ => Some (reference_path r) | None => None end
      else path_to_stdout fs r                          (* producer_spec.path_to_stdout() *)
    in
    match input with
    | None => Missing
    | Some f => match lookup fs f with
                | None => Missing
                | Some Dir => Inconsistent
                | Some (File c) => Val (rstrip_nl c)
                end
    end
  else Val (reference_path r).

(* ---- resolveArguments: the value it substitutes (None: it raises instead) *)
Definition sub_method (m : string) : bool :=
  String.eqb m "ref" || String.eqb m "output" || is_loop m.
Definition arg_value (fs : fsys) (r : sref) : option string :=
  match resolve fs r with
  | Val v => Some v
  | Missing => if is_output (s_method r) then Some "" else None
  | Inconsistent | Unmodelled => None
  end.
Definition to_dref (fs : fsys) (r : sref) : option dref :=
  match arg_value fs r with
  | Some v => Some (mk_ref (s_abs r) (s_rel r) (sub_method (s_method r)) v)
  | None => None
  end.
Fixpoint to_drefs (fs : fsys) (rs : list sref) : option (list dref) :=
  match rs with
  | [] => Some []
  | r :: rest => match to_dref fs r, to_drefs fs rest with
                 | Some d, Some ds => Some (d :: ds)
                 | _, _ => None
                 end
  end.

(* ---- the specification in terms of the references themselves: a token that is one of the two
   spellings of a declared substitutable reference becomes that reference's own value *)
Definition s_denotes (r : sref) (t : string) : bool :=
  sub_method (s_method r) && (String.eqb t (s_abs r) || String.eqb t (s_rel r)).
Definition render_own (fs : fsys) (rs : list sref) (p : piece) : piece :=
  match p with
  | Lit s => Lit s
  | Tok t => match List.find (fun r => s_denotes r t) rs with
             | Some r => match arg_value fs r with Some v => Lit v | None => Tok t end
             | None => Tok t
             end
  end.
Definition spec_own (fs : fsys) (rs : list sref) (ps : list piece) : string :=
  flatten (map (render_own fs rs) ps).

(* ---- repeated resolution on one live graph.  resolveArguments keeps nothing between two calls: every
   call asks DataReference.resolve again, so what it answers is a function of the references, the
   argument string and the file system AT THE TIME OF THE CALL (None: it raises).  A session is a
   sequence of calls (through ComponentSpecification.resolveArguments, Job.resolveArguments or
   Job.command.arguments: the last two hand over to the first) between which the files of the
   producers are rewritten, created or deleted: one file system per call. *)
Definition resolve_on (fs : fsys) (rs : list sref) (args : string) : option string :=
  match to_drefs fs rs with
  | Some ds => Some (resolve_args ds args)
  | None => None
  end.
Definition session (rs : list sref) (args : string) (fss : list fsys) : list (option string) :=
  map (fun fs => resolve_on fs rs args) fss.
(* the specification of one call: the token-wise substitution with the values of THAT file system *)
Definition spec_on (fs : fsys) (rs : list sref) (ps : list piece) : option string :=
  match to_drefs fs rs with
  | Some _ => Some (spec_own fs rs ps)
  | None => None
  end.
(* the hypothesis of C10_exact for the values a file system gives *)
Definition separated_onb (fs : fsys) (rs : list sref) (ps : list piece) : bool :=
  match to_drefs fs rs with
  | Some ds => separatedb ds ps
  | None => true
  end.

(* ---- correspondence checker for the values:
   case = ((reference, file system), ((absoluteReference, relativeReference), outcome of resolve))
   outcome: "V" ++ value | name of the exception class *)
Definition outcome (x : rres) : string :=
  match x with
  | Val v => "V" ++ v
  | Missing => "DataReferenceFilesDoNotExistError"
  | Inconsistent => "DataReferenceInconsistencyError"
  | Unmodelled => "unmodelled"
  end.
Definition check_value (c : (sref * fsys) * ((string * string) * string)) : bool :=
  let '((r, fs), ((a, rl), o)) := c in
  String.eqb (s_abs r) a && String.eqb (s_rel r) rl && String.eqb (outcome (resolve fs r)) o.

(* case = ((reference, file system), the dref the harness gave to check_case for that reference):
   the spellings and values given to the model of resolveArguments are those of this model *)
Definition check_dref (c : (sref * fsys) * dref) : bool :=
  let '((r, fs), d) := c in
  match to_dref fs r with Some d' => dref_eqb d' d | None => false end.

(* ---- correspondence checker for one call of a session:
   case = (((references in the order the code iterates, pieces), file system walked just before the call),
           what the call returned: "V" ++ resolved string | "E" (it raised)) *)
Definition shown (o : option string) : string := match o with Some v => "V" ++ v | None => "E" end.
Definition check_live (c : ((list sref * list piece) * fsys) * string) : bool :=
  let '(((rs, ps), fs), out) := c in
  String.eqb (shown (resolve_on fs rs (flatten ps))) out &&
  same_tokenisation ps &&
  (negb (separated_onb fs rs ps) || String.eqb (shown (spec_on fs rs ps)) out).
