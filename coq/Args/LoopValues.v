(* C10 — theorems about the model of references to the placeholder of a looped component (LoopModel.v). *)
From Coq Require Import String Ascii List Bool Arith Lia NArith Permutation Sorted.
Import ListNotations.
Require Import V.Lib.PyStr V.Args.Model V.Args.Proofs V.Args.ValueModel V.Args.Values V.Args.LoopModel.
Open Scope string_scope.

Definition iter_le (a b : inst) : Prop := (i_iter a <= i_iter b)%N.

(* ------------------------------------------------------------------ the order of the iterations *)
Lemma insert_perm x : forall l, Permutation (insert_inst x l) (x :: l).
Proof.
  induction l as [|y t IH]; cbn [insert_inst]; [apply Permutation_refl|].
  destruct (i_iter x <? i_iter y)%N; [apply Permutation_refl|].
  eapply Permutation_trans; [apply perm_skip, IH|apply perm_swap].
Qed.

Theorem sort_insts_perm : forall l, Permutation (sort_insts l) l.
Proof.
  induction l as [|x t IH]; cbn [sort_insts]; [apply perm_nil|].
  eapply Permutation_trans; [apply insert_perm|apply perm_skip, IH].
Qed.

Lemma insert_sorted x : forall l, StronglySorted iter_le l -> StronglySorted iter_le (insert_inst x l).
Proof.
  induction l as [|y t IH]; intros S; cbn [insert_inst].
  - constructor; constructor.
  - inversion S as [|? ? St Fy]; subst.
    destruct (i_iter x <? i_iter y)%N eqn:C.
    + apply N.ltb_lt in C. constructor; [exact S|]. constructor; [unfold iter_le; lia|].
      eapply Forall_impl; [|exact Fy]. unfold iter_le. intros a Ha. lia.
    + apply N.ltb_ge in C. constructor; [apply IH, St|].
      eapply Permutation_Forall; [apply Permutation_sym, insert_perm|]. constructor; [exact C|exact Fy].
Qed.

Theorem sort_insts_sorted : forall l, StronglySorted iter_le (sort_insts l).
Proof.
  induction l as [|x t IH]; cbn [sort_insts]; [constructor|apply insert_sorted, IH].
Qed.

Lemma sort_insts_length l : List.length (sort_insts l) = List.length l.
Proof. apply Permutation_length, sort_insts_perm. Qed.

(* the latest instance: one of the instances, with the greatest iteration number *)
Lemma fold_later_spec : forall t x,
  In (fold_left later t x) (x :: t) /\ (forall i, In i (x :: t) -> iter_le i (fold_left later t x)).
Proof.
  induction t as [|y t IH]; intros x; cbn [fold_left].
  - split; [left; reflexivity|]. intros i [<-|[]]. unfold iter_le. lia.
  - destruct (IH (later x y)) as [I M]. unfold later in *. split.
    + destruct I as [E|I]; [|right; right; exact I]. rewrite <- E.
      destruct (i_iter x <? i_iter y)%N; [right; left|left]; reflexivity.
    + assert (Hx : iter_le x (fold_left (fun m y0 => if (i_iter m <? i_iter y0)%N then y0 else m) t
                                (if (i_iter x <? i_iter y)%N then y else x)) /\
                   iter_le y (fold_left (fun m y0 => if (i_iter m <? i_iter y0)%N then y0 else m) t
                                (if (i_iter x <? i_iter y)%N then y else x))).
      { specialize (M _ (or_introl eq_refl)). unfold iter_le in *.
        destruct (i_iter x <? i_iter y)%N eqn:C; [apply N.ltb_lt in C|apply N.ltb_ge in C]; split; lia. }
      intros i [<-|[<-|I']]; [apply Hx|apply Hx|]. apply M. right. exact I'.
Qed.

Theorem latest_inst_spec l m :
  latest_inst l = Some m -> In m l /\ (forall i, In i l -> iter_le i m).
Proof.
  destruct l as [|x t]; [discriminate|]. cbn [latest_inst]. intros H. injection H as <-. apply fold_later_spec.
Qed.

Lemma latest_inst_some l : l <> [] -> exists m, latest_inst l = Some m.
Proof. destruct l as [|x t]; [congruence|]. intros _. eexists. reflexivity. Qed.

(* ------------------------------------------------------------------ values *)
Lemma is_loop_loopoutput m : is_loop m = false -> is_loopoutput m = false.
Proof. unfold is_loop, is_loopoutput. intros H. apply orb_false_elim in H as [_ H]. exact H. Qed.

Lemma lvalue_of_rres fs l r :
  s_method r = l_method l -> is_loop (l_method l) = false ->
  match of_rres (resolve fs r) with
  | LVal v => Some v
  | LMissing n => if tolerant (l_method l) && Nat.eqb n 1 then Some "" else None
  | LInconsistent => None
  end = arg_value fs r.
Proof.
  intros M L. unfold arg_value. rewrite M. destruct (resolve fs r); cbn [of_rres]; try reflexivity.
  unfold tolerant. rewrite (is_loop_loopoutput _ L). cbn [Nat.eqb]. rewrite orb_false_r, andb_true_r. reflexivity.
Qed.

(* a reference to an ordinary producer: as ValueModel *)
Theorem value_plain fs l :
  l_insts l = None -> is_loop (l_method l) = false -> lvalue fs l = arg_value fs (l_ref l).
Proof.
  intros N L. unfold lvalue, lresolve. rewrite N, L. apply lvalue_of_rres; [reflexivity|exact L].
Qed.

(* a non-aggregating reference to a placeholder: the value the same reference has against the latest
   instance (its working directory, its stdout) *)
Theorem value_placeholder fs l insts i :
  l_insts l = Some insts -> is_loop (l_method l) = false -> latest_inst insts = Some i ->
  lvalue fs l = arg_value fs (inst_sref l i).
Proof.
  intros N L T. unfold lvalue, lresolve. rewrite N, L, T. apply lvalue_of_rres; [reflexivity|exact L].
Qed.

Lemma all_some_map {A B} (f : A -> B) : forall l, all_some (map (fun x => Some (f x)) l) = Some (map f l).
Proof. induction l as [|x t IH]; cbn [map all_some]; [reflexivity|]. rewrite IH. reflexivity. Qed.

(* loopref: one path per instance, in iteration order *)
Theorem value_loopref fs l insts :
  l_insts l = Some insts -> l_method l = "loopref" ->
  lvalue fs l = Some (join " " (map (fun i => reference_path (inst_sref l i)) (sort_insts insts))).
Proof.
  intros N M. unfold lvalue, lresolve, resolve_loop. rewrite N, M.
  cbn [is_loop String.eqb Ascii.eqb Bool.eqb orb].
  rewrite (map_ext (loop_target fs l) (fun i => Some (reference_path (inst_sref l i)))).
  - rewrite all_some_map. unfold is_loopoutput. cbn [String.eqb Ascii.eqb Bool.eqb]. reflexivity.
  - intros i. unfold loop_target, inst_sref. cbn [s_method]. unfold l_method in M. rewrite M.
    unfold is_loopoutput. cbn [String.eqb Ascii.eqb Bool.eqb]. reflexivity.
Qed.

(* the paths loopoutput reads *)
Definition loop_paths (fs : fsys) (l : lref) (insts : list inst) : option (list string) :=
  all_some (map (loop_target fs l) (sort_insts insts)).

Lemma loop_paths_file fs l insts f :
  l_method l = "loopoutput" -> s_file (l_ref l) = Some f ->
  loop_paths fs l insts = Some (map (fun i => path_join (i_loc i) f) (sort_insts insts)).
Proof.
  intros M F. unfold loop_paths.
  rewrite (map_ext (loop_target fs l) (fun i => Some (path_join (i_loc i) f))); [apply all_some_map|].
  intros i. unfold loop_target, inst_sref. cbn [s_method s_file]. unfold l_method in M. rewrite M, F.
  unfold is_loopoutput. cbn [String.eqb Ascii.eqb Bool.eqb]. reflexivity.
Qed.

Lemma loop_paths_stdout fs l insts :
  l_method l = "loopoutput" -> s_file (l_ref l) = None -> forallb (fun i => negb (i_repeat i)) insts = true ->
  loop_paths fs l insts = Some (map (fun i => path_join (i_loc i) "out.stdout") (sort_insts insts)).
Proof.
  intros M F R. unfold loop_paths.
  rewrite (map_ext_in (loop_target fs l) (fun i => Some (path_join (i_loc i) "out.stdout"))); [apply all_some_map|].
  intros i I. unfold loop_target, inst_sref. cbn [s_method s_file]. unfold l_method in M. rewrite M, F.
  unfold is_loopoutput. cbn [String.eqb Ascii.eqb Bool.eqb]. unfold path_to_stdout. cbn [s_repeat s_loc].
  rewrite forallb_forall in R. specialize (R i (Permutation_in _ (sort_insts_perm insts) I)).
  apply negb_true_iff in R. rewrite R. reflexivity.
Qed.

(* loopoutput: one field per instance, in iteration order; an empty file keeps its (empty) field *)
Theorem value_loopoutput fs l insts paths :
  l_insts l = Some insts -> l_method l = "loopoutput" -> loop_paths fs l insts = Some paths ->
  let cs := map (field_content fs) paths in
  (List.length (filter is_none cs) = 0 -> lvalue fs l = Some (join " " (map or_empty cs))) /\
  (List.length (filter is_none cs) = 1 -> lvalue fs l = Some "") /\
  (List.length (filter is_none cs) >= 2 -> lvalue fs l = None).
Proof.
  intros N M P cs. unfold lvalue, lresolve, resolve_loop. unfold loop_paths in P. rewrite N, M, P.
  cbn [is_loop String.eqb Ascii.eqb Bool.eqb orb]. unfold is_loopoutput, tolerant, is_loopoutput.
  cbn [String.eqb Ascii.eqb Bool.eqb orb is_output]. fold cs.
  destruct (List.length (filter is_none cs)) as [|[|n]] eqn:E; repeat split; intros H; try reflexivity; try lia.
Qed.

Lemma loop_paths_length fs l insts paths :
  loop_paths fs l insts = Some paths -> List.length paths = List.length insts.
Proof.
  unfold loop_paths. rewrite <- (sort_insts_length insts), <- (map_length (loop_target fs l)).
  generalize (map (loop_target fs l) (sort_insts insts)). intros os. revert paths.
  induction os as [|[x|] t IH]; intros paths H; cbn [all_some] in H.
  - injection H as <-. reflexivity.
  - destruct (all_some t) as [r|]; [|discriminate]. injection H as <-. cbn [List.length]. f_equal. apply IH. reflexivity.
  - discriminate.
Qed.

(* ------------------------------------------------------------------ link with resolveArguments *)
Lemma to_dref_l_fields fs l d :
  to_dref_l fs l = Some d ->
  r_abs d = l_abs l /\ r_rel d = l_rel l /\ r_sub d = sub_method (l_method l) /\ lvalue fs l = Some (r_val d).
Proof.
  unfold to_dref_l. destruct (lvalue fs l) as [v|]; [|discriminate]. intros H. injection H as <-.
  cbn. repeat split.
Qed.

Lemma denotes_to_dref_l fs l d t : to_dref_l fs l = Some d -> denotes d t = l_denotes l t.
Proof.
  intros H. apply to_dref_l_fields in H as [A [R [S _]]]. unfold denotes, spells, l_denotes, s_denotes.
  rewrite A, R, S. reflexivity.
Qed.

Lemma render_to_drefs_l fs : forall ls ds p,
  to_drefs_l fs ls = Some ds -> render ds p = render_own_l fs ls p.
Proof.
  intros ls ds [s|t]; [reflexivity|]. revert ds.
  induction ls as [|l rest IH]; intros ds H.
  - injection H as <-. reflexivity.
  - cbn [to_drefs_l] in H. destruct (to_dref_l fs l) as [d|] eqn:D; [|discriminate].
    destruct (to_drefs_l fs rest) as [ds'|] eqn:R; [|discriminate]. injection H as <-.
    rewrite render_cons. cbn [render_own_l List.find]. rewrite (denotes_to_dref_l fs l d t D).
    destruct (l_denotes l t).
    + apply to_dref_l_fields in D as [_ [_ [_ V]]]. rewrite V. reflexivity.
    + specialize (IH ds' eq_refl). cbn [render_own_l] in IH. exact IH.
Qed.

Lemma spec_to_drefs_l fs ls ds ps : to_drefs_l fs ls = Some ds -> spec ds ps = spec_own_l fs ls ps.
Proof.
  intros H. unfold spec, spec_own_l. f_equal. apply map_ext. intros p. apply render_to_drefs_l, H.
Qed.

Theorem exact_values_l fs ls ds ps :
  to_drefs_l fs ls = Some ds -> separated ds ps ->
  resolve_args ds (flatten ps) = spec_own_l fs ls ps.
Proof. intros H S. rewrite (exact ds ps S). apply spec_to_drefs_l, H. Qed.

Lemma render_own_l_value fs ls t l :
  List.find (fun l => l_denotes l t) ls = Some l ->
  render_own_l fs ls (Tok t) = match lvalue fs l with Some v => Lit v | None => Tok t end.
Proof. intros F. cbn [render_own_l]. rewrite F. reflexivity. Qed.

Theorem exact_on_l fs ls ps :
  separated_onb_l fs ls ps = true -> resolve_on_l fs ls (flatten ps) = spec_on_l fs ls ps.
Proof.
  unfold separated_onb_l, resolve_on_l, spec_on_l. destruct (to_drefs_l fs ls) as [ds|] eqn:D; [|reflexivity].
  intros S. f_equal. apply (exact_values_l fs ls ds ps D). apply separatedb_sound, S.
Qed.

(* a loop that advances while an outside consumer is resolved again and again: every answer is the token-wise
   substitution with the instances and the file system of its own call *)
Theorem exact_loop_session ls ps steps :
  forallb (fun st => separated_onb_l (snd st) (map (with_insts (fst st)) ls) ps) steps = true ->
  loop_session ls (flatten ps) steps =
  map (fun st => spec_on_l (snd st) (map (with_insts (fst st)) ls) ps) steps.
Proof.
  intros H. unfold loop_session. apply map_ext_in. intros st I.
  apply exact_on_l. rewrite forallb_forall in H. apply (H st I).
Qed.

(* loopoutput on instances that do not repeat, in one statement: the file each field is read from is the file
   part as written, or out.stdout *)
Definition loop_file (l : lref) : string := match s_file (l_ref l) with Some f => f | None => "out.stdout" end.

Theorem value_loopoutput_plain fs l insts :
  l_insts l = Some insts -> l_method l = "loopoutput" ->
  (s_file (l_ref l) = None -> forallb (fun i => negb (i_repeat i)) insts = true) ->
  let cs := map (fun i => field_content fs (path_join (i_loc i) (loop_file l))) (sort_insts insts) in
  List.length cs = List.length insts /\
  (List.length (filter is_none cs) = 0 -> lvalue fs l = Some (join " " (map or_empty cs))) /\
  (List.length (filter is_none cs) = 1 -> lvalue fs l = Some "") /\
  (List.length (filter is_none cs) >= 2 -> lvalue fs l = None).
Proof.
  intros N M R cs.
  assert (P : loop_paths fs l insts = Some (map (fun i => path_join (i_loc i) (loop_file l)) (sort_insts insts))).
  { unfold loop_file. destruct (s_file (l_ref l)) as [f|] eqn:F.
    - apply loop_paths_file; assumption.
    - apply loop_paths_stdout; [exact M|exact F|apply R; reflexivity]. }
  split.
  - unfold cs. rewrite map_length. apply sort_insts_length.
  - pose proof (value_loopoutput fs l insts _ N M P) as V. cbv zeta in V. rewrite map_map in V. exact V.
Qed.

Lemma field_content_spec fs p v :
  field_content fs p = Some v <-> exists c, lookup fs p = Some (File c) /\ v = rstrip_nl c.
Proof.
  unfold field_content. destruct (lookup fs p) as [[c|]|]; split.
  - intros H. injection H as <-. exists c. split; reflexivity.
  - intros [c' [E ->]]. injection E as <-. reflexivity.
  - discriminate.
  - intros [c' [E _]]. discriminate.
  - discriminate.
  - intros [c' [E _]]. discriminate.
Qed.
