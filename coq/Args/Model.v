(* C10 — Command-line reference substitution.  Executable model of
   ComponentSpecification.resolveArguments (python/experiment/model/graph.py) as it is coded:
   a sequential pass over the declared references (direct references first, then component
   references, each in declaration order — the list is an input here); for every reference of a
   substitutable kind (ref / output / loopref / loopoutput whose value could be resolved)
       if the absolute spelling occurs in the argument string: str.replace(absolute, value)
       else if the relative spelling occurs:                   str.replace(relative, value)
       else: the reference is reported unused.
   Afterwards any remaining ":<method>" makes the "unresolved reference" list non-empty.
   The value of a reference (DataReference.resolve: a path, or the contents of the file for
   output references with trailing newlines stripped) is an input of the model; the harness computes
   it independently of resolve() and compares.

   The specification side: the argument string is given with its intended tokenisation
   (reference tokens / literal text; the code's own tokeniser is the regular expression of
   FlowIR.discover_reference_strings) and every token that equals a declared spelling is replaced
   by that reference's value, everything else is left alone. *)
From Coq Require Import String Ascii List Bool Arith.
Import ListNotations.
Require Import V.Lib.PyStr.
Require V.Lib.Harness.  (* so that the helper of the generated cases files is built with the model *)
Open Scope string_scope.

(* ---- declared references *)
Record dref := mk_ref {
  r_abs : string;      (* DataReference.absoluteReference, e.g. "stage0.A/out.txt:ref" *)
  r_rel : string;      (* DataReference.relativeReference, e.g. "A/out.txt:ref"        *)
  r_sub : bool;        (* substitutable kind with a value (ref, output, loopref, loopoutput) *)
  r_val : string       (* what DataReference.resolve returned (output: file contents, "" if missing) *)
}.

(* one iteration of the loop over self.dataReferences; the boolean is "reported unused" *)
Definition step (args : string) (r : dref) : string * bool :=
  if r_sub r then
    if occurs (r_abs r) args then (replace (r_abs r) (r_val r) args, false)
    else if occurs (r_rel r) args then (replace (r_rel r) (r_val r) args, false)
    else (args, true)
  else (args, false).

Fixpoint run (refs : list dref) (args : string) : string * list string :=
  match refs with
  | [] => (args, [])
  | r :: rs => let a1 := fst (step args r) in
               let u := snd (step args r) in
               let res := run rs a1 in
               (fst res, if u then r_abs r :: snd res else snd res)
  end.

Definition resolve_args (refs : list dref) (args : string) : string := fst (run refs args).
Definition unused_refs (refs : list dref) (args : string) : list string := snd (run refs args).

Definition methods : list string :=
  ["copy"; "link"; "ref"; "copyout"; "extract"; "output"; "loopref"; "loopoutput"].
(* the "possible unresolved reference" scan over the resolved string *)
Definition unresolved (final : string) : bool := existsb (fun m => occurs (":" ++ m) final) methods.

(* ---- argument strings with their tokenisation *)
Inductive piece := Lit (s : string) | Tok (s : string).
Definition ptext (p : piece) : string := match p with Lit s => s | Tok s => s end.
Fixpoint flatten (ps : list piece) : string :=
  match ps with [] => "" | p :: r => ptext p ++ flatten r end.

Definition spells (r : dref) (t : string) : bool := String.eqb t (r_abs r) || String.eqb t (r_rel r).
Definition denotes (r : dref) (t : string) : bool := r_sub r && spells r t.

(* specification: every token that is a declared spelling becomes the value, nothing else changes *)
Definition render (refs : list dref) (p : piece) : piece :=
  match p with
  | Lit s => Lit s
  | Tok t => match List.find (fun r => denotes r t) refs with
             | Some r => Lit (r_val r)
             | None => Tok t
             end
  end.
Definition spec (refs : list dref) (ps : list piece) : string := flatten (map (render refs) ps).

(* ---- the sequential algorithm seen on pieces (used by the proofs and by the checkers) *)
Definition is_tok (s : string) (p : piece) : bool :=
  match p with Tok t => String.eqb t s | Lit _ => false end.
Definition has_tok (s : string) (ps : list piece) : bool := existsb (is_tok s) ps.
Definition sub_tok (s v : string) (p : piece) : piece := if is_tok s p then Lit v else p.
Definition pstep (ps : list piece) (r : dref) : list piece :=
  if r_sub r then
    if has_tok (r_abs r) ps then map (sub_tok (r_abs r) (r_val r)) ps
    else if has_tok (r_rel r) ps then map (sub_tok (r_rel r) (r_val r)) ps
    else ps
  else ps.

(* ---- decidable version of the hypothesis of C10_exact (soundness in Proofs.v) *)
(* offsets at which s occurs in x *)
Fixpoint occ_offsets (s : string) (n : nat) (x : string) : list nat :=
  (if prefixb s x then [n] else []) ++
  match x with EmptyString => [] | String _ x' => occ_offsets s (S n) x' end.
(* offsets at which a token equal to s starts *)
Fixpoint tok_offsets (s : string) (n : nat) (ps : list piece) : list nat :=
  match ps with
  | [] => []
  | p :: rest => (if is_tok s p then [n] else []) ++ tok_offsets s (n + String.length (ptext p)) rest
  end.
(* every occurrence of s in the flattened pieces is one of the tokens equal to s *)
Definition exact_occb (s : string) (ps : list piece) : bool :=
  forallb (fun k => existsb (Nat.eqb k) (tok_offsets s 0 ps)) (occ_offsets s 0 (flatten ps)).

Definition nonempty (s : string) : bool := match s with EmptyString => false | _ => true end.
Definition condb (r : dref) (qs : list piece) : bool :=
  negb (r_sub r) ||
  (nonempty (r_abs r) && nonempty (r_rel r) && exact_occb (r_abs r) qs &&
   (has_tok (r_abs r) qs || exact_occb (r_rel r) qs)).
Definition nomixb (r : dref) (ps : list piece) : bool :=
  negb (r_sub r) || String.eqb (r_abs r) (r_rel r) || negb (has_tok (r_abs r) ps && has_tok (r_rel r) ps).

(* all argument lists in which some of the tokens were already replaced by the value of a reference
   they denote *)
Fixpoint all_partials (refs : list dref) (ps : list piece) : list (list piece) :=
  match ps with
  | [] => [[]]
  | p :: rest =>
      let tails := all_partials refs rest in
      let heads := p :: match p with
                        | Tok t => map (fun r => Lit (r_val r)) (filter (fun r => denotes r t) refs)
                        | Lit _ => []
                        end in
      flat_map (fun h => map (cons h) tails) heads
  end.

Definition dref_eqb (a b : dref) : bool :=
  String.eqb (r_abs a) (r_abs b) && String.eqb (r_rel a) (r_rel b) && Bool.eqb (r_sub a) (r_sub b) &&
  String.eqb (r_val a) (r_val b).
Fixpoint nodupb (refs : list dref) : bool :=
  match refs with [] => true | r :: rs => negb (existsb (dref_eqb r) rs) && nodupb rs end.
Definition others (r : dref) (refs : list dref) : list dref := filter (fun x => negb (dref_eqb x r)) refs.

(* for every reference r: whatever tokens the OTHER references have already replaced, r's spelling
   that is looked for occurs only as the tokens equal to it *)
Definition separatedb (refs : list dref) (ps : list piece) : bool :=
  forallb (fun r => nomixb r ps) refs && nodupb refs &&
  forallb (fun r => forallb (fun qs => condb r qs) (all_partials (others r refs) ps)) refs.

Definition unambiguousb (refs : list dref) (ps : list piece) : bool :=
  forallb (fun p => match p with
                    | Lit _ => true
                    | Tok t => forallb (fun r => forallb (fun r' =>
                                 negb (denotes r t && denotes r' t) || String.eqb (r_val r) (r_val r')) refs) refs
                    end) ps.

(* ---- the code's own recogniser of reference tokens in an argument string
   (FlowIR.discover_reference_strings: re "([.a-zA-Z0-9_/-]|<variable>)+:(copy|link|ref|copyout|...)",
   finditer = left-most, greedy, first alternative of the method group), for strings without
   %(variable)s references *)
Definition is_namech (a : ascii) : bool :=
  let n := nat_of_ascii a in
  (Nat.leb 97 n && Nat.leb n 122) || (Nat.leb 65 n && Nat.leb n 90) || (Nat.leb 48 n && Nat.leb n 57) ||
  Nat.eqb n 46 || Nat.eqb n 95 || Nat.eqb n 47 || Nat.eqb n 45.

(* first alternative of the method group that matches at the head of s *)
Definition first_method (s : string) : option string := List.find (fun m => prefixb m s) methods.

Fixpoint tok_aux (lit run : string) (skip : nat) (s : string) : list piece :=
  match s with
  | EmptyString => [Lit (lit ++ run)]
  | String c s' =>
      match skip with
      | S k => tok_aux lit run k s'
      | O =>
          if is_namech c then tok_aux lit (run ++ String c EmptyString) 0 s'
          else if Ascii.eqb c ":"%char && nonempty run then
            match first_method s' with
            | Some m => Lit lit :: Tok (run ++ ":" ++ m) :: tok_aux "" "" (String.length m) s'
            | None => tok_aux (lit ++ run ++ ":") "" 0 s'
            end
          else tok_aux (lit ++ run ++ String c EmptyString) "" 0 s'
      end
  end.

Definition tokenise (s : string) : list piece := tok_aux "" "" 0 s.

(* comparison with a tokenisation given as pieces: empty literals dropped, adjacent literals merged *)
Fixpoint norm (ps : list piece) : list piece :=
  match ps with
  | [] => []
  | Lit a :: rest =>
      match norm rest with
      | Lit b :: r => Lit (a ++ b) :: r
      | r => match a with EmptyString => r | _ => Lit a :: r end
      end
  | Tok t :: rest => Tok t :: norm rest
  end.
Fixpoint pieces_eqb (a b : list piece) : bool :=
  match a, b with
  | [], [] => true
  | Lit x :: a', Lit y :: b' => String.eqb x y && pieces_eqb a' b'
  | Tok x :: a', Tok y :: b' => String.eqb x y && pieces_eqb a' b'
  | _, _ => false
  end.
Definition same_tokenisation (ps : list piece) : bool := pieces_eqb (norm (tokenise (flatten ps))) (norm ps).


(* ---- the two reports, token-wise (specification side; theorems in Reports.v)
   unused: the declared substitutable references none of whose spellings is a token of the arguments;
   unresolved: some reference token of the arguments denotes no declared reference *)
Definition used_by (r : dref) (ps : list piece) : bool := has_tok (r_abs r) ps || has_tok (r_rel r) ps.
Definition spec_unused (refs : list dref) (ps : list piece) : list string :=
  map r_abs (filter (fun r => r_sub r && negb (used_by r ps)) refs).
Definition declared (refs : list dref) (t : string) : bool := existsb (fun r => denotes r t) refs.
Definition undeclared_tok (refs : list dref) (p : piece) : bool :=
  match p with Tok t => negb (declared refs t) | Lit _ => false end.
Definition spec_unresolved (refs : list dref) (ps : list piece) : bool := existsb (undeclared_tok refs) ps.

(* no token is a spelling of two different declared references *)
Definition disjointb (refs : list dref) (ps : list piece) : bool :=
  forallb (fun p => match p with
                    | Lit _ => true
                    | Tok t => forallb (fun r => forallb (fun r' =>
                                 negb (denotes r t && denotes r' t) || dref_eqb r r') refs) refs
                    end) ps.
(* every colon of the command line is the colon of a reference token: literal text and substituted
   values hold no colon, every token holds ":<method>" *)
Definition colon_freeb (refs : list dref) (ps : list piece) : bool :=
  forallb (fun p => match p with Lit s => negb (occurs ":" s) | Tok t => unresolved t end) ps &&
  forallb (fun r => negb (r_sub r) || negb (occurs ":" (r_val r))) refs.

(* ---- correspondence checker: case = ((refs, pieces), ((resolved, unused), unresolved?)) *)
Fixpoint list_eqb (a b : list string) : bool :=
  match a, b with
  | [], [] => true
  | x :: a', y :: b' => String.eqb x y && list_eqb a' b'
  | _, _ => false
  end.

Definition check_case (c : (list dref * list piece) * ((string * list string) * bool)) : bool :=
  let '((refs, ps), ((out, unused), unres)) := c in
  let args := flatten ps in
  let res := run refs args in
  String.eqb (fst res) out && list_eqb (snd res) unused && Bool.eqb (unresolved (fst res)) unres &&
  (* the pieces are the tokenisation the code's recogniser makes of the string *)
  same_tokenisation ps &&
  (* where the hypotheses of C10_exact hold the implementation must agree with the specification;
     where those of C10_unused / C10_unresolved hold, its two reports with the token-wise ones *)
  (let sep := separatedb refs ps in
   (negb sep || String.eqb out (spec refs ps)) &&
   (negb (sep && disjointb refs ps) || list_eqb unused (spec_unused refs ps)) &&
   (negb (sep && colon_freeb refs ps) || Bool.eqb unres (spec_unresolved refs ps))).

(* is the case inside the hypotheses of the theorems? (statistics of the run) *)
Definition in_scope (c : (list dref * list piece) * ((string * list string) * bool)) : bool :=
  let '((refs, ps), _) := c in separatedb refs ps && unambiguousb refs ps.
