(* C10 — the two reports of resolveArguments (they decide whether checkDataReferences rejects the
   workflow with UnusedDataReferenceError / UndeclaredDataReferenceError), characterised token-wise. *)
From Coq Require Import String Ascii List Bool Arith Lia Permutation.
Import ListNotations.
Require Import V.Lib.PyStr V.Args.Model V.Args.Proofs.
Open Scope string_scope.

(* ------------------------------------------------------------------ unused *)
(* no token is a spelling of two different declared references *)
Definition disjoint (refs : list dref) (ps : list piece) : Prop :=
  forall r r' t, In r refs -> In r' refs -> In (Tok t) ps ->
                 denotes r t = true -> denotes r' t = true -> r = r'.

Lemma unused_cons r rs args :
  unused_refs (r :: rs) args =
  ((if snd (step args r) then [r_abs r] else []) ++ unused_refs rs (fst (step args r)))%list.
Proof. unfold unused_refs. cbn [run snd]. destruct (snd (step args r)); reflexivity. Qed.

Lemma partial_has_tok_mono D ps qs s : partial D ps qs -> has_tok s qs = true -> has_tok s ps = true.
Proof.
  intros P. induction P as [|p ps qs P IHP|t r ps qs Ir Dr P IHP]; cbn [has_tok existsb]; [auto| |].
  - intros X. apply orb_true_iff in X as [X|X]; [rewrite X; reflexivity|].
    fold (has_tok s qs) in X. fold (has_tok s ps). rewrite (IHP X). apply orb_true_r.
  - cbn [is_tok]. intros X. fold (has_tok s qs) in X. fold (has_tok s ps). cbn [orb] in X.
    rewrite (IHP X). apply orb_true_r.
Qed.

(* a token that none of the references in D denotes is still there after they have been substituted *)
Lemma partial_has_tok D ps qs s :
  partial D ps qs -> (forall r', In r' D -> denotes r' s = false) -> has_tok s qs = has_tok s ps.
Proof.
  intros P N. destruct (has_tok s ps) eqn:X.
  - revert X. induction P as [|p ps qs P IHP|t r ps qs Ir Dr P IHP]; intros X.
    + discriminate.
    + cbn [has_tok existsb] in *. apply orb_true_iff in X as [X|X]; [rewrite X; reflexivity|].
      fold (has_tok s ps) in X. fold (has_tok s qs). rewrite (IHP X). apply orb_true_r.
    + cbn [has_tok existsb is_tok] in *. apply orb_true_iff in X as [X|X].
      * apply String.eqb_eq in X. subst t. rewrite (N r Ir) in Dr. discriminate.
      * fold (has_tok s ps) in X. fold (has_tok s qs). cbn [orb]. exact (IHP X).
  - destruct (has_tok s qs) eqn:Q; [|reflexivity].
    apply (partial_has_tok_mono _ _ _ _ P) in Q. congruence.
Qed.

Lemma spells_denotes r s : r_sub r = true -> spells r s = true -> denotes r s = true.
Proof. intros S Sp. unfold denotes. rewrite S, Sp. reflexivity. Qed.

(* at the turn of r (the references in [done] already handled, r not among them) a spelling of r is a
   token of the current arguments iff it is a token of the original ones *)
Lemma turn_has_tok refs ps done qs r s :
  disjoint refs ps -> incl done refs -> In r refs -> ~ In r done -> r_sub r = true -> spells r s = true ->
  partial done ps qs -> has_tok s qs = has_tok s ps.
Proof.
  intros Dj Id Ir Nr S Sp P. destruct (has_tok s ps) eqn:H.
  - rewrite <- H. apply (partial_has_tok done); [exact P|].
    intros r' Hr'. destruct (denotes r' s) eqn:D; [|reflexivity]. exfalso.
    apply has_tok_spec in H.
    assert (E : r' = r) by (apply (Dj r' r s); auto using spells_denotes).
    subst r'. contradiction.
  - destruct (has_tok s qs) eqn:Q; [|reflexivity].
    apply (partial_has_tok_mono _ _ _ _ P) in Q. congruence.
Qed.

Lemma spells_abs r : spells r (r_abs r) = true.
Proof. unfold spells. rewrite String.eqb_refl. reflexivity. Qed.
Lemma spells_rel r : spells r (r_rel r) = true.
Proof. unfold spells. rewrite String.eqb_refl. apply orb_true_r. Qed.

Lemma unused_seq refs ps :
  (forall D qs r, incl D refs -> ~ In r D -> In r refs -> partial D ps qs -> cond r qs) ->
  disjoint refs ps ->
  forall todo done qs, incl todo refs -> incl done refs -> NoDup todo ->
    (forall x, In x todo -> ~ In x done) -> partial done ps qs ->
  unused_refs todo (flatten qs) = spec_unused todo ps.
Proof.
  intros H Dj todo. induction todo as [|r rs IH]; intros done qs It Id N Dn P; [reflexivity|].
  assert (Ir : In r refs) by (apply It; left; reflexivity).
  assert (Nr : ~ In r done) by (apply Dn; left; reflexivity).
  assert (C : cond r qs) by (apply (H done); assumption).
  rewrite unused_cons, (step_unused r qs C), (step_pstep r qs C).
  inversion N as [|? ? Nrr Nrs]; subst.
  rewrite (IH (r :: done) (pstep qs r)).
  - unfold spec_unused. cbn [filter]. unfold used_by.
    destruct (r_sub r) eqn:S; cbn [andb]; [|reflexivity].
    rewrite (turn_has_tok refs ps done qs r (r_abs r) Dj Id Ir Nr S (spells_abs r) P).
    rewrite (turn_has_tok refs ps done qs r (r_rel r) Dj Id Ir Nr S (spells_rel r) P).
    destruct (has_tok (r_abs r) ps), (has_tok (r_rel r) ps); reflexivity.
  - intros x Hx. apply It. right. exact Hx.
  - intros x [<-|Hx]; [exact Ir|apply Id, Hx].
  - exact Nrs.
  - intros x Hx [<-|Hd]; [contradiction|]. apply (Dn x); [right; exact Hx|exact Hd].
  - apply partial_pstep; [left; reflexivity|].
    eapply partial_incl; [|exact P]. intros x Hx. right. exact Hx.
Qed.

Theorem unused_exact refs ps :
  separated refs ps -> disjoint refs ps -> unused_refs refs (flatten ps) = spec_unused refs ps.
Proof.
  intros [_ [ND H]] Dj.
  apply (unused_seq refs ps H Dj refs [] ps (incl_refl _) (incl_nil_l _) ND (fun x _ F => F) (partial_refl [] ps)).
Qed.

Lemma spec_unused_iff refs ps a :
  In a (spec_unused refs ps) <->
  exists r, In r refs /\ a = r_abs r /\ r_sub r = true /\ ~ In (Tok (r_abs r)) ps /\ ~ In (Tok (r_rel r)) ps.
Proof.
  unfold spec_unused. rewrite in_map_iff. split.
  - intros [r [E F]]. apply filter_In in F as [I F]. apply andb_true_iff in F as [S U].
    apply negb_true_iff in U. unfold used_by in U. apply orb_false_iff in U as [U1 U2].
    exists r. repeat split; auto.
    + intros X. apply has_tok_spec in X. congruence.
    + intros X. apply has_tok_spec in X. congruence.
  - intros [r [I [E [S [U1 U2]]]]]. exists r. split; [auto|]. apply filter_In. split; [exact I|].
    rewrite S. cbn [andb]. apply negb_true_iff. unfold used_by. apply orb_false_iff. split.
    + destruct (has_tok (r_abs r) ps) eqn:X; [|reflexivity]. apply has_tok_spec in X. contradiction.
    + destruct (has_tok (r_rel r) ps) eqn:X; [|reflexivity]. apply has_tok_spec in X. contradiction.
Qed.

Lemma disjointb_sound refs ps : disjointb refs ps = true -> disjoint refs ps.
Proof.
  unfold disjointb. rewrite forallb_forall. intros H r r' t Hr Hr' It D D'.
  specialize (H _ It). cbn in H. rewrite forallb_forall in H. specialize (H r Hr).
  rewrite forallb_forall in H. specialize (H r' Hr'). rewrite D, D' in H. cbn in H.
  apply dref_eqb_spec. exact H.
Qed.

(* the accepted set does not depend on the declaration order either *)
Lemma spec_unused_perm refs refs' ps a :
  Permutation refs refs' -> In a (spec_unused refs ps) -> In a (spec_unused refs' ps).
Proof.
  intros P. rewrite !spec_unused_iff. intros [r [I X]]. exists r. split; [|exact X].
  eapply Permutation_in; eassumption.
Qed.

(* ------------------------------------------------------------------ unresolved *)
Lemma occurs_char_app c a b :
  occurs (String c "") (a ++ b) = occurs (String c "") a || occurs (String c "") b.
Proof.
  induction a as [|x a IH]; cbn [append].
  - cbn [occurs prefixb orb]. reflexivity.
  - cbn [occurs]. rewrite IH. cbn [prefixb]. rewrite andb_true_r. apply orb_assoc.
Qed.

Lemma occurs_char_flatten c ps :
  occurs (String c "") (flatten ps) = true -> exists p, In p ps /\ occurs (String c "") (ptext p) = true.
Proof.
  induction ps as [|p rest IH]; cbn [flatten].
  - cbn. discriminate.
  - rewrite occurs_char_app. intros H. apply orb_true_iff in H as [H|H].
    + exists p. split; [left; reflexivity|exact H].
    + destruct (IH H) as [q [I Q]]. exists q. split; [right; exact I|exact Q].
Qed.

Lemma occurs_app_l sub a b : occurs sub a = true -> occurs sub (a ++ b) = true.
Proof.
  intros H. apply occurs_spec in H as [l [r ->]]. apply occurs_spec. exists l, (r ++ b).
  rewrite !append_assoc. reflexivity.
Qed.
Lemma occurs_app_r sub a b : occurs sub b = true -> occurs sub (a ++ b) = true.
Proof.
  intros H. apply occurs_spec in H as [l [r ->]]. apply occurs_spec. exists (a ++ l), r.
  rewrite !append_assoc. reflexivity.
Qed.

Lemma occurs_flatten_in sub p ps : In p ps -> occurs sub (ptext p) = true -> occurs sub (flatten ps) = true.
Proof.
  induction ps as [|q rest IH]; [intros []|]. intros [->|I] H; cbn [flatten].
  - apply occurs_app_l, H.
  - apply occurs_app_r, IH; assumption.
Qed.

Lemma unresolved_colon s : unresolved s = true -> occurs ":" s = true.
Proof.
  unfold unresolved. rewrite existsb_exists. intros [m [_ H]].
  apply occurs_spec in H as [l [r ->]]. apply occurs_spec. exists l, (m ++ r).
  rewrite append_assoc. reflexivity.
Qed.

Lemma unresolved_flatten_in p ps : In p ps -> unresolved (ptext p) = true -> unresolved (flatten ps) = true.
Proof.
  unfold unresolved. rewrite !existsb_exists. intros I [m [Im H]]. exists m. split; [exact Im|].
  eapply occurs_flatten_in; eassumption.
Qed.

(* every colon of the command line is the colon of a reference token *)
Definition colon_free (refs : list dref) (ps : list piece) : Prop :=
  (forall s, In (Lit s) ps -> occurs ":" s = false) /\
  (forall t, In (Tok t) ps -> unresolved t = true) /\
  (forall r, In r refs -> r_sub r = true -> occurs ":" (r_val r) = false).

Lemma declared_find refs t :
  declared refs t = match List.find (fun r => denotes r t) refs with Some _ => true | None => false end.
Proof.
  unfold declared. induction refs as [|r rs IH]; cbn; [reflexivity|].
  destruct (denotes r t); [reflexivity|exact IH].
Qed.

(* the flag computed on the specification string *)
Theorem unresolved_spec refs ps :
  colon_free refs ps -> unresolved (spec refs ps) = spec_unresolved refs ps.
Proof.
  intros [CL [CT CV]]. unfold spec. destruct (spec_unresolved refs ps) eqn:U.
  - unfold spec_unresolved in U. apply existsb_exists in U as [p [I Up]].
    destruct p as [s|t]; [discriminate|]. cbn in Up. apply negb_true_iff in Up.
    apply (unresolved_flatten_in (Tok t)).
    + apply in_map_iff. exists (Tok t). split; [|exact I]. cbn [render].
      rewrite declared_find in Up. destruct (List.find _ refs); [discriminate|reflexivity].
    + cbn [ptext]. apply CT, I.
  - destruct (unresolved (flatten (map (render refs) ps))) eqn:X; [|reflexivity]. exfalso.
    apply unresolved_colon, occurs_char_flatten in X as [q [Iq Oq]].
    apply in_map_iff in Iq as [p [<- Ip]].
    destruct p as [s|t]; cbn [render ptext] in Oq.
    + rewrite (CL s Ip) in Oq. discriminate.
    + assert (Ud : declared refs t = true).
      { unfold spec_unresolved in U. destruct (declared refs t) eqn:Dd; [reflexivity|].
        assert (Y : existsb (undeclared_tok refs) ps = true).
        { apply existsb_exists. exists (Tok t). split; [exact Ip|]. cbn. rewrite Dd. reflexivity. }
        congruence. }
      rewrite declared_find in Ud.
      destruct (List.find (fun r => denotes r t) refs) as [r|] eqn:F; [|discriminate].
      apply find_some in F as [Ir Dr]. unfold denotes in Dr. apply andb_true_iff in Dr as [S _].
      cbn [ptext] in Oq. rewrite (CV r Ir S) in Oq. discriminate.
Qed.

Theorem unresolved_exact refs ps :
  separated refs ps -> colon_free refs ps ->
  unresolved (resolve_args refs (flatten ps)) = spec_unresolved refs ps.
Proof. intros S C. rewrite (exact refs ps S). apply unresolved_spec, C. Qed.

Theorem unresolved_iff : forall refs ps,
  separated refs ps -> colon_free refs ps ->
  (unresolved (resolve_args refs (flatten ps)) = true <->
   exists t, In (Tok t) ps /\ forall r, In r refs -> denotes r t = false).
Proof.
  intros refs ps S C. rewrite (unresolved_exact refs ps S C). unfold spec_unresolved.
  rewrite existsb_exists. split.
  - intros [[s|t] [I U]]; [discriminate|]. exists t. split; [exact I|]. cbn in U.
    apply negb_true_iff in U. unfold declared in U. intros r Hr.
    destruct (denotes r t) eqn:D; [|reflexivity].
    assert (X : existsb (fun r => denotes r t) refs = true) by (apply existsb_exists; exists r; auto).
    congruence.
  - intros [t [I U]]. exists (Tok t). split; [exact I|]. cbn. apply negb_true_iff.
    unfold declared. destruct (existsb (fun r => denotes r t) refs) eqn:X; [|reflexivity].
    apply existsb_exists in X as [r [Hr D]]. rewrite (U r Hr) in D. discriminate.
Qed.

Lemma colon_freeb_sound refs ps : colon_freeb refs ps = true -> colon_free refs ps.
Proof.
  unfold colon_freeb. rewrite andb_true_iff, !forallb_forall. intros [H1 H2]. repeat split.
  - intros s I. specialize (H1 _ I). cbn in H1. apply negb_true_iff in H1. exact H1.
  - intros t I. exact (H1 _ I).
  - intros r I S. specialize (H2 _ I). rewrite S in H2. cbn in H2. apply negb_true_iff in H2. exact H2.
Qed.

(* the tokens the code's recogniser makes all end with ":<method>" *)
Lemma unresolved_token run m : In m methods -> unresolved (run ++ ":" ++ m) = true.
Proof.
  intros I. unfold unresolved. apply existsb_exists. exists m. split; [exact I|].
  apply occurs_spec. exists run, "". rewrite append_nil_r. reflexivity.
Qed.

Lemma tok_aux_wf t : forall s lit run skip, In (Tok t) (tok_aux lit run skip s) -> unresolved t = true.
Proof.
  induction s as [|c s IH]; intros lit run skip; cbn [tok_aux].
  - intros [H|[]]. discriminate.
  - destruct skip as [|k]; [|apply IH].
    destruct (is_namech c); [apply IH|].
    destruct (Ascii.eqb c ":"%char && nonempty run); [|apply IH].
    destruct (first_method s) as [m|] eqn:F; [|apply IH].
    intros [H|[H|H]]; [discriminate| |exact (IH _ _ _ H)].
    injection H as <-. apply unresolved_token. apply find_some in F as [F _]. exact F.
Qed.

Lemma tokenise_wf s t : In (Tok t) (tokenise s) -> unresolved t = true.
Proof. apply tok_aux_wf. Qed.

