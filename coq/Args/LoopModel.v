(* C10 — references whose producer is the PLACEHOLDER of a looped component (DoWhile), and the two
   aggregating methods loopref / loopoutput: executable model of the placeholder part of
   DataReference.resolve (python/experiment/model/graph.py) on top of ValueModel.

   A consumer OUTSIDE a DoWhile loop names a looped component by its placeholder ("stage1.step"); the
   graph holds one node per iteration ("stage1.<k>#step", working directory stages/stage1/<k>#step) and
   WorkflowGraph._placeholders[placeholder] = {'represents': all the instances (any order), 'latest':
   the instance with the greatest iteration number}.
     ref / output / copy / ... : the placeholder is replaced by its LATEST instance, and everything that
       resolve derives from the producer (working directory, path_to_stdout, isRepeat) is derived from the
       identification of THAT node - the spellings stay those of the placeholder;
     loopref    : the instances sorted by iteration number (int() of the text before '#'); one path per
       instance (working directory [joined with the file part as written]), joined by single blanks;
     loopoutput : the same paths (without file part: path_to_stdout of each instance); every path that exists
       is read (text mode) and stripped of its trailing newlines, the others (missing, or a directory: open()
       raises) are collected: none -> the contents joined by single blanks - EMPTY CONTENTS KEEP THEIR FIELD;
       otherwise DataReferenceFilesDoNotExistError with one entry per path that could not be read.
   resolveArguments: DataReferenceFilesDoNotExistError with exactly ONE entry is tolerated for output /
   loopoutput (the value is ''), with any other number of entries it raises InternalInconsistencyError.
   A loopref / loopoutput reference to something that is not a placeholder: DataReferenceInconsistencyError.
   Not modelled: carriage returns in the files read by loopoutput (text mode translates them), non-ASCII
   contents, a placeholder without any instance (the graph cannot be built). *)
From Coq Require Import String Ascii List Bool Arith NArith.
Import ListNotations.
Require Import V.Lib.PyStr V.Args.Model V.Args.ValueModel.
Open Scope string_scope.

(* one instance of a looped component *)
Record inst := mk_inst {
  i_iter : N;            (* iteration number: int() of the text before '#' in the component name *)
  i_loc : string;        (* rootStorage.workingDirectoryForComponent of the instance's identification *)
  i_repeat : bool        (* workflowAttributes['isRepeat'] of the instance *)
}.

(* a declared reference: as ValueModel.sref; if the producer is a placeholder, the instances it represents in the
   order WorkflowGraph._placeholders lists them (s_loc / s_repeat of l_ref are then NOT looked at) *)
Record lref := mk_lref {
  l_ref : sref;
  l_insts : option (list inst)
}.

Definition l_abs (l : lref) : string := s_abs (l_ref l).
Definition l_rel (l : lref) : string := s_rel (l_ref l).
Definition l_method (l : lref) : string := s_method (l_ref l).

(* ---- sorted(represents, key=iteration number): stable insertion sort *)
Fixpoint insert_inst (x : inst) (l : list inst) : list inst :=
  match l with
  | [] => [x]
  | y :: t => if (i_iter x <? i_iter y)%N then x :: l else y :: insert_inst x t
  end.
Fixpoint sort_insts (l : list inst) : list inst :=
  match l with
  | [] => []
  | x :: t => insert_inst x (sort_insts t)
  end.
(* sorted(..., key=iteration number, reverse=True)[0] *)
Definition later (m y : inst) : inst := if (i_iter m <? i_iter y)%N then y else m.
Definition latest_inst (l : list inst) : option inst :=
  match l with [] => None | x :: t => Some (fold_left later t x) end.

(* the reference as it is resolved against ONE instance: spellings of the placeholder, directory / isRepeat
   of the instance *)
Definition inst_sref (l : lref) (i : inst) : sref :=
  let r := l_ref l in
  mk_sref (s_id r) (s_relid r) (s_file r) (s_method r) false (i_loc i) (i_repeat i).

(* ---- outcome of resolve *)
Inductive lres :=
| LVal (v : string)
| LMissing (n : nat)     (* DataReferenceFilesDoNotExistError with n entries *)
| LInconsistent.         (* DataReferenceInconsistencyError *)

Definition of_rres (x : rres) : lres :=
  match x with
  | Val v => LVal v
  | Missing => LMissing 1
  | Inconsistent | Unmodelled => LInconsistent
  end.

Definition is_loopoutput (m : string) : bool := String.eqb m "loopoutput".

(* the path that stands for one instance in the aggregated value *)
Definition loop_target (fs : fsys) (l : lref) (i : inst) : option string :=
  let r := inst_sref l i in
  if is_loopoutput (s_method r) then
    match s_file r with
    | None => path_to_stdout fs r                 (* raises while a repeating instance has archived nothing *)
    | Some f => Some (path_join (i_loc i) f)
    end
  else Some (reference_path r).

Fixpoint all_some {A} (l : list (option A)) : option (list A) :=
  match l with
  | [] => Some []
  | Some x :: t => match all_some t with Some r => Some (x :: r) | None => None end
  | None :: _ => None
  end.

(* os.path.exists + open(path).read().rstrip('\n'); None: the path goes to `not_found` *)
Definition field_content (fs : fsys) (p : string) : option string :=
  match lookup fs p with
  | Some (File c) => Some (rstrip_nl c)
  | _ => None
  end.
Definition is_none {A} (o : option A) : bool := match o with None => true | Some _ => false end.
Definition or_empty (o : option string) : string := match o with Some v => v | None => "" end.

Definition resolve_loop (fs : fsys) (l : lref) (insts : list inst) : lres :=
  let sorted := sort_insts insts in
  match all_some (map (loop_target fs l) sorted) with
  | None => LMissing 1
  | Some paths =>
      if is_loopoutput (l_method l) then
        let cs := map (field_content fs) paths in
        match List.length (filter is_none cs) with
        | O => LVal (join " " (map or_empty cs))
        | n => LMissing n
        end
      else LVal (join " " paths)
  end.

Definition lresolve (fs : fsys) (l : lref) : lres :=
  match l_insts l with
  | None => if is_loop (l_method l) then LInconsistent           (* "uses unknown Placeholder" *)
            else of_rres (resolve fs (l_ref l))
  | Some insts =>
      if is_loop (l_method l) then resolve_loop fs l insts
      else match latest_inst insts with
           | Some i => of_rres (resolve fs (inst_sref l i))
           | None => LInconsistent
           end
  end.

(* ---- resolveArguments: the value it substitutes (None: it raises) *)
Definition tolerant (m : string) : bool := is_output m || is_loopoutput m.
Definition lvalue (fs : fsys) (l : lref) : option string :=
  match lresolve fs l with
  | LVal v => Some v
  | LMissing n => if tolerant (l_method l) && Nat.eqb n 1 then Some "" else None
  | LInconsistent => None
  end.
Definition to_dref_l (fs : fsys) (l : lref) : option dref :=
  match lvalue fs l with
  | Some v => Some (mk_ref (l_abs l) (l_rel l) (sub_method (l_method l)) v)
  | None => None
  end.
Fixpoint to_drefs_l (fs : fsys) (ls : list lref) : option (list dref) :=
  match ls with
  | [] => Some []
  | l :: rest => match to_dref_l fs l, to_drefs_l fs rest with
                 | Some d, Some ds => Some (d :: ds)
                 | _, _ => None
                 end
  end.

(* ---- specification: a token that is a spelling of a declared substitutable reference becomes that
   reference's own value *)
Definition l_denotes (l : lref) (t : string) : bool := s_denotes (l_ref l) t.
Definition render_own_l (fs : fsys) (ls : list lref) (p : piece) : piece :=
  match p with
  | Lit s => Lit s
  | Tok t => match List.find (fun l => l_denotes l t) ls with
             | Some l => match lvalue fs l with Some v => Lit v | None => Tok t end
             | None => Tok t
             end
  end.
Definition spec_own_l (fs : fsys) (ls : list lref) (ps : list piece) : string :=
  flatten (map (render_own_l fs ls) ps).

(* one call of resolveArguments on a graph whose placeholders represent the given instances, on the file
   system of that moment *)
Definition resolve_on_l (fs : fsys) (ls : list lref) (args : string) : option string :=
  match to_drefs_l fs ls with
  | Some ds => Some (resolve_args ds args)
  | None => None
  end.
Definition spec_on_l (fs : fsys) (ls : list lref) (ps : list piece) : option string :=
  match to_drefs_l fs ls with
  | Some _ => Some (spec_own_l fs ls ps)
  | None => None
  end.
Definition separated_onb_l (fs : fsys) (ls : list lref) (ps : list piece) : bool :=
  match to_drefs_l fs ls with
  | Some ds => separatedb ds ps
  | None => true
  end.
(* a loop that advances: the consumer is resolved after every iteration - one (instances, file system) per call *)
Definition with_insts (ins : list (string * list inst)) (l : lref) : lref :=
  match l_insts l with
  | None => l
  | Some _ => match List.find (fun kv => String.eqb (fst kv) (s_id (l_ref l))) ins with
              | Some kv => mk_lref (l_ref l) (Some (snd kv))
              | None => l
              end
  end.
Definition loop_session (ls : list lref) (args : string) (steps : list (list (string * list inst) * fsys))
  : list (option string) :=
  map (fun st => resolve_on_l (snd st) (map (with_insts (fst st)) ls) args) steps.

(* ---- correspondence checkers
   value: case = ((reference, file system), ((absoluteReference, relativeReference), outcome of resolve)) *)
Definition outcome_l (x : lres) : string :=
  match x with
  | LVal v => "V" ++ v
  | LMissing n => "DataReferenceFilesDoNotExistError/" ++ dec (N.of_nat n)
  | LInconsistent => "DataReferenceInconsistencyError"
  end.
Definition check_lvalue (c : (lref * fsys) * ((string * string) * string)) : bool :=
  let '((l, fs), ((a, rl), o)) := c in
  String.eqb (l_abs l) a && String.eqb (l_rel l) rl && String.eqb (outcome_l (lresolve fs l)) o.

(* one resolution: case = (((references in the order the code iterates, pieces), file system walked just before
   the call), "V" ++ resolved string | "E") *)
Definition check_loop_live (c : ((list lref * list piece) * fsys) * string) : bool :=
  let '(((ls, ps), fs), out) := c in
  String.eqb (shown (resolve_on_l fs ls (flatten ps))) out &&
  same_tokenisation ps &&
  (negb (separated_onb_l fs ls ps) || String.eqb (shown (spec_on_l fs ls ps)) out).
