(* C10 — Command-line reference substitution is exact.  Property theorems only. *)
From Coq Require Import String List Bool Permutation NArith.
Import ListNotations.
Require Import V.Lib.PyStr V.Args.Model V.Args.Proofs V.Args.Reports V.Args.ValueModel V.Args.Values V.Args.Minimal.
From Coq Require Import Sorted.
Require Import V.Args.LoopModel V.Args.LoopValues V.Args.Redeclared.
Open Scope string_scope.

(* For every list of declared references (any number, any spellings, any values), every argument
   string given with its tokenisation into reference tokens and literal text: if the declared
   spellings are separated (no reference written in both spellings; a spelling that is looked for
   occurs only as the tokens equal to it, whatever tokens have already been substituted) the
   sequential str.replace algorithm returns exactly the specification: each token that is a declared
   spelling replaced by that reference's value, all other text untouched. *)
Theorem C10_exact : forall refs ps,
  separated refs ps -> resolve_args refs (flatten ps) = spec refs ps.
Proof. exact exact. Qed.
Print Assumptions C10_exact.

(* The same for a raw argument string read with the code's own recogniser of reference tokens
   (which loses no text). *)
Theorem C10_exact_string : forall refs args,
  flatten (tokenise args) = args /\
  (separated refs (tokenise args) -> resolve_args refs args = spec refs (tokenise args)).
Proof. intros refs args. split; [apply flatten_tokenise|apply exact_string]. Qed.
Print Assumptions C10_exact_string.

(* Under the same hypothesis (and if no token denotes two references with different values) the
   result does not depend on the declaration order. *)
Theorem C10_order_independent : forall refs refs' ps,
  Permutation refs refs' -> separated refs ps -> unambiguous refs ps ->
  resolve_args refs (flatten ps) = resolve_args refs' (flatten ps).
Proof. exact order_independent. Qed.
Print Assumptions C10_order_independent.

(* The hypothesis is decidable: the boolean checker evaluated on every case of the correspondence
   run is sound. *)
Theorem C10_exact_checked : forall refs ps,
  separatedb refs ps = true -> resolve_args refs (flatten ps) = spec refs ps.
Proof. intros refs ps H. apply exact, separatedb_sound, H. Qed.
Print Assumptions C10_exact_checked.

Theorem C10_order_independent_checked : forall refs refs' ps,
  Permutation refs refs' -> separatedb refs ps = true -> unambiguousb refs ps = true ->
  resolve_args refs (flatten ps) = resolve_args refs' (flatten ps).
Proof.
  intros refs refs' ps P S U.
  apply order_independent; [exact P|apply separatedb_sound, S|apply unambiguousb_sound, U].
Qed.
Print Assumptions C10_order_independent_checked.

(* Literal text is never changed by the specification, tokens that are not declared neither. *)
Theorem C10_spec_untouched : forall refs s t,
  render refs (Lit s) = Lit s /\
  ((forall r, In r refs -> denotes r t = false) -> render refs (Tok t) = Tok t).
Proof.
  intros refs s t. split; [reflexivity|]. intros H. cbn [render].
  destruct (List.find (fun r => denotes r t) refs) as [r|] eqn:F; [|reflexivity].
  apply find_some in F as [I D]. rewrite (H r I) in D. discriminate.
Qed.
Print Assumptions C10_spec_untouched.

(* ---- the two reports that make checkDataReferences reject a workflow
   (UnusedDataReferenceError / UndeclaredDataReferenceError).
   Unused: under `separated`, and if no token is a spelling of two different declared references,
   the list reported unused is exactly (in declaration order) the declared substitutable references
   none of whose two spellings is a token of the arguments. *)
Theorem C10_unused : forall refs ps,
  separated refs ps -> disjoint refs ps ->
  unused_refs refs (flatten ps) = spec_unused refs ps /\
  (forall a, In a (unused_refs refs (flatten ps)) <->
     exists r, In r refs /\ a = r_abs r /\ r_sub r = true /\
               ~ In (Tok (r_abs r)) ps /\ ~ In (Tok (r_rel r)) ps).
Proof.
  intros refs ps S D. pose proof (unused_exact refs ps S D) as E. split; [exact E|].
  intros a. rewrite E. apply spec_unused_iff.
Qed.
Print Assumptions C10_unused.

(* Unresolved: under `separated`, and if every colon of the command line is the colon of a reference
   token (no colon in literal text or in a substituted value; every token holds ":<method>"), the
   "possible unresolved reference" flag is raised iff some token of the arguments denotes no declared
   reference. *)
Theorem C10_unresolved : forall refs ps,
  separated refs ps -> colon_free refs ps ->
  (unresolved (resolve_args refs (flatten ps)) = true <->
   exists t, In (Tok t) ps /\ forall r, In r refs -> denotes r t = false).
Proof. exact unresolved_iff. Qed.
Print Assumptions C10_unresolved.

(* Both for a raw argument string read with the code's own recogniser: its tokens always hold
   ":<method>", so only the literal text and the values have to be free of colons.  Consequence: the
   workflow passes the two checks iff every declared substitutable reference is written and every
   reference token is declared. *)
Theorem C10_reports_string : forall refs args,
  separated refs (tokenise args) -> disjoint refs (tokenise args) ->
  (forall s, In (Lit s) (tokenise args) -> occurs ":" s = false) ->
  (forall r, In r refs -> r_sub r = true -> occurs ":" (r_val r) = false) ->
  unused_refs refs args = spec_unused refs (tokenise args) /\
  unresolved (resolve_args refs args) = spec_unresolved refs (tokenise args).
Proof.
  intros refs args S D CL CV. rewrite <- (flatten_tokenise args) at 1 3. split.
  - apply unused_exact; assumption.
  - apply unresolved_exact; [exact S|]. repeat split; [exact CL| |exact CV].
    intros t I. eapply tokenise_wf, I.
Qed.
Print Assumptions C10_reports_string.

(* The hypotheses are decidable; the checkers are evaluated on every case of the correspondence run,
   which compares the implementation's two reports with the token-wise ones where they hold. *)
Theorem C10_reports_checked : forall refs ps,
  separatedb refs ps = true ->
  (disjointb refs ps = true -> unused_refs refs (flatten ps) = spec_unused refs ps) /\
  (colon_freeb refs ps = true -> unresolved (resolve_args refs (flatten ps)) = spec_unresolved refs ps).
Proof.
  intros refs ps S. apply separatedb_sound in S. split; intros H.
  - apply unused_exact; [exact S|apply disjointb_sound, H].
  - apply unresolved_exact; [exact S|apply colon_freeb_sound, H].
Qed.
Print Assumptions C10_reports_checked.

(* The set of references reported unused does not depend on the declaration order. *)
Theorem C10_unused_order_independent : forall refs refs' ps a,
  Permutation refs refs' -> separated refs ps -> disjoint refs ps ->
  (In a (unused_refs refs (flatten ps)) <-> In a (unused_refs refs' (flatten ps))).
Proof.
  intros refs refs' ps a P S D.
  assert (D' : disjoint refs' ps).
  { intros r r' t Hr Hr'. apply D; eapply Permutation_in; try eassumption; apply Permutation_sym, P. }
  rewrite (unused_exact refs ps S D), (unused_exact refs' ps (separated_perm _ _ _ P S) D').
  split; apply spec_unused_perm; [exact P|apply Permutation_sym, P].
Qed.
Print Assumptions C10_unused_order_independent.

(* ---- the values (model of DataReference.resolve, ValueModel.v).
   Path methods (ref, copy, link, copyout, extract): the value is the location of the producer, or
   that location joined with the file part exactly as it is written in the declaration (nothing is
   normalised), whatever the file system holds. *)
Theorem C10_value_path : forall fs r,
  is_loop (s_method r) = false -> is_output (s_method r) = false ->
  arg_value fs r = Some (reference_path r) /\
  (s_file r = None -> reference_path r = s_loc r) /\
  (forall f, s_file r = Some f -> s_loc r <> "" -> ends_slash (s_loc r) = false -> prefixb "/" f = false ->
             reference_path r = s_loc r ++ "/" ++ f).
Proof.
  intros fs r L O. split; [apply (value_path fs r L O)|]. unfold reference_path. split.
  - intros ->. reflexivity.
  - intros f -> H1 H2 H3. apply path_join_plain; assumption.
Qed.
Print Assumptions C10_value_path.

(* Output references to a file: the contents of the file at that path with the trailing newlines
   removed and nothing else (c = value ++ newlines, the value does not end with a newline); the empty
   string as long as the file does not exist; resolveArguments raises if it is a directory. *)
Theorem C10_value_output : forall fs r,
  s_method r = "output" -> (s_direct r || is_some (s_file r)) = true ->
  (forall c, lookup fs (reference_path r) = Some (File c) ->
     exists v t, arg_value fs r = Some v /\ c = v ++ t /\
                 all_chars (fun a => Ascii.eqb a nl) t = true /\ (forall u, v <> u ++ String nl "")) /\
  (lookup fs (reference_path r) = None -> arg_value fs r = Some "") /\
  (lookup fs (reference_path r) = Some Dir -> arg_value fs r = None).
Proof.
  intros fs r M D. pose proof (value_output fs r M D) as V. repeat split.
  - intros c L. rewrite L in V. destruct (rstrip_nl_split c) as [t [E A]].
    exists (rstrip_nl c), t. repeat split; [exact V|exact E|exact A|apply rstrip_nl_last].
  - intros L. rewrite L in V. apply V.
  - intros L. rewrite L in V. apply V.
Qed.
Print Assumptions C10_value_output.

(* Output references to a component WITHOUT file part: the stdout of the producer.  A producer that does
   not repeat: the contents of <location>/out.stdout.  A repeating producer (RepeatingEngine archives the
   stdout of every execution as <location>/streams/<n>.stdout): the contents of the archived stream whose
   index n is the greatest AS AN INTEGER among the streams present - whatever the numbers of digits of the
   indices (9 < 10, 99 < 100), whatever else the directory holds (streams of the other type, out.stdout);
   the empty string while nothing is archived.  In both cases: trailing newlines removed and nothing else,
   '' while the file is missing, an error if it is a directory. *)
Definition stdout_value (fs : fsys) (f : string) : option string :=
  match lookup fs f with
  | Some (File c) => Some (rstrip_nl c)
  | Some Dir => None
  | None => Some ""
  end.
Theorem C10_value_stdout : forall fs r,
  s_method r = "output" -> s_direct r = false -> s_file r = None ->
  (s_repeat r = false -> arg_value fs r = stdout_value fs (path_join (s_loc r) "out.stdout")) /\
  (s_repeat r = true ->
     (stream_indices fs (streams_dir r) = [] -> arg_value fs r = Some "") /\
     (forall m, In m (stream_indices fs (streams_dir r)) ->
                (forall i, In i (stream_indices fs (streams_dir r)) -> (i <= m)%N) ->
                arg_value fs r = stdout_value fs (stream_path r m))) /\
  (forall c, stdout_value fs c = Some "" \/ stdout_value fs c = None \/
             exists x, lookup fs c = Some (File x) /\ stdout_value fs c = Some (rstrip_nl x) /\
                       (forall u, rstrip_nl x <> u ++ String nl "")).
Proof.
  intros fs r M D F. pose proof (value_stdout fs r M D F) as V. split; [|split].
  - intros R. rewrite (path_to_stdout_plain fs r R) in V. exact V.
  - intros R. destruct (path_to_stdout_stream fs r R) as [E L]. split.
    + intros I. rewrite (E I) in V. exact V.
    + intros m I Mx. rewrite (L m I Mx) in V. exact V.
  - intros c. unfold stdout_value. destruct (lookup fs c) as [[x|]|]; [|right; left; reflexivity|left; reflexivity].
    right. right. exists x. repeat split. apply rstrip_nl_last.
Qed.
Print Assumptions C10_value_stdout.

(* End to end: for references given as they are declared (producer, file part, method; spellings
   and values computed by the models of absoluteReference / relativeReference / resolve), under
   `separated` the resolved command line is the argument string in which every token that is one of
   the two spellings of a declared substitutable reference is replaced by that reference's own
   value, and nothing else is changed. *)
Theorem C10_exact_values : forall fs rs ds ps,
  to_drefs fs rs = Some ds -> separated ds ps ->
  resolve_args ds (flatten ps) = spec_own fs rs ps /\
  (forall s, render_own fs rs (Lit s) = Lit s) /\
  (forall t r, List.find (fun r => s_denotes r t) rs = Some r ->
               render_own fs rs (Tok t) = match arg_value fs r with Some v => Lit v | None => Tok t end) /\
  (forall t, List.find (fun r => s_denotes r t) rs = None -> render_own fs rs (Tok t) = Tok t).
Proof.
  intros fs rs ds ps H S. split; [apply (exact_values fs rs ds ps H S)|]. split; [reflexivity|]. split.
  - intros t r F. apply render_own_value, F.
  - intros t F. cbn [render_own]. rewrite F. reflexivity.
Qed.
Print Assumptions C10_exact_values.

(* Repeated resolution on one live graph (ComponentSpecification.resolveArguments, Job.resolveArguments,
   Job.command.arguments called again and again while the producers rewrite, create or delete their
   files): one file system per call.  Every answer of the session is the token-wise substitution with
   the values the references have on the file system of ITS OWN call (None where the call raises: an
   :output reference to a directory) - the contents a file had at an earlier call never show; the last
   answer is what a single call on the last file system gives, whatever was resolved before. *)
Theorem C10_exact_session : forall rs ps fss,
  forallb (fun fs => separated_onb fs rs ps) fss = true ->
  session rs (flatten ps) fss = map (fun fs => spec_on fs rs ps) fss /\
  (forall args pre fs, List.last (session rs args (pre ++ [fs])) None = resolve_on fs rs args) /\
  (forall fs, separated_onb fs rs ps = true ->
     resolve_on fs rs (flatten ps) = spec_on fs rs ps /\
     (forall ds, to_drefs fs rs = Some ds -> spec_on fs rs ps = Some (spec_own fs rs ps) /\ separated ds ps) /\
     (to_drefs fs rs = None -> spec_on fs rs ps = None)).
Proof.
  intros rs ps fss H. split; [apply exact_session, H|]. split; [intros; apply session_last|].
  intros fs S. split; [apply exact_on, S|]. unfold spec_on, separated_onb in *. split.
  - intros ds D. rewrite D in *. split; [reflexivity|apply separatedb_sound, S].
  - intros D. rewrite D. reflexivity.
Qed.
Print Assumptions C10_exact_session.

(* ---- references from OUTSIDE a DoWhile loop to a looped component (LoopModel.v): the reference names the
   loop's PLACEHOLDER (stage1.step), the graph holds one instance per iteration (stage1.<k>#step).
   Non-aggregating methods (ref, output, copy ...): the value is the one the reference has against the LATEST
   instance - one of the instances, with the greatest iteration number; its working directory, its stdout, its
   isRepeat - while the spellings stay those of the placeholder.  (C10_value_path / _output / _stdout then say
   what that value is.) *)
Theorem C10_value_placeholder : forall fs l insts,
  l_insts l = Some insts -> insts <> [] -> is_loop (l_method l) = false ->
  exists i, In i insts /\ (forall j, In j insts -> (i_iter j <= i_iter i)%N) /\
            lvalue fs l = arg_value fs (inst_sref l i) /\
            s_abs (inst_sref l i) = l_abs l /\ s_rel (inst_sref l i) = l_rel l /\
            s_loc (inst_sref l i) = i_loc i /\ s_repeat (inst_sref l i) = i_repeat i /\
            s_file (inst_sref l i) = s_file (l_ref l) /\ s_method (inst_sref l i) = l_method l /\
            s_direct (inst_sref l i) = false.
Proof.
  intros fs l insts N E L. destruct (latest_inst_some insts E) as [i T]. exists i.
  destruct (latest_inst_spec insts i T) as [I M]. split; [exact I|]. split; [exact M|].
  split; [apply (value_placeholder fs l insts i N L T)|]. repeat split.
Qed.
Print Assumptions C10_value_placeholder.

(* an ordinary producer: nothing changes *)
Theorem C10_value_plain : forall fs l,
  l_insts l = None -> is_loop (l_method l) = false -> lvalue fs l = arg_value fs (l_ref l).
Proof. exact value_plain. Qed.
Print Assumptions C10_value_plain.

(* Placeholder:loopref - one path per instance (its working directory, joined with the file part as written),
   in the order of the iteration numbers, separated by single blanks, whatever the file system holds. *)
Theorem C10_value_loopref : forall fs l insts,
  l_insts l = Some insts -> l_method l = "loopref" ->
  exists sorted, Permutation sorted insts /\ StronglySorted iter_le sorted /\
    lvalue fs l = Some (join " " (map (fun i => reference_path (inst_sref l i)) sorted)) /\
    (forall i, reference_path (inst_sref l i) =
               match s_file (l_ref l) with None => i_loc i | Some f => path_join (i_loc i) f end).
Proof.
  intros fs l insts N M. exists (sort_insts insts).
  split; [apply sort_insts_perm|]. split; [apply sort_insts_sorted|].
  split; [apply (value_loopref fs l insts N M)|]. reflexivity.
Qed.
Print Assumptions C10_value_loopref.

(* Placeholder[/file]:loopoutput (instances that do not repeat) - one FIELD per instance, in the order of the
   iteration numbers, separated by single blanks: the contents of that instance's file (the file part, or
   out.stdout) without its trailing newlines - an EMPTY file keeps its empty field, so the k-th field belongs to
   the k-th iteration and to the k-th path of the companion loopref.  If exactly one of the files cannot be read
   (missing, a directory) the whole value is '' (resolveArguments tolerates one missing output); if two or more
   cannot, resolveArguments raises. *)
Theorem C10_value_loopoutput : forall fs l insts,
  l_insts l = Some insts -> l_method l = "loopoutput" ->
  (s_file (l_ref l) = None -> forallb (fun i => negb (i_repeat i)) insts = true) ->
  exists sorted, Permutation sorted insts /\ StronglySorted iter_le sorted /\
    let cs := map (fun i => field_content fs (path_join (i_loc i) (loop_file l))) sorted in
    List.length cs = List.length insts /\
    (List.length (filter is_none cs) = 0 -> lvalue fs l = Some (join " " (map or_empty cs))) /\
    (List.length (filter is_none cs) = 1 -> lvalue fs l = Some "") /\
    (List.length (filter is_none cs) >= 2 -> lvalue fs l = None) /\
    (forall p v, field_content fs p = Some v <-> exists c, lookup fs p = Some (File c) /\ v = rstrip_nl c).
Proof.
  intros fs l insts N M R. exists (sort_insts insts).
  split; [apply sort_insts_perm|]. split; [apply sort_insts_sorted|].
  destruct (value_loopoutput_plain fs l insts N M R) as [A [B [C D]]].
  cbv zeta. split; [exact A|]. split; [exact B|]. split; [exact C|]. split; [exact D|].
  intros p v. apply field_content_spec.
Qed.
Print Assumptions C10_value_loopoutput.

(* End to end with placeholders and aggregating methods, and for a loop that ADVANCES while an outside consumer
   is resolved again and again (one list of instances per placeholder and one file system per call): under
   `separated` for the values of the call, every answer is the token-wise substitution with each reference's own
   value at that call. *)
Theorem C10_exact_loops : forall fs ls ds ps,
  to_drefs_l fs ls = Some ds -> separated ds ps ->
  resolve_args ds (flatten ps) = spec_own_l fs ls ps /\
  (forall s, render_own_l fs ls (Lit s) = Lit s) /\
  (forall t l, List.find (fun l => l_denotes l t) ls = Some l ->
               render_own_l fs ls (Tok t) = match lvalue fs l with Some v => Lit v | None => Tok t end) /\
  (forall t, List.find (fun l => l_denotes l t) ls = None -> render_own_l fs ls (Tok t) = Tok t).
Proof.
  intros fs ls ds ps H S. split; [apply (exact_values_l fs ls ds ps H S)|]. split; [reflexivity|]. split.
  - intros t l F. apply render_own_l_value, F.
  - intros t F. cbn [render_own_l]. rewrite F. reflexivity.
Qed.
Print Assumptions C10_exact_loops.

Theorem C10_exact_loop_session : forall ls ps steps,
  forallb (fun st => separated_onb_l (snd st) (map (with_insts (fst st)) ls) ps) steps = true ->
  loop_session ls (flatten ps) steps =
  map (fun st => spec_on_l (snd st) (map (with_insts (fst st)) ls) ps) steps.
Proof. exact exact_loop_session. Qed.
Print Assumptions C10_exact_loop_session.

(* ---- the hypothesis `separated` is decidable: the boolean checker evaluated on every case of the run
   is sound and complete.  (That none of its clauses can be dropped: Refuted.v, C10_*_clause_needed.) *)
Theorem C10_separated_decidable : forall refs ps,
  (separatedb refs ps = true <-> separated refs ps) /\
  (separated refs ps <-> sep_mix refs ps /\ NoDup refs /\ sep_occ refs ps).
Proof. intros refs ps. split; [apply separatedb_iff|apply separated_clauses]. Qed.
Print Assumptions C10_separated_decidable.

(* non-vacuity: a stage-1 component that consumes stage1.A, stage1.AB (a name extending A),
   stage0.A (same name in another stage) and the contents of a file of stage0.B; prefix-related and
   equal-across-stage names, both spellings in use, a path appended to a reference *)
Definition ex_refs : list dref :=
  [ mk_ref "stage1.A:ref" "A:ref" true "/I/stages/stage1/A";
    mk_ref "stage1.AB:ref" "AB:ref" true "/I/stages/stage1/AB";
    mk_ref "stage0.A:ref" "A:ref" true "/I/stages/stage0/A";
    mk_ref "data/A.txt:copy" "data/A.txt:copy" false "/I/data/A.txt";
    mk_ref "stage0.B/o.txt:output" "B/o.txt:output" true "42" ].
Definition ex_ps : list piece :=
  [ Lit "-x "; Tok "AB:ref"; Lit " --in="; Tok "stage0.A:ref"; Lit "/f.txt "; Tok "stage1.A:ref";
    Lit " n="; Tok "stage0.B/o.txt:output"; Lit " "; Tok "AB:ref" ].
Definition ex_srefs : list sref :=
  [ mk_sref "stage1.A" "A" None "ref" false "/I/stages/stage1/A" false;
    mk_sref "stage1.AB" "AB" None "ref" false "/I/stages/stage1/AB" false;
    mk_sref "stage0.A" "A" None "ref" false "/I/stages/stage0/A" false;
    mk_sref "data/A.txt" "data/A.txt" None "copy" true "/I/data/A.txt" false;
    mk_sref "stage0.B" "B" (Some "o.txt") "output" false "/I/stages/stage0/B" false ].
Definition ex_fs : fsys :=
  [ ("/I/stages/stage0/B", Dir); ("/I/stages/stage0/B/o.txt", File ("42" ++ String nl (String nl ""))) ].
Definition ex_ps2 : list piece :=
  [ Tok "stage2.C:ref"; Lit " --in="; Tok "stage0.A:ref"; Lit "/f.txt "; Tok "stage1.A:ref"; Lit " n=";
    Tok "stage0.B/o.txt:output" ].
Definition ex_fs2 : fsys :=
  [ ("/I/stages/stage0/B", Dir); ("/I/stages/stage0/B/o.txt", File ("s/\s+/\1&/g" ++ String nl "")) ].
Definition ex_fs3 : fsys := [ ("/I/stages/stage0/B", Dir) ].
Definition ex_fs4 : fsys := [ ("/I/stages/stage0/B", Dir); ("/I/stages/stage0/B/o.txt", Dir) ].
Definition ex_ps2' : list piece :=
  [ Lit "--in="; Tok "stage0.A:ref"; Lit "/f.txt n="; Tok "stage0.B/o.txt:output"; Lit " "; Tok "AB:ref";
    Lit " "; Tok "stage1.A:ref" ].
(* a repeating producer after its 11th execution (streams 6 .. 10 kept; the streams of the other type and
   out.stdout are not what the reference is worth) and a stage-1 consumer of its stdout, in both spellings of
   a same-stage repeating producer whose streams directory holds 99 and 100 *)
Definition ex_mon : sref := mk_sref "stage0.AB" "AB" None "output" false "/I/stages/stage0/AB" true.
Definition ex_mon1 : sref := mk_sref "stage1.BB" "BB" None "output" false "/I/stages/stage1/BB" true.
Definition ex_fs_rep : fsys :=
  [ ("/I/stages/stage0/AB", Dir); ("/I/stages/stage0/AB/out.stdout", File "partial");
    ("/I/stages/stage0/AB/streams", Dir);
    ("/I/stages/stage0/AB/streams/9.stdout", File ("it 9" ++ String nl ""));
    ("/I/stages/stage0/AB/streams/10.stdout", File ("it 10" ++ String nl ""));
    ("/I/stages/stage0/AB/streams/6.stdout", File "it 6"); ("/I/stages/stage0/AB/streams/7.stdout", File "it 7");
    ("/I/stages/stage0/AB/streams/8.stdout", File "it 8"); ("/I/stages/stage0/AB/streams/11.stderr", File "w");
    ("/I/stages/stage1/BB", Dir); ("/I/stages/stage1/BB/streams", Dir);
    ("/I/stages/stage1/BB/streams/99.stdout", File "it 99"); ("/I/stages/stage1/BB/streams/100.stdout", File "it 100") ].
Definition ex_ps_rep : list piece :=
  [ Lit "--last "; Tok "stage0.AB:output"; Lit " mine="; Tok "BB:output"; Lit " again="; Tok "stage0.AB:output" ].
(* a DoWhile loop in stage 1 with the looped component `step`, after its third iteration (the instances as
   WorkflowGraph._placeholders lists them: any order); the second iteration printed nothing into result.txt;
   a stage-2 consumer reads the latest directory, the latest value, all the directories and all the values *)
Definition ex_insts : list inst :=
  [ mk_inst 2 "/I/stages/stage1/2#step" false; mk_inst 0 "/I/stages/stage1/0#step" false;
    mk_inst 1 "/I/stages/stage1/1#step" false ].
Definition ex_ph (file : option string) (m : string) : lref :=
  mk_lref (mk_sref "stage1.step" "step" file m false "/I/stages/stage1/step" false) (Some ex_insts).
Definition ex_lrefs : list lref :=
  [ ex_ph None "ref"; ex_ph (Some "result.txt") "output"; ex_ph None "loopref"; ex_ph (Some "result.txt") "loopoutput";
    mk_lref (mk_sref "stage0.A" "A" None "ref" false "/I/stages/stage0/A" false) None ].
Definition ex_fs_loop : fsys :=
  [ ("/I/stages/stage1/0#step/result.txt", File ("0.50" ++ String nl ""));
    ("/I/stages/stage1/1#step/result.txt", File "");
    ("/I/stages/stage1/2#step/result.txt", File ("0.81" ++ String nl (String nl ""))) ].
Definition ex_ps_loop : list piece :=
  [ Lit "--dir "; Tok "stage1.step:ref"; Lit " --last "; Tok "stage1.step/result.txt:output"; Lit " --dirs ";
    Tok "stage1.step:loopref"; Lit " --values "; Tok "stage1.step/result.txt:loopoutput"; Lit " "; Tok "stage0.A:ref" ].
(* ---- references declared more than once (Redeclared.v).  A command line that writes a producer of the
   consumer's own stage in BOTH spellings declares both; the list the code iterates over then holds the
   reference twice and it is visited twice (the qualified spelling, then the relative one).  For EVERY list
   of declarations - duplicates allowed, references written in both spellings allowed -: if whatever tokens
   have been replaced each spelling that is looked for occurs only as the tokens equal to it
   (separated_all), the references that denote one token have one value, and every reference written in
   both spellings is declared at least twice (covered), the result is exactly the specification. *)
Theorem C10_exact_redeclared : forall refs ps,
  separated_all refs ps -> unambiguous refs ps -> covered refs ps ->
  resolve_args refs (flatten ps) = spec refs ps.
Proof. exact exact_redeclared. Qed.
Print Assumptions C10_exact_redeclared.

(* on pieces no hypothesis on the texts is needed: the visits in sequence = the substitution in parallel *)
Theorem C10_redeclared_pieces : forall refs ps,
  unambiguous refs ps -> covered refs ps -> fold_left pstep refs ps = map (render refs) ps.
Proof. exact pieces_redeclared. Qed.
Print Assumptions C10_redeclared_pieces.

(* the checker evaluated on every case of the correspondence run is sound *)
Theorem C10_exact_redeclared_checked : forall refs ps,
  redeclaredb refs ps = true -> resolve_args refs (flatten ps) = spec refs ps.
Proof. exact exact_redeclared_checked. Qed.
Print Assumptions C10_exact_redeclared_checked.

Definition ex_sim : dref := mk_ref "stage1.Sim:ref" "Sim:ref" true "/I/stages/stage1/Sim".
Definition ex_n : dref := mk_ref "stage1.Sim/n.txt:output" "Sim/n.txt:output" true "41".
Definition ex_refs_r : list dref := [ex_sim; ex_n; mk_ref "stage0.Gen:ref" "Gen:ref" true "/I/stages/stage0/Gen"; ex_n; ex_sim].
Definition ex_ps_r : list piece :=
  [ Lit "--in "; Tok "Sim:ref"; Lit "/in.dat --check "; Tok "stage1.Sim:ref"; Lit "/in.dat --n="; Tok "Sim/n.txt:output";
    Lit ","; Tok "stage1.Sim/n.txt:output"; Lit " --gen "; Tok "stage0.Gen:ref"; Lit " literal Sim ref: stage1. end" ].

Example C10_nonvacuous :
  separatedb ex_refs ex_ps = true /\ unambiguousb ex_refs ex_ps = true /\
  resolve_args ex_refs (flatten ex_ps) =
    "-x /I/stages/stage1/AB --in=/I/stages/stage0/A/f.txt /I/stages/stage1/A n=42 /I/stages/stage1/AB" /\
  resolve_args (rev ex_refs) (flatten ex_ps) = resolve_args ex_refs (flatten ex_ps) /\
  unused_refs ex_refs (flatten ex_ps) = [] /\ same_tokenisation ex_ps = true /\
  (* hypotheses of the report theorems; a declared reference that is not written, a token that is not declared *)
  disjointb ex_refs ex_ps = true /\ colon_freeb ex_refs ex_ps = true /\
  unresolved (resolve_args ex_refs (flatten ex_ps)) = false /\
  separatedb ex_refs ex_ps2 = true /\
  unused_refs ex_refs (flatten ex_ps2) = ["stage1.AB:ref"] /\
  unresolved (resolve_args ex_refs (flatten ex_ps2)) = true /\
  (* the same references as they are declared, their values computed by the model of resolve *)
  to_drefs ex_fs ex_srefs = Some ex_refs /\
  (* a session on that component: the producer rewrites o.txt (backslashes, '&', a group reference: put in
     verbatim), deletes it, makes a directory of it *)
  forallb (fun fs => separated_onb fs ex_srefs ex_ps2') [ex_fs; ex_fs2; ex_fs3; ex_fs4] = true /\
  session ex_srefs (flatten ex_ps2') [ex_fs; ex_fs2; ex_fs3; ex_fs4; ex_fs] =
    [ Some "--in=/I/stages/stage0/A/f.txt n=42 /I/stages/stage1/AB /I/stages/stage1/A";
      Some "--in=/I/stages/stage0/A/f.txt n=s/\s+/\1&/g /I/stages/stage1/AB /I/stages/stage1/A";
      Some "--in=/I/stages/stage0/A/f.txt n= /I/stages/stage1/AB /I/stages/stage1/A";
      None;
      Some "--in=/I/stages/stage0/A/f.txt n=42 /I/stages/stage1/AB /I/stages/stage1/A" ] /\
  (* repeating producers: the stream with the greatest integer index *)
  stream_indices ex_fs_rep (streams_dir ex_mon) = [9; 10; 6; 7; 8]%N /\
  path_to_stdout ex_fs_rep ex_mon = Some "/I/stages/stage0/AB/streams/10.stdout" /\
  separated_onb ex_fs_rep [ex_mon; ex_mon1] ex_ps_rep = true /\
  session [ex_mon; ex_mon1] (flatten ex_ps_rep) [ex_fs_rep; ex_fs3] =
    [ Some "--last it 10 mine=it 100 again=it 10"; Some "--last  mine= again=" ] /\
  (* placeholders: the latest instance; one field per iteration, the empty one kept; one missing file -> '' *)
  latest_inst ex_insts = Some (mk_inst 2 "/I/stages/stage1/2#step" false) /\
  map i_iter (sort_insts ex_insts) = [0; 1; 2]%N /\
  separated_onb_l ex_fs_loop ex_lrefs ex_ps_loop = true /\
  resolve_on_l ex_fs_loop ex_lrefs (flatten ex_ps_loop) =
    Some ("--dir /I/stages/stage1/2#step --last 0.81 --dirs /I/stages/stage1/0#step /I/stages/stage1/1#step " ++
          "/I/stages/stage1/2#step --values 0.50  0.81 /I/stages/stage0/A") /\
  lvalue (List.tl ex_fs_loop) (ex_ph (Some "result.txt") "loopoutput") = Some "" /\
  lvalue [] (ex_ph (Some "result.txt") "loopoutput") = None /\
  lvalue [] (mk_lref (mk_sref "stage0.A" "A" None "loopref" false "/I/stages/stage0/A" false) None) = None /\
  loop_session ex_lrefs (flatten ex_ps_loop)
    [ ([("stage1.step", [mk_inst 0 "/I/stages/stage1/0#step" false])], ex_fs_loop); ([], ex_fs_loop) ] =
    [ Some ("--dir /I/stages/stage1/0#step --last 0.50 --dirs /I/stages/stage1/0#step --values 0.50 " ++
            "/I/stages/stage0/A");
      resolve_on_l ex_fs_loop ex_lrefs (flatten ex_ps_loop) ] /\
  (* a producer of the consumer's own stage declared and written in both spellings: outside `separated`, inside the
     hypotheses of C10_exact_redeclared; visited twice, exact; with the duplicates dropped the relative spellings stay *)
  separatedb ex_refs_r ex_ps_r = false /\ redeclaredb ex_refs_r ex_ps_r = true /\ same_tokenisation ex_ps_r = true /\
  resolve_args ex_refs_r (flatten ex_ps_r) =
    "--in /I/stages/stage1/Sim/in.dat --check /I/stages/stage1/Sim/in.dat --n=41,41 --gen /I/stages/stage0/Gen literal Sim ref: stage1. end" /\
  unused_refs ex_refs_r (flatten ex_ps_r) = [] /\ unresolved (resolve_args ex_refs_r (flatten ex_ps_r)) = false /\
  resolve_args (firstn 3 ex_refs_r) (flatten ex_ps_r) =
    "--in Sim:ref/in.dat --check /I/stages/stage1/Sim/in.dat --n=Sim/n.txt:output,41 --gen /I/stages/stage0/Gen literal Sim ref: stage1. end".
Proof. vm_compute. repeat split; reflexivity. Qed.
