(* C10 — the hypothesis `separated`: its boolean checker is complete as well as sound (so the
   hypothesis is decidable), and it is split into its clauses for the minimality witnesses of
   Refuted.v. *)
From Coq Require Import String Ascii List Bool Arith Lia Permutation.
Import ListNotations.
Require Import V.Lib.PyStr V.Args.Model V.Args.Proofs.
Open Scope string_scope.

(* ------------------------------------------------------------------ the clauses *)
Definition sep_mix (refs : list dref) (ps : list piece) : Prop := forall r, In r refs -> nomix r ps.
Definition sep_occ (refs : list dref) (ps : list piece) : Prop :=
  forall D qs r, incl D refs -> ~ In r D -> In r refs -> partial D ps qs -> cond r qs.
(* the weaker form of the last clause that looks at the original arguments only *)
Definition sep_occ0 (refs : list dref) (ps : list piece) : Prop := forall r, In r refs -> cond r ps.

Lemma separated_clauses refs ps : separated refs ps <-> sep_mix refs ps /\ NoDup refs /\ sep_occ refs ps.
Proof. reflexivity. Qed.

Lemma sep_occ_occ0 refs ps : sep_occ refs ps -> sep_occ0 refs ps.
Proof.
  intros H r Hr. apply (H [] ps r); [apply incl_nil_l|intros []|exact Hr|apply partial_refl].
Qed.

Definition sep_mixb (refs : list dref) (ps : list piece) : bool := forallb (fun r => nomixb r ps) refs.
Definition sep_occb (refs : list dref) (ps : list piece) : bool :=
  forallb (fun r => forallb (fun qs => condb r qs) (all_partials (others r refs) ps)) refs.
Definition sep_occ0b (refs : list dref) (ps : list piece) : bool := forallb (fun r => condb r ps) refs.

Lemma separatedb_clauses refs ps : separatedb refs ps = sep_mixb refs ps && nodupb refs && sep_occb refs ps.
Proof. reflexivity. Qed.

Lemma sep_mixb_sound refs ps : sep_mixb refs ps = true -> sep_mix refs ps.
Proof. unfold sep_mixb. rewrite forallb_forall. intros H r Hr. apply nomixb_sound, H, Hr. Qed.

Lemma sep_occb_sound refs ps : sep_occb refs ps = true -> sep_occ refs ps.
Proof.
  unfold sep_occb. rewrite forallb_forall. intros H D qs r Id Nr Hr P. apply condb_sound.
  specialize (H r Hr). rewrite forallb_forall in H. apply H.
  apply all_partials_complete. eapply partial_incl; [|exact P].
  intros x Hx. apply others_spec; [apply Id, Hx|]. intros ->. contradiction.
Qed.

Lemma sep_occ0b_sound refs ps : sep_occ0b refs ps = true -> sep_occ0 refs ps.
Proof. unfold sep_occ0b. rewrite forallb_forall. intros H r Hr. apply condb_sound, H, Hr. Qed.

(* ------------------------------------------------------------------ completeness of the checkers *)
Lemma occ_offsets_sound s : forall x n k, In k (occ_offsets s n x) ->
  exists l r, x = l ++ s ++ r /\ k = n + String.length l.
Proof.
  induction x as [|c x IH]; intros n k H; cbn [occ_offsets] in H; apply in_app_or in H as [H|H].
  - destruct (prefixb s "") eqn:P; [|destruct H]. destruct H as [<-|[]].
    apply prefixb_spec in P as [t P]. exists "", t. split; [exact P|cbn; lia].
  - destruct H.
  - destruct (prefixb s (String c x)) eqn:P; [|destruct H]. destruct H as [<-|[]].
    apply prefixb_spec in P as [t P]. exists "", t. split; [exact P|cbn; lia].
  - apply IH in H as [l [r [-> ->]]]. exists (String c l), r. split; [reflexivity|cbn; lia].
Qed.

Lemma tok_offsets_complete s : forall p1 p2 n,
  In (n + String.length (flatten p1)) (tok_offsets s n (p1 ++ Tok s :: p2)%list).
Proof.
  induction p1 as [|p p1 IH]; intros p2 n.
  - cbn [app tok_offsets flatten String.length is_tok]. rewrite String.eqb_refl, Nat.add_0_r. left. reflexivity.
  - cbn [app tok_offsets flatten]. apply in_or_app. right.
    rewrite length_append, Nat.add_assoc. apply IH.
Qed.

Lemma exact_occb_complete s ps : exact_occ s ps -> exact_occb s ps = true.
Proof.
  intros E. unfold exact_occb. apply forallb_forall. intros k Hk.
  apply occ_offsets_sound in Hk as [l [r [X ->]]]. destruct (E l r X) as [p1 [p2 [-> ->]]].
  apply existsb_exists. exists (0 + String.length (flatten p1)). split; [apply tok_offsets_complete|].
  apply Nat.eqb_refl.
Qed.

Lemma nonempty_complete s : s <> "" -> nonempty s = true.
Proof. destruct s; [contradiction|reflexivity]. Qed.

Lemma condb_complete r qs : cond r qs -> condb r qs = true.
Proof.
  unfold cond, condb. intros C. destruct (r_sub r); [|reflexivity]. cbn [negb orb].
  destruct (C eq_refl) as [Ha [Hr [Ea Er]]].
  rewrite (nonempty_complete _ Ha), (nonempty_complete _ Hr), (exact_occb_complete _ _ Ea). cbn [andb].
  destruct (has_tok (r_abs r) qs); [reflexivity|]. cbn [orb]. apply exact_occb_complete, Er. reflexivity.
Qed.

Lemma nomixb_complete r ps : nomix r ps -> nomixb r ps = true.
Proof.
  unfold nomix, nomixb. intros N. destruct (r_sub r); [|reflexivity]. cbn [negb orb].
  destruct (String.eqb (r_abs r) (r_rel r)) eqn:E; [reflexivity|]. cbn [orb].
  apply String.eqb_neq in E. rewrite (N eq_refl E). reflexivity.
Qed.

Lemma nodupb_complete refs : NoDup refs -> nodupb refs = true.
Proof.
  induction 1 as [|r rs Nr N IH]; [reflexivity|]. cbn [nodupb]. rewrite IH, andb_true_r.
  apply negb_true_iff. destruct (existsb (dref_eqb r) rs) eqn:X; [|reflexivity].
  apply existsb_exists in X as [x [Ix Ex]]. apply dref_eqb_spec in Ex. subst x. contradiction.
Qed.

Lemma all_partials_sound refs : forall ps qs, In qs (all_partials refs ps) -> partial refs ps qs.
Proof.
  induction ps as [|p rest IH]; intros qs H.
  - destruct H as [<-|[]]. constructor.
  - cbn [all_partials] in H. apply in_flat_map in H as [h [Hh Hq]].
    apply in_map_iff in Hq as [tl [<- Htl]]. specialize (IH _ Htl).
    destruct Hh as [<-|Hh]; [apply pa_keep, IH|].
    destruct p as [s|t]; [destruct Hh|].
    apply in_map_iff in Hh as [r [<- Hr]]. apply filter_In in Hr as [Ir Dr].
    apply pa_repl; assumption.
Qed.

Lemma others_in r refs x : In x (others r refs) -> In x refs /\ x <> r.
Proof.
  unfold others. rewrite filter_In. intros [I N]. split; [exact I|]. intros ->.
  assert (E : dref_eqb r r = true) by (apply dref_eqb_spec; reflexivity). rewrite E in N. discriminate.
Qed.

Theorem separatedb_complete refs ps : separated refs ps -> separatedb refs ps = true.
Proof.
  intros [N [ND H]]. unfold separatedb. rewrite !andb_true_iff, !forallb_forall. repeat split.
  - intros r Hr. apply nomixb_complete, N, Hr.
  - apply nodupb_complete, ND.
  - intros r Hr. apply forallb_forall. intros qs Hq. apply condb_complete.
    apply (H (others r refs) qs r).
    + intros x Hx. apply (others_in r refs x Hx).
    + intros X. apply others_in in X as [_ X]. apply X. reflexivity.
    + exact Hr.
    + apply all_partials_sound, Hq.
Qed.

Theorem separatedb_iff refs ps : separatedb refs ps = true <-> separated refs ps.
Proof. split; [apply separatedb_sound|apply separatedb_complete]. Qed.

Theorem separated_dec refs ps : {separated refs ps} + {~ separated refs ps}.
Proof.
  destruct (separatedb refs ps) eqn:E.
  - left. apply separatedb_sound, E.
  - right. intros S. apply separatedb_complete in S. congruence.
Qed.
