(* C10 — proofs about the model of resolveArguments. *)
From Coq Require Import String Ascii List Bool Arith Lia Permutation.
Import ListNotations.
Require Import V.Lib.PyStr V.Args.Model.
Open Scope string_scope.

(* ------------------------------------------------------------------ strings *)
Lemma append_inv_head a b c : a ++ b = a ++ c -> b = c.
Proof. induction a as [|x a IH]; cbn; intros H; [exact H|]. injection H as H. auto. Qed.

Lemma append_same_length l1 r1 l2 r2 :
  l1 ++ r1 = l2 ++ r2 -> String.length l1 = String.length l2 -> l1 = l2.
Proof.
  revert l2; induction l1 as [|x l1 IH]; intros [|y l2]; cbn; intros H L; try discriminate; [reflexivity|].
  injection H as -> H. injection L as L. f_equal. eauto.
Qed.

Lemma replace_repl old new s : old <> "" -> replace old new s = repl old new 0 s.
Proof. destruct old; [contradiction|reflexivity]. Qed.

(* if every occurrence of old in a ++ b starts at or after the end of a, a is copied *)
Lemma repl_skip_prefix old new a b :
  (forall l r, a ++ b = l ++ old ++ r -> exists l', l = a ++ l') ->
  repl old new 0 (a ++ b) = a ++ repl old new 0 b.
Proof.
  induction a as [|c a IH]; intros H; [reflexivity|].
  cbn [append repl].
  destruct (prefixb old (String c (a ++ b))) eqn:P.
  - apply prefixb_spec in P as [t P]. destruct (H "" t) as [l' Hl]; [cbn; exact P|]. discriminate.
  - f_equal. apply IH. intros l r E.
    destruct (H (String c l) r) as [l' Hl]; [cbn; rewrite E; reflexivity|].
    cbn in Hl. injection Hl as Hl. exists l'. exact Hl.
Qed.

(* ------------------------------------------------------------------ pieces *)
Lemma flatten_app p q : flatten (p ++ q)%list = flatten p ++ flatten q.
Proof. induction p as [|x p IH]; cbn; [reflexivity|]. rewrite IH, append_assoc. reflexivity. Qed.

Lemma is_tok_spec s p : is_tok s p = true <-> p = Tok s.
Proof.
  destruct p as [x|t]; cbn; [split; discriminate|]. rewrite String.eqb_eq. split; [intros ->; reflexivity|].
  intros H; injection H as ->; reflexivity.
Qed.

Lemma has_tok_spec s ps : has_tok s ps = true <-> In (Tok s) ps.
Proof.
  unfold has_tok. rewrite existsb_exists. split.
  - intros [p [I T]]. apply is_tok_spec in T. subst. exact I.
  - intros I. exists (Tok s). split; [exact I|]. apply is_tok_spec. reflexivity.
Qed.

(* every occurrence of s in the flattened pieces is one of the tokens equal to s *)
Definition exact_occ (s : string) (ps : list piece) : Prop :=
  forall l r, flatten ps = l ++ s ++ r -> exists p1 p2, ps = (p1 ++ Tok s :: p2)%list /\ l = flatten p1.

Lemma exact_occ_head s p rest l r :
  s <> "" -> exact_occ s (p :: rest) -> flatten (p :: rest) = l ++ s ++ r ->
  exists p1' p2, rest = (p1' ++ Tok s :: p2)%list /\ l = ptext p ++ flatten p1' \/ (p = Tok s /\ l = "").
Proof.
  intros Hs E H. destruct (E l r H) as [p1 [p2 [Eq Hl]]].
  destruct p1 as [|q p1'].
  - cbn in Eq. injection Eq as -> _. exists [], []. right. split; [reflexivity|exact Hl].
  - cbn in Eq. injection Eq as <- ->. exists p1', p2. left. split; [reflexivity|exact Hl].
Qed.

Lemma exact_occ_tail s p rest : s <> "" -> exact_occ s (p :: rest) -> exact_occ s rest.
Proof.
  intros Hs E l r H.
  assert (H' : flatten (p :: rest) = (ptext p ++ l) ++ s ++ r).
  { cbn [flatten]. rewrite H, append_assoc. reflexivity. }
  destruct (E _ _ H') as [p1 [p2 [Eq Hl]]].
  destruct p1 as [|q p1'].
  - cbn in Eq. injection Eq as -> _. cbn in Hl. destruct s; [contradiction|discriminate].
  - cbn in Eq. injection Eq as <- ->. cbn in Hl. apply append_inv_head in Hl. exists p1', p2. split; [reflexivity|exact Hl].
Qed.

(* str.replace acts token-wise when the occurrences are exactly the tokens *)
Lemma replace_exact s v ps :
  s <> "" -> exact_occ s ps -> replace s v (flatten ps) = flatten (map (sub_tok s v) ps).
Proof.
  intros Hs. rewrite replace_repl by exact Hs.
  induction ps as [|p rest IH]; intros E.
  - cbn. destruct s; [contradiction|reflexivity].
  - pose proof (exact_occ_tail s p rest Hs E) as Et. specialize (IH Et).
    cbn [map flatten]. unfold sub_tok at 1. destruct (is_tok s p) eqn:T.
    + apply is_tok_spec in T. subst p. cbn [ptext]. rewrite repl_head by exact Hs. rewrite IH. reflexivity.
    + rewrite repl_skip_prefix.
      * rewrite IH. reflexivity.
      * intros l r H. destruct (exact_occ_head s p rest l r Hs E H) as [p1' [p2 [[_ Hl]|[Hp _]]]].
        -- exists (flatten p1'). exact Hl.
        -- subst p. cbn in T. rewrite String.eqb_refl in T. discriminate.
Qed.

Lemma occurs_has_tok s ps : exact_occ s ps -> occurs s (flatten ps) = has_tok s ps.
Proof.
  intros E. destruct (has_tok s ps) eqn:H.
  - apply has_tok_spec in H. apply in_split in H as [p1 [p2 ->]].
    apply occurs_spec. exists (flatten p1), (flatten p2). rewrite flatten_app. reflexivity.
  - destruct (occurs s (flatten ps)) eqn:O; [|reflexivity].
    apply occurs_spec in O as [l [r O]]. destruct (E l r O) as [p1 [p2 [-> _]]].
    assert (X : has_tok s (p1 ++ Tok s :: p2)%list = true) by (apply has_tok_spec, in_or_app; right; left; reflexivity).
    congruence.
Qed.

(* ------------------------------------------------------------------ one step on pieces *)
Definition cond (r : dref) (ps : list piece) : Prop :=
  r_sub r = true ->
  r_abs r <> "" /\ r_rel r <> "" /\ exact_occ (r_abs r) ps /\
  (has_tok (r_abs r) ps = false -> exact_occ (r_rel r) ps).

Lemma step_pstep r ps : cond r ps -> fst (step (flatten ps) r) = flatten (pstep ps r).
Proof.
  intros C. unfold step, pstep. destruct (r_sub r) eqn:S; [|reflexivity].
  destruct (C S) as [Ha [Hr [Ea Er]]].
  rewrite (occurs_has_tok _ _ Ea). destruct (has_tok (r_abs r) ps) eqn:TA.
  - cbn [fst]. apply replace_exact; assumption.
  - specialize (Er eq_refl). rewrite (occurs_has_tok _ _ Er). destruct (has_tok (r_rel r) ps) eqn:TR.
    + cbn [fst]. apply replace_exact; assumption.
    + reflexivity.
Qed.

Lemma step_unused r ps : cond r ps ->
  snd (step (flatten ps) r) = r_sub r && negb (has_tok (r_abs r) ps) && negb (has_tok (r_rel r) ps).
Proof.
  intros C. unfold step. destruct (r_sub r) eqn:S; [|reflexivity].
  destruct (C S) as [Ha [Hr [Ea Er]]].
  rewrite (occurs_has_tok _ _ Ea). destruct (has_tok (r_abs r) ps) eqn:TA; [reflexivity|].
  specialize (Er eq_refl). rewrite (occurs_has_tok _ _ Er). destruct (has_tok (r_rel r) ps); reflexivity.
Qed.

Lemma resolve_cons r rs args : resolve_args (r :: rs) args = resolve_args rs (fst (step args r)).
Proof. reflexivity. Qed.

(* ------------------------------------------------------------------ partially substituted arguments *)
Inductive partial (refs : list dref) : list piece -> list piece -> Prop :=
| pa_nil : partial refs [] []
| pa_keep p ps qs : partial refs ps qs -> partial refs (p :: ps) (p :: qs)
| pa_repl t r ps qs : In r refs -> denotes r t = true -> partial refs ps qs ->
                      partial refs (Tok t :: ps) (Lit (r_val r) :: qs).

Lemma partial_refl refs ps : partial refs ps ps.
Proof. induction ps; constructor; assumption. Qed.

Lemma partial_incl refs refs' ps qs :
  (forall r, In r refs -> In r refs') -> partial refs ps qs -> partial refs' ps qs.
Proof. intros I P. induction P; econstructor; eauto. Qed.

Lemma partial_sub refs r s ps qs :
  In r refs -> r_sub r = true -> spells r s = true -> partial refs ps qs ->
  partial refs ps (map (sub_tok s (r_val r)) qs).
Proof.
  intros I S Sp P. induction P; cbn [map].
  - constructor.
  - unfold sub_tok at 1. destruct (is_tok s p) eqn:T.
    + apply is_tok_spec in T. subst p. apply pa_repl; [exact I| |exact IHP].
      unfold denotes. rewrite S, Sp. reflexivity.
    + constructor. exact IHP.
  - unfold sub_tok at 1. cbn [is_tok]. apply pa_repl; assumption.
Qed.

Lemma partial_pstep refs r ps qs : In r refs -> partial refs ps qs -> partial refs ps (pstep qs r).
Proof.
  intros I P. unfold pstep. destruct (r_sub r) eqn:S; [|exact P].
  destruct (has_tok (r_abs r) qs).
  - apply partial_sub; try assumption. unfold spells. rewrite String.eqb_refl. reflexivity.
  - destruct (has_tok (r_rel r) qs); [|exact P].
    apply partial_sub; try assumption. unfold spells. rewrite String.eqb_refl, orb_true_r. reflexivity.
Qed.

(* ------------------------------------------------------------------ the hypothesis of C10_exact *)
Definition nomix (r : dref) (ps : list piece) : Prop :=
  r_sub r = true -> r_abs r <> r_rel r -> has_tok (r_abs r) ps && has_tok (r_rel r) ps = false.

(* separated: (1) no reference is written in both spellings; (2) whatever tokens have already been
   replaced by the value of a reference they denote, every declared spelling that is looked for
   (the absolute one; the relative one when the absolute one is not a token) occurs in the text only
   as one of the tokens equal to it — in particular not inside a longer token, not inside a
   substituted value, and not across a boundary. *)
Definition separated (refs : list dref) (ps : list piece) : Prop :=
  (forall r, In r refs -> nomix r ps) /\ NoDup refs /\
  (forall D qs r, incl D refs -> ~ In r D -> In r refs -> partial D ps qs -> cond r qs).

Definition unambiguous (refs : list dref) (ps : list piece) : Prop :=
  forall r r' t, In r refs -> In r' refs -> In (Tok t) ps ->
                 denotes r t = true -> denotes r' t = true -> r_val r = r_val r'.

(* sequential string algorithm = sequential piece algorithm *)
Lemma seq_pieces refs ps :
  (forall D qs r, incl D refs -> ~ In r D -> In r refs -> partial D ps qs -> cond r qs) ->
  forall todo done qs, incl todo refs -> incl done refs -> NoDup todo ->
    (forall x, In x todo -> ~ In x done) -> partial done ps qs ->
  resolve_args todo (flatten qs) = flatten (fold_left pstep todo qs).
Proof.
  intros H todo. induction todo as [|r rs IH]; intros done qs It Id N Dj P; [reflexivity|].
  rewrite resolve_cons. cbn [fold_left].
  rewrite (step_pstep r qs).
  2:{ apply (H done); [exact Id|apply Dj; left; reflexivity|apply It; left; reflexivity|exact P]. }
  inversion N as [|? ? Nr Nrs]; subst.
  apply (IH (r :: done)).
  - intros x Hx. apply It. right. exact Hx.
  - intros x [<-|Hx]; [apply It; left; reflexivity|apply Id, Hx].
  - exact Nrs.
  - intros x Hx [<-|Hd]; [contradiction|]. apply (Dj x); [right; exact Hx|exact Hd].
  - apply partial_pstep; [left; reflexivity|].
    eapply partial_incl; [|exact P]. intros x Hx. right. exact Hx.
Qed.

Lemma has_tok_sub_mono s s' v ps : has_tok s (map (sub_tok s' v) ps) = true -> has_tok s ps = true.
Proof.
  rewrite !has_tok_spec, in_map_iff. intros [p [E I]]. unfold sub_tok in E.
  destruct (is_tok s' p); [discriminate|]. subst p. exact I.
Qed.

Lemma has_tok_pstep_mono s r ps : has_tok s (pstep ps r) = true -> has_tok s ps = true.
Proof.
  unfold pstep. destruct (r_sub r); [|auto]. destruct (has_tok (r_abs r) ps); [apply has_tok_sub_mono|].
  destruct (has_tok (r_rel r) ps); [apply has_tok_sub_mono|auto].
Qed.

Lemma nomix_pstep r r' ps : nomix r ps -> nomix r (pstep ps r').
Proof.
  intros N S D. specialize (N S D). apply andb_false_iff in N. apply andb_false_iff.
  destruct N as [N|N]; [left|right]; (destruct (has_tok _ (pstep ps r')) eqn:X; [|reflexivity]);
    apply has_tok_pstep_mono in X; congruence.
Qed.

Lemma render_cons r rs t :
  render (r :: rs) (Tok t) = if denotes r t then Lit (r_val r) else render rs (Tok t).
Proof. cbn [render List.find]. destruct (denotes r t); reflexivity. Qed.

(* sequential piece algorithm = the parallel (specification) substitution *)
Lemma seq_is_parallel refs : forall ps,
  (forall r, In r refs -> nomix r ps) -> fold_left pstep refs ps = map (render refs) ps.
Proof.
  induction refs as [|r rs IH]; intros ps N.
  - cbn. rewrite <- (map_id ps) at 1. apply map_ext. intros [x|t]; reflexivity.
  - cbn [fold_left]. rewrite IH.
    2:{ intros x Hx. apply nomix_pstep. apply N. right. exact Hx. }
    assert (Nr : nomix r ps) by (apply N; left; reflexivity).
    assert (G : exists g, pstep ps r = map g ps /\
                forall p, In p ps -> render rs (g p) = render (r :: rs) p).
    { unfold pstep. destruct (r_sub r) eqn:S.
      - destruct (has_tok (r_abs r) ps) eqn:TA; [|destruct (has_tok (r_rel r) ps) eqn:TR].
        + exists (sub_tok (r_abs r) (r_val r)). split; [reflexivity|].
          intros [x|t] Ip; [reflexivity|]. rewrite render_cons. unfold denotes, spells, sub_tok. cbn [is_tok].
          rewrite S. cbn [andb].
          destruct (String.eqb t (r_abs r)) eqn:EA; cbn [orb]; [reflexivity|].
          destruct (String.eqb t (r_rel r)) eqn:ER; [|reflexivity].
          apply String.eqb_eq in ER. subst t. apply has_tok_spec in Ip.
          assert (D : r_abs r <> r_rel r) by (intros E; rewrite E, String.eqb_refl in EA; discriminate).
          specialize (Nr S D). rewrite TA, Ip in Nr. discriminate.
        + exists (sub_tok (r_rel r) (r_val r)). split; [reflexivity|].
          intros [x|t] Ip; [reflexivity|]. rewrite render_cons. unfold denotes, spells, sub_tok. cbn [is_tok].
          rewrite S. cbn [andb].
          destruct (String.eqb t (r_abs r)) eqn:EA.
          * apply String.eqb_eq in EA. subst t. apply has_tok_spec in Ip. congruence.
          * cbn [orb]. destruct (String.eqb t (r_rel r)); reflexivity.
        + exists (fun p => p). split; [symmetry; apply map_id|].
          intros [x|t] Ip; [reflexivity|]. rewrite render_cons. unfold denotes, spells.
          rewrite S. cbn [andb].
          apply has_tok_spec in Ip.
          destruct (String.eqb t (r_abs r)) eqn:EA; [apply String.eqb_eq in EA; subst t; congruence|].
          destruct (String.eqb t (r_rel r)) eqn:ER; [apply String.eqb_eq in ER; subst t; congruence|].
          reflexivity.
      - exists (fun p => p). split; [symmetry; apply map_id|].
        intros [x|t] Ip; [reflexivity|]. rewrite render_cons. unfold denotes. rewrite S. reflexivity. }
    destruct G as [g [-> Hg]]. rewrite map_map. apply map_ext_in. exact Hg.
Qed.

Theorem exact refs ps : separated refs ps -> resolve_args refs (flatten ps) = spec refs ps.
Proof.
  intros [N [ND H]].
  rewrite (seq_pieces refs ps H refs [] ps (incl_refl _) (incl_nil_l _) ND (fun x _ F => F) (partial_refl [] ps)).
  unfold spec. rewrite seq_is_parallel by exact N. reflexivity.
Qed.

(* ------------------------------------------------------------------ order independence *)
Lemma separated_perm refs refs' ps :
  Permutation refs refs' -> separated refs ps -> separated refs' ps.
Proof.
  intros Pm [N [ND H]].
  assert (I : forall r, In r refs' -> In r refs) by (intros r; apply Permutation_in, Permutation_sym, Pm).
  split; [|split].
  - intros r Hr. apply N, I, Hr.
  - eapply Permutation_NoDup; eassumption.
  - intros D qs r Id Nr Hr P. apply (H D); [|exact Nr|apply I, Hr|exact P].
    intros x Hx. apply I, Id, Hx.
Qed.

Lemma spec_perm refs refs' ps :
  (forall r, In r refs <-> In r refs') -> unambiguous refs ps -> spec refs ps = spec refs' ps.
Proof.
  intros I U. unfold spec. f_equal. apply map_ext_in. intros [x|t] Ip; [reflexivity|]. cbn [render].
  destruct (List.find (fun r => denotes r t) refs) as [r|] eqn:F;
    destruct (List.find (fun r => denotes r t) refs') as [r'|] eqn:F'.
  - apply find_some in F as [Hr Dr]. apply find_some in F' as [Hr' Dr'].
    rewrite (U r r' t Hr (proj2 (I r') Hr') Ip Dr Dr'). reflexivity.
  - apply find_some in F as [Hr Dr]. pose proof (find_none _ _ F' r (proj1 (I r) Hr)) as X. cbn in X. congruence.
  - apply find_some in F' as [Hr' Dr']. pose proof (find_none _ _ F r' (proj2 (I r') Hr')) as X. cbn in X. congruence.
  - reflexivity.
Qed.

Theorem order_independent refs refs' ps :
  Permutation refs refs' -> separated refs ps -> unambiguous refs ps ->
  resolve_args refs (flatten ps) = resolve_args refs' (flatten ps).
Proof.
  intros P S U.
  assert (I : forall r, In r refs <-> In r refs').
  { intros r. split; apply Permutation_in; [exact P|apply Permutation_sym; exact P]. }
  rewrite (exact refs ps S), (exact refs' ps (separated_perm _ _ _ P S)). apply spec_perm; assumption.
Qed.

(* ------------------------------------------------------------------ soundness of the checkers *)
Lemma occ_offsets_complete s : forall l n x r, x = l ++ s ++ r -> In (n + String.length l) (occ_offsets s n x).
Proof.
  induction l as [|c l IH]; intros n x r ->.
  - cbn [append String.length]. rewrite Nat.add_0_r.
    destruct (s ++ r) eqn:E; cbn [occ_offsets]; rewrite <- E, prefixb_refl; apply in_or_app; left; left; reflexivity.
  - cbn [append occ_offsets String.length]. apply in_or_app. right.
    replace (n + S (String.length l)) with (S n + String.length l) by lia. eapply IH. reflexivity.
Qed.

Lemma tok_offsets_sound s : forall ps n k, In k (tok_offsets s n ps) ->
  exists p1 p2, ps = (p1 ++ Tok s :: p2)%list /\ k = n + String.length (flatten p1).
Proof.
  induction ps as [|p rest IH]; intros n k H; [destruct H|].
  cbn [tok_offsets] in H. apply in_app_or in H as [H|H].
  - destruct (is_tok s p) eqn:T; [|destruct H]. destruct H as [<-|[]]. apply is_tok_spec in T. subst p.
    exists [], rest. split; [reflexivity|cbn; lia].
  - apply IH in H as [p1 [p2 [-> ->]]]. exists (p :: p1), p2. split; [reflexivity|].
    cbn [flatten]. rewrite length_append. lia.
Qed.

Lemma exact_occb_sound s ps : exact_occb s ps = true -> exact_occ s ps.
Proof.
  unfold exact_occb. rewrite forallb_forall. intros H l r E.
  pose proof (occ_offsets_complete s l 0 _ r E) as O. cbn [Nat.add] in O.
  apply H in O. apply existsb_exists in O as [k [Ik Ek]]. apply Nat.eqb_eq in Ek. subst k.
  apply tok_offsets_sound in Ik as [p1 [p2 [-> L]]]. exists p1, p2. split; [reflexivity|].
  rewrite flatten_app in E. cbn [flatten ptext] in E. cbn in L.
  eapply append_same_length; [symmetry; exact E|exact L].
Qed.

Lemma nonempty_spec s : nonempty s = true -> s <> "".
Proof. destruct s; [discriminate|intros _ H; discriminate]. Qed.

Lemma condb_sound r qs : condb r qs = true -> cond r qs.
Proof.
  unfold condb, cond. intros H S. rewrite S in H. cbn [negb orb] in H.
  apply andb_true_iff in H as [H H4]. apply andb_true_iff in H as [H H3]. apply andb_true_iff in H as [H1 H2].
  repeat split.
  - apply nonempty_spec, H1.
  - apply nonempty_spec, H2.
  - apply exact_occb_sound, H3.
  - intros T. rewrite T in H4. apply exact_occb_sound, H4.
Qed.

Lemma nomixb_sound r ps : nomixb r ps = true -> nomix r ps.
Proof.
  unfold nomixb, nomix. intros H S D. rewrite S in H. cbn [negb orb] in H.
  destruct (String.eqb (r_abs r) (r_rel r)) eqn:E; [apply String.eqb_eq in E; contradiction|].
  cbn [orb] in H. apply negb_true_iff in H. exact H.
Qed.

Lemma all_partials_complete refs ps qs : partial refs ps qs -> In qs (all_partials refs ps).
Proof.
  intros P. induction P.
  - left. reflexivity.
  - cbn [all_partials]. apply in_flat_map. exists p. split; [left; reflexivity|]. apply in_map. exact IHP.
  - cbn [all_partials]. apply in_flat_map. exists (Lit (r_val r)). split.
    + right. apply in_map_iff. exists r. split; [reflexivity|]. apply filter_In. split; assumption.
    + apply in_map. exact IHP.
Qed.

Lemma dref_eqb_spec a b : dref_eqb a b = true <-> a = b.
Proof.
  destruct a as [a1 a2 a3 a4], b as [b1 b2 b3 b4]. unfold dref_eqb. cbn.
  rewrite !andb_true_iff, !String.eqb_eq, Bool.eqb_true_iff. split.
  - intros [[[-> ->] ->] ->]. reflexivity.
  - intros E. injection E as -> -> -> ->. repeat split.
Qed.

Lemma nodupb_sound refs : nodupb refs = true -> NoDup refs.
Proof.
  induction refs as [|r rs IH]; cbn; intros H; constructor.
  - apply andb_true_iff in H as [H _]. apply negb_true_iff in H. intros I.
    assert (X : existsb (dref_eqb r) rs = true) by (apply existsb_exists; exists r; split; [exact I|apply dref_eqb_spec; reflexivity]).
    congruence.
  - apply IH. apply andb_true_iff in H as [_ H]. exact H.
Qed.

Lemma others_spec r refs x : In x refs -> x <> r -> In x (others r refs).
Proof.
  intros I Ne. apply filter_In. split; [exact I|]. apply negb_true_iff.
  destruct (dref_eqb x r) eqn:E; [apply dref_eqb_spec in E; contradiction|reflexivity].
Qed.

Theorem separatedb_sound refs ps : separatedb refs ps = true -> separated refs ps.
Proof.
  unfold separatedb. rewrite !andb_true_iff, !forallb_forall. intros [[N ND] H]. split; [|split].
  - intros r Hr. apply nomixb_sound, N, Hr.
  - apply nodupb_sound, ND.
  - intros D qs r Id Nr Hr P. apply condb_sound.
    specialize (H r Hr). rewrite forallb_forall in H. apply H.
    apply all_partials_complete. eapply partial_incl; [|exact P].
    intros x Hx. apply others_spec; [apply Id, Hx|]. intros ->. contradiction.
Qed.

Theorem unambiguousb_sound refs ps : unambiguousb refs ps = true -> unambiguous refs ps.
Proof.
  unfold unambiguousb. rewrite forallb_forall. intros H r r' t Hr Hr' It D D'.
  specialize (H _ It). cbn in H. rewrite forallb_forall in H. specialize (H r Hr).
  rewrite forallb_forall in H. specialize (H r' Hr'). rewrite D, D' in H. cbn in H.
  apply String.eqb_eq. exact H.
Qed.

(* ------------------------------------------------------------------ the tokeniser loses nothing *)
Lemma drop_length_app m r : drop (String.length m) (m ++ r) = r.
Proof. induction m as [|a m IH]; cbn; [reflexivity|exact IH]. Qed.

Lemma flatten_tok_aux : forall s lit run skip,
  flatten (tok_aux lit run skip s) = lit ++ run ++ drop skip s.
Proof.
  induction s as [|c s IH]; intros lit run skip.
  - cbn. destruct skip; cbn; rewrite !append_nil_r; reflexivity.
  - cbn [tok_aux]. destruct skip as [|k].
    + cbn [drop]. destruct (is_namech c).
      * rewrite IH. cbn [drop]. rewrite !append_assoc. reflexivity.
      * destruct (Ascii.eqb c ":"%char && nonempty run) eqn:E.
        -- apply andb_true_iff in E as [E _]. apply Ascii.eqb_eq in E. subst c.
           destruct (first_method s) as [m|] eqn:F.
           ++ apply find_some in F as [_ F]. apply prefixb_spec in F as [r ->].
              cbn [flatten ptext]. rewrite IH, drop_length_app. cbn [append]. rewrite !append_assoc. reflexivity.
           ++ rewrite IH. cbn [drop append]. rewrite !append_assoc. reflexivity.
        -- rewrite IH. cbn [drop append]. rewrite !append_assoc. reflexivity.
    + rewrite IH. reflexivity.
Qed.

Theorem flatten_tokenise s : flatten (tokenise s) = s.
Proof. unfold tokenise. rewrite flatten_tok_aux. reflexivity. Qed.


Theorem exact_string refs args :
  separated refs (tokenise args) -> resolve_args refs args = spec refs (tokenise args).
Proof. intros S. rewrite <- (flatten_tokenise args) at 1. apply exact, S. Qed.
