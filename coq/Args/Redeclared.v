(* C10 — references declared more than once.
   A producer of the consumer's own stage may be written Sim:ref or stage1.Sim:ref; a command line that
   writes BOTH spellings declares both (FlowIR checks every reference string of the arguments against the
   declarations).  ComponentSpecification.componentDataReferences keeps both declarations - two equal
   DataReference objects - so resolveArguments visits the reference twice: the first visit replaces the
   qualified spelling, the second (the qualified one is gone) the relative one.  Model.run takes the list
   as it is iterated, duplicates included; `separated` (Proofs.v) excludes duplicates and references
   written in both spellings.  Here: exactness WITHOUT those two clauses, for every list, under
     separated_all : whatever tokens have been replaced (by any declared reference, the visited one
                     included) the spelling that is looked for occurs only as the tokens equal to it;
     unambiguous   : the references that denote one token have one value;
     covered       : a reference written in both spellings is declared (at least) twice. *)
From Coq Require Import String List Bool Arith Lia.
Import ListNotations.
Require Import V.Lib.PyStr V.Args.Model V.Args.Proofs.
Open Scope string_scope.

Definition separated_all (refs : list dref) (ps : list piece) : Prop :=
  forall qs r, In r refs -> partial refs ps qs -> cond r qs.

Definition times (r : dref) (refs : list dref) : nat := List.length (filter (dref_eqb r) refs).

Definition covered (refs : list dref) (ps : list piece) : Prop :=
  forall r, In r refs -> r_sub r = true -> r_abs r <> r_rel r ->
    has_tok (r_abs r) ps = true -> has_tok (r_rel r) ps = true -> 2 <= times r refs.

(* ---- strings = pieces, duplicates allowed *)
Lemma seq_pieces_all refs ps : separated_all refs ps ->
  forall todo qs, incl todo refs -> partial refs ps qs ->
  resolve_args todo (flatten qs) = flatten (fold_left pstep todo qs).
Proof.
  intros H todo. induction todo as [|r rs IH]; intros qs It P; [reflexivity|].
  rewrite resolve_cons. cbn [fold_left].
  rewrite (step_pstep r qs) by (apply H; [apply It; left; reflexivity|exact P]).
  apply IH.
  - intros x Hx. apply It. right. exact Hx.
  - apply partial_pstep; [apply It; left; reflexivity|exact P].
Qed.

(* ---- which tokens are left after the visits *)
Lemma has_tok_sub_self s v qs : has_tok s (map (sub_tok s v) qs) = false.
Proof.
  destruct (has_tok s (map (sub_tok s v) qs)) eqn:H; [|reflexivity].
  apply has_tok_spec, in_map_iff in H as [p [E _]]. unfold sub_tok in E.
  destruct (is_tok s p) eqn:T; [discriminate|]. subst p. cbn in T. rewrite String.eqb_refl in T. discriminate.
Qed.

Lemma pstep_keeps_false s r qs : has_tok s qs = false -> has_tok s (pstep qs r) = false.
Proof.
  intros H. destruct (has_tok s (pstep qs r)) eqn:X; [|reflexivity].
  apply has_tok_pstep_mono in X. congruence.
Qed.

Lemma fold_keeps_false s l : forall qs, has_tok s qs = false -> has_tok s (fold_left pstep l qs) = false.
Proof. induction l as [|x l IH]; intros qs H; [exact H|]. cbn [fold_left]. apply IH, pstep_keeps_false, H. Qed.

Lemma pstep_kills_abs r qs : r_sub r = true -> has_tok (r_abs r) (pstep qs r) = false.
Proof.
  intros S. unfold pstep. rewrite S. destruct (has_tok (r_abs r) qs) eqn:TA; [apply has_tok_sub_self|].
  destruct (has_tok (r_rel r) qs); [|exact TA].
  destruct (has_tok (r_abs r) (map (sub_tok (r_rel r) (r_val r)) qs)) eqn:X; [|reflexivity].
  apply has_tok_sub_mono in X. congruence.
Qed.

Lemma pstep_kills_rel r qs : r_sub r = true -> has_tok (r_abs r) qs = false -> has_tok (r_rel r) (pstep qs r) = false.
Proof.
  intros S TA. unfold pstep. rewrite S, TA. destruct (has_tok (r_rel r) qs) eqn:TR; [apply has_tok_sub_self|exact TR].
Qed.

Lemma gone_abs r : r_sub r = true -> forall l qs, In r l -> has_tok (r_abs r) (fold_left pstep l qs) = false.
Proof.
  intros S l. induction l as [|x l IH]; intros qs I; [destruct I|]. cbn [fold_left].
  destruct I as [->|I]; [|apply IH, I]. apply fold_keeps_false, pstep_kills_abs, S.
Qed.

Lemma gone_rel_once r : r_sub r = true -> forall l qs, In r l -> has_tok (r_abs r) qs = false ->
  has_tok (r_rel r) (fold_left pstep l qs) = false.
Proof.
  intros S l. induction l as [|x l IH]; intros qs I TA; [destruct I|]. cbn [fold_left].
  destruct I as [->|I].
  - apply fold_keeps_false, pstep_kills_rel; assumption.
  - apply IH; [exact I|]. apply pstep_keeps_false, TA.
Qed.

Lemma times_in r l : 1 <= times r l -> In r l.
Proof.
  unfold times. induction l as [|x l IH]; cbn; [lia|].
  destruct (dref_eqb r x) eqn:E.
  - intros _. left. apply dref_eqb_spec in E. symmetry. exact E.
  - intros H. right. apply IH, H.
Qed.

Lemma gone_rel_twice r : r_sub r = true -> forall l qs, 2 <= times r l ->
  has_tok (r_rel r) (fold_left pstep l qs) = false.
Proof.
  intros S l. induction l as [|x l IH]; intros qs T; [cbn in T; lia|]. cbn [fold_left].
  unfold times in T. cbn [filter] in T. destruct (dref_eqb r x) eqn:E.
  - apply dref_eqb_spec in E. subst x. cbn [List.length] in T.
    apply gone_rel_once; [exact S|apply times_in; unfold times; lia|apply pstep_kills_abs, S].
  - apply IH. exact T.
Qed.

Lemma gone refs ps r t : covered refs ps -> In r refs -> denotes r t = true ->
  has_tok t (fold_left pstep refs ps) = false.
Proof.
  intros C I D. unfold denotes, spells in D. apply andb_true_iff in D as [S D].
  destruct (String.eqb t (r_abs r)) eqn:EA.
  - apply String.eqb_eq in EA. subst t. apply gone_abs; assumption.
  - cbn [orb] in D. apply String.eqb_eq in D. subst t.
    assert (Ne : r_abs r <> r_rel r) by (intros E; rewrite E, String.eqb_refl in EA; discriminate).
    destruct (has_tok (r_abs r) ps) eqn:TA; [|apply gone_rel_once; assumption].
    destruct (has_tok (r_rel r) ps) eqn:TR; [|apply fold_keeps_false, TR].
    apply gone_rel_twice; [exact S|]. apply C; assumption.
Qed.

(* ---- every piece is the original one or its rendering *)
Definition shown (refs : list dref) (p q : piece) : Prop := q = p \/ q = render refs p.

Lemma render_denoted refs ps r s : unambiguous refs ps -> In r refs -> denotes r s = true -> In (Tok s) ps ->
  render refs (Tok s) = Lit (r_val r).
Proof.
  intros U I D Ip. cbn [render]. destruct (List.find (fun x => denotes x s) refs) as [r'|] eqn:F.
  - apply find_some in F as [I' D']. rewrite (U r' r s I' I Ip D' D). reflexivity.
  - pose proof (find_none _ _ F r I) as X. cbn in X. congruence.
Qed.

Lemma shown_sub refs ps r s : unambiguous refs ps -> In r refs -> denotes r s = true ->
  forall ps' qs', (forall p, In p ps' -> In p ps) -> Forall2 (shown refs) ps' qs' ->
  Forall2 (shown refs) ps' (map (sub_tok s (r_val r)) qs').
Proof.
  intros U I D ps' qs' Sub F. induction F as [|p q ps' qs' Hpq F IH]; cbn [map]; constructor.
  - unfold sub_tok. destruct (is_tok s q) eqn:T; [|exact Hpq].
    apply is_tok_spec in T. subst q. right.
    assert (Ep : p = Tok s).
    { destruct Hpq as [E|E]; [symmetry; exact E|]. destruct p as [x|t]; [discriminate E|].
      cbn [render] in E. destruct (List.find (fun x => denotes x t) refs); [discriminate E|]. symmetry. exact E. }
    subst p. symmetry. apply (render_denoted refs ps r s U I D). apply Sub. left. reflexivity.
  - apply IH. intros x Hx. apply Sub. right. exact Hx.
Qed.

Lemma shown_pstep refs ps r qs : unambiguous refs ps -> In r refs ->
  Forall2 (shown refs) ps qs -> Forall2 (shown refs) ps (pstep qs r).
Proof.
  intros U I F. unfold pstep. destruct (r_sub r) eqn:S; [|exact F].
  destruct (has_tok (r_abs r) qs).
  - apply (shown_sub refs ps r); try assumption; [|auto]. unfold denotes, spells. rewrite S, String.eqb_refl. reflexivity.
  - destruct (has_tok (r_rel r) qs); [|exact F].
    apply (shown_sub refs ps r); try assumption; [|auto]. unfold denotes, spells. rewrite S, String.eqb_refl, orb_true_r. reflexivity.
Qed.

Lemma shown_fold refs ps : unambiguous refs ps -> forall l qs, incl l refs ->
  Forall2 (shown refs) ps qs -> Forall2 (shown refs) ps (fold_left pstep l qs).
Proof.
  intros U l. induction l as [|x l IH]; intros qs Il F; [exact F|]. cbn [fold_left].
  apply IH; [intros y Hy; apply Il; right; exact Hy|]. apply shown_pstep; [exact U|apply Il; left; reflexivity|exact F].
Qed.

Lemma shown_refl refs ps : Forall2 (shown refs) ps ps.
Proof. induction ps; constructor; [left; reflexivity|assumption]. Qed.

Lemma shown_final refs : forall ps qs, Forall2 (shown refs) ps qs ->
  (forall t, In (Tok t) qs -> render refs (Tok t) = Tok t) -> qs = map (render refs) ps.
Proof.
  intros ps qs F. induction F as [|p q ps qs Hpq F IH]; intros H; [reflexivity|]. cbn [map]. f_equal.
  - destruct Hpq as [E|E]; [|exact E]. subst q. destruct p as [x|t]; [reflexivity|].
    symmetry. apply H. left. reflexivity.
  - apply IH. intros t Ht. apply H. right. exact Ht.
Qed.

(* the sequential piece algorithm = the specification, duplicates and both spellings allowed *)
Theorem pieces_redeclared refs ps : unambiguous refs ps -> covered refs ps ->
  fold_left pstep refs ps = map (render refs) ps.
Proof.
  intros U C. apply shown_final.
  - apply shown_fold; [exact U|apply incl_refl|apply shown_refl].
  - intros t It. cbn [render]. destruct (List.find (fun r => denotes r t) refs) as [r|] eqn:F; [|reflexivity].
    apply find_some in F as [I D]. pose proof (gone refs ps r t C I D) as G.
    apply has_tok_spec in It. congruence.
Qed.

Theorem exact_redeclared refs ps :
  separated_all refs ps -> unambiguous refs ps -> covered refs ps ->
  resolve_args refs (flatten ps) = spec refs ps.
Proof.
  intros S U C. rewrite (seq_pieces_all refs ps S refs ps (incl_refl _) (partial_refl refs ps)).
  unfold spec. rewrite pieces_redeclared by assumption. reflexivity.
Qed.

(* ---- decidable versions, evaluated on every case of the correspondence run *)
Definition separated_allb (refs : list dref) (ps : list piece) : bool :=
  let parts := all_partials refs ps in forallb (fun r => forallb (fun qs => condb r qs) parts) refs.
Definition coveredb (refs : list dref) (ps : list piece) : bool :=
  forallb (fun r => negb (r_sub r) || String.eqb (r_abs r) (r_rel r) ||
                    negb (has_tok (r_abs r) ps && has_tok (r_rel r) ps) || Nat.leb 2 (times r refs)) refs.
Definition redeclaredb (refs : list dref) (ps : list piece) : bool :=
  separated_allb refs ps && unambiguousb refs ps && coveredb refs ps.

Lemma separated_allb_sound refs ps : separated_allb refs ps = true -> separated_all refs ps.
Proof.
  unfold separated_allb. rewrite forallb_forall. intros H qs r I P. apply condb_sound.
  specialize (H r I). rewrite forallb_forall in H. apply H, all_partials_complete, P.
Qed.

Lemma coveredb_sound refs ps : coveredb refs ps = true -> covered refs ps.
Proof.
  unfold coveredb. rewrite forallb_forall. intros H r I S Ne TA TR. specialize (H r I).
  rewrite S, TA, TR in H. cbn [negb andb orb] in H.
  destruct (String.eqb (r_abs r) (r_rel r)) eqn:E; [apply String.eqb_eq in E; contradiction|].
  cbn [orb] in H. apply Nat.leb_le in H. exact H.
Qed.

Theorem exact_redeclared_checked refs ps :
  redeclaredb refs ps = true -> resolve_args refs (flatten ps) = spec refs ps.
Proof.
  unfold redeclaredb. rewrite !andb_true_iff. intros [[S U] C].
  apply exact_redeclared; [apply separated_allb_sound, S|apply unambiguousb_sound, U|apply coveredb_sound, C].
Qed.

(* is some reference declared more than once? (statistics) *)
Definition has_duplicate (refs : list dref) : bool := negb (nodupb refs).

(* ---- correspondence checker: Model.check_case and, where the hypotheses of exact_redeclared hold
   (in particular: a reference declared and written in both spellings), the implementation = spec *)
Definition check_case_r (c : (list dref * list piece) * ((string * list string) * bool)) : bool :=
  check_case c &&
  (let '((refs, ps), ((out, _), _)) := c in
   (* (lists without duplicates: redeclaredb implies separatedb, Model.check_case has compared with spec) *)
   if has_duplicate refs then (if redeclaredb refs ps then String.eqb out (spec refs ps) else true) else true).

Definition in_scope_r (c : (list dref * list piece) * ((string * list string) * bool)) : bool :=
  let '((refs, ps), _) := c in
  if has_duplicate refs then redeclaredb refs ps else separatedb refs ps && unambiguousb refs ps.
