(* C10 — parts of the full statement that are false of the code as written (each is a finding). *)
From Coq Require Import String List Bool Permutation.
Import ListNotations.
Require Import V.Lib.PyStr V.Args.Model V.Args.Proofs V.Args.Minimal V.Args.Reports.
Open Scope string_scope.

Definition rA   := mk_ref "stage1.A:ref" "A:ref" true "/I/stages/stage1/A".
Definition rBA  := mk_ref "stage1.BA:ref" "BA:ref" true "/I/stages/stage1/BA".
Definition rA0  := mk_ref "stage0.A:ref" "A:ref" true "/I/stages/stage0/A".
Definition rOut := mk_ref "stage0.A/o.txt:output" "A/o.txt:output" true "see B:ref".
Definition rB   := mk_ref "stage1.B:ref" "B:ref" true "/I/stages/stage1/B".

(* F10: one producer's name is the end of another's: A declared before BA, arguments "BA:ref A:ref".
   The result is "B<path of A> <path of A>", it differs from the result for the other declaration
   order (which is the specification), and BA is then reported unused. *)
Theorem C10_substring_refuted :
  exists refs refs' ps,
    Permutation refs refs' /\ unambiguousb refs ps = true /\
    resolve_args refs (flatten ps) = "B/I/stages/stage1/A /I/stages/stage1/A" /\
    spec refs ps = "/I/stages/stage1/BA /I/stages/stage1/A" /\
    resolve_args refs' (flatten ps) = spec refs ps /\
    unused_refs refs (flatten ps) = ["stage1.BA:ref"].
Proof.
  exists [rA; rBA], [rBA; rA], [Tok "BA:ref"; Lit " "; Tok "A:ref"].
  split; [apply perm_swap|]. vm_compute. repeat split; reflexivity.
Qed.
Print Assumptions C10_substring_refuted.

(* F10: equal names across stages: a stage-1 component declares A:ref (stage1.A) before stage0.A:ref *)
Theorem C10_cross_stage_refuted :
  exists refs refs' ps,
    Permutation refs refs' /\
    resolve_args refs (flatten ps) = "stage0./I/stages/stage1/A /I/stages/stage1/A" /\
    spec refs ps = "/I/stages/stage0/A /I/stages/stage1/A" /\
    resolve_args refs' (flatten ps) = spec refs ps /\
    unused_refs refs (flatten ps) = ["stage0.A:ref"].
Proof.
  exists [rA; rA0], [rA0; rA], [Tok "stage0.A:ref"; Lit " "; Tok "A:ref"].
  split; [apply perm_swap|]. vm_compute. repeat split; reflexivity.
Qed.
Print Assumptions C10_cross_stage_refuted.

(* F10b: "in either spelling": when both spellings of one reference are used in one command line only
   the absolute ones are replaced; the relative one stays and is flagged as an undeclared reference *)
Theorem C10_both_spellings_refuted :
  exists refs ps,
    resolve_args refs (flatten ps) = "/I/stages/stage1/A A:ref" /\
    spec refs ps = "/I/stages/stage1/A /I/stages/stage1/A" /\
    unresolved (resolve_args refs (flatten ps)) = true.
Proof.
  exists [rA], [Tok "stage1.A:ref"; Lit " "; Tok "A:ref"]. vm_compute. repeat split; reflexivity.
Qed.
Print Assumptions C10_both_spellings_refuted.

(* F10c: "by that reference's own value": the contents substituted for an output reference are scanned
   again for the references declared after it *)
Theorem C10_value_rescanned_refuted :
  exists refs refs' ps,
    Permutation refs refs' /\ unambiguousb refs ps = true /\
    resolve_args refs (flatten ps) = "see /I/stages/stage1/B /I/stages/stage1/B" /\
    spec refs ps = "see B:ref /I/stages/stage1/B" /\
    resolve_args refs' (flatten ps) = spec refs ps.
Proof.
  exists [rOut; rB], [rB; rOut], [Tok "stage0.A/o.txt:output"; Lit " "; Tok "B:ref"].
  split; [apply perm_swap|]. vm_compute. repeat split; reflexivity.
Qed.
Print Assumptions C10_value_rescanned_refuted.

(* ------------------------------------------------------------------------------------------------
   Minimality of the hypothesis `separated` = sep_mix /\ NoDup /\ sep_occ (Minimal.separated_clauses):
   for each clause, references and arguments that satisfy the other clauses and on which the
   sequential algorithm differs from the specification. *)
Ltac differ := let H := fresh in intros H; vm_compute in H; discriminate H.

(* without "no reference written in both spellings" (F10b) *)
Theorem C10_mix_clause_needed_refuted :
  exists refs ps, NoDup refs /\ sep_occ refs ps /\ resolve_args refs (flatten ps) <> spec refs ps.
Proof.
  exists [rA], [Tok "stage1.A:ref"; Lit " "; Tok "A:ref"]. split; [|split].
  - apply nodupb_sound. reflexivity.
  - apply sep_occb_sound. vm_compute. reflexivity.
  - differ.
Qed.
Print Assumptions C10_mix_clause_needed_refuted.

(* without "no reference declared twice": a reference whose value holds its own spelling is
   substituted twice (declared once, the result is the specification) *)
Definition rSelf := mk_ref "stage0.X/f:output" "X/f:output" true "see stage0.X/f:output".
Theorem C10_nodup_clause_needed_refuted :
  exists r ps, sep_mix [r; r] ps /\ sep_occ [r; r] ps /\
               resolve_args [r; r] (flatten ps) <> spec [r; r] ps /\
               resolve_args [r] (flatten ps) = spec [r; r] ps.
Proof.
  exists rSelf, [Tok "stage0.X/f:output"]. split; [|split; [|split]].
  - apply sep_mixb_sound. reflexivity.
  - apply sep_occb_sound. vm_compute. reflexivity.
  - differ.
  - vm_compute. reflexivity.
Qed.
Print Assumptions C10_nodup_clause_needed_refuted.

(* without "a spelling that is looked for occurs only as the tokens equal to it" (F10): the relative
   spelling inside a longer token; the absolute spelling inside a longer token *)
Theorem C10_occ_clause_needed_refuted :
  (exists refs ps, sep_mix refs ps /\ NoDup refs /\ resolve_args refs (flatten ps) <> spec refs ps) /\
  (exists r ps, sep_mix [r] ps /\ NoDup [r] /\ has_tok (r_rel r) ps = false /\
                resolve_args [r] (flatten ps) <> spec [r] ps).
Proof.
  split.
  - exists [rA; rBA], [Tok "BA:ref"; Lit " "; Tok "A:ref"]. split; [|split].
    + apply sep_mixb_sound. reflexivity.
    + apply nodupb_sound. reflexivity.
    + differ.
  - exists rA, [Tok "xstage1.A:ref"]. split; [|split; [|split]].
    + apply sep_mixb_sound. reflexivity.
    + apply nodupb_sound. reflexivity.
    + reflexivity.
    + differ.
Qed.
Print Assumptions C10_occ_clause_needed_refuted.

(* the last clause cannot be asked of the original arguments only (sep_occ0): what an earlier
   reference has substituted is scanned again (F10c) *)
Theorem C10_partial_clause_needed_refuted :
  exists refs ps, sep_mix refs ps /\ NoDup refs /\ sep_occ0 refs ps /\
                  resolve_args refs (flatten ps) <> spec refs ps.
Proof.
  exists [rOut; rB], [Tok "stage0.A/o.txt:output"; Lit " "; Tok "B:ref"]. split; [|split; [|split]].
  - apply sep_mixb_sound. reflexivity.
  - apply nodupb_sound. reflexivity.
  - apply sep_occ0b_sound. vm_compute. reflexivity.
  - differ.
Qed.
Print Assumptions C10_partial_clause_needed_refuted.

(* ------------------------------------------------------------------------------------------------
   The extra hypotheses of C10_unused / C10_unresolved are needed. *)
(* unused without `disjoint`: a stage-1 component declares A:ref (stage1.A) and stage0.A:ref and writes
   "A:ref": `separated` holds, stage0.A is reported unused although its relative spelling is a token
   (for the loader's reading of "A:ref" this report is right; declared the other way round the token
   is taken by stage0.A — class F10) *)
Theorem C10_unused_disjoint_needed_refuted :
  exists refs ps, separated refs ps /\ ~ disjoint refs ps /\
                  unused_refs refs (flatten ps) = ["stage0.A:ref"] /\ spec_unused refs ps = [].
Proof.
  exists [rA; rA0], [Tok "A:ref"]. split; [|split; [|split]].
  - apply separatedb_sound. vm_compute. reflexivity.
  - intros D. specialize (D rA rA0 "A:ref"). cbv beta in D.
    assert (X : rA = rA0) by (apply D; [left; reflexivity|right; left; reflexivity|left; reflexivity|reflexivity|reflexivity]).
    discriminate X.
  - vm_compute. reflexivity.
  - vm_compute. reflexivity.
Qed.
Print Assumptions C10_unused_disjoint_needed_refuted.

(* unresolved without "every colon is the colon of a reference token": literal text holding ":ref"
   after a character that cannot be part of a reference; a substituted value holding ":ref"; in both
   every token is declared and the flag is raised (UndeclaredDataReferenceError).  And a "token" that
   holds no ":<method>" (the code's recogniser makes none) is undeclared without raising it. *)
Theorem C10_unresolved_colon_needed_refuted :
  (exists refs ps, separated refs ps /\ spec_unresolved refs ps = false /\
                   unresolved (resolve_args refs (flatten ps)) = true /\ same_tokenisation ps = true /\
                   (forall r, In r refs -> r_sub r = true -> occurs ":" (r_val r) = false)) /\
  (exists refs ps, separated refs ps /\ spec_unresolved refs ps = false /\
                   unresolved (resolve_args refs (flatten ps)) = true /\ same_tokenisation ps = true /\
                   (forall s, In (Lit s) ps -> occurs ":" s = false)) /\
  (exists refs ps, separated refs ps /\ spec_unresolved refs ps = true /\
                   unresolved (resolve_args refs (flatten ps)) = false).
Proof.
  split; [|split].
  - exists [rA], [Tok "A:ref"; Lit " s/x/ :ref/"]. split; [|split; [|split; [|split]]].
    + apply separatedb_sound. vm_compute. reflexivity.
    + reflexivity.
    + vm_compute. reflexivity.
    + vm_compute. reflexivity.
    + intros r [<-|[]] _. reflexivity.
  - exists [rOut], [Tok "stage0.A/o.txt:output"]. split; [|split; [|split; [|split]]].
    + apply separatedb_sound. vm_compute. reflexivity.
    + reflexivity.
    + vm_compute. reflexivity.
    + vm_compute. reflexivity.
    + intros s [H|[]]. discriminate H.
  - exists [], [Tok "zzz"]. split; [|split].
    + apply separatedb_sound. reflexivity.
    + reflexivity.
    + reflexivity.
Qed.
Print Assumptions C10_unresolved_colon_needed_refuted.
