(* C10 — parts of the full statement that are false of the code as written (each is a finding). *)
From Coq Require Import String List Bool Permutation.
Import ListNotations.
Require Import V.Lib.PyStr V.Args.Model.
Open Scope string_scope.

Definition rA   := mk_ref "stage1.A:ref" "A:ref" true "/I/stages/stage1/A".
Definition rBA  := mk_ref "stage1.BA:ref" "BA:ref" true "/I/stages/stage1/BA".
Definition rA0  := mk_ref "stage0.A:ref" "A:ref" true "/I/stages/stage0/A".
Definition rOut := mk_ref "stage0.A/o.txt:output" "A/o.txt:output" true "see B:ref".
Definition rB   := mk_ref "stage1.B:ref" "B:ref" true "/I/stages/stage1/B".

(* F10: one producer's name is the end of another's: A declared before BA, arguments "BA:ref A:ref".
   The result is "B<path of A> <path of A>", it differs from the result for the other declaration
   order (which is the specification), and BA is then reported unused. *)
Theorem C10_substring_refuted :
  exists refs refs' ps,
    Permutation refs refs' /\ unambiguousb refs ps = true /\
    resolve_args refs (flatten ps) = "B/I/stages/stage1/A /I/stages/stage1/A" /\
    spec refs ps = "/I/stages/stage1/BA /I/stages/stage1/A" /\
    resolve_args refs' (flatten ps) = spec refs ps /\
    unused_refs refs (flatten ps) = ["stage1.BA:ref"].
Proof.
  exists [rA; rBA], [rBA; rA], [Tok "BA:ref"; Lit " "; Tok "A:ref"].
  split; [apply perm_swap|]. vm_compute. repeat split; reflexivity.
Qed.
Print Assumptions C10_substring_refuted.

(* F10: equal names across stages: a stage-1 component declares A:ref (stage1.A) before stage0.A:ref *)
Theorem C10_cross_stage_refuted :
  exists refs refs' ps,
    Permutation refs refs' /\
    resolve_args refs (flatten ps) = "stage0./I/stages/stage1/A /I/stages/stage1/A" /\
    spec refs ps = "/I/stages/stage0/A /I/stages/stage1/A" /\
    resolve_args refs' (flatten ps) = spec refs ps /\
    unused_refs refs (flatten ps) = ["stage0.A:ref"].
Proof.
  exists [rA; rA0], [rA0; rA], [Tok "stage0.A:ref"; Lit " "; Tok "A:ref"].
  split; [apply perm_swap|]. vm_compute. repeat split; reflexivity.
Qed.
Print Assumptions C10_cross_stage_refuted.

(* F10b: "in either spelling": when both spellings of one reference are used in one command line only
   the absolute ones are replaced; the relative one stays and is flagged as an undeclared reference *)
Theorem C10_both_spellings_refuted :
  exists refs ps,
    resolve_args refs (flatten ps) = "/I/stages/stage1/A A:ref" /\
    spec refs ps = "/I/stages/stage1/A /I/stages/stage1/A" /\
    unresolved (resolve_args refs (flatten ps)) = true.
Proof.
  exists [rA], [Tok "stage1.A:ref"; Lit " "; Tok "A:ref"]. vm_compute. repeat split; reflexivity.
Qed.
Print Assumptions C10_both_spellings_refuted.

(* F10c: "by that reference's own value": the contents substituted for an output reference are scanned
   again for the references declared after it *)
Theorem C10_value_rescanned_refuted :
  exists refs refs' ps,
    Permutation refs refs' /\ unambiguousb refs ps = true /\
    resolve_args refs (flatten ps) = "see /I/stages/stage1/B /I/stages/stage1/B" /\
    spec refs ps = "see B:ref /I/stages/stage1/B" /\
    resolve_args refs' (flatten ps) = spec refs ps.
Proof.
  exists [rOut; rB], [rB; rOut], [Tok "stage0.A/o.txt:output"; Lit " "; Tok "B:ref"].
  split; [apply perm_swap|]. vm_compute. repeat split; reflexivity.
Qed.
Print Assumptions C10_value_rescanned_refuted.
