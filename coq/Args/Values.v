(* C10 — the value of a reference: theorems about the model of DataReference.resolve and the link
   with the `r_val` used by the model / specification of resolveArguments. *)
From Coq Require Import String Ascii List Bool Arith Lia NArith.
Import ListNotations.
Require Import V.Lib.PyStr V.Args.Model V.Args.Proofs V.Args.ValueModel.
Open Scope string_scope.

(* ------------------------------------------------------------------ paths *)
(* the file part is appended as written: nothing is normalised *)
Lemma path_join_plain a b :
  a <> "" -> ends_slash a = false -> prefixb "/" b = false -> path_join a b = a ++ "/" ++ b.
Proof.
  intros Ha Hs Hb. unfold path_join. rewrite Hb, Hs. destruct a; [contradiction|reflexivity].
Qed.

Lemma path_join_suffix a b : exists l, path_join a b = l ++ b.
Proof.
  unfold path_join. destruct (prefixb "/" b); [exists ""; reflexivity|].
  destruct (negb (nonempty a) || ends_slash a); [exists a; reflexivity|].
  exists (a ++ "/"). rewrite append_assoc. reflexivity.
Qed.

(* ------------------------------------------------------------------ rstrip('\n') *)
Lemma rstrip_nl_split s : exists t, s = rstrip_nl s ++ t /\ all_chars (fun c => Ascii.eqb c nl) t = true.
Proof.
  induction s as [|c s [t [E A]]]; [exists ""; split; reflexivity|].
  cbn [rstrip_nl]. destruct (rstrip_nl s) as [|a u] eqn:R.
  - cbn [append] in E. destruct (Ascii.eqb c nl) eqn:C.
    + exists (String c t). split; [rewrite E at 1; reflexivity|]. cbn [all_chars]. rewrite C, A. reflexivity.
    + exists t. split; [rewrite E at 1; reflexivity|exact A].
  - exists t. split; [|exact A]. rewrite E at 1. reflexivity.
Qed.

Lemma append_nonempty_r u c : u ++ String c "" <> "".
Proof. destruct u; discriminate. Qed.

Lemma rstrip_nl_last s u : rstrip_nl s <> u ++ String nl "".
Proof.
  revert u. induction s as [|c s IH]; intros u; cbn [rstrip_nl].
  - intros H. symmetry in H. exact (append_nonempty_r _ _ H).
  - destruct (rstrip_nl s) as [|a t] eqn:R.
    + destruct (Ascii.eqb c nl) eqn:C.
      * intros H. symmetry in H. exact (append_nonempty_r _ _ H).
      * destruct u as [|x u]; cbn [append]; intros H.
        -- injection H as ->. rewrite Ascii.eqb_refl in C. discriminate.
        -- injection H as _ H. exact (append_nonempty_r _ _ (eq_sym H)).
    + destruct u as [|x u]; cbn [append]; intros H.
      * injection H as _ H. discriminate.
      * injection H as _ H. exact (IH u H).
Qed.

Lemma rstrip_nl_fixed s : (forall u, s <> u ++ String nl "") -> rstrip_nl s = s.
Proof.
  induction s as [|c s IH]; intros H; [reflexivity|]. cbn [rstrip_nl].
  destruct s as [|d s].
  - cbn. destruct (Ascii.eqb c nl) eqn:C; [|reflexivity].
    apply Ascii.eqb_eq in C. subst c. exfalso. apply (H ""). reflexivity.
  - rewrite IH.
    + reflexivity.
    + intros u E. apply (H (String c u)). cbn. rewrite E. reflexivity.
Qed.

(* ------------------------------------------------------------------ resolve *)
(* path methods: the location, or the location joined with the file part as written; whatever the
   file system holds *)
Theorem value_path fs r :
  is_loop (s_method r) = false -> is_output (s_method r) = false ->
  resolve fs r = Val (reference_path r) /\ arg_value fs r = Some (reference_path r).
Proof. intros L O. unfold arg_value, resolve. rewrite L, O. split; reflexivity. Qed.

(* output references with a file part (or direct ones): the contents of the file at the joined
   path without the trailing newlines; the empty string while the file does not exist; an error if
   it is a directory *)
Theorem value_output fs r :
  s_method r = "output" -> (s_direct r || is_some (s_file r)) = true ->
  match lookup fs (reference_path r) with
  | Some (File c) => arg_value fs r = Some (rstrip_nl c)
  | Some Dir => resolve fs r = Inconsistent /\ arg_value fs r = None
  | None => resolve fs r = Missing /\ arg_value fs r = Some ""
  end.
Proof.
  intros M D. unfold arg_value, resolve. rewrite M. cbn [is_loop is_output String.eqb Ascii.eqb Bool.eqb orb].
  rewrite D. destruct (lookup fs (reference_path r)) as [[c|]|] eqn:L; rewrite ?L; auto.
Qed.

(* output references to a component without file part: the file path_to_stdout names (none: the
   producer is repeating and has archived no stream yet - the reference is worth the empty string) *)
Theorem value_stdout fs r :
  s_method r = "output" -> s_direct r = false -> s_file r = None ->
  arg_value fs r = match path_to_stdout fs r with
                   | None => Some ""
                   | Some f => match lookup fs f with
                               | Some (File c) => Some (rstrip_nl c)
                               | Some Dir => None
                               | None => Some ""
                               end
                   end.
Proof.
  intros M D F. unfold arg_value, resolve. rewrite M, D, F.
  cbn [is_loop is_output String.eqb Ascii.eqb Bool.eqb orb is_some].
  destruct (path_to_stdout fs r) as [f|]; [|reflexivity].
  destruct (lookup fs f) as [[c|]|]; reflexivity.
Qed.

(* a producer that does not repeat: its out.stdout, whatever else its directory holds *)
Lemma path_to_stdout_plain fs r :
  s_repeat r = false -> path_to_stdout fs r = Some (path_join (s_loc r) "out.stdout").
Proof. intros H. unfold path_to_stdout. rewrite H. reflexivity. Qed.

(* max over integers *)
Lemma fold_max_spec : forall l a,
  (In (fold_left N.max l a) (a :: l)) /\ (forall i, In i (a :: l) -> (i <= fold_left N.max l a)%N).
Proof.
  induction l as [|b l IH]; intros a; cbn [fold_left].
  - split; [left; reflexivity|]. intros i [E|[]]. subst i. apply N.le_refl.
  - destruct (IH (N.max a b)) as [I M]. split.
    + destruct I as [E|I].
      * rewrite <- E. destruct (N.max_spec a b) as [[_ ->]|[_ ->]]; [right; left|left]; reflexivity.
      * right. right. exact I.
    + intros i [E|[E|I']].
      * subst i. eapply N.le_trans; [apply (N.le_max_l a b)|]. apply M. left. reflexivity.
      * subst i. eapply N.le_trans; [apply (N.le_max_r a b)|]. apply M. left. reflexivity.
      * apply M. right. exact I'.
Qed.

Lemma max_index_spec l m :
  max_index l = Some m <-> In m l /\ (forall i, In i l -> (i <= m)%N).
Proof.
  destruct l as [|a l]; cbn [max_index].
  - split; [discriminate|intros [[] _]].
  - destruct (fold_max_spec l a) as [I M]. split.
    + intros H. injection H as <-. split; assumption.
    + intros [I' M']. f_equal. apply N.le_antisymm; [apply M', I|apply M, I'].
Qed.

Lemma max_index_none l : max_index l = None <-> l = [].
Proof. destruct l; cbn; split; congruence. Qed.

(* a repeating producer: the archived stream whose index is the greatest as an INTEGER (the number of
   digits plays no part), at the path rebuilt from that index; none while nothing is archived *)
Theorem path_to_stdout_stream fs r :
  s_repeat r = true ->
  (stream_indices fs (streams_dir r) = [] -> path_to_stdout fs r = None) /\
  (forall m, In m (stream_indices fs (streams_dir r)) ->
             (forall i, In i (stream_indices fs (streams_dir r)) -> (i <= m)%N) ->
             path_to_stdout fs r = Some (stream_path r m)).
Proof.
  intros H. unfold path_to_stdout. rewrite H. split.
  - intros ->. reflexivity.
  - intros m I M. rewrite (proj2 (max_index_spec _ m) (conj I M)).
    reflexivity.
Qed.

(* ------------------------------------------------------------------ link with resolveArguments *)
Lemma to_dref_fields fs r d :
  to_dref fs r = Some d ->
  r_abs d = s_abs r /\ r_rel d = s_rel r /\ r_sub d = sub_method (s_method r) /\ arg_value fs r = Some (r_val d).
Proof.
  unfold to_dref. destruct (arg_value fs r) as [v|]; [|discriminate]. intros H. injection H as <-.
  cbn. repeat split.
Qed.

Lemma denotes_to_dref fs r d t : to_dref fs r = Some d -> denotes d t = s_denotes r t.
Proof.
  intros H. apply to_dref_fields in H as [A [R [S _]]]. unfold denotes, spells, s_denotes.
  rewrite A, R, S. reflexivity.
Qed.

Lemma render_to_drefs fs : forall rs ds p,
  to_drefs fs rs = Some ds -> render ds p = render_own fs rs p.
Proof.
  intros rs ds [s|t]; [reflexivity|]. revert ds.
  induction rs as [|r rest IH]; intros ds H.
  - injection H as <-. reflexivity.
  - cbn [to_drefs] in H. destruct (to_dref fs r) as [d|] eqn:D; [|discriminate].
    destruct (to_drefs fs rest) as [ds'|] eqn:R; [|discriminate]. injection H as <-.
    rewrite render_cons. cbn [render_own List.find]. rewrite (denotes_to_dref fs r d t D).
    destruct (s_denotes r t).
    + apply to_dref_fields in D as [_ [_ [_ V]]]. rewrite V. reflexivity.
    + specialize (IH ds' eq_refl). cbn [render_own] in IH. exact IH.
Qed.

Lemma spec_to_drefs fs rs ds ps : to_drefs fs rs = Some ds -> spec ds ps = spec_own fs rs ps.
Proof.
  intros H. unfold spec, spec_own. f_equal. apply map_ext. intros p. apply render_to_drefs, H.
Qed.

(* end to end: the references as declared (spellings built from producer, file part and method; values
   computed by resolve) *)
Theorem exact_values fs rs ds ps :
  to_drefs fs rs = Some ds -> separated ds ps ->
  resolve_args ds (flatten ps) = spec_own fs rs ps.
Proof. intros H S. rewrite (exact ds ps S). apply spec_to_drefs, H. Qed.

(* what a token becomes in spec_own *)
Lemma render_own_value fs rs t r :
  List.find (fun r => s_denotes r t) rs = Some r ->
  render_own fs rs (Tok t) = match arg_value fs r with Some v => Lit v | None => Tok t end.
Proof. intros F. cbn [render_own]. rewrite F. reflexivity. Qed.

(* ------------------------------------------------------------------ repeated resolution (sessions) *)
(* one call: under the (decidable) hypothesis for the values of the file system of that moment, the
   answer is the specification on that file system *)
Theorem exact_on fs rs ps :
  separated_onb fs rs ps = true -> resolve_on fs rs (flatten ps) = spec_on fs rs ps.
Proof.
  unfold separated_onb, resolve_on, spec_on. destruct (to_drefs fs rs) as [ds|] eqn:D; [|reflexivity].
  intros S. f_equal. apply (exact_values fs rs ds ps D). apply separatedb_sound, S.
Qed.

(* a session: every answer is the specification on the file system of its own call; nothing of the
   earlier file systems (nor of the earlier answers) is left in it *)
Theorem exact_session rs ps fss :
  forallb (fun fs => separated_onb fs rs ps) fss = true ->
  session rs (flatten ps) fss = map (fun fs => spec_on fs rs ps) fss.
Proof.
  intros H. unfold session. apply map_ext_in. intros fs I.
  apply exact_on. rewrite forallb_forall in H. apply H, I.
Qed.

(* the answer of a call does not depend on the calls made before it *)
Theorem session_last rs args fss fs :
  List.last (session rs args (fss ++ [fs])) None = resolve_on fs rs args.
Proof.
  unfold session. rewrite map_app. cbn [map]. apply last_last.
Qed.

(* two calls on file systems that give the references the same values answer the same *)
Theorem resolve_on_values fs fs' rs args :
  to_drefs fs rs = to_drefs fs' rs -> resolve_on fs rs args = resolve_on fs' rs args.
Proof. unfold resolve_on. intros ->. reflexivity. Qed.
