(* C02 — where the full statement fails. *)
From Coq Require Import List Bool Arith.
Import ListNotations.
Require Import V.Restart.Model V.Sched.Model V.Stage.Spec.

(* F2: a repeating observer O in the same stage as its producer S, S exits with a reason on its shutdown
   list.  If the scheduler pass that launches O runs before S stops, O runs and finishes; if S stops
   first, O is shut down without running.  Same workflow, same exit reasons, two orderings, two outcomes
   (no task exits unrecoverably).  The hypothesis of C02_determinism on same-stage producers excludes it. *)
Definition f2W : list comp :=
  [ {| stage := 0; is_repeat := false; is_aggregate := false; is_replica := false; preds := []; cshutdown_on := [KnownIssue]; restart_on := []; max_r := 0 |};
    {| stage := 0; is_repeat := true; is_aggregate := false; is_replica := false; preds := [0]; cshutdown_on := []; restart_on := []; max_r := 0 |} ].
Definition f2Out (c n : nat) : reason := match c with 0 => KnownIssue | _ => Success end.

Theorem C02_observer_refuted :
  map (spec f2W f2Out) [0; 1] = [Shutdown; Shutdown] /\
  match run f2W true f2Out state0 [Start; Tick; Exit 0; PM 0; Fin 0; Exit 1; PM 1; Fin 1; Tick],
        run f2W true f2Out state0 [Start; Exit 0; PM 0; Fin 0; Tick; Exit 1; Fin 1; Tick] with
  | Some a, Some b => cstate (dy a 1) = CFin Finished /\ cstate (dy b 1) = CFin Shutdown /\
                      runs (dy a 1) = 1 /\ runs (dy b 1) = 0 /\
                      verdict a = Some VOk /\ verdict b = Some VNoFinishedLeaf
  | _, _ => False
  end.
Proof.
  split.
  - vm_compute. reflexivity.
  - vm_compute. repeat split.
Qed.
Print Assumptions C02_observer_refuted.
