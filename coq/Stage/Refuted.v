(* C02 — where the full statement fails. *)
From Coq Require Import List Bool Arith.
Import ListNotations.
Require Import V.Restart.Model V.Sched.Model V.Stage.Spec.

(* F2: a repeating observer O in the same stage as its producer S, S exits with a reason on its shutdown
   list.  If the scheduler pass that launches O runs before S stops, O runs and finishes; if S stops
   first, O is shut down without running.  Same workflow, same exit reasons, two orderings, two outcomes
   (no task exits unrecoverably).  The hypothesis of C02_determinism on same-stage producers excludes it. *)
Definition f2W : list comp :=
  [ {| stage := 0; is_repeat := false; is_aggregate := false; is_replica := false; preds := []; cshutdown_on := [KnownIssue]; restart_on := []; max_r := 0 |};
    {| stage := 0; is_repeat := true; is_aggregate := false; is_replica := false; preds := [0]; cshutdown_on := []; restart_on := []; max_r := 0 |} ].
Definition f2Out (c n : nat) : reason := match c with 0 => KnownIssue | _ => Success end.

Theorem C02_observer_refuted :
  map (spec f2W f2Out) [0; 1] = [Shutdown; Shutdown] /\
  match run f2W true f2Out state0 [Start; Tick; Exit 0; PM 0; Fin 0; Exit 1; PM 1; Fin 1; Tick],
        run f2W true f2Out state0 [Start; Exit 0; PM 0; Fin 0; Tick; Exit 1; Fin 1; Tick] with
  | Some a, Some b => cstate (dy a 1) = CFin Finished /\ cstate (dy b 1) = CFin Shutdown /\
                      runs (dy a 1) = 1 /\ runs (dy b 1) = 0 /\
                      verdict a = Some VOk /\ verdict b = Some VNoFinishedLeaf
  | _, _ => False
  end.
Proof.
  split.
  - vm_compute. reflexivity.
  - vm_compute. repeat split.
Qed.
Print Assumptions C02_observer_refuted.

(* Several stages: "every component ends in its rule-given state or shut down", with the rule evaluated on the
   exit reasons alone (spec), is false of the code — hence the single-stage hypothesis of C02_failure_case.
   Components 0..3 are in stage 0 (1 and 2 are replicas), component 4 (stage 1) aggregates 1 and 2.  0 fails;
   1 WOULD fail by its own exit reason but is stopped (shut down) when the failure of 0 is handled, 2 has
   already finished; 3 keeps stage 0 alive.  The next scheduler pass launches 4 (not all of its replicated
   inputs are shut down, none is failed) and 4 finishes, although spec(4) = shut-down (its producer 1 has the
   rule-given state failed).  Every actual final state is still shut-down or the component's own outcome
   (C02_final_states_any), and the launch respected the producers' actual states (C01_launch_guard): this is
   a limit of the yardstick, not a defect; the witness is replayed on the real controller by harness/c01.py. *)
Definition msC st ag rp ps : comp :=
  {| stage := st; is_repeat := false; is_aggregate := ag; is_replica := rp; preds := ps; cshutdown_on := []; restart_on := []; max_r := 0 |}.
Definition msW : list comp := [ msC 0 false false []; msC 0 false true []; msC 0 false true []; msC 0 false false []; msC 1 true false [1; 2] ].
Definition msOut (c n : nat) : reason := match c with 0 => UnknownIssue | 1 => UnknownIssue | _ => Success end.

Theorem C02_multistage_spec_refuted :
  map (spec msW msOut) [0; 1; 2; 3; 4] = [Failed; Failed; Finished; Finished; Shutdown] /\
  match run msW true msOut state0
          [Start; Tick; Exit 2; PM 2; Fin 2; Exit 0; PM 0; Fin 0; Exit 1; Fin 1; Tick; Exit 4; PM 4; Fin 4; Exit 3; Fin 3; Tick] with
  | Some s => map (fun c => cstate (dy s c)) [0; 1; 2; 3; 4] = [CFin Failed; CFin Shutdown; CFin Finished; CFin Shutdown; CFin Finished]
              /\ verdict s = Some VFailed /\ running s = false
  | None => False
  end.
Proof. split; [vm_compute; reflexivity|vm_compute; repeat split]. Qed.
Print Assumptions C02_multistage_spec_refuted.
