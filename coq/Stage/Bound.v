(* C02 — no ordering diverges: along any accepted event list the number of task exits, post-mortem
   deliveries and finished deliveries of every component is bounded by a function of the workflow only. *)
From Coq Require Import List Bool Arith Lia.
Import ListNotations.
Require Import V.Restart.Model V.Sched.Model V.Sched.Proofs.

Section Bound.
Variable W : list comp.
Variable outcome : nat -> nat -> reason.

Definition budget (c : nat) (d : dyn) : nat := (max_r (cmp W c) - restarts d) + (5 - resub d).

(* how many more times the task of c can exit *)
Definition capE (c : nat) (d : dyn) : nat :=
  if negb (staged d) then budget c d + 2
  else match e d with
       | Idle => 1
       | Active => 1 + (if finish_called d then 0 else budget c d)
       | Exited _ => if finish_called d || (match ctl d with Some _ => true | None => false end) then 0 else budget c d
       end.

Definition zfin (d : dyn) : nat := match ctl d with None => 1 | Some _ => 0 end.
Definition cnt (c : nat) (l : list nat) : nat := count_occ Nat.eq_dec l c.

Definition phiF (s : state) (c : nat) : nat := cnt c (finq s) + zfin (dy s c).

(* component-level actions never increase the potentials and leave the post-mortem queue alone *)
Definition mono (s s' : state) : Prop :=
  pmq s' = pmq s /\ forall c, capE c (dy s' c) <= capE c (dy s c) /\ phiF s' c <= phiF s c.

Lemma mono_refl s : mono s s.
Proof. split; [reflexivity|intros c; split; lia]. Qed.

Lemma mono_trans a b c : mono a b -> mono b c -> mono a c.
Proof.
  intros [P1 H1] [P2 H2]. split; [congruence|]. intros x. destruct (H1 x), (H2 x). split; lia.
Qed.

Lemma cnt_app c l x : cnt c (l ++ [x]) = cnt c l + (if Nat.eq_dec x c then 1 else 0).
Proof. unfold cnt. rewrite count_occ_app. cbn. try reflexivity; try (destruct (Nat.eq_dec x c); lia). Qed.

Lemma capE_finish c f d : capE c (d_finish f d) <= capE c d.
Proof.
  unfold d_finish. destruct (is_run (cstate d)) eqn:R.
  - unfold capE, budget. cbn. destruct (staged d); cbn; try lia; destruct (e d); cbn; try lia;
      destruct (finish_called d); cbn; try lia.
  - unfold capE, budget. cbn. destruct (staged d); cbn; try lia; destruct (e d); cbn; try lia;
      destruct (finish_called d); cbn; try lia.
Qed.

Lemma finish_mono s c f : mono s (finish s c f).
Proof.
  split; [unfold finish; destruct (negb _ && negb _); reflexivity|]. intros x.
  assert (D : dy (finish s c f) x = if Nat.eqb x c then d_finish f (dy s c) else dy s x)
    by (unfold finish; destruct (negb _ && negb _); reflexivity).
  split.
  - rewrite D. destruct (Nat.eqb x c) eqn:E; [apply Nat.eqb_eq in E; subst; apply capE_finish|lia].
  - unfold phiF. rewrite D. unfold finish.
    destruct (negb (is_run (cstate (dy s c))) && negb (is_fin (cstate (dy s c)))) eqn:G; cbn [finq add_finq set_dy].
    + rewrite cnt_app. apply andb_true_iff in G as [G1 G2]. apply negb_true_iff in G1. apply negb_true_iff in G2.
      destruct (Nat.eqb x c) eqn:E.
      * apply Nat.eqb_eq in E. subst x. destruct (Nat.eq_dec c c); [|contradiction].
        unfold d_finish. rewrite G1. unfold zfin. cbn.
        destruct (ctl (dy s c)) eqn:Hc; [|lia]. exfalso.
        assert (X : is_fin (cstate (dy s c)) = true) by (apply is_fin_ctl; eauto). congruence.
      * apply Nat.eqb_neq in E. destruct (Nat.eq_dec c x); [congruence|]. lia.
    + destruct (Nat.eqb x c) eqn:E; [|lia]. apply Nat.eqb_eq in E. subst x.
      unfold d_finish. destruct (is_run (cstate (dy s c))) eqn:R; unfold zfin; cbn; [lia|].
      cbn in G. destruct (is_fin (cstate (dy s c))) eqn:Fi; [|discriminate].
      apply is_fin_ctl in Fi as [g Hg]. rewrite Hg. lia.
Qed.

Lemma stage_mono s c : mono s (set_dy s c (d_stage (dy s c))).
Proof.
  split; [reflexivity|]. intros x.
  assert (D : dy (set_dy s c (d_stage (dy s c))) x = if Nat.eqb x c then d_stage (dy s c) else dy s x) by reflexivity.
  unfold phiF. rewrite D. change (finq (set_dy s c (d_stage (dy s c)))) with (finq s).
  destruct (Nat.eqb x c) eqn:E; [|split; lia].
  apply Nat.eqb_eq in E. subst x. split.
  - unfold capE, d_stage, budget. cbn. destruct (staged (dy s c)); cbn; try lia;
      destruct (e (dy s c)); cbn; try lia; destruct (finish_called (dy s c)); cbn; try lia;
      destruct (ctl (dy s c)); cbn; try lia.
  - unfold zfin, d_stage. cbn. lia.
Qed.

Lemma fake_finish_mono s c f : mono s (fake_finish s c f).
Proof. unfold fake_finish. eapply mono_trans; [apply stage_mono|apply finish_mono]. Qed.

Lemma stop_components_mono : forall cs s, mono s (stop_components s cs).
Proof.
  induction cs as [|c cs IH]; intros s; cbn [stop_components fold_left]; [apply mono_refl|].
  fold (stop_components (if alive (dy s c) && negb (finish_called (dy s c)) then finish s c Shutdown else s) cs).
  destruct (alive (dy s c) && negb (finish_called (dy s c))); [eapply mono_trans; [apply finish_mono|apply IH]|apply IH].
Qed.

Lemma kill_fold_mono : forall l s,
  mono s (fold_left (fun s c => if negb (finish_called (dy s c)) && alive (dy s c)
                        then (if staged (dy s c) then finish s c Shutdown else fake_finish s c Shutdown)
                        else s) l s).
Proof.
  induction l as [|c l IH]; intros s; cbn [fold_left]; [apply mono_refl|].
  destruct (negb (finish_called (dy s c)) && alive (dy s c)); [|apply IH].
  destruct (staged (dy s c)); (eapply mono_trans; [|apply IH]); [apply finish_mono|apply fake_finish_mono].
Qed.

Lemma fake_fold_mono : forall cs s,
  mono s (fold_left (fun s x => if negb (staged (dy s x)) && negb (finish_called (dy s x))
                                then fake_finish s x Shutdown else s) cs s).
Proof.
  induction cs as [|c cs IH]; intros s; cbn [fold_left]; [apply mono_refl|].
  destruct (negb (staged (dy s c)) && negb (finish_called (dy s c))); [eapply mono_trans; [apply fake_finish_mono|apply IH]|apply IH].
Qed.

Lemma mono_same s s' : dy s' = dy s -> pmq s' = pmq s -> finq s' = finq s -> mono s s'.
Proof. intros H1 H2 H3. split; [exact H2|]. intros c. unfold phiF. rewrite H1, H3. split; lia. Qed.

Lemma visits_mono : forall l si ready,
  mono si (fst (fold_left (sched_visit W true) l (si, ready))).
Proof.
  induction l as [|c l IH]; intros si ready; cbn [fold_left]; [apply mono_refl|].
  destruct (sched_visit W true (si, ready) c) as [si' ready'] eqn:E.
  eapply mono_trans; [|apply IH].
  unfold sched_visit in E. destruct (_ || _ || _ || _); [inversion E; apply mono_refl|].
  destruct (shutdown_rule W si c); inversion E; [apply fake_finish_mono|apply mono_refl].
Qed.

Lemma sched_pass_mono s : Inv s -> mono s (sched_pass W true s).
Proof.
  intros I. unfold sched_pass.
  pose proof (visits_ok W s (nodes W) s [] (PassInv_init W s I) (seq_NoDup _ _) (fun c H => match H with end)) as P.
  pose proof (visits_mono (nodes W) s []) as M.
  destruct (fold_left (sched_visit W true) (nodes W) (s, [])) as [s1 ready] eqn:E. cbn [fst snd] in *.
  destruct (stop s1); [exact M|]. eapply mono_trans; [exact M|].
  destruct (submit_spec s1 ready (p_nodup _ _ _ _ P)) as [D [C F]]. pose proof (p_inv _ _ _ _ P) as [I1 _].
  split; [unfold core in C; congruence|]. intros c.
  assert (K : dy (submit s1 ready) c = dy s1 c \/
              (staged (dy s1 c) = false /\ dy (submit s1 ready) c = d_launch (d_stage (dy s1 c)))).
  { rewrite D. destruct (memn c ready) eqn:Mm; [right|left; reflexivity]. apply memn_In in Mm.
    split; [exact (proj1 (p_ready _ _ _ _ P c Mm))|reflexivity]. }
  unfold phiF. rewrite F. destruct K as [K|[Us K]]; rewrite K; [split; lia|].
  destruct (l_unstaged _ (I1 c) Us) as [He [Hc [Hr Hf]]].
  unfold capE, zfin, d_launch, d_stage, cstate, budget. cbn. rewrite ?Hc, ?He, ?Us, ?Hf. cbn. rewrite ?Hc, ?Hf. cbn. split; lia.
Qed.

(* ---- the three potentials along one event *)
Definition is_exit (c : nat) (ev : event) : nat := match ev with Exit x => if Nat.eq_dec x c then 1 else 0 | _ => 0 end.
Definition is_pm (c : nat) (ev : event) : nat := match ev with PM x => if Nat.eq_dec x c then 1 else 0 | _ => 0 end.
Definition is_fin_ev (c : nat) (ev : event) : nat := match ev with Fin x => if Nat.eq_dec x c then 1 else 0 | _ => 0 end.

Definition phiP (s : state) (c : nat) : nat := cnt c (pmq s) + capE c (dy s c).

Definition decr (s s' : state) (ev : event) : Prop :=
  forall c, capE c (dy s' c) + is_exit c ev <= capE c (dy s c) /\
            phiP s' c + is_pm c ev <= phiP s c /\
            phiF s' c + is_fin_ev c ev <= phiF s c.

Lemma mono_decr s s' ev : mono s s' -> (forall c, is_exit c ev = 0 /\ is_pm c ev = 0 /\ is_fin_ev c ev = 0) -> decr s s' ev.
Proof.
  intros [Pq M] Z c. destruct (M c) as [A B]. destruct (Z c) as [Z1 [Z2 Z3]]. unfold phiP. rewrite Pq, Z1, Z2, Z3. lia.
Qed.

Lemma cnt_remove1 c x l : In x l -> cnt c (remove1 x l) + (if Nat.eq_dec x c then 1 else 0) = cnt c l.
Proof.
  induction l as [|y l IH]; intros H; [destruct H|]. cbn [remove1]. destruct (Nat.eqb x y) eqn:E.
  - apply Nat.eqb_eq in E. subst y. unfold cnt. cbn. destruct (Nat.eq_dec x c); lia.
  - apply Nat.eqb_neq in E. destruct H as [H|H]; [congruence|]. specialize (IH H). unfold cnt in *. cbn.
    destruct (Nat.eq_dec y c); lia.
Qed.

Lemma cnt_remove1_other c x l : x <> c -> cnt c (remove1 x l) = cnt c l.
Proof.
  intros N. induction l as [|y l IH]; [reflexivity|]. cbn [remove1]. destruct (Nat.eqb x y) eqn:E.
  - apply Nat.eqb_eq in E. subst y. unfold cnt. cbn. destruct (Nat.eq_dec x c); [contradiction|reflexivity].
  - unfold cnt in *. cbn. destruct (Nat.eq_dec y c); rewrite IH; reflexivity.
Qed.

Lemma exit_decr s c s' : Inv s -> exit_comp W outcome s c = Some s' -> decr s s' (Exit c).
Proof.
  intros [I1 _] H. unfold exit_comp in H.
  destruct (negb (c <? ncomp W) || negb (exit_enabled (dy s c))) eqn:G; [discriminate|].
  apply orb_false_iff in G as [_ G]. apply negb_false_iff in G. pose proof (I1 c) as L.
  assert (Hctl : ctl (dy s c) = None).
  { destruct (ctl (dy s c)) as [g|] eqn:E; [|reflexivity]. destruct (l_ctl _ L g E) as [_ [r Er]].
    unfold exit_enabled in G. rewrite Er in G. discriminate. }
  assert (Hst : staged (dy s c) = true).
  { destruct (staged (dy s c)) eqn:E; [reflexivity|]. destruct (l_unstaged _ L E) as [He [_ [_ Hf]]].
    unfold exit_enabled in G. rewrite He in G. apply (l_kill _ L) in G. congruence. }
  destruct (finish_called (dy s c)) eqn:Fc.
  - match type of H with context [set_dy s c ?D] => set (d' := D) in * end.
    assert (CE : capE c d' + 1 <= capE c (dy s c)).
    { unfold capE, d'. cbn. rewrite Hst, Fc. cbn. unfold exit_enabled in G. destruct (e (dy s c)); try discriminate; lia. }
    intros x. unfold is_exit, is_pm, is_fin_ev, phiP, phiF.
    destruct (pending (dy s c)) as [g|] eqn:Pd; inversion H; subst s'; cbn [dy pmq finq add_finq set_dy]; unfold upd;
      destruct (Nat.eq_dec c x) as [->|N]; rewrite ?Nat.eqb_refl; rewrite ?cnt_app;
      try (destruct (Nat.eqb x c) eqn:E; [apply Nat.eqb_eq in E; congruence|]);
      try (destruct (Nat.eq_dec x x); [|contradiction]); try (destruct (Nat.eq_dec c x); [contradiction|]);
      unfold zfin; try (unfold d'; cbn); rewrite ?Hctl, ?Pd; repeat split; try lia; unfold d' in CE; try lia.
  - match type of H with context [set_dy s c ?D] => set (d' := D) in * end.
    assert (Act : e (dy s c) = Active).
    { unfold exit_enabled in G. destruct (e (dy s c)) eqn:E; [|reflexivity|discriminate]. apply (l_kill _ L) in G. congruence. }
    assert (CE : capE c d' + 1 <= capE c (dy s c)).
    { unfold capE, d', budget. cbn. rewrite Hst, Fc, Act, Hctl. cbn. lia. }
    intros x. unfold is_exit, is_pm, is_fin_ev, phiP, phiF. inversion H; subst s'; cbn [dy pmq finq set_dy]; unfold upd.
    destruct (Nat.eq_dec c x) as [->|N]; rewrite ?Nat.eqb_refl, ?cnt_app.
    + destruct (Nat.eq_dec x x); [|contradiction]. unfold zfin. unfold d' at 3. cbn. repeat split; lia.
    + destruct (Nat.eqb x c) eqn:E; [apply Nat.eqb_eq in E; congruence|]. destruct (Nat.eq_dec c x); [contradiction|].
      repeat split; lia.
Qed.

Lemma pm_decr s c s' : Inv s -> deliver_pm W s c = Some s' -> decr s s' (PM c).
Proof.
  intros [I1 _] H. unfold deliver_pm in H. destruct (memn c (pmq s)) eqn:M; [|discriminate]. cbn [negb] in H.
  apply memn_In in M. pose proof (I1 c) as L. cbn [dy] in H.
  pose proof (cnt_remove1 c c (pmq s) M) as R1. destruct (Nat.eq_dec c c) as [_|N]; [|contradiction].
  (* a state that differs from s only by the removal of c from the post-mortem queue *)
  assert (Drop : forall t, mono {| dy := dy s; done := done s; stop := stop s; cur := cur s; pmq := remove1 c (pmq s);
                                   finq := finq s; running := running s; verdict := verdict s |} t -> decr s t (PM c)).
  { intros t [Pq Mo] x. destruct (Mo x) as [A B]. cbn [dy finq pmq] in A, B, Pq. unfold is_exit, is_pm, is_fin_ev, phiP. rewrite Pq.
    unfold phiF in *. cbn [finq dy pmq] in *. destruct (Nat.eq_dec c x) as [->|Nx].
    - repeat split; lia.
    - rewrite (cnt_remove1_other x c (pmq s) Nx). repeat split; lia. }
  destruct (finish_called (dy s c)) eqn:Fc; [inversion H; subst; apply Drop, mono_refl|].
  destruct (e (dy s c)) as [| |r] eqn:Ee; try (inversion H; subst; apply Drop, mono_refl).
  assert (Hctl : ctl (dy s c) = None) by (apply linv_ctl_none_of_not_fc; auto).
  assert (Hst : staged (dy s c) = true) by (apply linv_staged_of_nonidle; [exact L|congruence]).
  destruct (restart_decision W c (dy s c) r) as [d'|] eqn:Rd.
  - assert (CE : capE c d' <= capE c (dy s c) /\ zfin d' = zfin (dy s c)).
    { assert (Cd : capE c (dy s c) = budget c (dy s c)) by (unfold capE; rewrite Hst, Fc, Ee, Hctl; reflexivity).
      unfold restart_decision, try_restart in Rd.
      destruct (reason_eqb r SubmissionFailed) eqn:Er.
      - destruct (resub (dy s c) <? 5) eqn:Eq; [|discriminate]. destruct (shut (dy s c)); [discriminate|].
        destruct (max_r (cmp W c) <? S (restarts (dy s c))) eqn:Em; [discriminate|]. inversion Rd; subst d'.
        rewrite Cd. unfold capE, budget, zfin. cbn [staged e finish_called ctl restarts resub].
        rewrite Hst, Fc, Hctl. cbn [negb]. apply Nat.ltb_lt in Eq. split; [lia|reflexivity].
      - destruct (mem r (restart_on (cmp W c))); [|discriminate]. destruct (shut (dy s c)); [discriminate|].
        destruct (max_r (cmp W c) <? S (restarts (dy s c))) eqn:Em; [discriminate|]. inversion Rd; subst d'.
        rewrite Cd. unfold capE, budget, zfin. cbn [staged e finish_called ctl restarts resub].
        rewrite Hst, Fc, Hctl. cbn [negb]. apply Nat.ltb_ge in Em. split; [lia|reflexivity]. }
    destruct CE as [CE ZE]. inversion H; subst s'. intros x. unfold is_exit, is_pm, is_fin_ev, phiP, phiF.
    cbn [dy pmq finq set_dy]. unfold upd. destruct (Nat.eq_dec c x) as [->|Nx].
    + rewrite Nat.eqb_refl. repeat split; lia.
    + destruct (Nat.eqb x c) eqn:E; [apply Nat.eqb_eq in E; congruence|].
      rewrite (cnt_remove1_other x c (pmq s) Nx). repeat split; lia.
  - inversion H; subst s'. apply Drop. apply finish_mono.
Qed.

Lemma fin_decr s c s' : Inv s -> deliver_fin W s c = Some s' -> decr s s' (Fin c).
Proof.
  intros I H. unfold deliver_fin in H. destruct (memn c (finq s)) eqn:M; [|discriminate]. cbn [negb] in H.
  apply memn_In in M.
  match type of H with context [is_failed (pstate ?S0 c)] => set (s0 := S0) in * end.
  match type of H with Some {| dy := dy ?S1; done := _; stop := _; cur := _; pmq := _; finq := _; running := _; verdict := _ |} = _ =>
    set (s1 := S1) in * end.
  assert (M1 : mono s0 s1).
  { unfold s1. destruct (is_failed (pstate s0 c)); [|apply mono_refl].
    destruct (match cur s0 with Some i => i <? stage (cmp W c) | None => true end).
    - unfold kill_all. eapply mono_trans; [|apply kill_fold_mono]. apply mono_same; reflexivity.
    - eapply mono_trans; [apply fake_fold_mono|apply stop_components_mono]. }
  assert (D0 : dy s0 = dy s) by reflexivity. assert (F0 : finq s0 = remove1 c (finq s)) by reflexivity.
  assert (P0 : pmq s0 = pmq s) by reflexivity.
  inversion H; subst s'. destruct M1 as [Pq Mo]. intros x. destruct (Mo x) as [A B].
  unfold is_exit, is_pm, is_fin_ev, phiP, phiF in *. cbn [dy pmq finq] in *. rewrite Pq, P0. rewrite D0 in A, B. rewrite F0 in B.
  pose proof (cnt_remove1 x c (finq s) M) as R1.
  destruct (Nat.eq_dec c x) as [->|Nx]; repeat split; try lia.
Qed.

Lemma tick_decr s s' : Inv s -> tick W true s = Some s' -> decr s s' Tick.
Proof.
  intros I H. unfold tick in H. destruct (cur s) as [i|]; [|discriminate]. destruct (running s); [|discriminate].
  inversion H; subst s'. apply mono_decr; [|intros c; repeat split].
  destruct (stage_done W s i); [|exact (sched_pass_mono s I)].
  unfold end_stage. eapply mono_trans; [apply (stop_components_mono (stage_nodes W i) s)|apply mono_same; reflexivity].
Qed.

Lemma start_decr s s' : Inv s -> start_stage W true s = Some s' -> decr s s' Start.
Proof.
  intros I H. unfold start_stage in H. destruct (running s); [discriminate|].
  match type of H with (if ?b then _ else _) = _ => destruct b; [|discriminate] end.
  match type of H with Some (sched_pass W true ?S0) = _ => set (s0 := S0) in * end.
  assert (I0 : Inv s0) by (apply (Inv_sub s); auto).
  inversion H; subst s'. apply mono_decr; [|intros c; repeat split].
  eapply mono_trans; [|exact (sched_pass_mono s0 I0)]. apply mono_same; reflexivity.
Qed.

Lemma step_decr s ev s' : Inv s -> step W true outcome s ev = Some s' -> decr s s' ev.
Proof.
  intros I H. destruct ev as [| |c|c|c]; cbn [step] in H.
  - exact (start_decr s s' I H).
  - exact (tick_decr s s' I H).
  - exact (exit_decr s c s' I H).
  - exact (pm_decr s c s' I H).
  - exact (fin_decr s c s' I H).
Qed.

Fixpoint total (f : event -> nat) (evs : list event) : nat :=
  match evs with [] => 0 | ev :: r => f ev + total f r end.

Lemma run_decr : forall evs s s', Inv s -> run W true outcome s evs = Some s' ->
  forall c, capE c (dy s' c) + total (is_exit c) evs <= capE c (dy s c) /\
            phiP s' c + total (is_pm c) evs <= phiP s c /\
            phiF s' c + total (is_fin_ev c) evs <= phiF s c.
Proof.
  induction evs as [|ev evs IH]; intros s s' I H c; cbn [run total] in *.
  - inversion H; subst. repeat split; lia.
  - destruct (step W true outcome s ev) as [s1|] eqn:E; [|discriminate].
    destruct (step_ok W outcome s ev s1 I E) as [I1 _].
    destruct (step_decr s ev s1 I E c) as [A [B C]]. destruct (IH s1 s' I1 H c) as [A' [B' C']].
    repeat split; lia.
Qed.

(* the bound, from the initial state *)
Lemma bounded evs s c :
  run W true outcome state0 evs = Some s ->
  total (is_exit c) evs <= max_r (cmp W c) + 7 /\
  total (is_pm c) evs <= max_r (cmp W c) + 7 /\
  total (is_fin_ev c) evs <= 1.
Proof.
  intros H. destruct (run_decr evs state0 s Inv_state0 H c) as [A [B C]].
  unfold phiP, phiF, capE, budget, zfin, cnt in *. cbn in *. repeat split; lia.
Qed.
End Bound.
