(* C02 — the rule-given final state of every component, as a function of the workflow and of the exit
   reason of every task execution only (no schedule involved). *)
From Coq Require Import List Bool Arith Lia.
Import ListNotations.
Require Import V.Restart.Model V.Sched.Model.

Section Spec.
Variable W : list comp.
Variable outcome : nat -> nat -> reason.

(* restart decision on the two counters (restarts, resubmissions); None = the restart is refused *)
Definition decide (c : nat) (cnt : nat * nat) (r : reason) : option (nat * nat) :=
  let '(rs, rb) := cnt in
  let bud := if Nat.ltb (max_r (cmp W c)) (S rs) then None
             else Some (if reason_eqb r SubmissionFailed then (rs, S rb) else (S rs, rb)) in
  if reason_eqb r SubmissionFailed then (if Nat.ltb rb 5 then bud else None)
  else if mem r (restart_on (cmp W c)) then bud
  else None.

(* the successive executions of c: execution n exits with outcome c n *)
Fixpoint walk (c : nat) (fuel n : nat) (cnt : nat * nat) : final :=
  match fuel with
  | O => Failed
  | S k => let r := outcome c n in
           match decide c cnt r with
           | Some cnt' => walk c k (S n) cnt'
           | None => final_of_reason W c r
           end
  end.

Definition fuel_of (c : nat) : nat := max_r (cmp W c) + 7.
Definition walk0 (c : nat) : final := walk c (fuel_of c) 0 (0, 0).

Definition final_is (f g : final) : bool := final_eqb f g.

(* the shutdown-propagation rule on an assignment of final states to the producers *)
Definition rule (sigma : nat -> final) (c : nat) : bool :=
  let ps := preds (cmp W c) in
  if existsb (fun p => final_is (sigma p) Failed) ps then true
  else if is_aggregate (cmp W c) then
    let rep := filter (fun p => is_replica (cmp W p)) ps in
    let nonrep := filter (fun p => negb (is_replica (cmp W p))) ps in
    if existsb (fun p => final_is (sigma p) Shutdown) nonrep then true
    else negb (Nat.eqb (length rep) 0) && forallb (fun p => final_is (sigma p) Shutdown) rep
  else existsb (fun p => final_is (sigma p) Shutdown) ps.

Fixpoint spec_f (fuel : nat) (c : nat) : final :=
  match fuel with
  | O => Finished
  | S k => if rule (spec_f k) c then Shutdown else walk0 c
  end.

Definition spec (c : nat) : final := spec_f (S c) c.

(* producers come before consumers in the component list *)
Definition wf : Prop := forall c p, In p (preds (cmp W c)) -> p < c.

End Spec.
