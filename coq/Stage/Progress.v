(* C02 — no ordering gets stuck: in every reachable state in which the stage loop is running and some
   component of the stage is not yet recorded done, either a notification / task exit is deliverable
   or the next scheduler pass changes the state. *)
From Coq Require Import List Bool Arith Lia.
Import ListNotations.
Require Import V.Restart.Model V.Sched.Model V.Sched.Proofs V.Stage.Spec.

Section Progress.
Variable W : list comp.
Variable outcome : nat -> nat -> reason.

Record pinv (s : state) : Prop := {
  q_fin : forall c, is_fin (pstate s c) = true -> In c (finq s) \/ In c (done s);
  q_pm : forall c r, e (dy s c) = Exited r -> ctl (dy s c) = None -> In c (pmq s) /\ finish_called (dy s c) = false;
  q_pend : forall c, finish_called (dy s c) = true -> ctl (dy s c) = None ->
           kill_req (dy s c) = true /\ (exists f, pending (dy s c) = Some f);
  q_run : forall c, 0 < runs (dy s c) -> e (dy s c) <> Idle;
  q_stop : stop s = true -> forall c, c < ncomp W -> staged (dy s c) = true;
  q_range : forall c, staged (dy s c) = true -> c < ncomp W
}.

Lemma pinv_state0 : pinv state0.
Proof. constructor; cbn; intros; try discriminate; try lia; auto. Qed.

(* ---- generic update of one component plus queue changes *)
Lemma pinv_upd s c d' (s' : state) :
  pinv s -> (forall x, dy s' x = upd (dy s) c d' x) -> stop s' = stop s ->
  (forall x, In x (done s) -> In x (done s')) ->
  (forall x, x <> c -> In x (finq s) -> In x (finq s') \/ In x (done s')) ->
  (forall x, x <> c -> In x (pmq s) -> In x (pmq s')) ->
  (is_fin (cstate d') = true -> In c (finq s') \/ In c (done s')) ->
  (forall r, e d' = Exited r -> ctl d' = None -> In c (pmq s') /\ finish_called d' = false) ->
  (finish_called d' = true -> ctl d' = None -> kill_req d' = true /\ exists f, pending d' = Some f) ->
  (0 < runs d' -> e d' <> Idle) ->
  (staged (dy s c) = true -> staged d' = true) ->
  (staged d' = true -> c < ncomp W) ->
  pinv s'.
Proof.
  intros P Hd Hs Hdn Hfq Hpq A1 A2 A3 A4 A5 A6.
  constructor.
  - intros x Hx. unfold pstate in Hx. rewrite (Hd x) in Hx. unfold upd in Hx. destruct (Nat.eqb x c) eqn:E.
    + apply Nat.eqb_eq in E. subst x. exact (A1 Hx).
    + apply Nat.eqb_neq in E. destruct (q_fin _ P x Hx) as [H|H]; [exact (Hfq x E H)|right; exact (Hdn x H)].
  - intros x r. rewrite (Hd x). unfold upd. destruct (Nat.eqb x c) eqn:E.
    + apply Nat.eqb_eq in E. subst x. exact (A2 r).
    + apply Nat.eqb_neq in E. intros H1 H2. destruct (q_pm _ P x r H1 H2) as [H3 H4]. split; [exact (Hpq x E H3)|exact H4].
  - intros x. rewrite (Hd x). unfold upd. destruct (Nat.eqb x c) eqn:E; [apply Nat.eqb_eq in E; subst x; exact A3|exact (q_pend _ P x)].
  - intros x. rewrite (Hd x). unfold upd. destruct (Nat.eqb x c) eqn:E; [apply Nat.eqb_eq in E; subst x; exact A4|exact (q_run _ P x)].
  - rewrite Hs. intros St x Hx. rewrite (Hd x). unfold upd. destruct (Nat.eqb x c) eqn:E.
    + apply Nat.eqb_eq in E. subst x. exact (A5 (q_stop _ P St c Hx)).
    + exact (q_stop _ P St x Hx).
  - intros x. rewrite (Hd x). unfold upd. destruct (Nat.eqb x c) eqn:E; [apply Nat.eqb_eq in E; subst x; exact A6|exact (q_range _ P x)].
Qed.

Lemma finish_staged_same s c f : staged (dy (finish s c f) c) = staged (dy s c).
Proof.
  unfold finish. destruct (negb _ && negb _); cbn; rewrite upd_same; destruct (d_finish_frame f (dy s c)) as [A _]; exact A.
Qed.

Lemma cstate_fin_ctl d : is_fin (cstate d) = true -> exists f, ctl d = Some f.
Proof. apply is_fin_ctl. Qed.

Lemma finish_P s c f : Inv s -> pinv s -> ctl (dy s c) = None -> staged (dy s c) = true -> pinv (finish s c f).
Proof.
  intros [I1 _] P Hc Hst. pose proof (I1 c) as L.
  assert (Hd : forall x, dy (finish s c f) x = upd (dy s) c (d_finish f (dy s c)) x) by (intros x; unfold finish; destruct (negb _ && negb _); reflexivity).
  assert (Core : core (finish s c f) = core s) by (unfold finish; destruct (negb _ && negb _); reflexivity).
  unfold core in Core.
  assert (NF : is_fin (cstate (dy s c)) = false).
  { destruct (is_fin (cstate (dy s c))) eqn:E; [|reflexivity]. apply is_fin_ctl in E as [g Hg]. congruence. }
  apply (pinv_upd s c (d_finish f (dy s c)) (finish s c f) P Hd).
  - congruence.
  - intros x Hx. congruence.
  - intros x _ Hx. left. unfold finish. destruct (negb _ && negb _); cbn; [apply in_or_app; left|]; exact Hx.
  - intros x _ Hx. congruence.
  - unfold finish, d_finish. rewrite NF. destruct (is_run (cstate (dy s c))) eqn:R; cbn.
    + unfold cstate. cbn. rewrite Hc. destruct (e (dy s c)); cbn; discriminate.
    + intros _. left. apply in_or_app. right. left. reflexivity.
  - unfold d_finish. destruct (is_run (cstate (dy s c))) eqn:R; cbn.
    + intros r Hr _. apply is_run_spec in R as [_ R]. exfalso. exact (R r Hr).
    + intros r _ H. discriminate.
  - unfold d_finish. destruct (is_run (cstate (dy s c))) eqn:R; cbn.
    + intros _ _. split; [reflexivity|eauto].
    + intros _ H. discriminate.
  - destruct (d_finish_frame f (dy s c)) as [_ [A [_ [B _]]]]. rewrite A, B. exact (q_run _ P c).
  - destruct (d_finish_frame f (dy s c)) as [A _]. rewrite A. auto.
  - destruct (d_finish_frame f (dy s c)) as [A _]. rewrite A. exact (q_range _ P c).
Qed.

Lemma fake_finish_P s c f : Inv s -> pinv s -> staged (dy s c) = false -> c < ncomp W -> pinv (fake_finish s c f).
Proof.
  intros [I1 _] P Us Hc. destruct (l_unstaged _ (I1 c) Us) as [He [Hctl [Hr Hf]]].
  assert (R : is_run (cstate (d_stage (dy s c))) = true) by (unfold cstate, d_stage; cbn; rewrite Hctl, He; reflexivity).
  assert (E : fake_finish s c f = set_dy (set_dy s c (d_stage (dy s c))) c (d_finish f (d_stage (dy s c)))).
  { unfold fake_finish, finish. cbn. rewrite upd_same, R. cbn. reflexivity. }
  assert (Dd : d_finish f (d_stage (dy s c)) =
     {| staged := true; runs := runs (dy s c); finish_called := true; pending := Some f; kill_req := true;
        e := e (dy s c); ctl := ctl (dy s c); restarts := restarts (dy s c); resub := resub (dy s c); shut := shut (dy s c) |}).
  { unfold d_finish. rewrite R. reflexivity. }
  apply (pinv_upd s c (d_finish f (d_stage (dy s c))) (fake_finish s c f) P).
  - intros x. rewrite E. cbn. unfold upd. destruct (Nat.eqb x c); reflexivity.
  - rewrite E. reflexivity.
  - intros x Hx. rewrite E. exact Hx.
  - intros x _ Hx. left. rewrite E. exact Hx.
  - intros x _ Hx. rewrite E. exact Hx.
  - rewrite Dd. unfold cstate. cbn. rewrite Hctl, He. discriminate.
  - rewrite Dd. cbn. rewrite He. discriminate.
  - rewrite Dd. cbn. intros _ _. split; [reflexivity|eauto].
  - rewrite Dd. cbn. rewrite Hr. lia.
  - rewrite Dd. cbn. reflexivity.
  - intros _. exact Hc.
Qed.

Lemma stop_components_P : forall cs s,
  Inv s -> pinv s -> (forall c, In c cs -> staged (dy s c) = true) -> pinv (stop_components s cs).
Proof.
  induction cs as [|c cs IH]; intros s I P Hs; cbn [stop_components fold_left]; [exact P|].
  fold (stop_components (if alive (dy s c) && negb (finish_called (dy s c)) then finish s c Shutdown else s) cs).
  destruct (alive (dy s c) && negb (finish_called (dy s c))) eqn:G.
  - apply andb_true_iff in G as [G1 _].
    destruct (finish_ok s c Shutdown I (alive_ctl _ G1) (Hs c (or_introl eq_refl))) as [I' [X' _]].
    apply IH.
    + exact I'.
    + apply finish_P; [exact I|exact P|exact (alive_ctl _ G1)|exact (Hs c (or_introl eq_refl))].
    + intros x Hx. apply (x_staged _ _ X'). apply Hs. right. exact Hx.
  - apply IH; [exact I|exact P|]. intros x Hx. apply Hs. right. exact Hx.
Qed.

Lemma kill_fold_P : forall l s,
  Inv s -> pinv s -> (forall c, In c l -> c < ncomp W) ->
  pinv (fold_left (fun s c => if negb (finish_called (dy s c)) && alive (dy s c)
                        then (if staged (dy s c) then finish s c Shutdown else fake_finish s c Shutdown)
                        else s) l s).
Proof.
  induction l as [|c l IH]; intros s I P Hl; cbn [fold_left]; [exact P|].
  assert (Hl' : forall x, In x l -> x < ncomp W) by (intros x Hx; apply Hl; right; exact Hx).
  destruct (negb (finish_called (dy s c)) && alive (dy s c)) eqn:G; [|apply IH; [exact I|exact P|exact Hl']].
  apply andb_true_iff in G as [_ G2]. destruct (staged (dy s c)) eqn:St.
  - destruct (finish_ok s c Shutdown I (alive_ctl _ G2) St) as [I' _]. apply IH; [exact I'| |exact Hl'].
    apply finish_P; [exact I|exact P|exact (alive_ctl _ G2)|exact St].
  - destruct (fake_finish_ok s c Shutdown I St) as [I' _]. apply IH; [exact I'| |exact Hl'].
    apply fake_finish_P; [exact I|exact P|exact St|]. apply Hl. left. reflexivity.
Qed.

(* after kill_all every component is staged *)
Lemma kill_fold_staged : forall l s,
  Inv s ->
  let s' := fold_left (fun s c => if negb (finish_called (dy s c)) && alive (dy s c)
                        then (if staged (dy s c) then finish s c Shutdown else fake_finish s c Shutdown)
                        else s) l s in
  forall c, In c l -> staged (dy s' c) = true.
Proof.
  induction l as [|c l IH]; intros s I; cbn [fold_left]; [intros c []|].
  destruct (kill_fold_ok l (if negb (finish_called (dy s c)) && alive (dy s c)
      then (if staged (dy s c) then finish s c Shutdown else fake_finish s c Shutdown) else s)) as [_ [X _]].
  { destruct (negb (finish_called (dy s c)) && alive (dy s c)) eqn:G; [|exact I].
    apply andb_true_iff in G as [_ G2]. destruct (staged (dy s c)) eqn:St;
      [exact (proj1 (finish_ok s c Shutdown I (alive_ctl _ G2) St))|exact (proj1 (fake_finish_ok s c Shutdown I St))]. }
  intros x [<-|Hx].
  - apply (x_staged _ _ X). destruct I as [I1 _].
    destruct (negb (finish_called (dy s c)) && alive (dy s c)) eqn:G.
    + apply andb_true_iff in G as [_ G2]. destruct (staged (dy s c)) eqn:St.
      * rewrite finish_staged_same. exact St.
      * unfold fake_finish. rewrite finish_staged_same. cbn. rewrite upd_same. reflexivity.
    + destruct (staged (dy s c)) eqn:St; [reflexivity|]. destruct (l_unstaged _ (I1 c) St) as [_ [Hc [_ Hf]]].
      rewrite Hf in G. cbn in G. unfold alive, cstate in G. rewrite Hc in G. destruct (e (dy s c)); discriminate.
  - apply IH; [|exact Hx].
    destruct (negb (finish_called (dy s c)) && alive (dy s c)) eqn:G; [|exact I].
    apply andb_true_iff in G as [_ G2]. destruct (staged (dy s c)) eqn:St;
      [exact (proj1 (finish_ok s c Shutdown I (alive_ctl _ G2) St))|exact (proj1 (fake_finish_ok s c Shutdown I St))].
Qed.

Lemma fake_fold_P : forall cs s,
  Inv s -> pinv s -> (forall c, In c cs -> c < ncomp W) ->
  pinv (fold_left (fun s x => if negb (staged (dy s x)) && negb (finish_called (dy s x))
                              then fake_finish s x Shutdown else s) cs s).
Proof.
  induction cs as [|c cs IH]; intros s I P Hl; cbn [fold_left]; [exact P|].
  assert (Hl' : forall x, In x cs -> x < ncomp W) by (intros x Hx; apply Hl; right; exact Hx).
  destruct (negb (staged (dy s c)) && negb (finish_called (dy s c))) eqn:G; [|apply IH; [exact I|exact P|exact Hl']].
  apply andb_true_iff in G as [G1 _]. apply negb_true_iff in G1.
  destruct (fake_finish_ok s c Shutdown I G1) as [I' _]. apply IH; [exact I'| |exact Hl'].
  apply fake_finish_P; [exact I|exact P|exact G1|]. apply Hl. left. reflexivity.
Qed.

Lemma in_nodes c : In c (nodes W) -> c < ncomp W.
Proof. unfold nodes. intros H. apply in_seq in H. lia. Qed.

Lemma in_stage_nodes c i : In c (stage_nodes W i) -> c < ncomp W.
Proof. unfold stage_nodes. intros H. apply filter_In in H as [H _]. exact (in_nodes c H). Qed.

Definition ready_in (ready : list nat) : Prop := forall c, In c ready -> c < ncomp W.

Lemma visit_P s si ready c :
  PassInv W s si ready -> pinv si -> ready_in ready -> c < ncomp W ->
  pinv (fst (sched_visit W true (si, ready) c)) /\ ready_in (snd (sched_visit W true (si, ready) c)).
Proof.
  intros PI P R Hc. unfold sched_visit.
  destruct (memn c (done si) || is_fin (pstate si c) || staged (dy si c) || negb (deps_ok W true si c)) eqn:G;
    [split; assumption|].
  apply orb_false_iff in G as [G _]. apply orb_false_iff in G as [_ G3].
  destruct (shutdown_rule W si c); cbn [fst snd].
  - split; [|exact R]. apply fake_finish_P; [exact (p_inv _ _ _ _ PI)|exact P|exact G3|exact Hc].
  - split; [exact P|]. intros x Hx. apply in_app_or in Hx as [Hx|[<-|[]]]; [exact (R x Hx)|exact Hc].
Qed.

Lemma visits_P s : forall l si ready,
  PassInv W s si ready -> NoDup l -> (forall c, In c ready -> ~ In c l) -> (forall c, In c l -> c < ncomp W) ->
  pinv si -> ready_in ready ->
  pinv (fst (fold_left (sched_visit W true) l (si, ready))) /\ ready_in (snd (fold_left (sched_visit W true) l (si, ready))).
Proof.
  induction l as [|c l IH]; intros si ready PI Hl Hr Hb P R; cbn [fold_left]; [split; assumption|].
  inversion Hl as [|? ? Hc Hl']; subst.
  assert (Hn : ~ In c ready) by (intros H; apply (Hr c H); left; reflexivity).
  pose proof (visit_ok W s si ready c PI Hn) as V.
  pose proof (visit_P s si ready c PI P R (Hb c (or_introl eq_refl))) as VP.
  destruct (sched_visit W true (si, ready) c) as [si' ready'] eqn:E. destruct V as [PI' Sub]. destruct VP as [P' R'].
  apply IH; auto.
  - intros x Hx Hi. destruct (Sub x Hx) as [H|H]; [apply (Hr x H); right; exact Hi|subst x; contradiction].
  - intros x Hx. apply Hb. right. exact Hx.
Qed.

Lemma sched_pass_P s : Inv s -> pinv s -> pinv (sched_pass W true s).
Proof.
  intros I P. unfold sched_pass.
  pose proof (visits_ok W s (nodes W) s [] (PassInv_init W s I) (seq_NoDup _ _) (fun c H => match H with end)) as PI.
  pose proof (visits_P s (nodes W) s [] (PassInv_init W s I) (seq_NoDup _ _) (fun c H => match H with end)
                in_nodes P (fun c H => match H with end)) as [P1 R1].
  destruct (fold_left (sched_visit W true) (nodes W) (s, [])) as [s1 ready] eqn:E. cbn [fst snd] in *.
  destruct (stop s1) eqn:St; [exact P1|].
  destruct (submit_spec s1 ready (p_nodup _ _ _ _ PI)) as [D [C F]].
  pose proof (p_inv _ _ _ _ PI) as [I1 _]. unfold core in C.
  assert (Dr : forall c, In c ready -> dy (submit s1 ready) c =
            {| staged := true; runs := S (runs (dy s1 c)); finish_called := finish_called (dy s1 c);
               pending := pending (dy s1 c); kill_req := kill_req (dy s1 c); e := Active; ctl := ctl (dy s1 c);
               restarts := restarts (dy s1 c); resub := resub (dy s1 c); shut := shut (dy s1 c) |} /\
            ctl (dy s1 c) = None /\ finish_called (dy s1 c) = false).
  { intros c Hc. rewrite D. apply memn_In in Hc as M. rewrite M. destruct (p_ready _ _ _ _ PI c Hc) as [Us _].
    destruct (l_unstaged _ (I1 c) Us) as [He [Hctl [_ Hf]]].
    split; [|split; [exact Hctl|exact Hf]].
    unfold d_launch, d_stage, cstate. cbn. rewrite Hctl, He. cbn. reflexivity. }
  assert (Dn : forall c, ~ In c ready -> dy (submit s1 ready) c = dy s1 c).
  { intros c Hc. rewrite D. destruct (memn c ready) eqn:M; [apply memn_In in M; contradiction|reflexivity]. }
  constructor.
  - intros c Hc. unfold pstate in Hc. destruct (in_dec Nat.eq_dec c ready) as [Hr|Hr].
    + destruct (Dr c Hr) as [Eq [Hn _]]. rewrite Eq in Hc. unfold cstate in Hc. cbn in Hc. rewrite Hn in Hc. discriminate.
    + rewrite (Dn c Hr) in Hc. rewrite F. inversion C as [[C1 C2 C3 C4 C5 C6]]. rewrite C1. exact (q_fin _ P1 c Hc).
  - intros c r. destruct (in_dec Nat.eq_dec c ready) as [Hr|Hr].
    + destruct (Dr c Hr) as [Eq _]. rewrite Eq. cbn. discriminate.
    + rewrite (Dn c Hr). inversion C as [[C1 C2 C3 C4 C5 C6]]. rewrite C4. exact (q_pm _ P1 c r).
  - intros c. destruct (in_dec Nat.eq_dec c ready) as [Hr|Hr].
    + destruct (Dr c Hr) as [Eq [_ Hf]]. rewrite Eq. cbn. intros H. congruence.
    + rewrite (Dn c Hr). exact (q_pend _ P1 c).
  - intros c. destruct (in_dec Nat.eq_dec c ready) as [Hr|Hr].
    + destruct (Dr c Hr) as [Eq _]. rewrite Eq. cbn. discriminate.
    + rewrite (Dn c Hr). exact (q_run _ P1 c).
  - inversion C as [[C1 C2 C3 C4 C5 C6]]. rewrite C2, St. discriminate.
  - intros c. destruct (in_dec Nat.eq_dec c ready) as [Hr|Hr].
    + intros _. exact (R1 c Hr).
    + rewrite (Dn c Hr). exact (q_range _ P1 c).
Qed.

Lemma pinv_same s s' :
  dy s' = dy s -> done s' = done s -> stop s' = stop s -> pmq s' = pmq s -> finq s' = finq s -> pinv s -> pinv s'.
Proof.
  intros H1 H2 H3 H4 H5 P. destruct P. constructor; unfold pstate in *; rewrite ?H1, ?H2, ?H3, ?H4, ?H5; auto.
Qed.

Lemma In_remove1_other x y l : x <> y -> In x l -> In x (remove1 y l).
Proof.
  intros N. induction l as [|z l IH]; cbn; [auto|]. intros [H|H].
  - subst z. destruct (Nat.eqb y x) eqn:E; [apply Nat.eqb_eq in E; congruence|left; reflexivity].
  - destruct (Nat.eqb y z); [exact H|right; exact (IH H)].
Qed.

Lemma exit_P s c s' : Inv s -> pinv s -> exit_comp W outcome s c = Some s' -> pinv s'.
Proof.
  intros [I1 _] P H. unfold exit_comp in H.
  destruct (negb (c <? ncomp W) || negb (exit_enabled (dy s c))) eqn:G; [discriminate|].
  apply orb_false_iff in G as [G0 G]. apply negb_false_iff in G. apply negb_false_iff in G0. apply Nat.ltb_lt in G0.
  pose proof (I1 c) as L.
  assert (Hctl : ctl (dy s c) = None).
  { destruct (ctl (dy s c)) as [g|] eqn:E; [|reflexivity]. destruct (l_ctl _ L g E) as [_ [r Er]].
    unfold exit_enabled in G. rewrite Er in G. discriminate. }
  destruct (finish_called (dy s c)) eqn:Fc.
  - destruct (q_pend _ P c Fc Hctl) as [_ [f Hp]]. rewrite Hp in H.
    match type of H with context [set_dy s c ?D] => set (d' := D) in * end.
    inversion H; subst s'.
    apply (pinv_upd s c d' (add_finq (set_dy s c d') c) P); cbn.
    + intros x. reflexivity.
    + reflexivity.
    + auto.
    + intros x _ Hx. left. apply in_or_app. left. exact Hx.
    + auto.
    + intros _. left. apply in_or_app. right. left. reflexivity.
    + unfold d'. cbn. intros r _ Hx. discriminate.
    + unfold d'. cbn. intros _ Hx. discriminate.
    + unfold d'. cbn. intros _ Hx. discriminate.
    + unfold d'. cbn. auto.
    + intros _. exact G0.
  - match type of H with context [set_dy s c ?D] => set (d' := D) in * end.
    inversion H; subst s'.
    match goal with |- pinv ?S => apply (pinv_upd s c d' S P) end; cbn.
    + intros x. reflexivity.
    + reflexivity.
    + auto.
    + intros x _ Hx. left. exact Hx.
    + intros x _ Hx. apply in_or_app. left. exact Hx.
    + unfold d', cstate. cbn. rewrite Hctl. discriminate.
    + unfold d'. cbn. intros r _ _. split; [apply in_or_app; right; left; reflexivity|reflexivity].
    + unfold d'. cbn. intros Hx. discriminate.
    + unfold d'. cbn. intros _ Hx. discriminate.
    + unfold d'. cbn. auto.
    + intros _. exact G0.
Qed.

Lemma pm_P s c s' : Inv s -> pinv s -> deliver_pm W s c = Some s' -> pinv s'.
Proof.
  intros [I1 _] P H. unfold deliver_pm in H. destruct (memn c (pmq s)) eqn:M; [|discriminate]. cbn [negb] in H.
  pose proof (I1 c) as L. cbn [dy] in H.
  (* removing c from the post-mortem queue is harmless when c no longer needs a post-mortem *)
  assert (Drop : (forall r, e (dy s c) = Exited r -> ctl (dy s c) = None -> False) ->
     pinv {| dy := dy s; done := done s; stop := stop s; cur := cur s; pmq := remove1 c (pmq s); finq := finq s;
             running := running s; verdict := verdict s |}).
  { intros Hno. destruct P. constructor; cbn; auto.
    intros x r H1 H2. destruct (Nat.eq_dec x c) as [->|N]; [exfalso; exact (Hno r H1 H2)|].
    destruct (q_pm0 x r H1 H2) as [A B]. split; [apply In_remove1_other; assumption|exact B]. }
  destruct (finish_called (dy s c)) eqn:Fc.
  { inversion H; subst. apply Drop. intros r H1 H2. destruct (q_pm _ P c r H1 H2) as [_ X]. congruence. }
  destruct (e (dy s c)) as [| |r] eqn:Ee; try (inversion H; subst; apply Drop; intros r0 H1; discriminate).
  assert (Hctl : ctl (dy s c) = None) by (apply linv_ctl_none_of_not_fc; auto).
  assert (Hst : staged (dy s c) = true) by (apply linv_staged_of_nonidle; [exact L|congruence]).
  destruct (restart_decision W c (dy s c) r) as [d'|] eqn:Rd.
  - assert (Ed : e d' = Active /\ ctl d' = None /\ staged d' = true /\ finish_called d' = false).
    { unfold restart_decision, try_restart in Rd.
      destruct (reason_eqb r SubmissionFailed); [destruct (resub (dy s c) <? 5); [|discriminate]|
        destruct (mem r (restart_on (cmp W c))); [|discriminate]];
      destruct (shut (dy s c)); try discriminate; destruct (max_r (cmp W c) <? S (restarts (dy s c))); try discriminate;
      inversion Rd; cbn; auto. }
    destruct Ed as [E1 [E2 [E3 E4]]]. inversion H; subst s'.
    match goal with |- pinv ?S => apply (pinv_upd s c d' S P) end; cbn.
    + intros x. reflexivity.
    + reflexivity.
    + auto.
    + intros x _ Hx. left. exact Hx.
    + intros x N Hx. apply In_remove1_other; assumption.
    + unfold cstate. rewrite E2, E1. discriminate.
    + intros r0 Hx. congruence.
    + intros Hx. congruence.
    + intros _. congruence.
    + auto.
    + intros _. exact (q_range _ P c Hst).
  - inversion H; subst s'.
    match goal with |- pinv (finish ?S0 c ?F) => set (s0 := S0); set (f := F) end.
    assert (NR : is_run (cstate (dy s c)) = false) by (unfold cstate; rewrite Hctl, Ee; reflexivity).
    assert (NF : is_fin (cstate (dy s c)) = false) by (unfold cstate; rewrite Hctl, Ee; reflexivity).
    assert (Es : finish s0 c f = add_finq (set_dy s0 c (d_finish f (dy s c))) c).
    { unfold finish. change (dy s0 c) with (dy s c). rewrite NR, NF. reflexivity. }
    rewrite Es.
    apply (pinv_upd s c (d_finish f (dy s c)) _ P); cbn.
    + intros x. reflexivity.
    + reflexivity.
    + auto.
    + intros x _ Hx. left. apply in_or_app. left. exact Hx.
    + intros x N Hx. apply In_remove1_other; assumption.
    + intros _. left. apply in_or_app. right. left. reflexivity.
    + unfold d_finish. rewrite NR. cbn. intros r0 _ Hx. discriminate.
    + unfold d_finish. rewrite NR. cbn. intros _ Hx. discriminate.
    + destruct (d_finish_frame f (dy s c)) as [_ [A [_ [B _]]]]. rewrite A, B. exact (q_run _ P c).
    + destruct (d_finish_frame f (dy s c)) as [A _]. rewrite A. auto.
    + intros _. exact (q_range _ P c Hst).
Qed.

(* ---- finishedCheck: recording c as done commutes with the component-level actions *)
Definition add_done (s : state) (c : nat) : state :=
  {| dy := dy s; done := done s ++ [c]; stop := stop s; cur := cur s; pmq := pmq s; finq := finq s;
     running := running s; verdict := verdict s |}.

Lemma finish_add_done s x f c : finish (add_done s c) x f = add_done (finish s x f) c.
Proof. unfold finish. cbn. destruct (negb _ && negb _); reflexivity. Qed.

Lemma fake_finish_add_done s x f c : fake_finish (add_done s c) x f = add_done (fake_finish s x f) c.
Proof. unfold fake_finish, finish. cbn. destruct (negb _ && negb _); reflexivity. Qed.

Lemma stop_components_add_done c : forall cs s, stop_components (add_done s c) cs = add_done (stop_components s cs) c.
Proof.
  induction cs as [|x cs IH]; intros s; cbn [stop_components fold_left]; [reflexivity|].
  fold (stop_components (if alive (dy (add_done s c) x) && negb (finish_called (dy (add_done s c) x))
                         then finish (add_done s c) x Shutdown else add_done s c) cs).
  fold (stop_components (if alive (dy s x) && negb (finish_called (dy s x)) then finish s x Shutdown else s) cs).
  cbn [add_done dy]. destruct (alive (dy s x) && negb (finish_called (dy s x))); [rewrite finish_add_done|]; apply IH.
Qed.

Lemma kill_fold_add_done c : forall l s,
  fold_left (fun s c => if negb (finish_called (dy s c)) && alive (dy s c)
                        then (if staged (dy s c) then finish s c Shutdown else fake_finish s c Shutdown)
                        else s) l (add_done s c) =
  add_done (fold_left (fun s c => if negb (finish_called (dy s c)) && alive (dy s c)
                        then (if staged (dy s c) then finish s c Shutdown else fake_finish s c Shutdown)
                        else s) l s) c.
Proof.
  induction l as [|x l IH]; intros s; cbn [fold_left]; [reflexivity|]. cbn [add_done dy].
  destruct (negb (finish_called (dy s x)) && alive (dy s x)); [|apply IH].
  destruct (staged (dy s x)); [rewrite finish_add_done|rewrite fake_finish_add_done]; apply IH.
Qed.

Lemma fake_fold_add_done c : forall cs s,
  fold_left (fun s x => if negb (staged (dy s x)) && negb (finish_called (dy s x))
                        then fake_finish s x Shutdown else s) cs (add_done s c) =
  add_done (fold_left (fun s x => if negb (staged (dy s x)) && negb (finish_called (dy s x))
                        then fake_finish s x Shutdown else s) cs s) c.
Proof.
  induction cs as [|x cs IH]; intros s; cbn [fold_left]; [reflexivity|]. cbn [add_done dy].
  destruct (negb (staged (dy s x)) && negb (finish_called (dy s x))); [rewrite fake_finish_add_done|]; apply IH.
Qed.

Lemma kill_all_add_done s c : kill_all W (add_done s c) = add_done (kill_all W s) c.
Proof. unfold kill_all. rewrite <- kill_fold_add_done. reflexivity. Qed.

Lemma kill_all_P s : Inv s -> pinv s -> pinv (kill_all W s).
Proof.
  intros I P. unfold kill_all.
  set (s0 := {| dy := dy s; done := done s; stop := true; cur := cur s; pmq := pmq s; finq := finq s;
                running := running s; verdict := verdict s |}).
  assert (I0 : Inv s0) by exact I.
  (* the invariant without the claim about stop, carried through the fold, then re-established *)
  assert (P0' : pinv (set_stop s0 false)).
  { destruct P. constructor; cbn; auto. discriminate. }
  pose proof (kill_fold_P (nodes W) (set_stop s0 false) I0 P0' in_nodes) as PF.
  pose proof (kill_fold_staged (nodes W) s0 I0) as St.
  (* the fold does not read or write stop *)
  assert (Comm : forall l t b,
     fold_left (fun s c => if negb (finish_called (dy s c)) && alive (dy s c)
                        then (if staged (dy s c) then finish s c Shutdown else fake_finish s c Shutdown)
                        else s) l (set_stop t b) =
     set_stop (fold_left (fun s c => if negb (finish_called (dy s c)) && alive (dy s c)
                        then (if staged (dy s c) then finish s c Shutdown else fake_finish s c Shutdown)
                        else s) l t) b).
  { induction l as [|x l IH]; intros t b; cbn [fold_left]; [reflexivity|]. cbn [set_stop dy].
    assert (F1 : forall y f, finish (set_stop t b) y f = set_stop (finish t y f) b)
      by (intros y f; unfold finish; cbn; destruct (negb _ && negb _); reflexivity).
    assert (F2 : forall y f, fake_finish (set_stop t b) y f = set_stop (fake_finish t y f) b)
      by (intros y f; unfold fake_finish, finish; cbn; destruct (negb _ && negb _); reflexivity).
    destruct (negb (finish_called (dy t x)) && alive (dy t x)); [|apply IH].
    destruct (staged (dy t x)); [rewrite F1|rewrite F2]; apply IH. }
  rewrite Comm in PF. cbn in St.
  set (sf := fold_left _ (nodes W) s0) in *.
  destruct PF. constructor; cbn in *; auto.
  intros _ c Hc. apply St. unfold nodes. apply in_seq. lia.
Qed.

Lemma fin_P s c s' : Inv s -> pinv s -> deliver_fin W s c = Some s' -> pinv s'.
Proof.
  intros I P H. unfold deliver_fin in H. destruct (memn c (finq s)) eqn:M; [|discriminate]. cbn [negb] in H.
  apply memn_In in M.
  match type of H with context [is_failed (pstate ?S0 c)] => set (s0 := S0) in * end.
  set (t := add_done s0 c).
  assert (Fc : is_fin (pstate s c) = true) by (destruct I as [_ [_ I3]]; exact (I3 c M)).
  assert (It : Inv t).
  { destruct I as [I1 [I2 I3]]. split; [exact I1|split].
    - intros x Hx. cbn in Hx. apply in_app_or in Hx as [Hx|[<-|[]]]; [exact (I2 x Hx)|exact Fc].
    - intros x Hx. cbn in Hx. exact (I3 x (In_remove1 _ _ _ Hx)). }
  assert (Pt : pinv t).
  { destruct P. constructor; cbn; auto.
    intros x Hx. destruct (Nat.eq_dec x c) as [->|N]; [right; apply in_or_app; right; left; reflexivity|].
    destruct (q_fin0 x Hx) as [A|A]; [left; apply In_remove1_other; assumption|right; apply in_or_app; left; exact A]. }
  inversion H; subst s'; clear H.
  match goal with |- pinv {| dy := dy ?S1; done := _; stop := _; cur := _; pmq := _; finq := _; running := _; verdict := _ |} =>
    change (pinv (add_done S1 c)) end.
  destruct (is_failed (pstate s0 c)).
  - match goal with |- context [if ?b then kill_all W s0 else _] => destruct b end.
    + rewrite <- kill_all_add_done. exact (kill_all_P t It Pt).
    + rewrite <- stop_components_add_done, <- fake_fold_add_done. fold t.
      destruct (fake_fold_ok (stage_nodes W (stage (cmp W c))) t It) as [A [_ [_ [_ St]]]].
      apply stop_components_P; [exact A| |exact St].
      apply fake_fold_P; [exact It|exact Pt|]. intros x Hx. exact (in_stage_nodes x _ Hx).
  - exact Pt.
Qed.

Lemma tick_P s s' : Inv s -> pinv s -> tick W true s = Some s' -> pinv s'.
Proof.
  intros I P H. unfold tick in H. destruct (cur s) as [i|]; [|discriminate]. destruct (running s); [|discriminate].
  inversion H; subst s'. destruct (stage_done W s i) eqn:Sd; [|exact (sched_pass_P s I P)].
  unfold end_stage.
  assert (St : forall c, In c (stage_nodes W i) -> staged (dy s c) = true).
  { intros c Hc. unfold stage_done in Sd. rewrite forallb_forall in Sd. specialize (Sd c Hc). apply memn_In in Sd.
    destruct I as [I1 [I2 _]]. specialize (I2 c Sd). unfold pstate in I2. apply is_fin_ctl in I2 as [f Hf].
    destruct (l_ctl _ (I1 c) f Hf) as [_ [r Er]]. apply linv_staged_of_nonidle; [apply I1|congruence]. }
  apply (pinv_same (stop_components s (stage_nodes W i))); auto.
  apply stop_components_P; assumption.
Qed.

Lemma start_P s s' : Inv s -> pinv s -> start_stage W true s = Some s' -> pinv s'.
Proof.
  intros I P H. unfold start_stage in H. destruct (running s); [discriminate|].
  match type of H with (if ?b then _ else _) = _ => destruct b; [|discriminate] end.
  match type of H with Some (sched_pass W true ?S0) = _ => set (s0 := S0) in * end.
  assert (I0 : Inv s0) by (apply (Inv_sub s); auto).
  assert (P0 : pinv s0). { destruct P. constructor; cbn; auto. discriminate. }
  inversion H; subst s'. exact (sched_pass_P s0 I0 P0).
Qed.

Lemma step_P s ev s' : Inv s -> pinv s -> step W true outcome s ev = Some s' -> pinv s'.
Proof.
  intros I P H. destruct ev as [| |c|c|c]; cbn [step] in H.
  - exact (start_P s s' I P H).
  - exact (tick_P s s' I P H).
  - exact (exit_P s c s' I P H).
  - exact (pm_P s c s' I P H).
  - exact (fin_P s c s' I P H).
Qed.

Lemma run_P : forall evs s s', Inv s -> pinv s -> run W true outcome s evs = Some s' -> pinv s'.
Proof.
  induction evs as [|ev evs IH]; intros s s' I P H; cbn [run] in H.
  - inversion H; subst. exact P.
  - destruct (step W true outcome s ev) as [s1|] eqn:E; [|discriminate].
    destruct (step_ok W outcome s ev s1 I E) as [I1 _].
    exact (IH s1 s' I1 (step_P s ev s1 I P E) H).
Qed.

(* ------------------------------------------------------------------ the progress theorem *)
Lemma NoDup_app_l {A} (l r : list A) : NoDup (l ++ r) -> NoDup l.
Proof.
  induction l as [|a l IH]; cbn; intros H; [constructor|]. inversion H as [|? ? Ha H']; subst.
  constructor; [intros Hi; apply Ha; apply in_or_app; left; exact Hi|exact (IH H')].
Qed.
Lemma NoDup_app_r {A} (l r : list A) : NoDup (l ++ r) -> NoDup r.
Proof. induction l as [|a l IH]; cbn; intros H; [exact H|]. inversion H; subst. auto. Qed.

Lemma visit_frame si ready c x : x <> c -> dy (fst (sched_visit W true (si, ready) c)) x = dy si x.
Proof.
  intros N. unfold sched_visit. destruct (_ || _ || _ || _); [reflexivity|].
  destruct (shutdown_rule W si c); cbn [fst]; [|reflexivity].
  unfold fake_finish, finish. cbn. destruct (negb _ && negb _); cbn; rewrite !upd_other by exact N; reflexivity.
Qed.

Lemma visits_frame x : forall l si ready, ~ In x l -> dy (fst (fold_left (sched_visit W true) l (si, ready))) x = dy si x.
Proof.
  induction l as [|c l IH]; intros si ready Hn; cbn [fold_left]; [reflexivity|].
  destruct (sched_visit W true (si, ready) c) as [si' ready'] eqn:E.
  rewrite IH by (intros H; apply Hn; right; exact H).
  replace si' with (fst (sched_visit W true (si, ready) c)) by (rewrite E; reflexivity).
  apply visit_frame. intros ->. apply Hn. left. reflexivity.
Qed.

Lemma visit_ready_mono si ready c x : In x ready -> In x (snd (sched_visit W true (si, ready) c)).
Proof.
  intros H. unfold sched_visit. destruct (_ || _ || _ || _); [exact H|].
  destruct (shutdown_rule W si c); cbn [snd]; [exact H|apply in_or_app; left; exact H].
Qed.

Lemma visits_ready_mono x : forall l si ready, In x ready -> In x (snd (fold_left (sched_visit W true) l (si, ready))).
Proof.
  induction l as [|c l IH]; intros si ready H; cbn [fold_left]; [exact H|].
  destruct (sched_visit W true (si, ready) c) as [si' ready'] eqn:E. apply IH.
  replace ready' with (snd (sched_visit W true (si, ready) c)) by (rewrite E; reflexivity).
  apply visit_ready_mono. exact H.
Qed.

Lemma pass_stages s c0 :
  Inv s -> stop s = false -> c0 < ncomp W -> ~ In c0 (done s) -> staged (dy s c0) = false ->
  (forall p, In p (preds (cmp W c0)) -> In p (done s)) ->
  staged (dy (sched_pass W true s) c0) = true.
Proof.
  intros I Hstop Hc Hnd Hus Hpre. pose proof I as [I1 _].
  destruct (l_unstaged _ (I1 c0) Hus) as [He [Hctl _]].
  assert (Hin : In c0 (nodes W)) by (unfold nodes; apply in_seq; lia).
  destruct (in_split _ _ Hin) as [l1 [l2 Hsplit]].
  pose proof (seq_NoDup (ncomp W) 0) as ND. fold (nodes W) in ND. rewrite Hsplit in ND.
  assert (N1 : ~ In c0 l1 /\ ~ In c0 l2).
  { apply NoDup_remove_2 in ND. split; intros H; apply ND; apply in_or_app; [left|right]; exact H. }
  destruct N1 as [N1 N2].
  assert (ND1 : NoDup l1 /\ NoDup (c0 :: l2)).
  { split; [exact (NoDup_app_l _ _ ND)|exact (NoDup_app_r _ _ ND)]. }
  destruct ND1 as [ND1 ND2]. inversion ND2 as [|? ? _ ND3]; subst.
  unfold sched_pass. rewrite Hsplit, fold_left_app. cbn [fold_left].
  pose proof (visits_ok W s l1 s [] (PassInv_init W s I) ND1 (fun c H => match H with end)) as P1.
  pose proof (visits_frame c0 l1 s [] N1) as F1.
  destruct (fold_left (sched_visit W true) l1 (s, [])) as [si ri] eqn:E1. cbn [fst snd] in *.
  (* the visit of c0 *)
  assert (Hn : ~ In c0 ri).
  { intros H. destruct (p_ready _ _ _ _ P1 c0 H) as [_ [_ _]].
    (* ready components were visited, c0 was not: use the subset property of the fold *)
    revert H. clear -E1 N1.
    assert (G : forall l si0 r0 sf rf, fold_left (sched_visit W true) l (si0, r0) = (sf, rf) ->
              forall x, In x rf -> In x r0 \/ In x l).
    { induction l as [|c l IH]; intros si0 r0 sf rf Hf x Hx; cbn [fold_left] in Hf.
      - inversion Hf; subst. left. exact Hx.
      - destruct (sched_visit W true (si0, r0) c) as [s' r'] eqn:Ev.
        destruct (IH _ _ _ _ Hf x Hx) as [H|H]; [|right; right; exact H].
        unfold sched_visit in Ev. destruct (_ || _ || _ || _); [inversion Ev; subst; left; exact H|].
        destruct (shutdown_rule W si0 c); inversion Ev; subst; [left; exact H|].
        apply in_app_or in H as [H|[H|[]]]; [left; exact H|right; left; exact H]. }
    intros H. destruct (G l1 s [] si ri E1 c0 H) as [[]|H']. contradiction. }
  pose proof (visit_ok W s si ri c0 P1 Hn) as V.
  assert (Vis : staged (dy (fst (sched_visit W true (si, ri) c0)) c0) = true \/
                In c0 (snd (sched_visit W true (si, ri) c0))).
  { unfold sched_visit.
    assert (G1 : memn c0 (done si) = false).
    { destruct (memn c0 (done si)) eqn:M; [|reflexivity]. apply memn_In in M.
      pose proof (p_core _ _ _ _ P1) as C. unfold core in C. assert (C1 : done si = done s) by congruence. rewrite C1 in M. contradiction. }
    assert (G2 : is_fin (pstate si c0) = false).
    { rewrite (p_pstate _ _ _ _ P1). unfold pstate, cstate. rewrite Hctl, He. reflexivity. }
    assert (G3 : staged (dy si c0) = false) by (rewrite F1; exact Hus).
    assert (G4 : deps_ok W true si c0 = true).
    { unfold deps_ok. apply forallb_forall. intros p Hp. apply orb_true_iff. left. apply memn_In.
      pose proof (p_core _ _ _ _ P1) as C. unfold core in C. assert (C1 : done si = done s) by congruence. rewrite C1. exact (Hpre p Hp). }
    rewrite G1, G2, G3, G4. cbn [orb negb].
    destruct (shutdown_rule W si c0); cbn [fst snd].
    - left. unfold fake_finish. rewrite finish_staged_same. cbn. rewrite upd_same. reflexivity.
    - right. apply in_or_app. right. left. reflexivity. }
  destruct (sched_visit W true (si, ri) c0) as [si' ri'] eqn:E0. cbn [fst snd] in Vis. destruct V as [P' Sub].
  assert (Hr' : forall c, In c ri' -> ~ In c l2).
  { intros x Hx Hi. destruct (Sub x Hx) as [H|H].
    - (* x in ri: visited in l1, and l1, l2 are disjoint *)
      assert (G : forall l si0 r0 sf rf, fold_left (sched_visit W true) l (si0, r0) = (sf, rf) ->
              forall x, In x rf -> In x r0 \/ In x l).
      { induction l as [|c l IH]; intros si0 r0 sf rf Hf y Hy; cbn [fold_left] in Hf.
        - inversion Hf; subst. left. exact Hy.
        - destruct (sched_visit W true (si0, r0) c) as [s' r'] eqn:Ev.
          destruct (IH _ _ _ _ Hf y Hy) as [H1|H1]; [|right; right; exact H1].
          unfold sched_visit in Ev. destruct (_ || _ || _ || _); [inversion Ev; subst; left; exact H1|].
          destruct (shutdown_rule W si0 c); inversion Ev; subst; [left; exact H1|].
          apply in_app_or in H1 as [H1|[H1|[]]]; [left; exact H1|right; left; exact H1]. }
      destruct (G l1 s [] si ri E1 x H) as [[]|H1].
      apply NoDup_remove_1 in ND.
      (* NoDup (l1 ++ l2) forbids a common element *)
      clear -ND H1 Hi. induction l1 as [|a l1 IH]; [destruct H1|]. cbn in ND. inversion ND as [|? ? Ha ND']; subst.
      destruct H1 as [->|H1]; [apply Ha; apply in_or_app; right; exact Hi|exact (IH ND' H1)].
    - subst x. contradiction. }
  pose proof (visits_ok W s l2 si' ri' P' ND3 Hr') as P2.
  pose proof (visits_frame c0 l2 si' ri' N2) as F2.
  pose proof (visits_ready_mono c0 l2 si' ri') as M2.
  destruct (fold_left (sched_visit W true) l2 (si', ri')) as [sf rf] eqn:E2. cbn [fst snd] in *.
  assert (St : stop sf = false).
  { pose proof (p_core _ _ _ _ P2) as C. unfold core in C. congruence. }
  rewrite St. destruct (submit_spec sf rf (p_nodup _ _ _ _ P2)) as [D _]. rewrite D.
  destruct (memn c0 rf) eqn:M.
  - unfold d_launch, d_stage. cbn. destruct (is_shutdown _); reflexivity.
  - destruct Vis as [Vis|Vis]; [rewrite F2; exact Vis|].
    apply M2 in Vis. apply memn_In in Vis. congruence.
Qed.

Lemma least_not_done s : forall c, ~ In c (done s) ->
  exists c0, c0 <= c /\ ~ In c0 (done s) /\ forall p, p < c0 -> In p (done s).
Proof.
  induction c as [c IH] using lt_wf_ind. intros Hc.
  destruct (forallb (fun p => memn p (done s)) (seq 0 c)) eqn:A.
  - exists c. split; [lia|split; [exact Hc|]]. intros p Hp. rewrite forallb_forall in A.
    apply memn_In. apply A. apply in_seq. lia.
  - assert (Ex : exists p, In p (seq 0 c) /\ memn p (done s) = false).
    { clear -A. induction (seq 0 c) as [|a l IHl]; cbn in A; [discriminate|].
      destruct (memn a (done s)) eqn:M; [destruct (IHl A) as [p [H1 H2]]; exists p; split; [right|]; assumption|].
      exists a. split; [left; reflexivity|exact M]. }
    destruct Ex as [p [Hp Mp]]. apply in_seq in Hp.
    assert (Np : ~ In p (done s)) by (intros H; apply memn_In in H; congruence).
    destruct (IH p ltac:(lia) Np) as [c0 [H1 [H2 H3]]]. exists c0. split; [lia|split; assumption].
Qed.

Theorem progress s i :
  wf W -> Inv s -> pinv s -> cur s = Some i -> running s = true -> stage_done W s i = false ->
  (exists ev, ev <> Tick /\ step W true outcome s ev <> None) \/
  (exists c, staged (dy s c) = false /\ staged (dy (sched_pass W true s) c) = true).
Proof.
  intros WF I P Hcur Hrun Hnd. pose proof I as [I1 _].
  assert (Ex : exists c, In c (stage_nodes W i) /\ ~ In c (done s)).
  { unfold stage_done in Hnd. clear -Hnd. induction (stage_nodes W i) as [|a l IHl]; cbn in Hnd; [discriminate|].
    destruct (memn a (done s)) eqn:M.
    - destruct (IHl Hnd) as [c [H1 H2]]. exists c. split; [right|]; assumption.
    - exists a. split; [left; reflexivity|]. intros H. apply memn_In in H. congruence. }
  destruct Ex as [c [Hc Hcd]]. pose proof (in_stage_nodes c i Hc) as Hcn.
  destruct (least_not_done s c Hcd) as [c0 [Hle [Hnd0 Hlt]]].
  assert (Hc0 : c0 < ncomp W) by lia.
  destruct (is_fin (pstate s c0)) eqn:Hfin.
  { left. exists (Fin c0). split; [discriminate|]. cbn [step]. unfold deliver_fin.
    destruct (q_fin _ P c0 Hfin) as [H|H]; [|contradiction]. apply memn_In in H. rewrite H. discriminate. }
  assert (Hctl : ctl (dy s c0) = None).
  { destruct (ctl (dy s c0)) as [f|] eqn:E; [|reflexivity]. unfold pstate, cstate in Hfin. rewrite E in Hfin. discriminate. }
  destruct (e (dy s c0)) as [| |r] eqn:Ee.
  - destruct (staged (dy s c0)) eqn:St.
    + destruct (finish_called (dy s c0)) eqn:Fc.
      * left. exists (Exit c0). split; [discriminate|]. cbn [step]. unfold exit_comp.
        destruct (q_pend _ P c0 Fc Hctl) as [K _].
        apply Nat.ltb_lt in Hc0. rewrite Hc0. unfold exit_enabled. rewrite Ee, K. cbn. rewrite Fc.
        destruct (pending (dy s c0)); discriminate.
      * exfalso. pose proof (l_launched _ (I1 c0) St Fc) as Hr. exact (q_run _ P c0 Hr Ee).
    + right. exists c0. split; [exact St|].
      assert (Hstop : stop s = false).
      { destruct (stop s) eqn:S; [|reflexivity]. pose proof (q_stop _ P S c0 Hc0). congruence. }
      apply pass_stages; [exact I|exact Hstop|exact Hc0|exact Hnd0|exact St|]. intros p Hp. apply Hlt. exact (WF c0 p Hp).
  - left. exists (Exit c0). split; [discriminate|]. cbn [step]. unfold exit_comp.
    apply Nat.ltb_lt in Hc0. rewrite Hc0. unfold exit_enabled. rewrite Ee. cbn.
    destruct (finish_called (dy s c0)); [destruct (pending (dy s c0))|]; discriminate.
  - left. exists (PM c0). split; [discriminate|]. cbn [step]. unfold deliver_pm.
    destruct (q_pm _ P c0 r Ee Hctl) as [H Fc]. apply memn_In in H. rewrite H. cbn [negb dy]. rewrite Fc, Ee.
    destruct (restart_decision W c0 (dy s c0) r); discriminate.
Qed.
End Progress.
