(* C02 — no ordering gets stuck: in every reachable state in which the stage loop is running and some
   component of the stage is not yet recorded done, either a notification / task exit is deliverable
   or the next scheduler pass changes the state. *)
From Coq Require Import List Bool Arith Lia.
Import ListNotations.
Require Import V.Restart.Model V.Sched.Model V.Sched.Proofs V.Stage.Spec.

Section Progress.
Variable W : list comp.
Variable outcome : nat -> nat -> reason.

Record pinv (s : state) : Prop := {
  q_fin : forall c, is_fin (pstate s c) = true -> In c (finq s) \/ In c (done s);
  q_pm : forall c r, e (dy s c) = Exited r -> ctl (dy s c) = None -> In c (pmq s) /\ finish_called (dy s c) = false;
  q_pend : forall c, finish_called (dy s c) = true -> ctl (dy s c) = None ->
           kill_req (dy s c) = true /\ (exists f, pending (dy s c) = Some f);
  q_run : forall c, 0 < runs (dy s c) -> e (dy s c) <> Idle;
  q_stop : stop s = true -> forall c, c < ncomp W -> staged (dy s c) = true;
  q_range : forall c, staged (dy s c) = true -> c < ncomp W
}.

Lemma pinv_state0 : pinv state0.
Proof. constructor; cbn; intros; try discriminate; try lia; auto. Qed.

(* ---- generic update of one component plus queue changes *)
Lemma pinv_upd s c d' (s' : state) :
  pinv s -> (forall x, dy s' x = upd (dy s) c d' x) -> stop s' = stop s ->
  (forall x, In x (done s) -> In x (done s')) ->
  (forall x, x <> c -> In x (finq s) -> In x (finq s') \/ In x (done s')) ->
  (forall x, x <> c -> In x (pmq s) -> In x (pmq s')) ->
  (is_fin (cstate d') = true -> In c (finq s') \/ In c (done s')) ->
  (forall r, e d' = Exited r -> ctl d' = None -> In c (pmq s') /\ finish_called d' = false) ->
  (finish_called d' = true -> ctl d' = None -> kill_req d' = true /\ exists f, pending d' = Some f) ->
  (0 < runs d' -> e d' <> Idle) ->
  (staged (dy s c) = true -> staged d' = true) ->
  (staged d' = true -> c < ncomp W) ->
  pinv s'.
Proof.
  intros P Hd Hs Hdn Hfq Hpq A1 A2 A3 A4 A5 A6.
  constructor.
  - intros x Hx. unfold pstate in Hx. rewrite (Hd x) in Hx. unfold upd in Hx. destruct (Nat.eqb x c) eqn:E.
    + apply Nat.eqb_eq in E. subst x. exact (A1 Hx).
    + apply Nat.eqb_neq in E. destruct (q_fin _ P x Hx) as [H|H]; [exact (Hfq x E H)|right; exact (Hdn x H)].
  - intros x r. rewrite (Hd x). unfold upd. destruct (Nat.eqb x c) eqn:E.
    + apply Nat.eqb_eq in E. subst x. exact (A2 r).
    + apply Nat.eqb_neq in E. intros H1 H2. destruct (q_pm _ P x r H1 H2) as [H3 H4]. split; [exact (Hpq x E H3)|exact H4].
  - intros x. rewrite (Hd x). unfold upd. destruct (Nat.eqb x c) eqn:E; [apply Nat.eqb_eq in E; subst x; exact A3|exact (q_pend _ P x)].
  - intros x. rewrite (Hd x). unfold upd. destruct (Nat.eqb x c) eqn:E; [apply Nat.eqb_eq in E; subst x; exact A4|exact (q_run _ P x)].
  - rewrite Hs. intros St x Hx. rewrite (Hd x). unfold upd. destruct (Nat.eqb x c) eqn:E.
    + apply Nat.eqb_eq in E. subst x. exact (A5 (q_stop _ P St c Hx)).
    + exact (q_stop _ P St x Hx).
  - intros x. rewrite (Hd x). unfold upd. destruct (Nat.eqb x c) eqn:E; [apply Nat.eqb_eq in E; subst x; exact A6|exact (q_range _ P x)].
Qed.

Lemma finish_staged_same s c f : staged (dy (finish s c f) c) = staged (dy s c).
Proof.
  unfold finish. destruct (negb _ && negb _); cbn; rewrite upd_same; destruct (d_finish_frame f (dy s c)) as [A _]; exact A.
Qed.

Lemma cstate_fin_ctl d : is_fin (cstate d) = true -> exists f, ctl d = Some f.
Proof. apply is_fin_ctl. Qed.

Lemma finish_P s c f : Inv s -> pinv s -> ctl (dy s c) = None -> staged (dy s c) = true -> pinv (finish s c f).
Proof.
  intros [I1 _] P Hc Hst. pose proof (I1 c) as L.
  assert (Hd : forall x, dy (finish s c f) x = upd (dy s) c (d_finish f (dy s c)) x) by (intros x; unfold finish; destruct (negb _ && negb _); reflexivity).
  assert (Core : core (finish s c f) = core s) by (unfold finish; destruct (negb _ && negb _); reflexivity).
  unfold core in Core.
  assert (NF : is_fin (cstate (dy s c)) = false).
  { destruct (is_fin (cstate (dy s c))) eqn:E; [|reflexivity]. apply is_fin_ctl in E as [g Hg]. congruence. }
  apply (pinv_upd s c (d_finish f (dy s c)) (finish s c f) P Hd).
  - congruence.
  - intros x Hx. congruence.
  - intros x _ Hx. left. unfold finish. destruct (negb _ && negb _); cbn; [apply in_or_app; left|]; exact Hx.
  - intros x _ Hx. congruence.
  - unfold finish, d_finish. rewrite NF. destruct (is_run (cstate (dy s c))) eqn:R; cbn.
    + unfold cstate. cbn. rewrite Hc. destruct (e (dy s c)); cbn; discriminate.
    + intros _. left. apply in_or_app. right. left. reflexivity.
  - unfold d_finish. destruct (is_run (cstate (dy s c))) eqn:R; cbn.
    + intros r Hr _. apply is_run_spec in R as [_ R]. exfalso. exact (R r Hr).
    + intros r _ H. discriminate.
  - unfold d_finish. destruct (is_run (cstate (dy s c))) eqn:R; cbn.
    + intros _ _. split; [reflexivity|eauto].
    + intros _ H. discriminate.
  - destruct (d_finish_frame f (dy s c)) as [_ [A [_ [B _]]]]. rewrite A, B. exact (q_run _ P c).
  - destruct (d_finish_frame f (dy s c)) as [A _]. rewrite A. auto.
  - destruct (d_finish_frame f (dy s c)) as [A _]. rewrite A. exact (q_range _ P c).
Qed.

Lemma fake_finish_P s c f : Inv s -> pinv s -> staged (dy s c) = false -> c < ncomp W -> pinv (fake_finish s c f).
Proof.
  intros [I1 _] P Us Hc. destruct (l_unstaged _ (I1 c) Us) as [He [Hctl [Hr Hf]]].
  assert (R : is_run (cstate (d_stage (dy s c))) = true) by (unfold cstate, d_stage; cbn; rewrite Hctl, He; reflexivity).
  assert (E : fake_finish s c f = set_dy (set_dy s c (d_stage (dy s c))) c (d_finish f (d_stage (dy s c)))).
  { unfold fake_finish, finish. cbn. rewrite upd_same, R. cbn. reflexivity. }
  assert (Dd : d_finish f (d_stage (dy s c)) =
     {| staged := true; runs := runs (dy s c); finish_called := true; pending := Some f; kill_req := true;
        e := e (dy s c); ctl := ctl (dy s c); restarts := restarts (dy s c); resub := resub (dy s c); shut := shut (dy s c) |}).
  { unfold d_finish. rewrite R. reflexivity. }
  apply (pinv_upd s c (d_finish f (d_stage (dy s c))) (fake_finish s c f) P).
  - intros x. rewrite E. cbn. unfold upd. destruct (Nat.eqb x c); reflexivity.
  - rewrite E. reflexivity.
  - intros x Hx. rewrite E. exact Hx.
  - intros x _ Hx. left. rewrite E. exact Hx.
  - intros x _ Hx. rewrite E. exact Hx.
  - rewrite Dd. unfold cstate. cbn. rewrite Hctl, He. discriminate.
  - rewrite Dd. cbn. rewrite He. discriminate.
  - rewrite Dd. cbn. intros _ _. split; [reflexivity|eauto].
  - rewrite Dd. cbn. rewrite Hr. lia.
  - rewrite Dd. cbn. reflexivity.
  - intros _. exact Hc.
Qed.

Lemma stop_components_P : forall cs s,
  Inv s -> pinv s -> (forall c, In c cs -> staged (dy s c) = true) -> pinv (stop_components s cs).
Proof.
  induction cs as [|c cs IH]; intros s I P Hs; cbn [stop_components fold_left]; [exact P|].
  fold (stop_components (if alive (dy s c) && negb (finish_called (dy s c)) then finish s c Shutdown else s) cs).
  destruct (alive (dy s c) && negb (finish_called (dy s c))) eqn:G.
  - apply andb_true_iff in G as [G1 _].
    destruct (finish_ok s c Shutdown I (alive_ctl _ G1) (Hs c (or_introl eq_refl))) as [I' [X' _]].
    apply IH.
    + exact I'.
    + apply finish_P; [exact I|exact P|exact (alive_ctl _ G1)|exact (Hs c (or_introl eq_refl))].
    + intros x Hx. apply (x_staged _ _ X'). apply Hs. right. exact Hx.
  - apply IH; [exact I|exact P|]. intros x Hx. apply Hs. right. exact Hx.
Qed.

Lemma kill_fold_P : forall l s,
  Inv s -> pinv s -> (forall c, In c l -> c < ncomp W) ->
  pinv (fold_left (fun s c => if negb (finish_called (dy s c)) && alive (dy s c)
                        then (if staged (dy s c) then finish s c Shutdown else fake_finish s c Shutdown)
                        else s) l s).
Proof.
  induction l as [|c l IH]; intros s I P Hl; cbn [fold_left]; [exact P|].
  assert (Hl' : forall x, In x l -> x < ncomp W) by (intros x Hx; apply Hl; right; exact Hx).
  destruct (negb (finish_called (dy s c)) && alive (dy s c)) eqn:G; [|apply IH; [exact I|exact P|exact Hl']].
  apply andb_true_iff in G as [_ G2]. destruct (staged (dy s c)) eqn:St.
  - destruct (finish_ok s c Shutdown I (alive_ctl _ G2) St) as [I' _]. apply IH; [exact I'| |exact Hl'].
    apply finish_P; [exact I|exact P|exact (alive_ctl _ G2)|exact St].
  - destruct (fake_finish_ok s c Shutdown I St) as [I' _]. apply IH; [exact I'| |exact Hl'].
    apply fake_finish_P; [exact I|exact P|exact St|]. apply Hl. left. reflexivity.
Qed.

(* after kill_all every component is staged *)
Lemma kill_fold_staged : forall l s,
  Inv s ->
  let s' := fold_left (fun s c => if negb (finish_called (dy s c)) && alive (dy s c)
                        then (if staged (dy s c) then finish s c Shutdown else fake_finish s c Shutdown)
                        else s) l s in
  forall c, In c l -> staged (dy s' c) = true.
Proof.
  induction l as [|c l IH]; intros s I; cbn [fold_left]; [intros c []|].
  destruct (kill_fold_ok l (if negb (finish_called (dy s c)) && alive (dy s c)
      then (if staged (dy s c) then finish s c Shutdown else fake_finish s c Shutdown) else s)) as [_ [X _]].
  { destruct (negb (finish_called (dy s c)) && alive (dy s c)) eqn:G; [|exact I].
    apply andb_true_iff in G as [_ G2]. destruct (staged (dy s c)) eqn:St;
      [exact (proj1 (finish_ok s c Shutdown I (alive_ctl _ G2) St))|exact (proj1 (fake_finish_ok s c Shutdown I St))]. }
  intros x [<-|Hx].
  - apply (x_staged _ _ X). destruct I as [I1 _].
    destruct (negb (finish_called (dy s c)) && alive (dy s c)) eqn:G.
    + apply andb_true_iff in G as [_ G2]. destruct (staged (dy s c)) eqn:St.
      * rewrite finish_staged_same. exact St.
      * unfold fake_finish. rewrite finish_staged_same. cbn. rewrite upd_same. reflexivity.
    + destruct (staged (dy s c)) eqn:St; [reflexivity|]. destruct (l_unstaged _ (I1 c) St) as [_ [Hc [_ Hf]]].
      rewrite Hf in G. cbn in G. unfold alive, cstate in G. rewrite Hc in G. destruct (e (dy s c)); discriminate.
  - apply IH; [|exact Hx].
    destruct (negb (finish_called (dy s c)) && alive (dy s c)) eqn:G; [|exact I].
    apply andb_true_iff in G as [_ G2]. destruct (staged (dy s c)) eqn:St;
      [exact (proj1 (finish_ok s c Shutdown I (alive_ctl _ G2) St))|exact (proj1 (fake_finish_ok s c Shutdown I St))].
Qed.
End Progress.
