From Coq Require Import List Bool Arith Lia.
Import ListNotations.
Require Import V.Restart.Model V.Restart.Proofs V.Sched.Model V.Sched.Proofs V.Stage.Spec.

Lemma existsb_ext_in' {A} (f g : A -> bool) l : (forall x, In x l -> f x = g x) -> existsb f l = existsb g l.
Proof.
  induction l as [|x l IH]; intros H; cbn; [reflexivity|].
  rewrite (H x (or_introl eq_refl)), IH; [reflexivity|]. intros y Hy. apply H. right. exact Hy.
Qed.
Lemma forallb_ext_in' {A} (f g : A -> bool) l : (forall x, In x l -> f x = g x) -> forallb f l = forallb g l.
Proof.
  induction l as [|x l IH]; intros H; cbn; [reflexivity|].
  rewrite (H x (or_introl eq_refl)), IH; [reflexivity|]. intros y Hy. apply H. right. exact Hy.
Qed.

Lemma final_eqb_eq f g : final_eqb f g = true <-> f = g.
Proof. destruct f, g; cbn; split; intros H; try reflexivity; try discriminate. Qed.

Section Determinism.
Variable W : list comp.
Variable outcome : nat -> nat -> reason.
Hypothesis WF : wf W.

Notation spec := (spec W outcome).
Notation rule := (rule W).

Lemma rule_ext sigma tau c :
  (forall p, In p (preds (cmp W c)) -> sigma p = tau p) -> rule sigma c = rule tau c.
Proof.
  intros H. unfold Spec.rule.
  assert (E : forall l (g : final), (forall p, In p l -> In p (preds (cmp W c))) ->
              existsb (fun p => final_is (sigma p) g) l = existsb (fun p => final_is (tau p) g) l).
  { intros l g Hl. apply existsb_ext_in'. intros p Hp. rewrite (H p (Hl p Hp)). reflexivity. }
  assert (F : forall l (g : final), (forall p, In p l -> In p (preds (cmp W c))) ->
              forallb (fun p => final_is (sigma p) g) l = forallb (fun p => final_is (tau p) g) l).
  { intros l g Hl. apply forallb_ext_in'. intros p Hp. rewrite (H p (Hl p Hp)). reflexivity. }
  rewrite (E _ Failed (fun p Hp => Hp)), (E _ Shutdown (fun p Hp => Hp)).
  rewrite (E (filter _ _) Shutdown), (F (filter _ _) Shutdown); [reflexivity| |];
    intros p Hp; apply filter_In in Hp; exact (proj1 Hp).
Qed.

Lemma spec_f_eq : forall c k, c < k ->
  spec_f W outcome k c = if rule (spec_f W outcome c) c then Shutdown else walk0 W outcome c.
Proof.
  induction c as [c IH] using lt_wf_ind. intros k Hk. destruct k as [|k]; [lia|]. cbn [spec_f].
  assert (E : rule (spec_f W outcome k) c = rule (spec_f W outcome c) c).
  { apply rule_ext. intros p Hp. pose proof (WF c p Hp) as Hlt.
    rewrite (IH p Hlt k ltac:(lia)), (IH p Hlt c Hlt). reflexivity. }
  rewrite E. reflexivity.
Qed.

Lemma spec_eq c : spec c = if rule spec c then Shutdown else walk0 W outcome c.
Proof.
  unfold Spec.spec at 1. rewrite (spec_f_eq c (S c) ltac:(lia)).
  assert (E : rule (spec_f W outcome c) c = rule spec c).
  { apply rule_ext. intros p Hp. pose proof (WF c p Hp) as Hlt. unfold Spec.spec.
    rewrite (spec_f_eq p c Hlt), (spec_f_eq p (S p) ltac:(lia)). reflexivity. }
  rewrite E. reflexivity.
Qed.

(* the scheduler's shutdown test on actual states agrees with the rule on the specification, when every
   producer is either final with its specified state or (a running subject) specified to finish *)
Lemma rule_agree s c :
  (forall p, In p (preds (cmp W c)) ->
     is_failed (pstate s p) = final_is (spec p) Failed /\ is_shutdown (pstate s p) = final_is (spec p) Shutdown) ->
  shutdown_rule W s c = rule spec c.
Proof.
  intros H. unfold shutdown_rule, Spec.rule.
  assert (E1 : forall l, (forall p, In p l -> In p (preds (cmp W c))) ->
     existsb (fun p => is_failed (pstate s p)) l = existsb (fun p => final_is (spec p) Failed) l).
  { intros l Hl. apply existsb_ext_in'. intros p Hp. exact (proj1 (H p (Hl p Hp))). }
  assert (E2 : forall l, (forall p, In p l -> In p (preds (cmp W c))) ->
     existsb (fun p => is_shutdown (pstate s p)) l = existsb (fun p => final_is (spec p) Shutdown) l).
  { intros l Hl. apply existsb_ext_in'. intros p Hp. exact (proj2 (H p (Hl p Hp))). }
  assert (E3 : forall l, (forall p, In p l -> In p (preds (cmp W c))) ->
     forallb (fun p => is_shutdown (pstate s p)) l = forallb (fun p => final_is (spec p) Shutdown) l).
  { intros l Hl. apply forallb_ext_in'. intros p Hp. exact (proj2 (H p (Hl p Hp))). }
  rewrite (E1 _ (fun p Hp => Hp)), (E2 _ (fun p Hp => Hp)).
  rewrite (E2 (filter _ _)), (E3 (filter _ _)); [reflexivity| |];
    intros p Hp; apply filter_In in Hp; exact (proj1 Hp).
Qed.


(* ---- hypotheses of determinism *)
Hypothesis NoFail : forall c, spec c <> Failed.
(* a repeating component's same-stage producers simply finish (the complement is finding F2) *)
Hypothesis Subjects : forall c p, In p (preds (cmp W c)) -> is_subject W c p = true -> spec p = Finished.

Record jinv (s : state) : Prop := {
  j_ctl : forall c f, ctl (dy s c) = Some f -> f = spec c;
  j_pend : forall c f, pending (dy s c) = Some f -> f = spec c;
  j_rule : forall c, 0 < runs (dy s c) -> rule spec c = false;
  j_walk : forall c, 0 < runs (dy s c) -> finish_called (dy s c) = false ->
           Nat.pred (runs (dy s c)) = restarts (dy s c) + resub (dy s c) /\
           restarts (dy s c) <= max_r (cmp W c) /\ resub (dy s c) <= 5 /\
           walk W outcome c (fuel_of W c - Nat.pred (runs (dy s c))) (Nat.pred (runs (dy s c)))
                (restarts (dy s c), resub (dy s c)) = walk0 W outcome c;
  j_exit : forall c r, e (dy s c) = Exited r -> finish_called (dy s c) = false ->
           r = outcome c (Nat.pred (runs (dy s c)));
  j_shut : forall c, shut (dy s c) = true -> finish_called (dy s c) = true;
  j_fresh : forall c, runs (dy s c) = 0 -> restarts (dy s c) = 0 /\ resub (dy s c) = 0;
  j_stop : stop s = false
}.

Lemma jinv_state0 : jinv state0.
Proof. constructor; cbn; intros; try discriminate; try lia; auto. Qed.

(* a state whose components are those of s except c *)
Lemma jinv_upd s c d' (s' : state) :
  jinv s -> dy s' = upd (dy s) c d' -> stop s' = false ->
  (forall f, ctl d' = Some f -> f = spec c) ->
  (forall f, pending d' = Some f -> f = spec c) ->
  (0 < runs d' -> rule spec c = false) ->
  (0 < runs d' -> finish_called d' = false ->
     Nat.pred (runs d') = restarts d' + resub d' /\ restarts d' <= max_r (cmp W c) /\ resub d' <= 5 /\
     walk W outcome c (fuel_of W c - Nat.pred (runs d')) (Nat.pred (runs d')) (restarts d', resub d') = walk0 W outcome c) ->
  (forall r, e d' = Exited r -> finish_called d' = false -> r = outcome c (Nat.pred (runs d'))) ->
  (shut d' = true -> finish_called d' = true) ->
  (runs d' = 0 -> restarts d' = 0 /\ resub d' = 0) ->
  jinv s'.
Proof.
  intros J Hd Hs A1 A2 A3 A4 A5 A6 A7.
  constructor; try exact Hs; intros x; rewrite Hd; unfold upd; destruct (Nat.eqb x c) eqn:E;
    try (apply Nat.eqb_eq in E; subst x); auto; destruct J; auto.
Qed.

Lemma finish_J s c f : jinv s -> f = spec c -> jinv (finish s c f).
Proof.
  intros J Hf.
  assert (Hd : dy (finish s c f) = upd (dy s) c (d_finish f (dy s c))).
  { unfold finish. destruct (negb _ && negb _); reflexivity. }
  assert (Hs : stop (finish s c f) = false).
  { unfold finish. destruct (negb _ && negb _); cbn; exact (j_stop _ J). }
  destruct (is_run (cstate (dy s c))) eqn:R.
  - apply (jinv_upd s c (d_finish f (dy s c))); auto; unfold d_finish; rewrite R; cbn.
    + intros g H. exact (j_ctl _ J c g H).
    + intros g H. inversion H; subst. reflexivity.
    + exact (j_rule _ J c).
    + intros _ H. discriminate.
    + intros r _ H. discriminate.
    + intros _. reflexivity.
    + exact (j_fresh _ J c).
  - apply (jinv_upd s c (d_finish f (dy s c))); auto; unfold d_finish; rewrite R; cbn.
    + intros g H. inversion H; subst. reflexivity.
    + intros g H. exact (j_pend _ J c g H).
    + exact (j_rule _ J c).
    + intros _ H. discriminate.
    + intros r _ H. discriminate.
    + intros _. reflexivity.
    + exact (j_fresh _ J c).
Qed.

Lemma fake_finish_J s c f : jinv s -> f = spec c -> jinv (fake_finish s c f).
Proof.
  intros J Hf. unfold fake_finish. apply finish_J; [|exact Hf].
  apply (jinv_upd s c (d_stage (dy s c))); auto; try reflexivity; unfold d_stage; cbn.
  - exact (j_stop _ J).
  - exact (j_ctl _ J c).
  - exact (j_pend _ J c).
  - exact (j_rule _ J c).
  - exact (j_walk _ J c).
  - exact (j_exit _ J c).
  - exact (j_shut _ J c).
  - exact (j_fresh _ J c).
Qed.

Lemma pstate_of_ctl s p f : ctl (dy s p) = Some f ->
  is_failed (pstate s p) = final_is f Failed /\ is_shutdown (pstate s p) = final_is f Shutdown.
Proof. intros H. unfold pstate, cstate. rewrite H. destruct f; split; reflexivity. Qed.

Lemma pstate_of_none s p : ctl (dy s p) = None -> is_failed (pstate s p) = false /\ is_shutdown (pstate s p) = false.
Proof. intros H. unfold pstate, cstate. rewrite H. destruct (e (dy s p)); split; reflexivity. Qed.

Lemma deps_agree s c : Inv s -> jinv s -> deps_ok W true s c = true -> shutdown_rule W s c = rule spec c.
Proof.
  intros [I1 [I2 _]] J H. apply rule_agree. intros p Hp.
  unfold deps_ok in H. rewrite forallb_forall in H. specialize (H p Hp). apply orb_true_iff in H as [H|H].
  - apply memn_In in H. specialize (I2 p H). unfold pstate in I2. apply is_fin_ctl in I2 as [f Hf].
    rewrite <- (j_ctl _ J p f Hf). exact (pstate_of_ctl s p f Hf).
  - apply andb_true_iff in H as [H H3]. apply andb_true_iff in H as [H1 H2]. cbn in H3. apply negb_true_iff in H3.
    rewrite (Subjects c p Hp H1). cbn. apply pstate_of_none. apply linv_ctl_none_of_not_fc; [apply I1|exact H3].
Qed.

Definition ready_ok (ready : list nat) : Prop := forall c, In c ready -> rule spec c = false.

Lemma visit_J s si ready c :
  PassInv W s si ready -> jinv si -> ready_ok ready ->
  jinv (fst (sched_visit W true (si, ready) c)) /\ ready_ok (snd (sched_visit W true (si, ready) c)).
Proof.
  intros P J R. unfold sched_visit.
  destruct (memn c (done si) || is_fin (pstate si c) || staged (dy si c) || negb (deps_ok W true si c)) eqn:G;
    [split; assumption|].
  apply orb_false_iff in G as [G G4]. apply negb_false_iff in G4.
  pose proof (deps_agree si c (p_inv _ _ _ _ P) J G4) as A.
  destruct (shutdown_rule W si c) eqn:Sr; cbn [fst snd].
  - split; [|exact R]. apply fake_finish_J; [exact J|]. rewrite spec_eq, <- A. reflexivity.
  - split; [exact J|]. intros x Hx. apply in_app_or in Hx as [Hx|[<-|[]]]; [exact (R x Hx)|]. rewrite <- A. reflexivity.
Qed.

Lemma visits_J s : forall l si ready,
  PassInv W s si ready -> NoDup l -> (forall c, In c ready -> ~ In c l) -> jinv si -> ready_ok ready ->
  jinv (fst (fold_left (sched_visit W true) l (si, ready))) /\ ready_ok (snd (fold_left (sched_visit W true) l (si, ready))).
Proof.
  induction l as [|c l IH]; intros si ready P Hl Hr J R; cbn [fold_left]; [split; assumption|].
  inversion Hl as [|? ? Hc Hl']; subst.
  assert (Hn : ~ In c ready) by (intros H; apply (Hr c H); left; reflexivity).
  pose proof (visit_ok W s si ready c P Hn) as V. pose proof (visit_J s si ready c P J R) as VJ.
  destruct (sched_visit W true (si, ready) c) as [si' ready'] eqn:E. destruct V as [P' Sub]. destruct VJ as [J' R'].
  apply IH; auto.
  intros x Hx Hi. destruct (Sub x Hx) as [H|H]; [apply (Hr x H); right; exact Hi|subst x; contradiction].
Qed.

Lemma launch_eq d : linv d -> staged d = false ->
  d_launch (d_stage d) = {| staged := true; runs := S (runs d); finish_called := finish_called d; pending := pending d;
     kill_req := kill_req d; e := Active; ctl := ctl d; restarts := restarts d; resub := resub d; shut := shut d |}.
Proof.
  intros L Us. destruct (l_unstaged d L Us) as [He [Hc _]].
  unfold d_launch, d_stage, cstate. cbn. rewrite Hc, He. cbn. reflexivity.
Qed.

Lemma fuel_pos c : 0 < fuel_of W c.
Proof. unfold fuel_of. lia. Qed.

Lemma sched_pass_J s : Inv s -> jinv s -> jinv (sched_pass W true s).
Proof.
  intros I J. unfold sched_pass.
  pose proof (visits_ok W s (nodes W) s [] (PassInv_init W s I) (seq_NoDup _ _) (fun c H => match H with end)) as P.
  pose proof (visits_J s (nodes W) s [] (PassInv_init W s I) (seq_NoDup _ _) (fun c H => match H with end) J
                (fun c H => match H with end)) as [J1 R1].
  destruct (fold_left (sched_visit W true) (nodes W) (s, [])) as [s1 ready] eqn:E. cbn [fst snd] in *.
  destruct (stop s1); [exact J1|].
  destruct (submit_spec s1 ready (p_nodup _ _ _ _ P)) as [D [C F]].
  pose proof (p_inv _ _ _ _ P) as [I1 _].
  assert (Dr : forall c, In c ready -> dy (submit s1 ready) c =
            {| staged := true; runs := S (runs (dy s1 c)); finish_called := finish_called (dy s1 c);
               pending := pending (dy s1 c); kill_req := kill_req (dy s1 c); e := Active; ctl := ctl (dy s1 c);
               restarts := restarts (dy s1 c); resub := resub (dy s1 c); shut := shut (dy s1 c) |} /\
            runs (dy s1 c) = 0).
  { intros c Hc. rewrite D. apply memn_In in Hc as M. rewrite M. destruct (p_ready _ _ _ _ P c Hc) as [Us _].
    split; [apply launch_eq; [apply I1|exact Us]|]. destruct (l_unstaged _ (I1 c) Us) as [_ [_ [Hr _]]]. exact Hr. }
  assert (Dn : forall c, ~ In c ready -> dy (submit s1 ready) c = dy s1 c).
  { intros c Hc. rewrite D. destruct (memn c ready) eqn:M; [apply memn_In in M; contradiction|reflexivity]. }
  constructor.
  - intros c f. destruct (in_dec Nat.eq_dec c ready) as [Hc|Hc];
      [destruct (Dr c Hc) as [-> _]; cbn; exact (j_ctl _ J1 c f)|rewrite (Dn c Hc); exact (j_ctl _ J1 c f)].
  - intros c f. destruct (in_dec Nat.eq_dec c ready) as [Hc|Hc];
      [destruct (Dr c Hc) as [-> _]; cbn; exact (j_pend _ J1 c f)|rewrite (Dn c Hc); exact (j_pend _ J1 c f)].
  - intros c. destruct (in_dec Nat.eq_dec c ready) as [Hc|Hc];
      [intros _; exact (R1 c Hc)|rewrite (Dn c Hc); exact (j_rule _ J1 c)].
  - intros c. destruct (in_dec Nat.eq_dec c ready) as [Hc|Hc]; [|rewrite (Dn c Hc); exact (j_walk _ J1 c)].
    destruct (Dr c Hc) as [-> Hr]. cbn. destruct (j_fresh _ J1 c Hr) as [F1 F2]. rewrite Hr, F1, F2. cbn.
    intros _ _. rewrite Nat.sub_0_r. repeat split; lia.
  - intros c r. destruct (in_dec Nat.eq_dec c ready) as [Hc|Hc];
      [destruct (Dr c Hc) as [-> _]; cbn; discriminate|rewrite (Dn c Hc); exact (j_exit _ J1 c r)].
  - intros c. destruct (in_dec Nat.eq_dec c ready) as [Hc|Hc];
      [destruct (Dr c Hc) as [-> _]; cbn; exact (j_shut _ J1 c)|rewrite (Dn c Hc); exact (j_shut _ J1 c)].
  - intros c. destruct (in_dec Nat.eq_dec c ready) as [Hc|Hc];
      [destruct (Dr c Hc) as [-> _]; cbn; discriminate|rewrite (Dn c Hc); exact (j_fresh _ J1 c)].
  - unfold core in C. pose proof (j_stop _ J1). congruence.
Qed.

Lemma jinv_same s s' : dy s' = dy s -> stop s' = stop s -> jinv s -> jinv s'.
Proof. intros Hd Hs J. destruct J. constructor; rewrite ?Hd, ?Hs; auto. Qed.

Lemma restart_decision_decide c d r : shut d = false ->
  restart_decision W c d r =
  match decide W c (restarts d, resub d) r with
  | Some (rs', rb') => Some {| staged := staged d; runs := S (runs d); finish_called := finish_called d;
                              pending := pending d; kill_req := kill_req d; e := Active; ctl := ctl d;
                              restarts := rs'; resub := rb'; shut := shut d |}
  | None => None
  end.
Proof.
  intros Hs. unfold restart_decision, try_restart, decide. rewrite Hs.
  destruct (reason_eqb r SubmissionFailed) eqn:E1.
  - destruct (resub d <? 5); [|reflexivity]. destruct (max_r (cmp W c) <? S (restarts d)); reflexivity.
  - destruct (mem r (restart_on (cmp W c))); [|reflexivity]. destruct (max_r (cmp W c) <? S (restarts d)); reflexivity.
Qed.

Lemma decide_bounds c rs rb r rs' rb' :
  decide W c (rs, rb) r = Some (rs', rb') -> rs <= max_r (cmp W c) -> rb <= 5 ->
  rs' + rb' = S (rs + rb) /\ rs' <= max_r (cmp W c) /\ rb' <= 5.
Proof.
  unfold decide. intros H H1 H2.
  destruct (reason_eqb r SubmissionFailed) eqn:E1.
  - destruct (rb <? 5) eqn:E2; [|discriminate]. destruct (max_r (cmp W c) <? S rs) eqn:E3; [discriminate|].
    inversion H; subst. apply Nat.ltb_lt in E2. lia.
  - destruct (mem r (restart_on (cmp W c))); [|discriminate]. destruct (max_r (cmp W c) <? S rs) eqn:E3; [discriminate|].
    inversion H; subst. apply Nat.ltb_ge in E3. lia.
Qed.

Lemma exit_J s c s' : Inv s -> jinv s -> exit_comp W outcome s c = Some s' -> jinv s'.
Proof.
  intros [I1 _] J H. unfold exit_comp in H.
  destruct (negb (c <? ncomp W) || negb (exit_enabled (dy s c))) eqn:G; [discriminate|].
  apply orb_false_iff in G as [_ G]. apply negb_false_iff in G. pose proof (I1 c) as L.
  destruct (finish_called (dy s c)) eqn:Fc.
  - match type of H with context [set_dy s c ?D] => set (d' := D) in * end.
    assert (J' : jinv (set_dy s c d')).
    { apply (jinv_upd s c d' (set_dy s c d') J eq_refl (j_stop _ J)); unfold d'; cbn.
      - intros f Hf. exact (j_pend _ J c f Hf).
      - intros f Hf. exact (j_pend _ J c f Hf).
      - exact (j_rule _ J c).
      - intros _ Hx. discriminate.
      - intros r _ Hx. discriminate.
      - intros _. reflexivity.
      - exact (j_fresh _ J c). }
    destruct (pending (dy s c)); inversion H; subst s'; [apply (jinv_same (set_dy s c d')); auto|exact J'].
  - match type of H with context [set_dy s c ?D] => set (d' := D) in * end.
    assert (Act : e (dy s c) = Active).
    { unfold exit_enabled in G. destruct (e (dy s c)) eqn:E; [|reflexivity|discriminate].
      apply (l_kill _ L) in G. congruence. }
    assert (J' : jinv (set_dy s c d')).
    { apply (jinv_upd s c d' (set_dy s c d') J eq_refl (j_stop _ J)); unfold d'; cbn.
      - exact (j_ctl _ J c).
      - exact (j_pend _ J c).
      - exact (j_rule _ J c).
      - intros H1 _. exact (j_walk _ J c H1 Fc).
      - intros r Hr _. rewrite Act in Hr. inversion Hr. reflexivity.
      - intros Hx. pose proof (j_shut _ J c Hx). congruence.
      - exact (j_fresh _ J c). }
    inversion H; subst s'. apply (jinv_same (set_dy s c d')); auto.
Qed.

Lemma pm_J s c s' : Inv s -> jinv s -> deliver_pm W s c = Some s' -> jinv s'.
Proof.
  intros I J H. unfold deliver_pm in H. destruct (negb (memn c (pmq s))); [discriminate|].
  match type of H with context [dy ?S0 c] => set (s0 := S0) in * end.
  assert (J0 : jinv s0) by (apply (jinv_same s); auto).
  assert (I0 : Inv s0) by (apply (Inv_sub s); auto).
  assert (Ds : dy s0 = dy s) by reflexivity. clearbody s0.
  pose proof I0 as [I1 _]. pose proof (I1 c) as L.
  destruct (finish_called (dy s0 c)) eqn:Fc; [inversion H; subst; exact J0|].
  destruct (e (dy s0 c)) as [| |r] eqn:Ee; try (inversion H; subst; exact J0).
  assert (Hrun : 0 < runs (dy s0 c)) by exact (l_exited _ L r Ee Fc).
  assert (Hshut : shut (dy s0 c) = false).
  { destruct (shut (dy s0 c)) eqn:Sh; [|reflexivity]. pose proof (j_shut _ J0 c Sh). congruence. }
  destruct (j_walk _ J0 c Hrun Fc) as [Wn [Wr [Wb Ww]]].
  pose proof (j_exit _ J0 c r Ee Fc) as Hr.
  set (n := Nat.pred (runs (dy s0 c))) in *.
  assert (Fu : fuel_of W c - n = S (fuel_of W c - S n)) by (unfold fuel_of; lia).
  rewrite (restart_decision_decide c _ r Hshut) in H.
  rewrite Fu in Ww. cbn [walk] in Ww. rewrite <- Hr in Ww.
  destruct (decide W c (restarts (dy s0 c), resub (dy s0 c)) r) as [[rs' rb']|] eqn:Dc.
  - destruct (decide_bounds c _ _ r rs' rb' Dc Wr Wb) as [B1 [B2 B3]].
    inversion H; subst s'.
    match goal with |- jinv (set_dy s0 c ?D) => set (d' := D) end.
    apply (jinv_upd s0 c d' (set_dy s0 c d') J0 eq_refl (j_stop _ J0)); unfold d'; cbn.
    + exact (j_ctl _ J0 c).
    + exact (j_pend _ J0 c).
    + intros _. exact (j_rule _ J0 c Hrun).
    + intros _ _. replace (runs (dy s0 c)) with (S n) by (unfold n; lia). repeat split; try lia. exact Ww.
    + intros r0 Hx. discriminate.
    + intros Hx. congruence.
    + intros Hx. discriminate.
  - inversion H; subst s'. apply finish_J; [exact J0|].
    rewrite spec_eq, (j_rule _ J0 c Hrun). rewrite <- Ww. reflexivity.
Qed.

Lemma fin_J s c s' : Inv s -> jinv s -> deliver_fin W s c = Some s' -> jinv s'.
Proof.
  intros I J H. unfold deliver_fin in H. destruct (negb (memn c (finq s))); [discriminate|].
  match type of H with context [is_failed (pstate ?S0 c)] => set (s0 := S0) in * end.
  assert (NF : is_failed (pstate s0 c) = false).
  { destruct (is_failed (pstate s0 c)) eqn:E; [|reflexivity]. exfalso.
    unfold pstate, cstate in E. change (dy s0 c) with (dy s c) in E.
    destruct (ctl (dy s c)) as [f|] eqn:Hc; [|destruct (e (dy s c)); discriminate].
    destruct f; try discriminate. apply (NoFail c). symmetry. exact (j_ctl _ J c Failed Hc). }
  rewrite NF in H. inversion H; subst s'. apply (jinv_same s); auto.
Qed.

Lemma stop_components_noop : forall cs s,
  (forall c, In c cs -> is_fin (pstate s c) = true) -> stop_components s cs = s.
Proof.
  induction cs as [|c cs IH]; intros s H; cbn [stop_components fold_left]; [reflexivity|].
  fold (stop_components (if alive (dy s c) && negb (finish_called (dy s c)) then finish s c Shutdown else s) cs).
  assert (A : alive (dy s c) = false).
  { unfold alive. specialize (H c (or_introl eq_refl)). unfold pstate in H. rewrite H. reflexivity. }
  rewrite A. cbn. apply IH. intros x Hx. apply H. right. exact Hx.
Qed.

Lemma tick_J s s' : Inv s -> jinv s -> tick W true s = Some s' -> jinv s'.
Proof.
  intros I J H. unfold tick in H. destruct (cur s) as [i|]; [|discriminate]. destruct (running s); [|discriminate].
  inversion H; subst s'. destruct (stage_done W s i) eqn:Sd; [|exact (sched_pass_J s I J)].
  unfold end_stage. rewrite stop_components_noop; [apply (jinv_same s); auto|].
  intros c Hc. unfold stage_done in Sd. rewrite forallb_forall in Sd. specialize (Sd c Hc). apply memn_In in Sd.
  destruct I as [_ [I2 _]]. exact (I2 c Sd).
Qed.

Lemma start_J s s' : Inv s -> jinv s -> start_stage W true s = Some s' -> jinv s'.
Proof.
  intros I J H. unfold start_stage in H. destruct (running s); [discriminate|].
  match type of H with (if ?b then _ else _) = _ => destruct b; [|discriminate] end.
  match type of H with Some (sched_pass W true ?S0) = _ => set (s0 := S0) in * end.
  assert (I0 : Inv s0) by (apply (Inv_sub s); auto).
  assert (J0 : jinv s0).
  { destruct J. constructor; auto. }
  inversion H; subst s'. exact (sched_pass_J s0 I0 J0).
Qed.

Lemma step_J s ev s' : Inv s -> jinv s -> step W true outcome s ev = Some s' -> jinv s'.
Proof.
  intros I J H. destruct ev as [| |c|c|c]; cbn [step] in H.
  - exact (start_J s s' I J H).
  - exact (tick_J s s' I J H).
  - exact (exit_J s c s' I J H).
  - exact (pm_J s c s' I J H).
  - exact (fin_J s c s' I J H).
Qed.

Lemma run_J : forall evs s s', Inv s -> jinv s -> run W true outcome s evs = Some s' -> jinv s'.
Proof.
  induction evs as [|ev evs IH]; intros s s' I J H; cbn [run] in H.
  - inversion H; subst. exact J.
  - destruct (step W true outcome s ev) as [s1|] eqn:E; [|discriminate].
    destruct (step_ok W outcome s ev s1 I E) as [I1 _].
    exact (IH s1 s' I1 (step_J s ev s1 I J E) H).
Qed.
End Determinism.

(* ------------------------------------------------------------------ end of a stage *)
Section StageEnd.
Variable W : list comp.
Variable outcome : nat -> nat -> reason.

Lemma tick_end s s' i :
  Inv s -> cur s = Some i -> running s = true -> tick W true s = Some s' -> running s' = false ->
  stage_done W s i = true /\ s' = end_stage W s i /\ stop_components s (stage_nodes W i) = s.
Proof.
  intros I Hc Hr H Hr'. unfold tick in H. rewrite Hc, Hr in H. inversion H; subst s'; clear H.
  destruct (stage_done W s i) eqn:Sd.
  - split; [reflexivity|split; [reflexivity|]]. apply stop_components_noop.
    intros c Hx. unfold stage_done in Sd. rewrite forallb_forall in Sd. specialize (Sd c Hx). apply memn_In in Sd.
    destruct I as [_ [I2 _]]. exact (I2 c Sd).
  - exfalso. destruct (sched_pass_ok W s I) as [_ [_ [C _]]]. unfold core in C. congruence.
Qed.

Lemma stage_end_all_final s s' i :
  Inv s -> cur s = Some i -> running s = true -> tick W true s = Some s' -> running s' = false ->
  (forall c, In c (stage_nodes W i) -> In c (done s') /\ is_fin (pstate s' c) = true) /\
  (verdict s' = Some VFailed <-> exists c, In c (stage_nodes W i) /\ is_failed (pstate s' c) = true) /\
  (verdict s' = Some VFailed -> start_stage W true s' = None).
Proof.
  intros I Hc Hr H Hr'. destruct (tick_end s s' i I Hc Hr H Hr') as [Sd [-> Noop]].
  unfold end_stage. rewrite Noop. cbn. split; [|split].
  - intros c Hx. unfold stage_done in Sd. rewrite forallb_forall in Sd. specialize (Sd c Hx). apply memn_In in Sd.
    split; [exact Sd|]. destruct I as [_ [I2 _]]. exact (I2 c Sd).
  - unfold compute_verdict. destruct (existsb (fun c => is_failed (pstate s c)) (stage_nodes W i)) eqn:E.
    + split; [intros _|reflexivity]. apply existsb_exists in E. exact E.
    + split.
      * intros Hv. exfalso. destruct (_ && _) in Hv; discriminate.
      * intros [c [Hx Hf]]. exfalso. assert (E' : existsb (fun c => is_failed (pstate s c)) (stage_nodes W i) = true)
          by (apply existsb_exists; eauto). unfold pstate in *. cbn in *. congruence.
  - intros Hv. unfold start_stage. cbn. rewrite Hc. cbn. inversion Hv as [Hv']. rewrite Hv'. reflexivity.
Qed.
End StageEnd.
