(* C02 — Stage outcome does not depend on the ordering of notifications.  Property theorems only.
   Orderings = all event lists (Start, Tick, Exit c, PM c, Fin c) accepted by the controller model. *)
From Coq Require Import List Bool Arith.
Import ListNotations.
Require Import V.Restart.Model V.Sched.Model V.Sched.Proofs V.Sched.Property V.Stage.Spec V.Stage.Proofs V.Stage.Progress V.Stage.Bound V.Stage.Failure.

(* If no task exits unrecoverably by the rules (no component's rule-given state is failed) and the
   same-stage producers of repeating components simply finish, then in EVERY reachable state of EVERY
   ordering, every component that has a final state has exactly its rule-given one — a function of the
   workflow and of the exit reasons only — and the controller never enters its error mode. *)
Theorem C02_determinism : forall W outcome evs s,
  wf W ->
  (forall c, spec W outcome c <> Failed) ->
  (forall c p, In p (preds (cmp W c)) -> is_subject W c p = true -> spec W outcome p = Finished) ->
  run W true outcome state0 evs = Some s ->
  (forall c f, ctl (dy s c) = Some f -> f = spec W outcome c) /\
  (forall c, In c (done s) -> cstate (dy s c) = CFin (spec W outcome c)) /\
  stop s = false.
Proof.
  intros W outcome evs s WF NF SB Hr.
  pose proof (run_J W outcome WF NF SB evs state0 s Inv_state0 (jinv_state0 W outcome) Hr) as J.
  destruct (run_ok W outcome evs state0 s Inv_state0 Hr) as [[_ [I2 _]] _].
  split; [exact (j_ctl _ _ _ J)|split; [|exact (j_stop _ _ _ J)]].
  intros c Hc. specialize (I2 c Hc). unfold pstate in I2. apply is_fin_ctl in I2 as [f Hf].
  unfold cstate. rewrite Hf. rewrite (j_ctl _ _ _ J c f Hf). reflexivity.
Qed.
Print Assumptions C02_determinism.

(* The rule-given state: shut down when the propagation rule fires on the producers' rule-given states
   (any failed producer; non-aggregating: any shut-down producer; aggregating: any shut-down
   non-replicated producer or all replicated producers shut down), otherwise the outcome of walking the
   task's executions with the restart policy (success -> finished, reason on the shutdown list -> shut down). *)
Theorem C02_spec_equation : forall W outcome c, wf W ->
  spec W outcome c = if rule W (spec W outcome) c then Shutdown else walk0 W outcome c.
Proof. intros W outcome c WF. exact (spec_eq W outcome WF c). Qed.
Print Assumptions C02_spec_equation.

(* Exactly one final state: when the stage loop ends every component of the stage is recorded done and
   final, and (C01_final_stable) a final state never changes afterwards, in any ordering. *)
Theorem C02_stage_end : forall W outcome evs s s' i,
  run W true outcome state0 evs = Some s -> cur s = Some i -> running s = true ->
  step W true outcome s Tick = Some s' -> running s' = false ->
  (forall c, In c (stage_nodes W i) -> In c (done s') /\ is_fin (pstate s' c) = true) /\
  (forall evs' s'' c f, run W true outcome s' evs' = Some s'' -> ctl (dy s' c) = Some f -> ctl (dy s'' c) = Some f).
Proof.
  intros W outcome evs s s' i Hr Hc Hrun Ht Hrun'.
  destruct (run_ok W outcome evs state0 s Inv_state0 Hr) as [I _].
  destruct (stage_end_all_final W s s' i I Hc Hrun Ht Hrun') as [A _]. split; [exact A|].
  intros evs' s'' c f Hr' Hf.
  assert (Hr2 : run W true outcome state0 (evs ++ [Tick]) = Some s').
  { clear - Hr Ht. revert Hr. generalize state0. induction evs as [|ev evs IH]; intros s0 Hr; cbn in *.
    - inversion Hr; subst. rewrite Ht. reflexivity.
    - destruct (step W true outcome s0 ev); [apply IH; exact Hr|discriminate]. }
  exact (C01_final_stable W outcome _ evs' s' s'' c f Hr2 Hr' Hf).
Qed.
Print Assumptions C02_stage_end.

(* If some component of the stage is failed when the stage loop ends, the stage is reported as failed
   (and conversely), and no further stage is started. *)
Theorem C02_failure_reported : forall W outcome evs s s' i,
  run W true outcome state0 evs = Some s -> cur s = Some i -> running s = true ->
  step W true outcome s Tick = Some s' -> running s' = false ->
  (verdict s' = Some VFailed <-> exists c, In c (stage_nodes W i) /\ is_failed (pstate s' c) = true) /\
  (verdict s' = Some VFailed -> step W true outcome s' Start = None).
Proof.
  intros W outcome evs s s' i Hr Hc Hrun Ht Hrun'.
  destruct (run_ok W outcome evs state0 s Inv_state0 Hr) as [I _].
  destruct (stage_end_all_final W s s' i I Hc Hrun Ht Hrun') as [_ [B C]]. split; [exact B|exact C].
Qed.
Print Assumptions C02_failure_reported.

(* No ordering gets stuck: in every reachable state in which the stage loop is running and some component
   of the stage is not yet recorded done, either some task exit or notification is deliverable, or the
   next scheduler pass makes progress (it stages — launches or shuts down — a component that was not
   staged).  Together with the fairness of timers / rx pools (assumed) the loop cannot wait forever. *)
Theorem C02_progress : forall W outcome evs s i,
  wf W -> run W true outcome state0 evs = Some s ->
  cur s = Some i -> running s = true -> stage_done W s i = false ->
  (exists ev, ev <> Tick /\ step W true outcome s ev <> None) \/
  (exists c, staged (dy s c) = false /\ staged (dy (sched_pass W true s) c) = true).
Proof.
  intros W outcome evs s i WF Hr Hc Hrun Hnd.
  destruct (run_ok W outcome evs state0 s Inv_state0 Hr) as [I _].
  pose proof (run_P W outcome evs state0 s Inv_state0 (pinv_state0 W) Hr) as P.
  exact (progress W outcome s i WF I P Hc Hrun Hnd).
Qed.
Print Assumptions C02_progress.

(* No ordering diverges: in ANY accepted event list, every component's task exits at most max_r + 7 times,
   its post-mortem notification is delivered at most as often, and its finished-notification at most
   once.  (Potential-function argument: each such event strictly decreases a per-component potential that
   no event increases.)  With C02_progress: as long as the stage is incomplete something other than an idle
   scheduler pass can happen, and only boundedly many such things can happen, so under fair delivery the
   stage loop terminates. *)
Theorem C02_bounded : forall W outcome evs s c,
  run W true outcome state0 evs = Some s ->
  total (is_exit c) evs <= max_r (cmp W c) + 7 /\
  total (is_pm c) evs <= max_r (cmp W c) + 7 /\
  total (is_fin_ev c) evs <= 1.
Proof. intros W outcome evs s c H. exact (bounded W outcome evs s c H). Qed.
Print Assumptions C02_bounded.

(* The failure case, any number of stages, NO hypothesis on the workflow: whatever the ordering and whichever
   tasks exit unrecoverably, every final state a component ever receives is shut-down or the outcome of its own
   executions under the restart policy (success -> finished, reason on the shutdown list -> shut down,
   otherwise failed) — and the latter only if the component was launched (C01_launch_guard: against producers
   none of which was failed, and none shut down for a non-aggregating consumer).  No component is failed or
   finished "by accident".  Moreover, in a well-formed workflow whose same-stage producers of repeating
   components finish, the final states are EXACTLY the rule-given ones for as long as finishedCheck has not
   handled a failed component (calm): the outcome is independent of the ordering up to the first failure. *)
Theorem C02_final_states_any : forall W outcome evs s,
  run W true outcome state0 evs = Some s ->
  (forall c f, ctl (dy s c) = Some f -> f = Shutdown \/ (0 < runs (dy s c) /\ f = walk0 W outcome c)) /\
  (wf W -> subjects_ok W outcome -> calm s -> forall c f, ctl (dy s c) = Some f -> f = spec W outcome c).
Proof.
  intros W outcome evs s Hr.
  destruct (run_K W outcome evs state0 s Inv_state0 (kbase_state0 W outcome) Hr) as [K _].
  split; [exact (b_ctl _ _ _ K)|]. intros WF SB C.
  exact (proj1 (b_calm _ _ _ K (conj WF (conj SB C)))).
Qed.
Print Assumptions C02_final_states_any.

(* If some component of the stage has a failed rule-given state (some task exits unrecoverably), then in
   every ordering, when the stage loop ends, some component is failed and has been handled by finishedCheck;
   if it belongs to the stage that ends, the stage is reported failed (C02_failure_reported: and no further
   stage starts).  Any number of stages. *)
Theorem C02_failure_detected : forall W outcome evs s s' i c,
  wf W -> subjects_ok W outcome ->
  run W true outcome state0 evs = Some s -> cur s = Some i -> running s = true ->
  step W true outcome s Tick = Some s' -> running s' = false ->
  In c (stage_nodes W i) -> spec W outcome c = Failed ->
  exists c', In c' (done s') /\ ctl (dy s' c') = Some Failed /\
             (stage (cmp W c') = i -> verdict s' = Some VFailed).
Proof.
  intros W outcome evs s s' i c WF SB Hr Hc Hrun Ht Hrun' Hin Hsp.
  destruct (run_ok W outcome evs state0 s Inv_state0 Hr) as [I _].
  destruct (run_K W outcome evs state0 s Inv_state0 (kbase_state0 W outcome) Hr) as [K _].
  pose proof (run_P W outcome evs state0 s Inv_state0 (pinv_state0 W) Hr) as P.
  destruct (step_ok W outcome s Tick s' I Ht) as [I' _].
  destruct (step_K W outcome s Tick s' I K Ht) as [K' _].
  pose proof (step_P W outcome s Tick s' I P Ht) as P'.
  destruct (stage_end_all_final W s s' i I Hc Hrun Ht Hrun') as [A [B _]].
  destruct (A c Hin) as [Dc Fc].
  destruct (Classical_calm s') as [C|NC].
  - exfalso. unfold pstate in Fc. apply is_fin_ctl in Fc as [f Hf].
    pose proof (proj1 (b_calm _ _ _ K' (conj WF (conj SB C))) c f Hf) as E. apply (C c Dc). congruence.
  - destruct (not_calm_witness s' NC) as [c' [Hd Hf]]. exists c'. split; [exact Hd|split; [exact Hf|]].
    intros Hs. apply B. exists c'. split.
    + unfold stage_nodes. apply filter_In. split; [|rewrite Hs; apply Nat.eqb_refl].
      unfold nodes. apply in_seq. split; [apply Nat.le_0_l|]. cbn. apply (q_range _ _ P').
      destruct I' as [I1 _]. destruct (staged (dy s' c')) eqn:St; [reflexivity|].
      destruct (l_unstaged _ (I1 c') St) as [_ [X _]]. congruence.
    + unfold pstate, cstate. rewrite Hf. reflexivity.
Qed.
Print Assumptions C02_failure_detected.

(* The failure case, for workflows of one stage: whatever the ordering and whichever tasks exit
   unrecoverably, every final state a component ever receives is its rule-given state or shut-down; as long
   as no failed component has been handled by finishedCheck the final states are exactly the rule-given ones,
   and from that moment on every component is staged, i.e. nothing is launched any more.  (With
   C02_failure_detected / C02_failure_reported: the stage is then reported failed.)  Same hypothesis on
   same-stage producers of repeating components as C02_determinism.  For several stages "rule-given or
   shut-down" with the rule evaluated on the exit reasons alone is false of the code: components of later
   stages may still be launched after an earlier stage has observed a failure, against producers that were
   stopped (shut-down) rather than left to reach their own outcome — C02_final_states_any is what holds then. *)
Theorem C02_failure_case : forall W outcome evs s,
  wf W -> (forall c, stage (cmp W c) = 0) ->
  (forall c p, In p (preds (cmp W c)) -> is_subject W c p = true -> spec W outcome p = Finished) ->
  run W true outcome state0 evs = Some s ->
  (forall c f, ctl (dy s c) = Some f -> f = spec W outcome c \/ f = Shutdown) /\
  (calm s -> forall c f, ctl (dy s c) = Some f -> f = spec W outcome c) /\
  (~ calm s -> forall c, c < ncomp W -> staged (dy s c) = true).
Proof.
  intros W outcome evs s WF SG SB Hr.
  destruct (run_S W outcome WF SB SG evs state0 s Inv_state0 (kbase_state0 W outcome) (sinv_state0 W outcome) Hr) as [K S].
  split; [exact (single_final W outcome WF s K S)|split; [|exact (proj1 S)]].
  intros C. exact (proj1 (b_calm _ _ _ K (conj WF (conj SB C)))).
Qed.
Print Assumptions C02_failure_case.

(* non-vacuity: a 4-component workflow (two replicas feeding an aggregator, plus a consumer of it);
   replica 1 exits with a shutdownOn reason: rule-given states, hypotheses satisfied, and a complete
   ordering of 20 events ends the stage with verdict ok and exactly those states *)
Definition exW2 : list comp :=
  [ {| stage := 0; is_repeat := false; is_aggregate := false; is_replica := true; preds := []; cshutdown_on := [KnownIssue]; restart_on := [ResourceExhausted]; max_r := 3 |};
    {| stage := 0; is_repeat := false; is_aggregate := false; is_replica := true; preds := []; cshutdown_on := [KnownIssue]; restart_on := [ResourceExhausted]; max_r := 3 |};
    {| stage := 0; is_repeat := false; is_aggregate := true; is_replica := false; preds := [0; 1]; cshutdown_on := []; restart_on := []; max_r := 0 |};
    {| stage := 0; is_repeat := false; is_aggregate := false; is_replica := false; preds := [2]; cshutdown_on := []; restart_on := []; max_r := 0 |} ].
Definition exOut (c n : nat) : reason :=
  match c, n with 0, 0 => ResourceExhausted | 1, _ => KnownIssue | _, _ => Success end.
Example C02_nonvacuous :
  wf exW2 /\ map (spec exW2 exOut) [0;1;2;3] = [Finished; Shutdown; Finished; Finished] /\
  match run exW2 true exOut state0
          [Start; Tick; Exit 1; Exit 0; PM 0; PM 1; Tick; Fin 1; Exit 0; PM 0; Fin 0; Tick; Exit 2; PM 2; Fin 2; Tick; Exit 3; PM 3; Fin 3; Tick] with
  | Some s => map (fun c => cstate (dy s c)) [0;1;2;3] = [CFin Finished; CFin Shutdown; CFin Finished; CFin Finished]
              /\ verdict s = Some VOk /\ running s = false
  | None => False
  end.
Proof.
  split; [|split; [vm_compute; reflexivity|vm_compute; repeat split]].
  intros c p. unfold exW2, cmp. destruct c as [|[|[|[|c]]]]; cbn; intros H;
    repeat (destruct H as [H|H]; [subst; auto with arith|]); try contradiction; destruct c; contradiction.
Qed.
