(* C02, failure case — single-stage workflows: in every ordering, every final state a component receives is
   its rule-given state or shut-down (no component is failed or finished "by accident").  Before the first
   failed component has been observed by finishedCheck the final states are exactly the rule-given ones;
   from that moment on every component is staged (nothing is launched any more) and the components that
   are stopped end shut-down. *)
From Coq Require Import List Bool Arith Lia.
Import ListNotations.
Require Import V.Restart.Model V.Restart.Proofs V.Sched.Model V.Sched.Proofs V.Stage.Spec V.Stage.Proofs V.Stage.Progress.

Section Failure.
Variable W : list comp.
Variable outcome : nat -> nat -> reason.
Hypothesis WF : wf W.
Hypothesis Single : forall c, stage (cmp W c) = 0.
Hypothesis Subjects : forall c p, In p (preds (cmp W c)) -> is_subject W c p = true -> spec W outcome p = Finished.

Notation spec := (spec W outcome).
Notation rule := (rule W).

(* no failed component has been handled by finishedCheck yet *)
Definition calm (s : state) : Prop := forall c, In c (done s) -> ctl (dy s c) <> Some Failed.

Lemma Classical_calm s : calm s \/ ~ calm s.
Proof.
  unfold calm. induction (done s) as [|x l IH].
  - left. intros c [].
  - destruct IH as [IH|IH].
    + destruct (ctl (dy s x)) as [[| |]|] eqn:E.
      * left. intros c [<-|H]; [congruence|exact (IH c H)].
      * left. intros c [<-|H]; [congruence|exact (IH c H)].
      * right. intros H. exact (H x (or_introl eq_refl) E).
      * left. intros c [<-|H]; [congruence|exact (IH c H)].
    + right. intros H. apply IH. intros c Hc. apply H. right. exact Hc.
Qed.

Record kbase (s : state) : Prop := {
  b_ctl : forall c f, ctl (dy s c) = Some f -> f = spec c \/ f = Shutdown;
  b_pend : forall c f, pending (dy s c) = Some f -> f = Shutdown;
  b_rule : forall c, 0 < runs (dy s c) -> rule spec c = false;
  b_walk : forall c, 0 < runs (dy s c) -> finish_called (dy s c) = false ->
           Nat.pred (runs (dy s c)) = restarts (dy s c) + resub (dy s c) /\
           restarts (dy s c) <= max_r (cmp W c) /\ resub (dy s c) <= 5 /\
           walk W outcome c (fuel_of W c - Nat.pred (runs (dy s c))) (Nat.pred (runs (dy s c)))
                (restarts (dy s c), resub (dy s c)) = walk0 W outcome c;
  b_exit : forall c r, e (dy s c) = Exited r -> finish_called (dy s c) = false ->
           r = outcome c (Nat.pred (runs (dy s c)));
  b_shut : forall c, shut (dy s c) = true -> finish_called (dy s c) = true;
  b_fresh : forall c, runs (dy s c) = 0 -> restarts (dy s c) = 0 /\ resub (dy s c) = 0;
  b_calm : calm s -> (forall c f, ctl (dy s c) = Some f -> f = spec c) /\
                     (forall c f, pending (dy s c) = Some f -> f = spec c)
}.

(* once a failure has been observed every component is staged: nothing is launched any more *)
Definition kinv (s : state) : Prop :=
  kbase s /\ (~ calm s -> forall c, c < ncomp W -> staged (dy s c) = true).

Lemma kbase_state0 : kbase state0.
Proof.
  constructor; cbn; intros; try discriminate; try lia; auto. split; intros; discriminate.
Qed.

Lemma kinv_state0 : kinv state0.
Proof. split; [exact kbase_state0|]. intros H. exfalso. apply H. intros x []. Qed.

(* one component changes; the set of delivered components does not *)
Lemma kbase_upd s c d' (s' : state) :
  kbase s -> (forall x, dy s' x = upd (dy s) c d' x) -> done s' = done s ->
  (forall f, ctl d' = Some f -> f = spec c \/ f = Shutdown) ->
  (forall f, pending d' = Some f -> f = Shutdown) ->
  (0 < runs d' -> rule spec c = false) ->
  (0 < runs d' -> finish_called d' = false ->
     Nat.pred (runs d') = restarts d' + resub d' /\ restarts d' <= max_r (cmp W c) /\ resub d' <= 5 /\
     walk W outcome c (fuel_of W c - Nat.pred (runs d')) (Nat.pred (runs d')) (restarts d', resub d') = walk0 W outcome c) ->
  (forall r, e d' = Exited r -> finish_called d' = false -> r = outcome c (Nat.pred (runs d'))) ->
  (shut d' = true -> finish_called d' = true) ->
  (runs d' = 0 -> restarts d' = 0 /\ resub d' = 0) ->
  (calm s -> (forall f, ctl d' = Some f -> f = spec c) /\ (forall f, pending d' = Some f -> f = spec c)) ->
  (In c (done s) -> ctl d' = ctl (dy s c)) ->
  kbase s' /\ (calm s' <-> calm s).
Proof.
  intros K Hd Hdn A1 A2 A3 A4 A5 A6 A7 A8 A9.
  assert (Calm : calm s' <-> calm s).
  { split; intros C x Hx.
    - specialize (C x). rewrite Hdn in C. specialize (C Hx). rewrite (Hd x) in C. unfold upd in C.
      destruct (Nat.eqb x c) eqn:E; [|exact C]. apply Nat.eqb_eq in E. subst x. rewrite (A9 Hx) in C. exact C.
    - rewrite Hdn in Hx. rewrite (Hd x). unfold upd. destruct (Nat.eqb x c) eqn:E; [|exact (C x Hx)].
      apply Nat.eqb_eq in E. subst x. rewrite (A9 Hx). exact (C c Hx). }
  split; [|exact Calm]. constructor.
  - intros x. rewrite (Hd x). unfold upd. destruct (Nat.eqb x c) eqn:E; [apply Nat.eqb_eq in E; subst x; exact A1|exact (b_ctl _ K x)].
  - intros x. rewrite (Hd x). unfold upd. destruct (Nat.eqb x c) eqn:E; [apply Nat.eqb_eq in E; subst x; exact A2|exact (b_pend _ K x)].
  - intros x. rewrite (Hd x). unfold upd. destruct (Nat.eqb x c) eqn:E; [apply Nat.eqb_eq in E; subst x; exact A3|exact (b_rule _ K x)].
  - intros x. rewrite (Hd x). unfold upd. destruct (Nat.eqb x c) eqn:E; [apply Nat.eqb_eq in E; subst x; exact A4|exact (b_walk _ K x)].
  - intros x. rewrite (Hd x). unfold upd. destruct (Nat.eqb x c) eqn:E; [apply Nat.eqb_eq in E; subst x; exact A5|exact (b_exit _ K x)].
  - intros x. rewrite (Hd x). unfold upd. destruct (Nat.eqb x c) eqn:E; [apply Nat.eqb_eq in E; subst x; exact A6|exact (b_shut _ K x)].
  - intros x. rewrite (Hd x). unfold upd. destruct (Nat.eqb x c) eqn:E; [apply Nat.eqb_eq in E; subst x; exact A7|exact (b_fresh _ K x)].
  - intros C. apply Calm in C. destruct (b_calm _ K C) as [B1 B2]. destruct (A8 C) as [B3 B4]. split.
    + intros x. rewrite (Hd x). unfold upd. destruct (Nat.eqb x c) eqn:E; [apply Nat.eqb_eq in E; subst x; exact B3|exact (B1 x)].
    + intros x. rewrite (Hd x). unfold upd. destruct (Nat.eqb x c) eqn:E; [apply Nat.eqb_eq in E; subst x; exact B4|exact (B2 x)].
Qed.

(* finish(SHUTDOWN): while calm only allowed where the rule gives shut-down *)
Lemma finish_K s c :
  Inv s -> kbase s -> ctl (dy s c) = None -> (calm s -> spec c = Shutdown) ->
  kbase (finish s c Shutdown) /\ (calm (finish s c Shutdown) <-> calm s).
Proof.
  intros [I1 [I2 _]] K Hc Hx.
  assert (Hd : forall x, dy (finish s c Shutdown) x = upd (dy s) c (d_finish Shutdown (dy s c)) x)
    by (intros x; unfold finish; destruct (negb _ && negb _); reflexivity).
  assert (Hdn : done (finish s c Shutdown) = done s) by (unfold finish; destruct (negb _ && negb _); reflexivity).
  assert (ND : In c (done s) -> False).
  { intros H. specialize (I2 c H). unfold pstate in I2. apply is_fin_ctl in I2 as [g Hg]. congruence. }
  destruct (is_run (cstate (dy s c))) eqn:R.
  - apply (kbase_upd s c (d_finish Shutdown (dy s c)) _ K Hd Hdn); unfold d_finish; rewrite R; cbn.
    + intros g H. exact (b_ctl _ K c g H).
    + intros g H. inversion H. reflexivity.
    + exact (b_rule _ K c).
    + intros _ H. discriminate.
    + intros r _ H. discriminate.
    + intros _. reflexivity.
    + exact (b_fresh _ K c).
    + intros C. split; [intros g H; congruence|intros g H; inversion H; symmetry; exact (Hx C)].
    + intros H. destruct (ND H).
  - apply (kbase_upd s c (d_finish Shutdown (dy s c)) _ K Hd Hdn); unfold d_finish; rewrite R; cbn.
    + intros g H. inversion H. right. reflexivity.
    + intros g H. exact (b_pend _ K c g H).
    + exact (b_rule _ K c).
    + intros _ H. discriminate.
    + intros r _ H. discriminate.
    + intros _. reflexivity.
    + exact (b_fresh _ K c).
    + intros C. split; [intros g H; inversion H; symmetry; exact (Hx C)|exact (proj2 (b_calm _ K C) c)].
    + intros H. destruct (ND H).
Qed.

(* the final state given by postMortemCheck (the component is in post-mortem: the state is set at once) *)
Lemma finish_exact_K s c f :
  Inv s -> kbase s -> ctl (dy s c) = None -> is_run (cstate (dy s c)) = false -> f = spec c ->
  kbase (finish s c f) /\ (calm (finish s c f) <-> calm s).
Proof.
  intros [I1 [I2 _]] K Hc R Hf.
  assert (Hd : forall x, dy (finish s c f) x = upd (dy s) c (d_finish f (dy s c)) x)
    by (intros x; unfold finish; destruct (negb _ && negb _); reflexivity).
  assert (Hdn : done (finish s c f) = done s) by (unfold finish; destruct (negb _ && negb _); reflexivity).
  assert (ND : In c (done s) -> False).
  { intros H. specialize (I2 c H). unfold pstate in I2. apply is_fin_ctl in I2 as [g Hg]. congruence. }
  apply (kbase_upd s c (d_finish f (dy s c)) _ K Hd Hdn); unfold d_finish; rewrite R; cbn.
  - intros g H. left. inversion H. subst. reflexivity.
  - intros g H. exact (b_pend _ K c g H).
  - exact (b_rule _ K c).
  - intros _ H. discriminate.
  - intros r _ H. discriminate.
  - intros _. reflexivity.
  - exact (b_fresh _ K c).
  - intros C. split; [intros g H; inversion H; subst; reflexivity|exact (proj2 (b_calm _ K C) c)].
  - intros H. destruct (ND H).
Qed.

Lemma fake_finish_K s c :
  Inv s -> kbase s -> staged (dy s c) = false -> (calm s -> spec c = Shutdown) ->
  kbase (fake_finish s c Shutdown) /\ (calm (fake_finish s c Shutdown) <-> calm s).
Proof.
  intros I K Us Hx. pose proof I as [I1 [I2 _]].
  destruct (l_unstaged _ (I1 c) Us) as [He [Hctl [Hr Hf]]].
  destruct (fake_finish_ok s c Shutdown I Us) as [_ [_ [C [_ [Do [Dc _]]]]]].
  assert (Hd : forall x, dy (fake_finish s c Shutdown) x = upd (dy s) c (d_finish Shutdown (d_stage (dy s c))) x).
  { intros x. unfold upd. destruct (Nat.eqb x c) eqn:E; [apply Nat.eqb_eq in E; subst x; exact Dc|apply Nat.eqb_neq in E; exact (Do x E)]. }
  assert (Hdn : done (fake_finish s c Shutdown) = done s) by (unfold core in C; congruence).
  assert (R : is_run (cstate (d_stage (dy s c))) = true) by (unfold cstate, d_stage; cbn; rewrite Hctl, He; reflexivity).
  apply (kbase_upd s c _ _ K Hd Hdn); unfold d_finish; rewrite R; unfold d_stage; cbn.
  - intros g H. exact (b_ctl _ K c g H).
  - intros g H. inversion H. reflexivity.
  - exact (b_rule _ K c).
  - intros _ H. discriminate.
  - intros r _ H. discriminate.
  - intros _. reflexivity.
  - exact (b_fresh _ K c).
  - intros Cm. split; [intros g H; congruence|intros g H; inversion H; symmetry; exact (Hx Cm)].
  - intros H. specialize (I2 c H). unfold pstate in I2. apply is_fin_ctl in I2 as [g Hg]. congruence.
Qed.

Lemma kbase_same s s' : dy s' = dy s -> done s' = done s -> kbase s -> kbase s' /\ (calm s' <-> calm s).
Proof.
  intros Hd Hn K. assert (C : calm s' <-> calm s) by (unfold calm; rewrite Hd, Hn; tauto).
  split; [|exact C]. destruct K. constructor; rewrite ?Hd; auto. intros X. apply C in X. auto.
Qed.

(* ---- folds used by the failure handling, in a state where a failure has already been observed *)
Lemma stop_components_K : forall cs s,
  Inv s -> kbase s -> ~ calm s -> (forall c, In c cs -> staged (dy s c) = true) ->
  kbase (stop_components s cs) /\ ~ calm (stop_components s cs).
Proof.
  induction cs as [|c cs IH]; intros s I K NC Hs; cbn [stop_components fold_left]; [split; assumption|].
  fold (stop_components (if alive (dy s c) && negb (finish_called (dy s c)) then finish s c Shutdown else s) cs).
  destruct (alive (dy s c) && negb (finish_called (dy s c))) eqn:G.
  - apply andb_true_iff in G as [G1 _].
    destruct (finish_ok s c Shutdown I (alive_ctl _ G1) (Hs c (or_introl eq_refl))) as [I' [X' _]].
    destruct (finish_K s c I K (alive_ctl _ G1) (fun C => False_ind _ (NC C))) as [K' C'].
    apply IH; [exact I'|exact K'|intros C; apply NC, C', C|].
    intros x Hx. apply (x_staged _ _ X'). apply Hs. right. exact Hx.
  - apply IH; [exact I|exact K|exact NC|]. intros x Hx. apply Hs. right. exact Hx.
Qed.

Lemma kill_fold_K : forall l s,
  Inv s -> kbase s -> ~ calm s ->
  kbase (fold_left (fun s c => if negb (finish_called (dy s c)) && alive (dy s c)
                        then (if staged (dy s c) then finish s c Shutdown else fake_finish s c Shutdown)
                        else s) l s).
Proof.
  induction l as [|c l IH]; intros s I K NC; cbn [fold_left]; [exact K|].
  destruct (negb (finish_called (dy s c)) && alive (dy s c)) eqn:G; [|apply IH; assumption].
  apply andb_true_iff in G as [_ G2]. destruct (staged (dy s c)) eqn:St.
  - destruct (finish_ok s c Shutdown I (alive_ctl _ G2) St) as [I' _].
    destruct (finish_K s c I K (alive_ctl _ G2) (fun C => False_ind _ (NC C))) as [K' C'].
    apply IH; [exact I'|exact K'|intros C; apply NC, C', C].
  - destruct (fake_finish_ok s c Shutdown I St) as [I' _].
    destruct (fake_finish_K s c I K St (fun C => False_ind _ (NC C))) as [K' C'].
    apply IH; [exact I'|exact K'|intros C; apply NC, C', C].
Qed.

Lemma fake_fold_K : forall cs s,
  Inv s -> kbase s -> ~ calm s ->
  let s' := fold_left (fun s x => if negb (staged (dy s x)) && negb (finish_called (dy s x))
                                  then fake_finish s x Shutdown else s) cs s in
  kbase s' /\ ~ calm s'.
Proof.
  induction cs as [|c cs IH]; intros s I K NC; cbn [fold_left]; [split; assumption|].
  destruct (negb (staged (dy s c)) && negb (finish_called (dy s c))) eqn:G; [|apply IH; assumption].
  apply andb_true_iff in G as [G1 _]. apply negb_true_iff in G1.
  destruct (fake_finish_ok s c Shutdown I G1) as [I' _].
  destruct (fake_finish_K s c I K G1 (fun C => False_ind _ (NC C))) as [K' C'].
  apply IH; [exact I'|exact K'|intros C; apply NC, C', C].
Qed.

(* ---- the scheduler pass *)
Lemma deps_agree_K s c : Inv s -> kbase s -> calm s -> deps_ok W true s c = true -> shutdown_rule W s c = rule spec c.
Proof.
  intros [I1 [I2 _]] K C H. destruct (b_calm _ K C) as [Ex _]. apply rule_agree. intros p Hp.
  unfold deps_ok in H. rewrite forallb_forall in H. specialize (H p Hp). apply orb_true_iff in H as [H|H].
  - apply memn_In in H. specialize (I2 p H). unfold pstate in I2. apply is_fin_ctl in I2 as [f Hf].
    rewrite <- (Ex p f Hf). exact (pstate_of_ctl s p f Hf).
  - apply andb_true_iff in H as [H H3]. apply andb_true_iff in H as [H1 H2]. cbn in H3. apply negb_true_iff in H3.
    rewrite (Subjects c p Hp H1). cbn. apply pstate_of_none. apply linv_ctl_none_of_not_fc; [apply I1|exact H3].
Qed.

Lemma visit_K s si ready c :
  PassInv W s si ready -> kinv si -> ready_ok W outcome ready -> c < ncomp W ->
  kinv (fst (sched_visit W true (si, ready) c)) /\ ready_ok W outcome (snd (sched_visit W true (si, ready) c)).
Proof.
  intros P [K St] R Hc. unfold sched_visit.
  destruct (memn c (done si) || is_fin (pstate si c) || staged (dy si c) || negb (deps_ok W true si c)) eqn:G;
    [split; [split|]; assumption|].
  apply orb_false_iff in G as [G G4]. apply negb_false_iff in G4. apply orb_false_iff in G as [_ G3].
  assert (C : calm si).
  { destruct (Classical_calm si) as [C|NC]; [exact C|]. pose proof (St NC c Hc). congruence. }
  pose proof (deps_agree_K si c (p_inv _ _ _ _ P) K C G4) as A.
  destruct (shutdown_rule W si c) eqn:Sr; cbn [fst snd].
  - destruct (fake_finish_K si c (p_inv _ _ _ _ P) K G3) as [K' C'].
    { intros _. rewrite (spec_eq W outcome WF c), <- A. reflexivity. }
    split; [|exact R]. split; [exact K'|]. intros NC. exfalso. apply NC, C', C.
  - split; [split; assumption|]. intros x Hx. apply in_app_or in Hx as [Hx|[<-|[]]]; [exact (R x Hx)|]. rewrite <- A. reflexivity.
Qed.

Lemma visits_K s : forall l si ready,
  PassInv W s si ready -> NoDup l -> (forall c, In c ready -> ~ In c l) -> (forall c, In c l -> c < ncomp W) ->
  kinv si -> ready_ok W outcome ready ->
  kinv (fst (fold_left (sched_visit W true) l (si, ready))) /\
  ready_ok W outcome (snd (fold_left (sched_visit W true) l (si, ready))).
Proof.
  induction l as [|c l IH]; intros si ready P Hl Hr Hb K R; cbn [fold_left]; [split; assumption|].
  inversion Hl as [|? ? Hc Hl']; subst.
  assert (Hn : ~ In c ready) by (intros H; apply (Hr c H); left; reflexivity).
  pose proof (visit_ok W s si ready c P Hn) as V.
  pose proof (visit_K s si ready c P K R (Hb c (or_introl eq_refl))) as VK.
  destruct (sched_visit W true (si, ready) c) as [si' ready'] eqn:E. destruct V as [P' Sub]. destruct VK as [K' R'].
  apply IH; auto.
  - intros x Hx Hi. destruct (Sub x Hx) as [H|H]; [apply (Hr x H); right; exact Hi|subst x; contradiction].
  - intros x Hx. apply Hb. right. exact Hx.
Qed.

Lemma sched_pass_K s : Inv s -> kinv s -> kinv (sched_pass W true s).
Proof.
  intros I K. unfold sched_pass.
  pose proof (visits_ok W s (nodes W) s [] (PassInv_init W s I) (seq_NoDup _ _) (fun c H => match H with end)) as P.
  pose proof (visits_K s (nodes W) s [] (PassInv_init W s I) (seq_NoDup _ _) (fun c H => match H with end)
                (in_nodes W) K (fun c H => match H with end)) as [[K1 S1] R1].
  destruct (fold_left (sched_visit W true) (nodes W) (s, [])) as [s1 ready] eqn:E. cbn [fst snd] in *.
  destruct (stop s1); [split; assumption|].
  destruct (submit_spec s1 ready (p_nodup _ _ _ _ P)) as [D [C F]].
  pose proof (p_inv _ _ _ _ P) as [I1 [I2 _]]. unfold core in C.
  assert (Dn' : done (submit s1 ready) = done s1) by congruence.
  assert (Dr : forall c, In c ready -> dy (submit s1 ready) c =
            {| staged := true; runs := S (runs (dy s1 c)); finish_called := finish_called (dy s1 c);
               pending := pending (dy s1 c); kill_req := kill_req (dy s1 c); e := Active; ctl := ctl (dy s1 c);
               restarts := restarts (dy s1 c); resub := resub (dy s1 c); shut := shut (dy s1 c) |} /\
            runs (dy s1 c) = 0).
  { intros c Hc. rewrite D. apply memn_In in Hc as M. rewrite M. destruct (p_ready _ _ _ _ P c Hc) as [Us _].
    split; [apply launch_eq; [apply I1|exact Us]|]. destruct (l_unstaged _ (I1 c) Us) as [_ [_ [Hr _]]]. exact Hr. }
  assert (Dn : forall c, ~ In c ready -> dy (submit s1 ready) c = dy s1 c).
  { intros c Hc. rewrite D. destruct (memn c ready) eqn:M; [apply memn_In in M; contradiction|reflexivity]. }
  assert (Ctl : forall c, ctl (dy (submit s1 ready) c) = ctl (dy s1 c) /\ pending (dy (submit s1 ready) c) = pending (dy s1 c)).
  { intros c. destruct (in_dec Nat.eq_dec c ready) as [Hc|Hc]; [destruct (Dr c Hc) as [-> _]; split; reflexivity|rewrite (Dn c Hc); split; reflexivity]. }
  assert (Cm : calm (submit s1 ready) <-> calm s1).
  { unfold calm. rewrite Dn'. split; intros H c Hc; specialize (H c Hc); destruct (Ctl c) as [Q _]; congruence. }
  split.
  - constructor.
    + intros c f. destruct (Ctl c) as [Q _]. rewrite Q. exact (b_ctl _ K1 c f).
    + intros c f. destruct (Ctl c) as [_ Q]. rewrite Q. exact (b_pend _ K1 c f).
    + intros c. destruct (in_dec Nat.eq_dec c ready) as [Hc|Hc];
        [intros _; exact (R1 c Hc)|rewrite (Dn c Hc); exact (b_rule _ K1 c)].
    + intros c. destruct (in_dec Nat.eq_dec c ready) as [Hc|Hc]; [|rewrite (Dn c Hc); exact (b_walk _ K1 c)].
      destruct (Dr c Hc) as [-> Hr]. cbn. destruct (b_fresh _ K1 c Hr) as [F1 F2]. rewrite Hr, F1, F2. cbn.
      intros _ _. rewrite Nat.sub_0_r. repeat split; lia.
    + intros c r. destruct (in_dec Nat.eq_dec c ready) as [Hc|Hc];
        [destruct (Dr c Hc) as [-> _]; cbn; discriminate|rewrite (Dn c Hc); exact (b_exit _ K1 c r)].
    + intros c. destruct (in_dec Nat.eq_dec c ready) as [Hc|Hc];
        [destruct (Dr c Hc) as [-> _]; cbn; exact (b_shut _ K1 c)|rewrite (Dn c Hc); exact (b_shut _ K1 c)].
    + intros c. destruct (in_dec Nat.eq_dec c ready) as [Hc|Hc];
        [destruct (Dr c Hc) as [-> _]; cbn; discriminate|rewrite (Dn c Hc); exact (b_fresh _ K1 c)].
    + intros Cx. apply Cm in Cx. destruct (b_calm _ K1 Cx) as [B1 B2]. split; intros c f; destruct (Ctl c) as [Q1 Q2];
        [rewrite Q1; exact (B1 c f)|rewrite Q2; exact (B2 c f)].
  - intros NC c Hc. assert (NC1 : ~ calm s1) by (intros X; apply NC, Cm, X).
    destruct (in_dec Nat.eq_dec c ready) as [Hr|Hr]; [destruct (Dr c Hr) as [-> _]; reflexivity|rewrite (Dn c Hr); exact (S1 NC1 c Hc)].
Qed.

(* ---- the other events *)
Lemma exit_K s c s' : Inv s -> kinv s -> exit_comp W outcome s c = Some s' -> kinv s'.
Proof.
  intros I [K St] H. pose proof I as [I1 [I2 _]]. unfold exit_comp in H.
  destruct (negb (c <? ncomp W) || negb (exit_enabled (dy s c))) eqn:G; [discriminate|].
  apply orb_false_iff in G as [_ G]. apply negb_false_iff in G. pose proof (I1 c) as L.
  assert (Hctl : ctl (dy s c) = None).
  { destruct (ctl (dy s c)) as [g|] eqn:E; [|reflexivity]. destruct (l_ctl _ L g E) as [_ [r Er]].
    unfold exit_enabled in G. rewrite Er in G. discriminate. }
  assert (ND : In c (done s) -> False).
  { intros Hx. specialize (I2 c Hx). unfold pstate in I2. apply is_fin_ctl in I2 as [g Hg]. congruence. }
  assert (Hst : staged (dy s c) = true).
  { destruct (staged (dy s c)) eqn:E; [reflexivity|]. destruct (l_unstaged _ L E) as [He [_ [_ Hf]]].
    unfold exit_enabled in G. rewrite He in G. apply (l_kill _ L) in G. congruence. }
  assert (Fin : forall d' s'', (forall x, dy s'' x = upd (dy s) c d' x) -> done s'' = done s -> staged d' = true ->
            (kbase s'' /\ (calm s'' <-> calm s)) -> kinv s'').
  { intros d' s'' Hd Hdn Hs' [K' C']. split; [exact K'|]. intros NC x Hx. rewrite (Hd x). unfold upd.
    destruct (Nat.eqb x c); [exact Hs'|]. apply St; [intros X; apply NC, C', X|exact Hx]. }
  destruct (finish_called (dy s c)) eqn:Fc.
  - match type of H with context [set_dy s c ?D] => set (d' := D) in * end.
    assert (KB : forall s'', (forall x, dy s'' x = upd (dy s) c d' x) -> done s'' = done s -> kbase s'' /\ (calm s'' <-> calm s)).
    { intros s'' Hd Hdn. apply (kbase_upd s c d' s'' K Hd Hdn); unfold d'; cbn.
      - intros f Hf. right. exact (b_pend _ K c f Hf).
      - exact (b_pend _ K c).
      - exact (b_rule _ K c).
      - intros _ Hx. discriminate.
      - intros r _ Hx. discriminate.
      - intros _. reflexivity.
      - exact (b_fresh _ K c).
      - intros C. destruct (b_calm _ K C) as [_ B2]. split; exact (B2 c).
      - intros Hx. destruct (ND Hx). }
    destruct (pending (dy s c)); inversion H; subst s'.
    + apply (Fin d'); [intros x; reflexivity|reflexivity|exact Hst|apply KB; [intros x; reflexivity|reflexivity]].
    + apply (Fin d'); [intros x; reflexivity|reflexivity|exact Hst|apply KB; [intros x; reflexivity|reflexivity]].
  - match type of H with context [set_dy s c ?D] => set (d' := D) in * end.
    assert (Act : e (dy s c) = Active).
    { unfold exit_enabled in G. destruct (e (dy s c)) eqn:E; [|reflexivity|discriminate]. apply (l_kill _ L) in G. congruence. }
    inversion H; subst s'. apply (Fin d'); [intros x; reflexivity|reflexivity|exact Hst|].
    match goal with |- kbase ?S /\ _ => apply (kbase_upd s c d' S K (fun x => eq_refl) eq_refl) end; unfold d'; cbn.
    + exact (b_ctl _ K c).
    + exact (b_pend _ K c).
    + exact (b_rule _ K c).
    + intros H1 _. exact (b_walk _ K c H1 Fc).
    + intros r Hr _. rewrite Act in Hr. inversion Hr. reflexivity.
    + intros Hx. pose proof (b_shut _ K c Hx). congruence.
    + exact (b_fresh _ K c).
    + intros C. destruct (b_calm _ K C) as [B1 B2]. split; [exact (B1 c)|exact (B2 c)].
    + intros _. reflexivity.
Qed.

Lemma pm_K s c s' : Inv s -> kinv s -> deliver_pm W s c = Some s' -> kinv s'.
Proof.
  intros I [K St] H. unfold deliver_pm in H. destruct (negb (memn c (pmq s))); [discriminate|].
  match type of H with context [dy ?S0 c] => set (s0 := S0) in * end.
  assert (I0 : Inv s0) by (apply (Inv_sub s); auto).
  destruct (kbase_same s s0 eq_refl eq_refl K) as [K0 C0].
  assert (St0 : ~ calm s0 -> forall x, x < ncomp W -> staged (dy s0 x) = true) by (intros NC; apply St; intros X; apply NC, C0, X).
  assert (Ds : dy s0 = dy s) by reflexivity. assert (Dn0 : done s0 = done s) by reflexivity. clearbody s0.
  pose proof I0 as [I1 [I2 _]]. pose proof (I1 c) as L.
  destruct (finish_called (dy s0 c)) eqn:Fc; [inversion H; subst; split; assumption|].
  destruct (e (dy s0 c)) as [| |r] eqn:Ee; try (inversion H; subst; split; assumption).
  assert (Hrun : 0 < runs (dy s0 c)) by exact (l_exited _ L r Ee Fc).
  assert (Hctl : ctl (dy s0 c) = None) by (apply linv_ctl_none_of_not_fc; auto).
  assert (Hst : staged (dy s0 c) = true) by (apply linv_staged_of_nonidle; [exact L|congruence]).
  assert (Hshut : shut (dy s0 c) = false).
  { destruct (shut (dy s0 c)) eqn:Sh; [|reflexivity]. pose proof (b_shut _ K0 c Sh). congruence. }
  assert (ND : In c (done s0) -> False).
  { intros Hx. specialize (I2 c Hx). unfold pstate in I2. apply is_fin_ctl in I2 as [g Hg]. congruence. }
  destruct (b_walk _ K0 c Hrun Fc) as [Wn [Wr [Wb Ww]]].
  pose proof (b_exit _ K0 c r Ee Fc) as Hr.
  set (n := Nat.pred (runs (dy s0 c))) in *.
  assert (Fu : fuel_of W c - n = S (fuel_of W c - S n)) by (unfold fuel_of; lia).
  rewrite (restart_decision_decide W c _ r Hshut) in H.
  rewrite Fu in Ww. cbn [walk] in Ww. rewrite <- Hr in Ww.
  destruct (decide W c (restarts (dy s0 c), resub (dy s0 c)) r) as [[rs' rb']|] eqn:Dc.
  - destruct (decide_bounds W c _ _ r rs' rb' Dc Wr Wb) as [B1 [B2 B3]].
    inversion H; subst s'.
    match goal with |- kinv (set_dy s0 c ?D) => set (d' := D) end.
    destruct (kbase_upd s0 c d' (set_dy s0 c d') K0 (fun x => eq_refl) eq_refl) as [K' C']; unfold d'; cbn.
    + exact (b_ctl _ K0 c).
    + exact (b_pend _ K0 c).
    + intros _. exact (b_rule _ K0 c Hrun).
    + intros _ _. replace (runs (dy s0 c)) with (S n) by (unfold n; lia). repeat split; try lia. exact Ww.
    + intros r0 Hx. discriminate.
    + intros Hx. congruence.
    + intros Hx. discriminate.
    + intros C. destruct (b_calm _ K0 C) as [E1 E2]. split; [exact (E1 c)|exact (E2 c)].
    + intros _. reflexivity.
    + split; [exact K'|]. intros NC x Hx. cbn. unfold upd. destruct (Nat.eqb x c) eqn:E; [unfold d'; cbn; exact Hst|].
      apply St0; [intros X; apply NC, C', X|exact Hx].
  - inversion H; subst s'.
    assert (NR : is_run (cstate (dy s0 c)) = false) by (unfold cstate; rewrite Hctl, Ee; reflexivity).
    destruct (finish_exact_K s0 c (final_of_reason W c r) I0 K0 Hctl NR) as [K' C'].
    { rewrite (spec_eq W outcome WF c), (b_rule _ K0 c Hrun). rewrite <- Ww. reflexivity. }
    destruct (finish_ok s0 c (final_of_reason W c r) I0 Hctl Hst) as [_ [X' _]].
    split; [exact K'|]. intros NC x Hx. apply (x_staged _ _ X'). apply St0; [intros X; apply NC, C', X|exact Hx].
Qed.

Lemma stage_nodes_all c : c < ncomp W -> In c (stage_nodes W 0).
Proof.
  intros H. unfold stage_nodes. apply filter_In. split; [unfold nodes; apply in_seq; lia|]. rewrite Single. reflexivity.
Qed.

Lemma fin_K s c s' : Inv s -> kinv s -> deliver_fin W s c = Some s' -> kinv s'.
Proof.
  intros I [K St] H. unfold deliver_fin in H. destruct (memn c (finq s)) eqn:M; [|discriminate]. cbn [negb] in H.
  apply memn_In in M.
  match type of H with context [is_failed (pstate ?S0 c)] => set (s0 := S0) in * end.
  assert (Fc : is_fin (pstate s c) = true) by (destruct I as [_ [_ I3]]; exact (I3 c M)).
  set (t := add_done s0 c).
  assert (It : Inv t).
  { destruct I as [I1 [I2 I3]]. split; [exact I1|split].
    - intros x Hx. cbn in Hx. apply in_app_or in Hx as [Hx|[<-|[]]]; [exact (I2 x Hx)|exact Fc].
    - intros x Hx. cbn in Hx. exact (I3 x (In_remove1 _ _ _ Hx)). }
  inversion H; subst s'; clear H.
  match goal with |- kinv {| dy := dy ?S1; done := _; stop := _; cur := _; pmq := _; finq := _; running := _; verdict := _ |} =>
    change (kinv (add_done S1 c)) end.
  destruct (is_failed (pstate s0 c)) eqn:Fl.
  - (* a failed component is observed: from now on the state is not calm *)
    assert (NCt : ~ calm t).
    { intros C. apply (C c); [cbn; apply in_or_app; right; left; reflexivity|].
      unfold pstate, cstate in Fl. change (dy s0 c) with (dy s c) in Fl. change (dy t c) with (dy s c).
      destruct (ctl (dy s c)) as [[| |]|]; try discriminate; [reflexivity|destruct (e (dy s c)); discriminate]. }
    assert (Kt : kbase t).
    { destruct K. constructor; auto. intros C. destruct (NCt C). }
    match goal with |- context [if ?b then kill_all W s0 else _] => destruct b end.
    + rewrite <- kill_all_add_done. fold t. unfold kill_all.
      set (t0 := {| dy := dy t; done := done t; stop := true; cur := cur t; pmq := pmq t; finq := finq t;
                    running := running t; verdict := verdict t |}).
      assert (It0 : Inv t0) by exact It.
      destruct (kbase_same t t0 eq_refl eq_refl Kt) as [Kt0 Ct0].
      assert (NC0 : ~ calm t0) by (intros X; apply NCt, Ct0, X).
      split; [exact (kill_fold_K (nodes W) t0 It0 Kt0 NC0)|].
      intros _ x Hx. apply (kill_fold_staged (nodes W) t0 It0). unfold nodes. apply in_seq. lia.
    + rewrite <- stop_components_add_done, <- fake_fold_add_done. fold t.
      rewrite Single.
      destruct (fake_fold_ok (stage_nodes W 0) t It) as [A [_ [_ [_ Sg]]]].
      destruct (fake_fold_K (stage_nodes W 0) t It Kt NCt) as [K1 NC1].
      destruct (stop_components_ok (stage_nodes W 0) _ A Sg) as [_ [X2 _]].
      destruct (stop_components_K (stage_nodes W 0) _ A K1 NC1 Sg) as [K2 NC2].
      split; [exact K2|]. intros _ x Hx. apply (x_staged _ _ X2). apply Sg. exact (stage_nodes_all x Hx).
  - (* not failed: calm is preserved *)
    assert (Ctl : ctl (dy s c) <> Some Failed).
    { intros E. unfold pstate, cstate in Fl. change (dy s0 c) with (dy s c) in Fl. rewrite E in Fl. discriminate. }
    assert (Cm : calm (add_done s0 c) <-> calm s).
    { unfold calm. cbn. split; intros X x Hx.
      - apply X. apply in_or_app. left. exact Hx.
      - apply in_app_or in Hx as [Hx|[<-|[]]]; [exact (X x Hx)|exact Ctl]. }
    split.
    + destruct K. constructor; auto. intros X. apply Cm in X. auto.
    + intros NC x Hx. cbn. apply St; [intros X; apply NC, Cm, X|exact Hx].
Qed.

Lemma tick_K s s' : Inv s -> kinv s -> tick W true s = Some s' -> kinv s'.
Proof.
  intros I K H. unfold tick in H. destruct (cur s) as [i|]; [|discriminate]. destruct (running s); [|discriminate].
  inversion H; subst s'. destruct (stage_done W s i) eqn:Sd; [|exact (sched_pass_K s I K)].
  unfold end_stage. rewrite stop_components_noop.
  - destruct K as [K St]. destruct (kbase_same s {| dy := dy s; done := done s; stop := stop s; cur := cur s; pmq := pmq s;
        finq := finq s; running := false; verdict := Some (compute_verdict W s i) |} eq_refl eq_refl K) as [K' C'].
    split; [exact K'|]. intros NC x Hx. cbn. apply St; [intros X; apply NC, C', X|exact Hx].
  - intros c Hc. unfold stage_done in Sd. rewrite forallb_forall in Sd. specialize (Sd c Hc). apply memn_In in Sd.
    destruct I as [_ [I2 _]]. exact (I2 c Sd).
Qed.

Lemma start_K s s' : Inv s -> kinv s -> start_stage W true s = Some s' -> kinv s'.
Proof.
  intros I [K St] H. unfold start_stage in H. destruct (running s); [discriminate|].
  match type of H with (if ?b then _ else _) = _ => destruct b; [|discriminate] end.
  match type of H with Some (sched_pass W true ?S0) = _ => set (s0 := S0) in * end.
  assert (I0 : Inv s0) by (apply (Inv_sub s); auto).
  destruct (kbase_same s s0 eq_refl eq_refl K) as [K0 C0].
  assert (K0' : kinv s0) by (split; [exact K0|intros NC x Hx; apply St; [intros X; apply NC, C0, X|exact Hx]]).
  inversion H; subst s'. exact (sched_pass_K s0 I0 K0').
Qed.

Lemma step_K s ev s' : Inv s -> kinv s -> step W true outcome s ev = Some s' -> kinv s'.
Proof.
  intros I K H. destruct ev as [| |c|c|c]; cbn [step] in H.
  - exact (start_K s s' I K H).
  - exact (tick_K s s' I K H).
  - exact (exit_K s c s' I K H).
  - exact (pm_K s c s' I K H).
  - exact (fin_K s c s' I K H).
Qed.

Lemma run_K : forall evs s s', Inv s -> kinv s -> run W true outcome s evs = Some s' -> kinv s'.
Proof.
  induction evs as [|ev evs IH]; intros s s' I K H; cbn [run] in H.
  - inversion H; subst. exact K.
  - destruct (step W true outcome s ev) as [s1|] eqn:E; [|discriminate].
    destruct (step_ok W outcome s ev s1 I E) as [I1 _].
    exact (IH s1 s' I1 (step_K s ev s1 I K E) H).
Qed.
End Failure.
