(* C02, failure case.
   General part (any number of stages, no hypothesis on the workflow): in every ordering every final state a
   component receives is shut-down or the outcome of its own executions under the restart policy (walk0), and
   the latter only if it was launched.  As long as no failed component has been handled by finishedCheck
   (the state is "calm") and the workflow is well formed with well-behaved subjects, the final states are
   exactly the rule-given ones.
   Single-stage part: from the moment a failure is observed every component is staged (nothing is launched
   any more), hence every final state is the rule-given one or shut-down. *)
From Coq Require Import List Bool Arith Lia.
Import ListNotations.
Require Import V.Restart.Model V.Restart.Proofs V.Sched.Model V.Sched.Proofs V.Stage.Spec V.Stage.Proofs V.Stage.Progress.

Section Failure.
Variable W : list comp.
Variable outcome : nat -> nat -> reason.

Notation spec := (spec W outcome).
Notation rule := (rule W).

(* a repeating component's same-stage producers simply finish (the complement is finding F2) *)
Definition subjects_ok : Prop :=
  forall c p, In p (preds (cmp W c)) -> is_subject W c p = true -> spec p = Finished.

(* no failed component has been handled by finishedCheck yet *)
Definition calm (s : state) : Prop := forall c, In c (done s) -> ctl (dy s c) <> Some Failed.

Lemma Classical_calm s : calm s \/ ~ calm s.
Proof.
  unfold calm. induction (done s) as [|x l IH].
  - left. intros c [].
  - destruct IH as [IH|IH].
    + destruct (ctl (dy s x)) as [[| |]|] eqn:E.
      * left. intros c [<-|H]; [congruence|exact (IH c H)].
      * left. intros c [<-|H]; [congruence|exact (IH c H)].
      * right. intros H. exact (H x (or_introl eq_refl) E).
      * left. intros c [<-|H]; [congruence|exact (IH c H)].
    + right. intros H. apply IH. intros c Hc. apply H. right. exact Hc.
Qed.

(* calm, in a workflow for which the rule-given states are meaningful *)
Definition qcalm (s : state) : Prop := wf W /\ subjects_ok /\ calm s.

Record kbase (s : state) : Prop := {
  b_ctl : forall c f, ctl (dy s c) = Some f -> f = Shutdown \/ (0 < runs (dy s c) /\ f = walk0 W outcome c);
  b_pend : forall c f, pending (dy s c) = Some f -> f = Shutdown;
  b_walk : forall c, 0 < runs (dy s c) -> finish_called (dy s c) = false ->
           Nat.pred (runs (dy s c)) = restarts (dy s c) + resub (dy s c) /\
           restarts (dy s c) <= max_r (cmp W c) /\ resub (dy s c) <= 5 /\
           walk W outcome c (fuel_of W c - Nat.pred (runs (dy s c))) (Nat.pred (runs (dy s c)))
                (restarts (dy s c), resub (dy s c)) = walk0 W outcome c;
  b_exit : forall c r, e (dy s c) = Exited r -> finish_called (dy s c) = false ->
           r = outcome c (Nat.pred (runs (dy s c)));
  b_shut : forall c, shut (dy s c) = true -> finish_called (dy s c) = true;
  b_fresh : forall c, runs (dy s c) = 0 -> restarts (dy s c) = 0 /\ resub (dy s c) = 0;
  b_calm : qcalm s -> (forall c f, ctl (dy s c) = Some f -> f = spec c) /\
                      (forall c f, pending (dy s c) = Some f -> f = spec c) /\
                      (forall c, 0 < runs (dy s c) -> rule spec c = false)
}.

Lemma kbase_state0 : kbase state0.
Proof.
  constructor; cbn; intros; try discriminate; try lia; auto. repeat split; intros; try discriminate; lia.
Qed.

Lemma qcalm_iff s s' : (calm s' <-> calm s) -> (qcalm s' <-> qcalm s).
Proof. unfold qcalm. tauto. Qed.

(* one component changes; the set of delivered components does not *)
Lemma kbase_upd s c d' (s' : state) :
  kbase s -> (forall x, dy s' x = upd (dy s) c d' x) -> done s' = done s ->
  (forall f, ctl d' = Some f -> f = Shutdown \/ (0 < runs d' /\ f = walk0 W outcome c)) ->
  (forall f, pending d' = Some f -> f = Shutdown) ->
  (0 < runs d' -> finish_called d' = false ->
     Nat.pred (runs d') = restarts d' + resub d' /\ restarts d' <= max_r (cmp W c) /\ resub d' <= 5 /\
     walk W outcome c (fuel_of W c - Nat.pred (runs d')) (Nat.pred (runs d')) (restarts d', resub d') = walk0 W outcome c) ->
  (forall r, e d' = Exited r -> finish_called d' = false -> r = outcome c (Nat.pred (runs d'))) ->
  (shut d' = true -> finish_called d' = true) ->
  (runs d' = 0 -> restarts d' = 0 /\ resub d' = 0) ->
  (qcalm s -> (forall f, ctl d' = Some f -> f = spec c) /\ (forall f, pending d' = Some f -> f = spec c) /\
              (0 < runs d' -> rule spec c = false)) ->
  (In c (done s) -> ctl d' = ctl (dy s c)) ->
  kbase s' /\ (calm s' <-> calm s).
Proof.
  intros K Hd Hdn A1 A2 A4 A5 A6 A7 A8 A9.
  assert (Calm : calm s' <-> calm s).
  { split; intros C x Hx.
    - specialize (C x). rewrite Hdn in C. specialize (C Hx). rewrite (Hd x) in C. unfold upd in C.
      destruct (Nat.eqb x c) eqn:E; [|exact C]. apply Nat.eqb_eq in E. subst x. rewrite (A9 Hx) in C. exact C.
    - rewrite Hdn in Hx. rewrite (Hd x). unfold upd. destruct (Nat.eqb x c) eqn:E; [|exact (C x Hx)].
      apply Nat.eqb_eq in E. subst x. rewrite (A9 Hx). exact (C c Hx). }
  split; [|exact Calm]. constructor.
  - intros x. rewrite (Hd x). unfold upd. destruct (Nat.eqb x c) eqn:E; [apply Nat.eqb_eq in E; subst x; exact A1|exact (b_ctl _ K x)].
  - intros x. rewrite (Hd x). unfold upd. destruct (Nat.eqb x c) eqn:E; [apply Nat.eqb_eq in E; subst x; exact A2|exact (b_pend _ K x)].
  - intros x. rewrite (Hd x). unfold upd. destruct (Nat.eqb x c) eqn:E; [apply Nat.eqb_eq in E; subst x; exact A4|exact (b_walk _ K x)].
  - intros x. rewrite (Hd x). unfold upd. destruct (Nat.eqb x c) eqn:E; [apply Nat.eqb_eq in E; subst x; exact A5|exact (b_exit _ K x)].
  - intros x. rewrite (Hd x). unfold upd. destruct (Nat.eqb x c) eqn:E; [apply Nat.eqb_eq in E; subst x; exact A6|exact (b_shut _ K x)].
  - intros x. rewrite (Hd x). unfold upd. destruct (Nat.eqb x c) eqn:E; [apply Nat.eqb_eq in E; subst x; exact A7|exact (b_fresh _ K x)].
  - intros C. apply (qcalm_iff s s' Calm) in C. destruct (b_calm _ K C) as [B1 [B2 B5]]. destruct (A8 C) as [B3 [B4 B6]].
    split; [|split].
    + intros x. rewrite (Hd x). unfold upd. destruct (Nat.eqb x c) eqn:E; [apply Nat.eqb_eq in E; subst x; exact B3|exact (B1 x)].
    + intros x. rewrite (Hd x). unfold upd. destruct (Nat.eqb x c) eqn:E; [apply Nat.eqb_eq in E; subst x; exact B4|exact (B2 x)].
    + intros x. rewrite (Hd x). unfold upd. destruct (Nat.eqb x c) eqn:E; [apply Nat.eqb_eq in E; subst x; exact B6|exact (B5 x)].
Qed.

(* finish(SHUTDOWN): while calm only allowed where the rule gives shut-down *)
Lemma finish_K s c :
  Inv s -> kbase s -> ctl (dy s c) = None -> (qcalm s -> spec c = Shutdown) ->
  kbase (finish s c Shutdown) /\ (calm (finish s c Shutdown) <-> calm s).
Proof.
  intros [I1 [I2 _]] K Hc Hx.
  assert (Hd : forall x, dy (finish s c Shutdown) x = upd (dy s) c (d_finish Shutdown (dy s c)) x)
    by (intros x; unfold finish; destruct (negb _ && negb _); reflexivity).
  assert (Hdn : done (finish s c Shutdown) = done s) by (unfold finish; destruct (negb _ && negb _); reflexivity).
  assert (ND : In c (done s) -> False).
  { intros H. specialize (I2 c H). unfold pstate in I2. apply is_fin_ctl in I2 as [g Hg]. congruence. }
  destruct (is_run (cstate (dy s c))) eqn:R.
  - apply (kbase_upd s c (d_finish Shutdown (dy s c)) _ K Hd Hdn); unfold d_finish; rewrite R; cbn.
    + intros g H. exact (b_ctl _ K c g H).
    + intros g H. inversion H. reflexivity.
    + intros _ H. discriminate.
    + intros r _ H. discriminate.
    + intros _. reflexivity.
    + exact (b_fresh _ K c).
    + intros C. destruct (b_calm _ K C) as [_ [_ B5]].
      split; [intros g H; congruence|split; [intros g H; inversion H; symmetry; exact (Hx C)|exact (B5 c)]].
    + intros H. destruct (ND H).
  - apply (kbase_upd s c (d_finish Shutdown (dy s c)) _ K Hd Hdn); unfold d_finish; rewrite R; cbn.
    + intros g H. inversion H. left. reflexivity.
    + intros g H. exact (b_pend _ K c g H).
    + intros _ H. discriminate.
    + intros r _ H. discriminate.
    + intros _. reflexivity.
    + exact (b_fresh _ K c).
    + intros C. destruct (b_calm _ K C) as [_ [B2 B5]].
      split; [intros g H; inversion H; symmetry; exact (Hx C)|split; [exact (B2 c)|exact (B5 c)]].
    + intros H. destruct (ND H).
Qed.

(* the final state given by postMortemCheck (the component is in post-mortem: the state is set at once) *)
Lemma finish_exact_K s c f :
  Inv s -> kbase s -> ctl (dy s c) = None -> is_run (cstate (dy s c)) = false ->
  0 < runs (dy s c) -> f = walk0 W outcome c -> (qcalm s -> f = spec c) ->
  kbase (finish s c f) /\ (calm (finish s c f) <-> calm s).
Proof.
  intros [I1 [I2 _]] K Hc R Hrun Hw Hf.
  assert (Hd : forall x, dy (finish s c f) x = upd (dy s) c (d_finish f (dy s c)) x)
    by (intros x; unfold finish; destruct (negb _ && negb _); reflexivity).
  assert (Hdn : done (finish s c f) = done s) by (unfold finish; destruct (negb _ && negb _); reflexivity).
  assert (ND : In c (done s) -> False).
  { intros H. specialize (I2 c H). unfold pstate in I2. apply is_fin_ctl in I2 as [g Hg]. congruence. }
  apply (kbase_upd s c (d_finish f (dy s c)) _ K Hd Hdn); unfold d_finish; rewrite R; cbn.
  - intros g H. right. inversion H. subst g. split; [exact Hrun|exact Hw].
  - intros g H. exact (b_pend _ K c g H).
  - intros _ H. discriminate.
  - intros r _ H. discriminate.
  - intros _. reflexivity.
  - exact (b_fresh _ K c).
  - intros C. destruct (b_calm _ K C) as [_ [B2 B5]].
    split; [intros g H; inversion H; subst g; exact (Hf C)|split; [exact (B2 c)|exact (B5 c)]].
  - intros H. destruct (ND H).
Qed.

Lemma fake_finish_K s c :
  Inv s -> kbase s -> staged (dy s c) = false -> (qcalm s -> spec c = Shutdown) ->
  kbase (fake_finish s c Shutdown) /\ (calm (fake_finish s c Shutdown) <-> calm s).
Proof.
  intros I K Us Hx. pose proof I as [I1 [I2 _]].
  destruct (l_unstaged _ (I1 c) Us) as [He [Hctl [Hr Hf]]].
  destruct (fake_finish_ok s c Shutdown I Us) as [_ [_ [C [_ [Do [Dc _]]]]]].
  assert (Hd : forall x, dy (fake_finish s c Shutdown) x = upd (dy s) c (d_finish Shutdown (d_stage (dy s c))) x).
  { intros x. unfold upd. destruct (Nat.eqb x c) eqn:E; [apply Nat.eqb_eq in E; subst x; exact Dc|apply Nat.eqb_neq in E; exact (Do x E)]. }
  assert (Hdn : done (fake_finish s c Shutdown) = done s) by (unfold core in C; congruence).
  assert (R : is_run (cstate (d_stage (dy s c))) = true) by (unfold cstate, d_stage; cbn; rewrite Hctl, He; reflexivity).
  apply (kbase_upd s c _ _ K Hd Hdn); unfold d_finish; rewrite R; unfold d_stage; cbn.
  - intros g H. exact (b_ctl _ K c g H).
  - intros g H. inversion H. reflexivity.
  - intros _ H. discriminate.
  - intros r _ H. discriminate.
  - intros _. reflexivity.
  - exact (b_fresh _ K c).
  - intros Cm. destruct (b_calm _ K Cm) as [_ [_ B5]].
    split; [intros g H; congruence|split; [intros g H; inversion H; symmetry; exact (Hx Cm)|exact (B5 c)]].
  - intros H. specialize (I2 c H). unfold pstate in I2. apply is_fin_ctl in I2 as [g Hg]. congruence.
Qed.

Lemma kbase_same s s' : dy s' = dy s -> done s' = done s -> kbase s -> kbase s' /\ (calm s' <-> calm s).
Proof.
  intros Hd Hn K. assert (C : calm s' <-> calm s) by (unfold calm; rewrite Hd, Hn; tauto).
  split; [|exact C]. destruct K. constructor; rewrite ?Hd; auto. intros X. apply (qcalm_iff s s' C) in X. auto.
Qed.

Lemma not_qcalm s (P : Prop) : ~ calm s -> qcalm s -> P.
Proof. intros NC [_ [_ C]]. destruct (NC C). Qed.

(* ---- folds used by the failure handling, in a state where a failure has already been observed *)
Lemma stop_components_K : forall cs s,
  Inv s -> kbase s -> ~ calm s -> (forall c, In c cs -> staged (dy s c) = true) ->
  kbase (stop_components s cs) /\ ~ calm (stop_components s cs).
Proof.
  induction cs as [|c cs IH]; intros s I K NC Hs; cbn [stop_components fold_left]; [split; assumption|].
  fold (stop_components (if alive (dy s c) && negb (finish_called (dy s c)) then finish s c Shutdown else s) cs).
  destruct (alive (dy s c) && negb (finish_called (dy s c))) eqn:G.
  - apply andb_true_iff in G as [G1 _].
    destruct (finish_ok s c Shutdown I (alive_ctl _ G1) (Hs c (or_introl eq_refl))) as [I' [X' _]].
    destruct (finish_K s c I K (alive_ctl _ G1) (not_qcalm s _ NC)) as [K' C'].
    apply IH; [exact I'|exact K'|intros C; apply NC, C', C|].
    intros x Hx. apply (x_staged _ _ X'). apply Hs. right. exact Hx.
  - apply IH; [exact I|exact K|exact NC|]. intros x Hx. apply Hs. right. exact Hx.
Qed.

Lemma kill_fold_K : forall l s,
  Inv s -> kbase s -> ~ calm s ->
  kbase (fold_left (fun s c => if negb (finish_called (dy s c)) && alive (dy s c)
                        then (if staged (dy s c) then finish s c Shutdown else fake_finish s c Shutdown)
                        else s) l s).
Proof.
  induction l as [|c l IH]; intros s I K NC; cbn [fold_left]; [exact K|].
  destruct (negb (finish_called (dy s c)) && alive (dy s c)) eqn:G; [|apply IH; assumption].
  apply andb_true_iff in G as [_ G2]. destruct (staged (dy s c)) eqn:St.
  - destruct (finish_ok s c Shutdown I (alive_ctl _ G2) St) as [I' _].
    destruct (finish_K s c I K (alive_ctl _ G2) (not_qcalm s _ NC)) as [K' C'].
    apply IH; [exact I'|exact K'|intros C; apply NC, C', C].
  - destruct (fake_finish_ok s c Shutdown I St) as [I' _].
    destruct (fake_finish_K s c I K St (not_qcalm s _ NC)) as [K' C'].
    apply IH; [exact I'|exact K'|intros C; apply NC, C', C].
Qed.

Lemma fake_fold_K : forall cs s,
  Inv s -> kbase s -> ~ calm s ->
  let s' := fold_left (fun s x => if negb (staged (dy s x)) && negb (finish_called (dy s x))
                                  then fake_finish s x Shutdown else s) cs s in
  kbase s' /\ ~ calm s'.
Proof.
  induction cs as [|c cs IH]; intros s I K NC; cbn [fold_left]; [split; assumption|].
  destruct (negb (staged (dy s c)) && negb (finish_called (dy s c))) eqn:G; [|apply IH; assumption].
  apply andb_true_iff in G as [G1 _]. apply negb_true_iff in G1.
  destruct (fake_finish_ok s c Shutdown I G1) as [I' _].
  destruct (fake_finish_K s c I K G1 (not_qcalm s _ NC)) as [K' C'].
  apply IH; [exact I'|exact K'|intros C; apply NC, C', C].
Qed.

(* ---- the scheduler pass *)
Lemma deps_agree_K s c : Inv s -> kbase s -> qcalm s -> deps_ok W true s c = true -> shutdown_rule W s c = rule spec c.
Proof.
  intros [I1 [I2 _]] K C H. destruct (b_calm _ K C) as [Ex _]. destruct C as [_ [Subjects _]]. apply rule_agree. intros p Hp.
  unfold deps_ok in H. rewrite forallb_forall in H. specialize (H p Hp). apply orb_true_iff in H as [H|H].
  - apply memn_In in H. specialize (I2 p H). unfold pstate in I2. apply is_fin_ctl in I2 as [f Hf].
    rewrite <- (Ex p f Hf). exact (pstate_of_ctl s p f Hf).
  - apply andb_true_iff in H as [H H3]. apply andb_true_iff in H as [H1 H2]. cbn in H3. apply negb_true_iff in H3.
    rewrite (Subjects c p Hp H1). cbn. apply pstate_of_none. apply linv_ctl_none_of_not_fc; [apply I1|exact H3].
Qed.

(* the components collected for launching are, as long as the state is calm, not shut down by the rule *)
Definition ready_q (si : state) (ready : list nat) : Prop := qcalm si -> ready_ok W outcome ready.

Lemma visit_K s si ready c :
  PassInv W s si ready -> kbase si -> ready_q si ready ->
  kbase (fst (sched_visit W true (si, ready) c)) /\
  (calm (fst (sched_visit W true (si, ready) c)) <-> calm si) /\
  ready_q (fst (sched_visit W true (si, ready) c)) (snd (sched_visit W true (si, ready) c)).
Proof.
  intros P K R. unfold sched_visit.
  destruct (memn c (done si) || is_fin (pstate si c) || staged (dy si c) || negb (deps_ok W true si c)) eqn:G;
    [split; [exact K|split; [tauto|exact R]]|].
  apply orb_false_iff in G as [G G4]. apply negb_false_iff in G4. apply orb_false_iff in G as [_ G3].
  destruct (shutdown_rule W si c) eqn:Sr; cbn [fst snd].
  - destruct (fake_finish_K si c (p_inv _ _ _ _ P) K G3) as [K' C'].
    { intros Q. pose proof (deps_agree_K si c (p_inv _ _ _ _ P) K Q G4) as A.
      destruct Q as [WF _]. rewrite (spec_eq W outcome WF c), <- A, Sr. reflexivity. }
    split; [exact K'|split; [exact C'|]]. intros Q. apply R. apply (qcalm_iff si _ C'). exact Q.
  - split; [exact K|split; [tauto|]]. intros Q x Hx. apply in_app_or in Hx as [Hx|[<-|[]]]; [exact (R Q x Hx)|].
    rewrite <- (deps_agree_K si c (p_inv _ _ _ _ P) K Q G4). exact Sr.
Qed.

Lemma visits_K s : forall l si ready,
  PassInv W s si ready -> NoDup l -> (forall c, In c ready -> ~ In c l) ->
  kbase si -> ready_q si ready ->
  kbase (fst (fold_left (sched_visit W true) l (si, ready))) /\
  (calm (fst (fold_left (sched_visit W true) l (si, ready))) <-> calm si) /\
  ready_q (fst (fold_left (sched_visit W true) l (si, ready))) (snd (fold_left (sched_visit W true) l (si, ready))).
Proof.
  induction l as [|c l IH]; intros si ready P Hl Hr K R; cbn [fold_left]; [split; [exact K|split; [tauto|exact R]]|].
  inversion Hl as [|? ? Hc Hl']; subst.
  assert (Hn : ~ In c ready) by (intros H; apply (Hr c H); left; reflexivity).
  pose proof (visit_ok W s si ready c P Hn) as V.
  pose proof (visit_K s si ready c P K R) as VK.
  destruct (sched_visit W true (si, ready) c) as [si' ready'] eqn:E. destruct V as [P' Sub]. destruct VK as [K' [C' R']].
  cbn [fst snd] in *.
  destruct (IH si' ready' P' Hl') as [K2 [C2 R2]]; auto.
  - intros x Hx Hi. destruct (Sub x Hx) as [H|H]; [apply (Hr x H); right; exact Hi|subst x; contradiction].
  - split; [exact K2|split; [tauto|exact R2]].
Qed.

Lemma sched_pass_K s : Inv s -> kbase s -> kbase (sched_pass W true s) /\ (calm (sched_pass W true s) <-> calm s).
Proof.
  intros I K. unfold sched_pass.
  pose proof (visits_ok W s (nodes W) s [] (PassInv_init W s I) (seq_NoDup _ _) (fun c H => match H with end)) as P.
  pose proof (visits_K s (nodes W) s [] (PassInv_init W s I) (seq_NoDup _ _) (fun c H => match H with end)
                K (fun _ c H => match H with end)) as [K1 [C1 R1]].
  destruct (fold_left (sched_visit W true) (nodes W) (s, [])) as [s1 ready] eqn:E. cbn [fst snd] in *.
  destruct (stop s1); [split; assumption|].
  destruct (submit_spec s1 ready (p_nodup _ _ _ _ P)) as [D [C F]].
  pose proof (p_inv _ _ _ _ P) as [I1 [I2 _]]. unfold core in C.
  assert (Dn' : done (submit s1 ready) = done s1) by congruence.
  assert (Dr : forall c, In c ready -> dy (submit s1 ready) c =
            {| staged := true; runs := S (runs (dy s1 c)); finish_called := finish_called (dy s1 c);
               pending := pending (dy s1 c); kill_req := kill_req (dy s1 c); e := Active; ctl := ctl (dy s1 c);
               restarts := restarts (dy s1 c); resub := resub (dy s1 c); shut := shut (dy s1 c) |} /\
            runs (dy s1 c) = 0 /\ ctl (dy s1 c) = None).
  { intros c Hc. rewrite D. apply memn_In in Hc as M. rewrite M. destruct (p_ready _ _ _ _ P c Hc) as [Us _].
    split; [apply launch_eq; [apply I1|exact Us]|]. destruct (l_unstaged _ (I1 c) Us) as [_ [Hct [Hr _]]]. split; assumption. }
  assert (Dn : forall c, ~ In c ready -> dy (submit s1 ready) c = dy s1 c).
  { intros c Hc. rewrite D. destruct (memn c ready) eqn:M; [apply memn_In in M; contradiction|reflexivity]. }
  assert (Ctl : forall c, ctl (dy (submit s1 ready) c) = ctl (dy s1 c) /\ pending (dy (submit s1 ready) c) = pending (dy s1 c)).
  { intros c. destruct (in_dec Nat.eq_dec c ready) as [Hc|Hc]; [destruct (Dr c Hc) as [-> _]; split; reflexivity|rewrite (Dn c Hc); split; reflexivity]. }
  assert (Cm : calm (submit s1 ready) <-> calm s1).
  { unfold calm. rewrite Dn'. split; intros H c Hc; specialize (H c Hc); destruct (Ctl c) as [Q _]; congruence. }
  split; [|tauto].
  constructor.
  - intros c f. destruct (in_dec Nat.eq_dec c ready) as [Hc|Hc].
    + destruct (Dr c Hc) as [-> [_ Hn]]. cbn. rewrite Hn. discriminate.
    + rewrite (Dn c Hc). exact (b_ctl _ K1 c f).
  - intros c f. destruct (Ctl c) as [_ Q]. rewrite Q. exact (b_pend _ K1 c f).
  - intros c. destruct (in_dec Nat.eq_dec c ready) as [Hc|Hc]; [|rewrite (Dn c Hc); exact (b_walk _ K1 c)].
    destruct (Dr c Hc) as [-> [Hr _]]. cbn. destruct (b_fresh _ K1 c Hr) as [F1 F2]. rewrite Hr, F1, F2. cbn.
    intros _ _. rewrite Nat.sub_0_r. repeat split; lia.
  - intros c r. destruct (in_dec Nat.eq_dec c ready) as [Hc|Hc];
      [destruct (Dr c Hc) as [-> _]; cbn; discriminate|rewrite (Dn c Hc); exact (b_exit _ K1 c r)].
  - intros c. destruct (in_dec Nat.eq_dec c ready) as [Hc|Hc];
      [destruct (Dr c Hc) as [-> _]; cbn; exact (b_shut _ K1 c)|rewrite (Dn c Hc); exact (b_shut _ K1 c)].
  - intros c. destruct (in_dec Nat.eq_dec c ready) as [Hc|Hc];
      [destruct (Dr c Hc) as [-> _]; cbn; discriminate|rewrite (Dn c Hc); exact (b_fresh _ K1 c)].
  - intros Cx. apply (qcalm_iff s1 _ Cm) in Cx. destruct (b_calm _ K1 Cx) as [B1 [B2 B5]]. split; [|split].
    + intros c f. destruct (Ctl c) as [Q1 _]. rewrite Q1. exact (B1 c f).
    + intros c f. destruct (Ctl c) as [_ Q2]. rewrite Q2. exact (B2 c f).
    + intros c. destruct (in_dec Nat.eq_dec c ready) as [Hc|Hc];
        [intros _; exact (R1 Cx c Hc)|rewrite (Dn c Hc); exact (B5 c)].
Qed.

(* ---- the other events *)
Lemma exit_K s c s' : Inv s -> kbase s -> exit_comp W outcome s c = Some s' -> kbase s' /\ (calm s' <-> calm s).
Proof.
  intros I K H. pose proof I as [I1 [I2 _]]. unfold exit_comp in H.
  destruct (negb (c <? ncomp W) || negb (exit_enabled (dy s c))) eqn:G; [discriminate|].
  apply orb_false_iff in G as [_ G]. apply negb_false_iff in G. pose proof (I1 c) as L.
  assert (Hctl : ctl (dy s c) = None).
  { destruct (ctl (dy s c)) as [g|] eqn:E; [|reflexivity]. destruct (l_ctl _ L g E) as [_ [r Er]].
    unfold exit_enabled in G. rewrite Er in G. discriminate. }
  assert (ND : In c (done s) -> False).
  { intros Hx. specialize (I2 c Hx). unfold pstate in I2. apply is_fin_ctl in I2 as [g Hg]. congruence. }
  destruct (finish_called (dy s c)) eqn:Fc.
  - match type of H with context [set_dy s c ?D] => set (d' := D) in * end.
    assert (KB : forall s'', (forall x, dy s'' x = upd (dy s) c d' x) -> done s'' = done s -> kbase s'' /\ (calm s'' <-> calm s)).
    { intros s'' Hd Hdn. apply (kbase_upd s c d' s'' K Hd Hdn); unfold d'; cbn.
      - intros f Hf. left. exact (b_pend _ K c f Hf).
      - exact (b_pend _ K c).
      - intros _ Hx. discriminate.
      - intros r _ Hx. discriminate.
      - intros _. reflexivity.
      - exact (b_fresh _ K c).
      - intros C. destruct (b_calm _ K C) as [_ [B2 B5]]. split; [exact (B2 c)|split; [exact (B2 c)|exact (B5 c)]].
      - intros Hx. destruct (ND Hx). }
    destruct (pending (dy s c)); inversion H; subst s'; (apply KB; [intros x; reflexivity|reflexivity]).
  - match type of H with context [set_dy s c ?D] => set (d' := D) in * end.
    assert (Act : e (dy s c) = Active).
    { unfold exit_enabled in G. destruct (e (dy s c)) eqn:E; [|reflexivity|discriminate]. apply (l_kill _ L) in G. congruence. }
    inversion H; subst s'.
    match goal with |- kbase ?S /\ _ => apply (kbase_upd s c d' S K (fun x => eq_refl) eq_refl) end; unfold d'; cbn.
    + exact (b_ctl _ K c).
    + exact (b_pend _ K c).
    + intros H1 _. exact (b_walk _ K c H1 Fc).
    + intros r Hr _. rewrite Act in Hr. inversion Hr. reflexivity.
    + intros Hx. pose proof (b_shut _ K c Hx). congruence.
    + exact (b_fresh _ K c).
    + intros C. destruct (b_calm _ K C) as [B1 [B2 B5]]. split; [exact (B1 c)|split; [exact (B2 c)|exact (B5 c)]].
    + intros _. reflexivity.
Qed.

Lemma pm_K s c s' : Inv s -> kbase s -> deliver_pm W s c = Some s' -> kbase s' /\ (calm s' <-> calm s).
Proof.
  intros I K H. unfold deliver_pm in H. destruct (negb (memn c (pmq s))); [discriminate|].
  match type of H with context [dy ?S0 c] => set (s0 := S0) in * end.
  assert (I0 : Inv s0) by (apply (Inv_sub s); auto).
  destruct (kbase_same s s0 eq_refl eq_refl K) as [K0 C0].
  assert (Ds : dy s0 = dy s) by reflexivity. assert (Dn0 : done s0 = done s) by reflexivity. clearbody s0.
  pose proof I0 as [I1 [I2 _]]. pose proof (I1 c) as L.
  destruct (finish_called (dy s0 c)) eqn:Fc; [inversion H; subst; split; assumption|].
  destruct (e (dy s0 c)) as [| |r] eqn:Ee; try (inversion H; subst; split; assumption).
  assert (Hrun : 0 < runs (dy s0 c)) by exact (l_exited _ L r Ee Fc).
  assert (Hctl : ctl (dy s0 c) = None) by (apply linv_ctl_none_of_not_fc; auto).
  assert (Hst : staged (dy s0 c) = true) by (apply linv_staged_of_nonidle; [exact L|congruence]).
  assert (Hshut : shut (dy s0 c) = false).
  { destruct (shut (dy s0 c)) eqn:Sh; [|reflexivity]. pose proof (b_shut _ K0 c Sh). congruence. }
  destruct (b_walk _ K0 c Hrun Fc) as [Wn [Wr [Wb Ww]]].
  pose proof (b_exit _ K0 c r Ee Fc) as Hr.
  set (n := Nat.pred (runs (dy s0 c))) in *.
  assert (Fu : fuel_of W c - n = S (fuel_of W c - S n)) by (unfold fuel_of; lia).
  rewrite (restart_decision_decide W c _ r Hshut) in H.
  rewrite Fu in Ww. cbn [walk] in Ww. rewrite <- Hr in Ww.
  destruct (decide W c (restarts (dy s0 c), resub (dy s0 c)) r) as [[rs' rb']|] eqn:Dc.
  - destruct (decide_bounds W c _ _ r rs' rb' Dc Wr Wb) as [B1 [B2 B3]].
    inversion H; subst s'.
    match goal with |- kbase (set_dy s0 c ?D) /\ _ => set (d' := D) end.
    destruct (kbase_upd s0 c d' (set_dy s0 c d') K0 (fun x => eq_refl) eq_refl) as [K' C']; unfold d'; cbn.
    + intros f Hf. destruct (b_ctl _ K0 c f Hf) as [X|[X1 X2]]; [left; exact X|right; split; [lia|exact X2]].
    + exact (b_pend _ K0 c).
    + intros _ _. replace (runs (dy s0 c)) with (S n) by (unfold n; lia). repeat split; try lia. exact Ww.
    + intros r0 Hx. discriminate.
    + intros Hx. congruence.
    + intros Hx. discriminate.
    + intros C. destruct (b_calm _ K0 C) as [E1 [E2 E5]]. split; [exact (E1 c)|split; [exact (E2 c)|intros _; exact (E5 c Hrun)]].
    + intros _. reflexivity.
    + split; [exact K'|tauto].
  - inversion H; subst s'.
    assert (NR : is_run (cstate (dy s0 c)) = false) by (unfold cstate; rewrite Hctl, Ee; reflexivity).
    destruct (finish_exact_K s0 c (final_of_reason W c r) I0 K0 Hctl NR Hrun) as [K' C'].
    { rewrite <- Ww. reflexivity. }
    { intros Q. destruct (b_calm _ K0 Q) as [_ [_ E5]]. destruct Q as [WF _].
      rewrite (spec_eq W outcome WF c), (E5 c Hrun). rewrite <- Ww. reflexivity. }
    split; [exact K'|tauto].
Qed.

(* finishedCheck: the state stays calm unless the delivered component is failed *)
Lemma fin_K s c s' : Inv s -> kbase s -> deliver_fin W s c = Some s' ->
  kbase s' /\ (calm s' -> calm s) /\ (calm s -> ctl (dy s c) <> Some Failed -> calm s').
Proof.
  intros I K H. unfold deliver_fin in H. destruct (memn c (finq s)) eqn:M; [|discriminate]. cbn [negb] in H.
  apply memn_In in M.
  match type of H with context [is_failed (pstate ?S0 c)] => set (s0 := S0) in * end.
  assert (Fc : is_fin (pstate s c) = true) by (destruct I as [_ [_ I3]]; exact (I3 c M)).
  set (t := add_done s0 c).
  assert (It : Inv t).
  { destruct I as [I1 [I2 I3]]. split; [exact I1|split].
    - intros x Hx. cbn in Hx. apply in_app_or in Hx as [Hx|[<-|[]]]; [exact (I2 x Hx)|exact Fc].
    - intros x Hx. cbn in Hx. exact (I3 x (In_remove1 _ _ _ Hx)). }
  inversion H; subst s'; clear H.
  match goal with |- kbase {| dy := dy ?S1; done := _; stop := _; cur := _; pmq := _; finq := _; running := _; verdict := _ |} /\ _ =>
    change {| dy := dy S1; done := done S1 ++ [c]; stop := stop S1; cur := cur S1; pmq := pmq S1; finq := finq S1;
              running := running S1; verdict := verdict S1 |} with (add_done S1 c) end.
  destruct (is_failed (pstate s0 c)) eqn:Fl.
  - (* a failed component is observed: from now on the state is not calm *)
    assert (Fd : ctl (dy s c) = Some Failed).
    { unfold pstate, cstate in Fl. change (dy s0 c) with (dy s c) in Fl.
      destruct (ctl (dy s c)) as [[| |]|]; try discriminate; [reflexivity|destruct (e (dy s c)); discriminate]. }
    assert (NCt : ~ calm t).
    { intros C. apply (C c); [cbn; apply in_or_app; right; left; reflexivity|exact Fd]. }
    assert (Kt : kbase t).
    { destruct K. constructor; auto. intros C. exact (not_qcalm t _ NCt C). }
    match goal with |- context [if ?b then kill_all W s0 else _] => destruct b end.
    + rewrite <- kill_all_add_done. fold t. unfold kill_all.
      set (t0 := {| dy := dy t; done := done t; stop := true; cur := cur t; pmq := pmq t; finq := finq t;
                    running := running t; verdict := verdict t |}).
      assert (It0 : Inv t0) by exact It.
      destruct (kbase_same t t0 eq_refl eq_refl Kt) as [Kt0 Ct0].
      assert (NC0 : ~ calm t0) by (intros X; apply NCt, Ct0, X).
      split; [exact (kill_fold_K (nodes W) t0 It0 Kt0 NC0)|]. split.
      * intros C. exfalso. destruct (kill_fold_ok (nodes W) t0 It0) as [_ [X [Dn _]]]. cbn zeta in X, Dn.
        apply NCt. intros x Hx. specialize (C x). rewrite Dn in C. specialize (C Hx). intros E.
        apply C. exact (x_ctl _ _ X x _ E).
      * intros _ NF. contradiction.
    + rewrite <- stop_components_add_done, <- fake_fold_add_done. fold t.
      destruct (fake_fold_ok (stage_nodes W (stage (cmp W c))) t It) as [A [_ [_ [_ Sg]]]].
      destruct (fake_fold_K (stage_nodes W (stage (cmp W c))) t It Kt NCt) as [K1 NC1].
      destruct (stop_components_K (stage_nodes W (stage (cmp W c))) _ A K1 NC1 Sg) as [K2 NC2].
      split; [exact K2|split; [intros C; destruct (NC2 C)|intros _ NF; contradiction]].
  - (* not failed: calm is preserved *)
    assert (Ctl : ctl (dy s c) <> Some Failed).
    { intros E. unfold pstate, cstate in Fl. change (dy s0 c) with (dy s c) in Fl. rewrite E in Fl. discriminate. }
    assert (Cm : calm (add_done s0 c) <-> calm s).
    { unfold calm. cbn. split; intros X x Hx.
      - apply X. apply in_or_app. left. exact Hx.
      - apply in_app_or in Hx as [Hx|[<-|[]]]; [exact (X x Hx)|exact Ctl]. }
    split; [|split; [apply Cm|intros C _; apply Cm, C]].
    destruct K. constructor; auto. intros X. apply (qcalm_iff s _ Cm) in X. auto.
Qed.

Lemma tick_K s s' : Inv s -> kbase s -> tick W true s = Some s' -> kbase s' /\ (calm s' <-> calm s).
Proof.
  intros I K H. unfold tick in H. destruct (cur s) as [i|]; [|discriminate]. destruct (running s); [|discriminate].
  inversion H; subst s'. destruct (stage_done W s i) eqn:Sd; [|exact (sched_pass_K s I K)].
  unfold end_stage. rewrite stop_components_noop.
  - exact (kbase_same s {| dy := dy s; done := done s; stop := stop s; cur := cur s; pmq := pmq s;
        finq := finq s; running := false; verdict := Some (compute_verdict W s i) |} eq_refl eq_refl K).
  - intros c Hc. unfold stage_done in Sd. rewrite forallb_forall in Sd. specialize (Sd c Hc). apply memn_In in Sd.
    destruct I as [_ [I2 _]]. exact (I2 c Sd).
Qed.

Lemma start_K s s' : Inv s -> kbase s -> start_stage W true s = Some s' -> kbase s' /\ (calm s' <-> calm s).
Proof.
  intros I K H. unfold start_stage in H. destruct (running s); [discriminate|].
  match type of H with (if ?b then _ else _) = _ => destruct b; [|discriminate] end.
  match type of H with Some (sched_pass W true ?S0) = _ => set (s0 := S0) in * end.
  assert (I0 : Inv s0) by (apply (Inv_sub s); auto).
  destruct (kbase_same s s0 eq_refl eq_refl K) as [K0 C0].
  inversion H; subst s'. destruct (sched_pass_K s0 I0 K0) as [K1 C1]. split; [exact K1|tauto].
Qed.

Lemma step_K s ev s' : Inv s -> kbase s -> step W true outcome s ev = Some s' ->
  kbase s' /\ (calm s' -> calm s) /\ ((forall c, ev <> Fin c) -> calm s -> calm s').
Proof.
  intros I K H. destruct ev as [| |c|c|c]; cbn [step] in H.
  - destruct (start_K s s' I K H) as [A B]. split; [exact A|split; [apply B|intros _; apply B]].
  - destruct (tick_K s s' I K H) as [A B]. split; [exact A|split; [apply B|intros _; apply B]].
  - destruct (exit_K s c s' I K H) as [A B]. split; [exact A|split; [apply B|intros _; apply B]].
  - destruct (pm_K s c s' I K H) as [A B]. split; [exact A|split; [apply B|intros _; apply B]].
  - destruct (fin_K s c s' I K H) as [A [B _]]. split; [exact A|split; [exact B|]]. intros X. destruct (X c eq_refl).
Qed.

Lemma run_K : forall evs s s', Inv s -> kbase s -> run W true outcome s evs = Some s' -> kbase s' /\ (calm s' -> calm s).
Proof.
  induction evs as [|ev evs IH]; intros s s' I K H; cbn [run] in H.
  - inversion H; subst. split; [exact K|tauto].
  - destruct (step W true outcome s ev) as [s1|] eqn:E; [|discriminate].
    destruct (step_ok W outcome s ev s1 I E) as [I1 _].
    destruct (step_K s ev s1 I K E) as [K1 [C1 _]].
    destruct (IH s1 s' I1 K1 H) as [K2 C2]. split; [exact K2|tauto].
Qed.

(* a state that is not calm contains a failed component that finishedCheck has handled *)
Lemma not_calm_witness s : ~ calm s -> exists c, In c (done s) /\ ctl (dy s c) = Some Failed.
Proof.
  unfold calm. induction (done s) as [|x l IH]; intros NC.
  - exfalso. apply NC. intros c [].
  - assert (Rec : ctl (dy s x) <> Some Failed -> exists c, In c (x :: l) /\ ctl (dy s c) = Some Failed).
    { intros NF. destruct IH as [c [Hc Hf]]; [intros C; apply NC; intros c [<-|H]; [exact NF|exact (C c H)]|].
      exists c. split; [right; exact Hc|exact Hf]. }
    destruct (ctl (dy s x)) as [[| |]|] eqn:E.
    + apply Rec. discriminate.
    + apply Rec. discriminate.
    + exists x. split; [left; reflexivity|exact E].
    + apply Rec. discriminate.
Qed.

(* ------------------------------------------------------------------ workflows of one stage *)
Section Single.
Hypothesis WF : wf W.
Hypothesis Subjects : subjects_ok.
Hypothesis Single : forall c, stage (cmp W c) = 0.

(* once a failure has been observed every component is staged: nothing is launched any more; and every
   component that was launched was launched against producers in their rule-given states *)
Definition sinv (s : state) : Prop :=
  (~ calm s -> forall c, c < ncomp W -> staged (dy s c) = true) /\
  (forall c, 0 < runs (dy s c) -> rule spec c = false).

Lemma sinv_state0 : sinv state0.
Proof. split; [intros H; exfalso; apply H; intros x []|cbn; intros; lia]. Qed.

Lemma stage_nodes_all c : c < ncomp W -> In c (stage_nodes W 0).
Proof.
  intros H. unfold stage_nodes. apply filter_In. split; [unfold nodes; apply in_seq; lia|]. rewrite Single. reflexivity.
Qed.

Lemma qcalm_of_calm s : calm s -> qcalm s.
Proof. intros C. split; [exact WF|split; [exact Subjects|exact C]]. Qed.

(* a failure is observed: every component gets staged *)
Lemma fin_S s c s' : Inv s -> deliver_fin W s c = Some s' -> ctl (dy s c) = Some Failed ->
  forall x, x < ncomp W -> staged (dy s' x) = true.
Proof.
  intros I H Fd. unfold deliver_fin in H. destruct (memn c (finq s)) eqn:M; [|discriminate]. cbn [negb] in H.
  apply memn_In in M.
  match type of H with context [is_failed (pstate ?S0 c)] => set (s0 := S0) in * end.
  assert (Fc : is_fin (pstate s c) = true) by (destruct I as [_ [_ I3]]; exact (I3 c M)).
  set (t := add_done s0 c).
  assert (It : Inv t).
  { destruct I as [I1 [I2 I3]]. split; [exact I1|split].
    - intros x Hx. cbn in Hx. apply in_app_or in Hx as [Hx|[<-|[]]]; [exact (I2 x Hx)|exact Fc].
    - intros x Hx. cbn in Hx. exact (I3 x (In_remove1 _ _ _ Hx)). }
  inversion H; subst s'; clear H.
  assert (Fl : is_failed (pstate s0 c) = true).
  { unfold pstate, cstate. change (dy s0 c) with (dy s c). rewrite Fd. reflexivity. }
  rewrite Fl.
  match goal with |- forall x, _ -> staged (dy {| dy := dy ?S1; done := _; stop := _; cur := _; pmq := _; finq := _; running := _; verdict := _ |} x) = true =>
    change (forall x, x < ncomp W -> staged (dy S1 x) = true) end.
  match goal with |- context [if ?b then kill_all W s0 else _] => destruct b end.
  - intros x Hx. change (dy (kill_all W s0) x) with (dy (add_done (kill_all W s0) c) x).
    rewrite <- kill_all_add_done. fold t. unfold kill_all.
    set (t0 := {| dy := dy t; done := done t; stop := true; cur := cur t; pmq := pmq t; finq := finq t;
                  running := running t; verdict := verdict t |}).
    assert (It0 : Inv t0) by exact It.
    apply (kill_fold_staged (nodes W) t0 It0). unfold nodes. apply in_seq. lia.
  - intros x Hx. rewrite Single.
    match goal with |- staged (dy ?S1 x) = true => change (dy S1 x) with (dy (add_done S1 c) x) end.
    rewrite <- stop_components_add_done, <- fake_fold_add_done. fold t.
    destruct (fake_fold_ok (stage_nodes W 0) t It) as [A [_ [_ [_ Sg]]]].
    destruct (stop_components_ok (stage_nodes W 0) _ A Sg) as [_ [X2 _]].
    apply (x_staged _ _ X2). apply Sg. exact (stage_nodes_all x Hx).
Qed.

Lemma all_staged_visits s : forall l, (forall c, In c l -> staged (dy s c) = true) ->
  fold_left (sched_visit W true) l (s, []) = (s, []).
Proof.
  induction l as [|c l IH]; intros H; cbn [fold_left]; [reflexivity|].
  unfold sched_visit at 2. rewrite (H c (or_introl eq_refl)).
  rewrite orb_true_r. cbn [orb]. apply IH. intros x Hx. apply H. right. exact Hx.
Qed.

Lemma step_S s ev s' : Inv s -> kbase s -> sinv s -> step W true outcome s ev = Some s' -> sinv s'.
Proof.
  intros I K [S1 S2] H.
  destruct (step_ok W outcome s ev s' I H) as [I' [X LG]].
  destruct (step_K s ev s' I K H) as [K' [C1 C2]].
  assert (Part1 : ~ calm s' -> forall c, c < ncomp W -> staged (dy s' c) = true).
  { intros NC x Hx. destruct (Classical_calm s) as [C|NC0].
    - destruct ev as [| |c|c|c]; try (exfalso; apply NC, C2; [intros c0; discriminate|exact C]).
      cbn [step] in H. destruct (fin_K s c s' I K H) as [_ [_ C3]].
      destruct (ctl (dy s c)) as [[| |]|] eqn:E; try (exfalso; apply NC, C3; [exact C|congruence]).
      exact (fin_S s c s' I H E x Hx).
    - apply (x_staged _ _ X). exact (S1 NC0 x Hx). }
  split; [exact Part1|].
  intros c Hr. destruct (Nat.eq_dec (runs (dy s c)) 0) as [Z|NZ]; [|apply S2; lia].
  destruct (Classical_calm s') as [C|NC].
  - destruct (b_calm _ K' (qcalm_of_calm s' C)) as [_ [_ B5]]. exact (B5 c Hr).
  - exfalso. destruct (LG c Z Hr) as [_ G].
    (* a first launch happens only in a scheduler pass, from an unstaged component *)
    assert (NC0 : ~ calm s).
    { intros C. destruct ev as [| |c0|c0|c0]; try (apply NC, C2; [intros c1; discriminate|exact C]).
      cbn [step] in H. destruct (deliver_fin_ok W s c0 s' I H) as [_ [_ LF]]. specialize (LF c Z). lia. }
    destruct ev as [| |c0|c0|c0]; cbn [step] in H.
    + unfold start_stage in H. destruct (running s); [discriminate|].
      match type of H with (if ?b then _ else _) = _ => destruct b; [|discriminate] end.
      match type of H with Some (sched_pass W true ?S0) = _ => set (s0 := S0) in * end.
      inversion H; subst s'. unfold sched_pass in Hr.
      rewrite (all_staged_visits s0 (nodes W)) in Hr by (intros x Hx; exact (S1 NC0 x (in_nodes W x Hx))).
      cbn in Hr. lia.
    + unfold tick in H. destruct (cur s) as [i|]; [|discriminate]. destruct (running s); [|discriminate].
      inversion H; subst s'. destruct (stage_done W s i) eqn:Sd.
      * unfold end_stage in Hr. rewrite stop_components_noop in Hr; [cbn in Hr; lia|].
        intros x Hx. unfold stage_done in Sd. rewrite forallb_forall in Sd. specialize (Sd x Hx). apply memn_In in Sd.
        destruct I as [_ [I2 _]]. exact (I2 x Sd).
      * unfold sched_pass in Hr.
        rewrite (all_staged_visits s (nodes W)) in Hr by (intros x Hx; exact (S1 NC0 x (in_nodes W x Hx))).
        destruct (stop s); cbn in Hr; lia.
    + destruct (exit_ok W outcome s c0 s' I H) as [_ [_ R]]. rewrite R in Hr. lia.
    + destruct (deliver_pm_ok W s c0 s' I H) as [_ [_ LF]]. specialize (LF c Z). lia.
    + destruct (deliver_fin_ok W s c0 s' I H) as [_ [_ LF]]. specialize (LF c Z). lia.
Qed.

Lemma run_S : forall evs s s', Inv s -> kbase s -> sinv s -> run W true outcome s evs = Some s' -> kbase s' /\ sinv s'.
Proof.
  induction evs as [|ev evs IH]; intros s s' I K S H; cbn [run] in H.
  - inversion H; subst. split; assumption.
  - destruct (step W true outcome s ev) as [s1|] eqn:E; [|discriminate].
    destruct (step_ok W outcome s ev s1 I E) as [I1 _].
    destruct (step_K s ev s1 I K E) as [K1 _].
    exact (IH s1 s' I1 K1 (step_S s ev s1 I K S E) H).
Qed.

(* every final state is the rule-given one or shut-down *)
Lemma single_final s : kbase s -> sinv s -> forall c f, ctl (dy s c) = Some f -> f = spec c \/ f = Shutdown.
Proof.
  intros K [_ S2] c f Hf. destruct (b_ctl _ K c f Hf) as [X|[Hr X]]; [right; exact X|left].
  rewrite (spec_eq W outcome WF c), (S2 c Hr). exact X.
Qed.
End Single.
End Failure.
