(* C20 — error analysis of a left-to-right sum of non-negative terms under a rounding function
   with a relative error bound (real numbers only; instantiated with IEEE-754 binary64 in
   FloatSum.v).  No floating point here: rnd is a Section variable. *)
From Coq Require Import Reals Lra Lia List Psatz.
Import ListNotations.
Open Scope R_scope.

Definition sumR (l : list R) : R := fold_right Rplus 0 l.

Lemma sumR_app l r : sumR (l ++ r) = sumR l + sumR r.
Proof. unfold sumR. induction l as [|x l IH]; cbn [app fold_right]; [lra|]. rewrite IH. lra. Qed.

Lemma sumR_nonneg l : Forall (fun x => 0 <= x) l -> 0 <= sumR l.
Proof. unfold sumR. induction 1 as [|x l Hx _ IH]; cbn [fold_right]; lra. Qed.

Lemma Rabs_le_inv x y : Rabs x <= y -> - y <= x <= y.
Proof. unfold Rabs. destruct (Rcase_abs x); lra. Qed.

Lemma pow1p_ge1 u n : 0 <= u -> 1 <= (1 + u) ^ n.
Proof. intros Hu. induction n as [|n IH]; cbn; [lra|]. nra. Qed.

Lemma pow1m_range u n : 0 <= u <= 1 -> 0 <= (1 - u) ^ n <= 1.
Proof. intros Hu. induction n as [|n IH]; cbn; [lra|]. nra. Qed.

(* (1+u)^n <= 1 + 2 n u  as long as  2 n u <= 1 *)
Lemma pow1p_le u n : 0 <= u -> 2 * INR n * u <= 1 -> (1 + u) ^ n <= 1 + 2 * INR n * u.
Proof.
  intros Hu. induction n as [|n IH]; intros Hn.
  - cbn. lra.
  - rewrite S_INR in *. assert (H0 : 0 <= INR n) by apply pos_INR.
    assert (Hn' : 2 * INR n * u <= 1) by nra. specialize (IH Hn').
    cbn [pow]. nra.
Qed.

(* Bernoulli: (1-u)^n >= 1 - n u *)
Lemma pow1m_ge u n : 0 <= u <= 1 -> 1 - INR n * u <= (1 - u) ^ n.
Proof.
  intros Hu. induction n as [|n IH].
  - cbn. lra.
  - rewrite S_INR. assert (H0 : 0 <= INR n) by apply pos_INR.
    pose proof (pow1m_range u n Hu) as Hr. cbn [pow]. nra.
Qed.

Section RoundedSum.
  Variables (u eta : R) (rnd : R -> R) (F : R -> Prop).
  Hypothesis u_range : 0 <= u <= 1.
  Hypothesis eta_pos : 0 <= eta.
  (* addition of two representable numbers: pure relative error *)
  Hypothesis rnd_plus : forall x y, F x -> F y -> Rabs (rnd (x + y) - (x + y)) <= u * Rabs (x + y).
  (* any real (used for products): relative error plus the underflow term *)
  Hypothesis rnd_any : forall x, Rabs (rnd x - x) <= u * Rabs x + eta.
  Hypothesis rnd_F : forall x, F (rnd x).
  Hypothesis rnd_mono : forall x y, x <= y -> rnd x <= rnd y.
  Hypothesis rnd_0 : rnd 0 = 0.

  Lemma rnd_nonneg x : 0 <= x -> 0 <= rnd x.
  Proof. intros H. rewrite <- rnd_0. apply rnd_mono, H. Qed.

  Lemma rnd_plus_bounds x y : F x -> F y -> 0 <= x + y ->
    (1 - u) * (x + y) <= rnd (x + y) <= (1 + u) * (x + y).
  Proof.
    intros Fx Fy H. pose proof (rnd_plus x y Fx Fy) as E.
    rewrite (Rabs_pos_eq (x + y)) in E by assumption. apply Rabs_le_inv in E. lra.
  Qed.

  Lemma rnd_any_bounds x : 0 <= x -> (1 - u) * x - eta <= rnd x <= (1 + u) * x + eta.
  Proof.
    intros H. pose proof (rnd_any x) as E.
    rewrite (Rabs_pos_eq x) in E by assumption. apply Rabs_le_inv in E. lra.
  Qed.

  (* the accumulation loop: a := rnd (a + t) for each term, left to right *)
  Definition rsum (a : R) (ts : list R) : R := fold_left (fun a t => rnd (a + t)) ts a.

  Lemma rsum_bounds : forall ts a,
    F a -> Forall F ts -> 0 <= a -> Forall (fun t => 0 <= t) ts ->
    (1 - u) ^ length ts * (a + sumR ts) <= rsum a ts <= (1 + u) ^ length ts * (a + sumR ts).
  Proof.
    induction ts as [|t ts IH]; intros a Fa Fts Ha Hts.
    - cbn. lra.
    - inversion Fts as [|? ? Ft Fts']; subst. inversion Hts as [|? ? Ht Hts']; subst.
      cbn [rsum fold_left length sumR fold_right]. fold (sumR ts). fold (rsum (rnd (a + t)) ts).
      pose proof (rnd_plus_bounds a t Fa Ft ltac:(lra)) as B.
      assert (Ha' : 0 <= rnd (a + t)) by (apply rnd_nonneg; lra).
      specialize (IH (rnd (a + t)) (rnd_F _) Fts' Ha' Hts').
      pose proof (sumR_nonneg ts Hts') as Hs.
      pose proof (pow1p_ge1 u (length ts) (proj1 u_range)) as P1.
      pose proof (pow1m_range u (length ts) u_range) as P2.
      cbn [pow]. split.
      + apply Rle_trans with ((1 - u) ^ length ts * (rnd (a + t) + sumR ts)); [|lra].
        rewrite Rmult_assoc, (Rmult_comm (1 - u)), Rmult_assoc.
        apply Rmult_le_compat_l; [lra|]. nra.
      + apply Rle_trans with ((1 + u) ^ length ts * (rnd (a + t) + sumR ts)); [lra|].
        rewrite Rmult_assoc, (Rmult_comm (1 + u)), Rmult_assoc.
        apply Rmult_le_compat_l; [lra|]. nra.
  Qed.

  Lemma rsum_nonneg : forall ts a, 0 <= a -> Forall (fun t => 0 <= t) ts -> 0 <= rsum a ts.
  Proof.
    induction ts as [|t ts IH]; intros a Ha Hts; [exact Ha|].
    inversion Hts as [|? ? Ht Hts']; subst. cbn [rsum fold_left]. apply IH; [|assumption].
    apply rnd_nonneg. lra.
  Qed.

  Lemma rsum_app a l r : rsum a (l ++ r) = rsum (rsum a l) r.
  Proof. unfold rsum. apply fold_left_app. Qed.

  (* the terms of the active stages: t = rnd (p * w) *)
  Definition prods (pw : list (R * R)) : list R := map (fun x => rnd (fst x * snd x)) pw.
  Definition exact_prods (pw : list (R * R)) : R := sumR (map (fun x => fst x * snd x) pw).

  Lemma prods_bounds pw :
    Forall (fun x => 0 <= fst x /\ 0 <= snd x) pw ->
    Forall (fun t => 0 <= t) (prods pw) /\
    (1 - u) * exact_prods pw - INR (length pw) * eta <= sumR (prods pw)
      <= (1 + u) * exact_prods pw + INR (length pw) * eta.
  Proof.
    induction 1 as [|[p w] l [Hp Hw] _ [IH1 IH2]].
    - cbn. split; [constructor|lra].
    - cbn [fst snd] in *. unfold prods, exact_prods in *. cbn [map sumR fold_right length fst snd].
      fold (sumR (map (fun x => rnd (fst x * snd x)) l)). fold (sumR (map (fun x => fst x * snd x) l)).
      rewrite S_INR. assert (Hpw : 0 <= p * w) by nra.
      pose proof (rnd_any_bounds (p * w) Hpw) as B. split.
      + constructor; [apply rnd_nonneg, Hpw|exact IH1].
      + lra.
  Qed.

  (* total: active stages contribute rnd (p*w), finished stages contribute w *)
  Theorem rtotal_bounds (active : list (R * R)) (finished : list R) :
    Forall (fun x => 0 <= fst x /\ 0 <= snd x) active ->
    Forall (fun w => 0 <= w) finished -> Forall F finished ->
    let n := (length active + length finished)%nat in
    let E := exact_prods active + sumR finished in
    let r := rsum 0 (prods active ++ finished) in
    0 <= r /\
    (1 - u) ^ S n * E - INR (length active) * eta <= r
      <= (1 + u) ^ S n * E + (1 + u) ^ n * (INR (length active) * eta).
  Proof.
    intros Ha Hf Ff n E r.
    destruct (prods_bounds active Ha) as [Tp Tb].
    assert (Fts : Forall F (prods active ++ finished)).
    { apply Forall_app; split; [|assumption]. unfold prods. apply Forall_forall. intros x Hx.
      apply in_map_iff in Hx as [y [<- _]]. apply rnd_F. }
    assert (Hts : Forall (fun t => 0 <= t) (prods active ++ finished)) by (apply Forall_app; split; assumption).
    assert (F0 : F 0) by (rewrite <- rnd_0; apply rnd_F).
    pose proof (rsum_bounds _ 0 F0 Fts (Rle_refl 0) Hts) as B.
    rewrite app_length, sumR_app in B.
    assert (Lp : length (prods active) = length active) by apply map_length.
    rewrite Lp in B. fold n in B. fold r in B. rewrite Rplus_0_l in B.
    pose proof (sumR_nonneg finished Hf) as Hsf.
    pose proof (pow1p_ge1 u n (proj1 u_range)) as P1.
    pose proof (pow1m_range u n u_range) as P2.
    assert (He : 0 <= exact_prods active).
    { unfold exact_prods. apply sumR_nonneg. apply Forall_forall. intros x Hx.
      apply in_map_iff in Hx as [y [<- Hy]]. rewrite Forall_forall in Ha. destruct (Ha y Hy). nra. }
    assert (Hk : 0 <= INR (length active) * eta) by (apply Rmult_le_pos; [apply pos_INR|assumption]).
    set (k := INR (length active) * eta) in *. set (S1 := sumR (prods active)) in *.
    set (Ea := exact_prods active) in *. set (Sf := sumR finished) in *.
    split; [apply rsum_nonneg; [lra|assumption]|].
    cbn [pow]. unfold E. split.
    - apply Rle_trans with ((1 - u) ^ n * (S1 + Sf)); [|lra].
      apply Rle_trans with ((1 - u) ^ n * ((1 - u) * (Ea + Sf) - k)).
      + nra.
      + apply Rmult_le_compat_l; [lra|]. nra.
    - apply Rle_trans with ((1 + u) ^ n * (S1 + Sf)); [lra|].
      apply Rle_trans with ((1 + u) ^ n * ((1 + u) * (Ea + Sf) + k)).
      + apply Rmult_le_compat_l; [lra|]. nra.
      + nra.
  Qed.
End RoundedSum.

(* ---- inputs that are themselves roundings of exact (rational/real) values *)
Definition near (u x q : R) : Prop := (1 - u) * q <= x <= (1 + u) * q.

Lemma near_prods u : 0 <= u <= 1 -> forall l1 l2 : list (R * R),
  Forall2 (fun x q => 0 <= fst q /\ 0 <= snd q /\ near u (fst x) (fst q) /\ near u (snd x) (snd q)) l1 l2 ->
  0 <= exact_prods l2 /\
  (1 - u) ^ 2 * exact_prods l2 <= exact_prods l1 <= (1 + u) ^ 2 * exact_prods l2.
Proof.
  intros Hu l1 l2 H. unfold exact_prods, sumR.
  induction H as [|[p w] [qp qw] l1 l2 [Hp [Hw [[Np1 Np2] [Nw1 Nw2]]]] _ [IH0 [IH1 IH2]]]; cbn [map fold_right fst snd] in *.
  - lra.
  - set (S1 := fold_right Rplus 0 (map (fun x => fst x * snd x) l1)) in *.
    set (S2 := fold_right Rplus 0 (map (fun x => fst x * snd x) l2)) in *.
    assert (0 <= qp * qw) by nra.
    assert (0 <= (1 - u) * qp) by nra. assert (0 <= (1 - u) * qw) by nra.
    assert ((1 - u) * qp * ((1 - u) * qw) <= p * w) by (apply Rmult_le_compat; lra).
    assert (p * w <= (1 + u) * qp * ((1 + u) * qw)) by (apply Rmult_le_compat; lra).
    split; [lra|]. split; nra.
Qed.

Lemma near_sum u : 0 <= u <= 1 -> forall l1 l2 : list R,
  Forall2 (fun x q => 0 <= q /\ near u x q) l1 l2 ->
  0 <= sumR l2 /\ (1 - u) * sumR l2 <= sumR l1 <= (1 + u) * sumR l2.
Proof.
  intros Hu l1 l2 H. unfold sumR.
  induction H as [|x q l1 l2 [Hq [N1 N2]] _ [IH0 [IH1 IH2]]]; cbn [fold_right] in *; [lra|].
  split; [lra|]. split; lra.
Qed.
