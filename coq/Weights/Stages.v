(* C20 — the stages CheckStatus counts: no stage is both finished and in transit, whatever nodes were
   added to the graph (so each stage weight enters the report at most once: C20_progress applies). *)
From Coq Require Import ZArith List Bool Lia ZifyBool.
Import ListNotations.
Require Import V.Weights.Model.
Open Scope Z_scope.

Lemma in_transit_active nodes s : In s (stages_in_transit nodes) <-> stage_active nodes s = true.
Proof.
  unfold stages_in_transit, stage_active. rewrite in_map_iff, existsb_exists. split.
  - intros [nb [Hs Hin]]. apply filter_In in Hin as [Hin Ha]. exists nb. split; [assumption|].
    rewrite Ha, Hs, Z.eqb_refl. reflexivity.
  - intros [nb [Hin H]]. apply andb_true_iff in H as [Hs Ha]. exists nb. split; [lia|].
    apply filter_In; split; assumption.
Qed.

Lemma finished_not_in_transit stages nodes s :
  In s (stages_finished stages nodes) -> ~ In s (stages_in_transit nodes).
Proof.
  unfold stages_finished. intros H. apply filter_In in H as [_ H]. rewrite in_transit_active.
  destruct (stage_active nodes s); [discriminate|congruence].
Qed.

Lemma known_stage_counted_once stages nodes s : In s stages ->
  (In s (stages_finished stages nodes) /\ ~ In s (stages_in_transit nodes)) \/
  (~ In s (stages_finished stages nodes) /\ In s (stages_in_transit nodes)).
Proof.
  intros Hs. destruct (stage_active nodes s) eqn:E.
  - right. split; [|apply in_transit_active; assumption].
    unfold stages_finished. rewrite filter_In, E. intros [_ H]; discriminate.
  - left. split; [unfold stages_finished; apply filter_In; split; [assumption|rewrite E; reflexivity]|].
    rewrite in_transit_active, E. discriminate.
Qed.
