(* C20 — the stages CheckStatus counts: no stage is both finished and in transit, whatever nodes were
   added to the graph (so each stage weight enters the report at most once: C20_progress applies). *)
From Coq Require Import ZArith List Bool Lia ZifyBool.
Import ListNotations.
Require Import V.Weights.Model V.Weights.Proofs.
Open Scope Z_scope.

Lemma in_transit_active nodes s : In s (stages_in_transit nodes) <-> stage_active nodes s = true.
Proof.
  unfold stages_in_transit, stage_active. rewrite in_map_iff, existsb_exists. split.
  - intros [nb [Hs Hin]]. apply filter_In in Hin as [Hin Ha]. exists nb. split; [assumption|].
    rewrite Ha, Hs, Z.eqb_refl. reflexivity.
  - intros [nb [Hin H]]. apply andb_true_iff in H as [Hs Ha]. exists nb. split; [lia|].
    apply filter_In; split; assumption.
Qed.

Lemma finished_not_in_transit stages nodes s :
  In s (stages_finished stages nodes) -> ~ In s (stages_in_transit nodes).
Proof.
  unfold stages_finished. intros H. apply filter_In in H as [_ H]. rewrite in_transit_active.
  destruct (stage_active nodes s); [discriminate|congruence].
Qed.

Lemma known_stage_counted_once stages nodes s : In s stages ->
  (In s (stages_finished stages nodes) /\ ~ In s (stages_in_transit nodes)) \/
  (~ In s (stages_finished stages nodes) /\ In s (stages_in_transit nodes)).
Proof.
  intros Hs. destruct (stage_active nodes s) eqn:E.
  - right. split; [|apply in_transit_active; assumption].
    unfold stages_finished. rewrite filter_In, E. intros [_ H]; discriminate.
  - left. split; [unfold stages_finished; apply filter_In; split; [assumption|rewrite E; reflexivity]|].
    rewrite in_transit_active, E. discriminate.
Qed.

(* ---- a restart from a later stage: the skipped stages are finished stages *)
Lemma restart_active start nodes s :
  stage_active (restart_nodes start nodes) s = stage_active nodes s && (start <=? s).
Proof.
  unfold stage_active, restart_nodes. induction nodes as [|[t a] l IH]; [reflexivity|].
  cbn [map existsb fst snd]. rewrite IH. destruct (Z.eqb_spec t s) as [->|_]; cbn [andb orb]; [|reflexivity].
  destruct a, (start <=? s), (existsb _ l); reflexivity.
Qed.

Lemma restart_skipped_finished start stages nodes s : In s stages -> s < start ->
  In s (ctl_finished start stages nodes) /\ ~ In s (ctl_in_transit start nodes).
Proof.
  intros Hs Hlt. unfold ctl_finished, ctl_in_transit.
  assert (E : stage_active (restart_nodes start nodes) s = false).
  { rewrite restart_active. replace (start <=? s) with false by lia. apply andb_false_r. }
  split.
  - unfold stages_finished. apply filter_In. split; [assumption|rewrite E; reflexivity].
  - rewrite in_transit_active, E. discriminate.
Qed.

Lemma restart_later_unchanged start stages nodes s : start <= s ->
  (In s (ctl_finished start stages nodes) <-> In s (stages_finished stages nodes)) /\
  (In s (ctl_in_transit start nodes) <-> In s (stages_in_transit nodes)).
Proof.
  intros Hle. unfold ctl_finished, ctl_in_transit.
  assert (E : stage_active (restart_nodes start nodes) s = stage_active nodes s).
  { rewrite restart_active. replace (start <=? s) with true by lia. apply andb_true_r. }
  split.
  - unfold stages_finished. rewrite !filter_In, E. reflexivity.
  - rewrite !in_transit_active, E. reflexivity.
Qed.

Lemma restart_nothing_skipped start nodes :
  Forall (fun nb => start <= fst nb) nodes -> restart_nodes start nodes = nodes.
Proof.
  unfold restart_nodes. induction 1 as [|[t a] l Ht _ IH]; [reflexivity|].
  cbn [map fst snd] in *. rewrite IH. replace (start <=? t) with true by lia. rewrite andb_true_r. reflexivity.
Qed.

Lemma restart_ordinary_launch stages nodes : Forall (fun nb => 0 <= fst nb) nodes ->
  ctl_finished 0 stages nodes = stages_finished stages nodes /\ ctl_in_transit 0 nodes = stages_in_transit nodes.
Proof.
  intros H. unfold ctl_finished, ctl_in_transit. rewrite (restart_nothing_skipped 0 nodes H). split; reflexivity.
Qed.

(* the report: the weights of the k skipped stages are counted in full, the rest as usual *)
Lemma total_skipped D k : forall ws prog,
  total ws (restart_prog D k prog) = D * sumZ (firstn k ws) + total (skipn k ws) prog.
Proof.
  unfold restart_prog. induction k as [|k IH]; intros ws prog.
  - cbn [repeat app firstn skipn sumZ fold_right]. lia.
  - destruct ws as [|w ws]; [cbn; lia|].
    cbn [repeat app total firstn skipn sumZ fold_right]. fold (sumZ (firstn k ws)). rewrite IH. lia.
Qed.

Lemma Forall_firstn {A} (P : A -> Prop) k : forall l, Forall P l -> Forall P (firstn k l).
Proof. induction k as [|k IH]; intros l H; [constructor|]. destruct H; cbn; [constructor|constructor; auto]. Qed.
Lemma Forall_skipn {A} (P : A -> Prop) k : forall l, Forall P l -> Forall P (skipn k l).
Proof. induction k as [|k IH]; intros l H; [assumption|]. destruct H; cbn; [constructor|auto]. Qed.
Lemma sumZ_firstn_skipn k ws : sumZ ws = sumZ (firstn k ws) + sumZ (skipn k ws).
Proof. rewrite <- sumZ_app, firstn_skipn. reflexivity. Qed.

Lemma restart_total D k ws prog :
  0 <= D -> Forall (fun w => 0 <= w) ws -> Forall (fun a => 0 <= a <= D) prog ->
  (length prog + k = length ws)%nat ->
  D * sumZ (firstn k ws) <= total ws (restart_prog D k prog) <= D * sumZ ws /\
  total ws (restart_prog D k (repeat D (length ws - k))) = D * sumZ ws.
Proof.
  intros HD Hw Hp Hl. split.
  - rewrite total_skipped.
    pose proof (total_bounds D (skipn k ws) prog HD (Forall_skipn _ k ws Hw) Hp
                  ltac:(rewrite skipn_length; lia)) as Hb.
    rewrite (sumZ_firstn_skipn k ws). lia.
  - unfold restart_prog. rewrite <- repeat_app. replace (k + (length ws - k))%nat with (length ws) by lia.
    apply total_complete.
Qed.

(* the correspondence of a run launched from stage 0 is the one that was checked before (check_scase) *)
Lemma check_rcase_launch st nodes obs : Forall (fun nb => 0 <= fst nb) nodes ->
  check_rcase (((0, st), nodes), obs) = check_scase ((st, nodes), obs).
Proof.
  intros H. unfold check_rcase, check_scase, ctl_finished, ctl_in_transit. cbn [fst snd].
  rewrite (restart_nothing_skipped 0 nodes H). reflexivity.
Qed.

(* ---- the WINDOW between a termination and its notification (Model.nstate) *)
Lemma observed_view_terminate sel nodes : observed_view (terminate_sel sel nodes) = observed_view nodes.
Proof.
  unfold observed_view, terminate_sel. rewrite map_map. apply map_ext. intros [s st]. cbn [fst snd].
  destruct st; [destruct (sel (s, NRunning))| |]; reflexivity.
Qed.

Lemma window_lists_unchanged sel start stages nodes :
  win_finished start stages (terminate_sel sel nodes) = win_finished start stages nodes /\
  win_in_transit start (terminate_sel sel nodes) = win_in_transit start nodes.
Proof. unfold win_finished, win_in_transit. rewrite observed_view_terminate. split; reflexivity. Qed.

Lemma stage_active_view nodes s :
  stage_active (observed_view nodes) s = existsb (fun ns => (fst ns =? s) && negb (is_observed (snd ns))) nodes.
Proof. unfold stage_active, observed_view. induction nodes as [|[t st] l IH]; [reflexivity|]. cbn [map existsb fst snd]. rewrite IH. reflexivity. Qed.

(* a stage with a component that is running OR has terminated without the controller having been notified is in
   transit and not finished (from the starting stage on) *)
Lemma window_unobserved_in_transit start stages nodes s st :
  In (s, st) nodes -> st <> NObserved -> start <= s ->
  In s (win_in_transit start nodes) /\ ~ In s (win_finished start stages nodes).
Proof.
  intros Hin Hst Hle.
  assert (E : stage_active (restart_nodes start (observed_view nodes)) s = true).
  { rewrite restart_active. replace (start <=? s) with true by lia. rewrite andb_true_r, stage_active_view.
    apply existsb_exists. exists (s, st). split; [assumption|]. cbn [fst snd]. rewrite Z.eqb_refl.
    destruct st; [reflexivity|reflexivity|congruence]. }
  unfold win_in_transit, win_finished, ctl_in_transit, ctl_finished. split.
  - apply in_transit_active; assumption.
  - unfold stages_finished. rewrite filter_In, E. intros [_ H]; discriminate.
Qed.

(* every component of a finished stage (from the starting stage on) has been observed, hence reports a terminal
   state: counting the weight of a finished stage in full IS its fraction of terminated components *)
Lemma sum_ind_le (f g : Z * nstate -> bool) nodes : (forall x, In x nodes -> f x = g x) ->
  sumZ (map (fun x => if f x then 1 else 0) nodes) = sumZ (map (fun x => if g x then 1 else 0) nodes).
Proof.
  induction nodes as [|x l IH]; intros H; [reflexivity|]. cbn [map]. rewrite !sumZ_cons.
  rewrite (H x (or_introl eq_refl)), IH; [reflexivity|]. intros; apply H; right; assumption.
Qed.

Lemma window_finished_complete start stages nodes s : start <= s ->
  In s (win_finished start stages nodes) ->
  (forall st, In (s, st) nodes -> st = NObserved) /\ stage_reported nodes s = stage_size nodes s.
Proof.
  intros Hle Hf.
  assert (Hall : forall st, In (s, st) nodes -> st = NObserved).
  { intros st Hin. destruct st; try reflexivity; exfalso;
      [destruct (window_unobserved_in_transit start stages nodes s NRunning Hin ltac:(discriminate) Hle) as [_ H]
      |destruct (window_unobserved_in_transit start stages nodes s NReported Hin ltac:(discriminate) Hle) as [_ H]];
      exact (H Hf). }
  split; [exact Hall|]. unfold stage_reported, stage_size. apply sum_ind_le. intros [t st] Hin. cbn [fst snd].
  destruct (Z.eqb_spec t s) as [->|_]; [|reflexivity]. rewrite (Hall st Hin). reflexivity.
Qed.

Lemma stage_reported_bounds nodes s : 0 <= stage_reported nodes s <= stage_size nodes s.
Proof.
  unfold stage_reported, stage_size. induction nodes as [|[t st] l IH]; [cbn; lia|]. cbn [map fst snd]. rewrite !sumZ_cons.
  destruct (t =? s), st; cbn [andb negb]; lia.
Qed.
