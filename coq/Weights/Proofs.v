From Coq Require Import ZArith List Bool Lia ZifyBool.
Import ListNotations.
Require Import V.Weights.Model.
Open Scope Z_scope.
Ltac Zify.zify_post_hook ::= Z.to_euclidean_division_equations.

Lemma sumZ_cons x l : sumZ (x :: l) = x + sumZ l.
Proof. reflexivity. Qed.
Lemma sumZ_nil : sumZ [] = 0.
Proof. reflexivity. Qed.

Lemma sumZ_app l r : sumZ (l ++ r) = sumZ l + sumZ r.
Proof. induction l as [|x l IH]; [reflexivity|]. rewrite <- app_comm_cons, !sumZ_cons, IH. lia. Qed.

Lemma sumZ_repeat x k : sumZ (repeat x k) = Z.of_nat k * x.
Proof. induction k as [|k IH]; [reflexivity|]. cbn [repeat]. rewrite sumZ_cons, IH. lia. Qed.

Lemma sumZ_map_mul c l : sumZ (map (Z.mul c) l) = c * sumZ l.
Proof. induction l as [|x l IH]; [cbn; lia|]. cbn [map]. rewrite !sumZ_cons, IH. lia. Qed.

(* the coded condition is always true: the "last stage" branch is always taken *)
Lemma last_differs_true n : 1 <= n -> last_differs n = true.
Proof.
  intros Hn. unfold last_differs, fb.
  assert (H : n * (1000 / n / 10) <= 100) by nia.
  destruct (n * (1000 / n / 10) =? 1000) eqn:E; [lia|reflexivity].
Qed.

Lemma fb_nonneg n : 1 <= n -> 0 <= fb n.
Proof. intros; unfold fb. apply Z.div_pos; lia. Qed.

Lemma fb_last_nonneg n : 1 <= n -> 0 <= fb_last n.
Proof. intros Hn. unfold fb_last, fb. nia. Qed.

Lemma fallback_shape n : (1 <= n)%nat ->
  fallback n = repeat (fb (Z.of_nat n)) (n - 1) ++ [fb_last (Z.of_nat n)].
Proof.
  destruct n as [|k]; [lia|]. intros _. unfold fallback.
  rewrite last_differs_true by lia. replace (S k - 1)%nat with k by lia. reflexivity.
Qed.

Lemma fallback_length n : length (fallback n) = n.
Proof.
  destruct n as [|k]; [reflexivity|]. rewrite fallback_shape by lia.
  rewrite app_length, repeat_length. cbn. lia.
Qed.

Lemma fallback_sum n : (1 <= n)%nat -> sumZ (fallback n) = 1000.
Proof.
  intros Hn. rewrite fallback_shape by assumption. rewrite sumZ_app, sumZ_repeat. cbn [sumZ fold_right].
  unfold fb_last. replace (Z.of_nat (n - 1)) with (Z.of_nat n - 1) by lia. ring.
Qed.

Lemma Forall_repeat {A} (P : A -> Prop) x k : P x -> Forall P (repeat x k).
Proof. intros; induction k; cbn; constructor; auto. Qed.

Lemma fallback_nonneg n : (1 <= n)%nat -> Forall (fun w => 0 <= w) (fallback n).
Proof.
  intros Hn. rewrite fallback_shape by assumption. apply Forall_app; split.
  - apply Forall_repeat. apply fb_nonneg; lia.
  - constructor; [apply fb_last_nonneg; lia|constructor].
Qed.

Lemma trunc1000_mul10 w : trunc1000 (10 * w) = w.
Proof. unfold trunc1000. rewrite Z.mul_comm. apply Z.quot_mul. lia. Qed.

Lemma map_trunc_mul10 l : map trunc1000 (map (Z.mul 10) l) = l.
Proof. induction l as [|x l IH]; cbn [map]; [reflexivity|]. rewrite trunc1000_mul10, IH. reflexivity. Qed.

(* three decimals: every given weight is a whole number of thousandths *)
Definition three_decimals (given : list Z) : Prop := Forall (fun m => exists k, m = 10 * k) given.

Lemma sum_trunc_three_decimals given :
  three_decimals given -> 10 * sumZ (map trunc1000 given) = sumZ given.
Proof.
  induction 1 as [|m l [k Hk] _ IH]; cbn [map sumZ fold_right]; [reflexivity|].
  fold (sumZ (map trunc1000 l)). fold (sumZ l). subst m. rewrite trunc1000_mul10. lia.
Qed.

Lemma forallb_nonneg l : forallb (fun m => 0 <=? m) l = true <-> Forall (fun m => 0 <= m) l.
Proof.
  rewrite forallb_forall, Forall_forall. split; intros H x Hx; specialize (H x Hx); lia.
Qed.

Lemma Forall_map_mul10 l : Forall (fun w => 0 <= w) l -> Forall (fun m => 0 <= m) (map (Z.mul 10) l).
Proof. intros H. apply Forall_forall. intros m Hm. apply in_map_iff in Hm as [w [<- Hw]].
  rewrite Forall_forall in H. specialize (H w Hw). lia. Qed.

Lemma Forall_map_mulc c l : 0 <= c -> Forall (fun w => 0 <= w) l -> Forall (fun m => 0 <= m) (map (Z.mul c) l).
Proof. intros Hc H. apply Forall_forall. intros m Hm. apply in_map_iff in Hm as [w [<- Hw]].
  rewrite Forall_forall in H. specialize (H w Hw). nia. Qed.

(* ---- main facts about normalise (any scale c >= 0, any given weights: no hypothesis on decimals) *)
Lemma normalise_length c given : length (normalise c given) = length given.
Proof. unfold normalise. destruct (accepted c given); [reflexivity|]. rewrite map_length, fallback_length. reflexivity. Qed.

Lemma normalise_nonneg c given : 0 <= c -> (1 <= length given)%nat -> Forall (fun m => 0 <= m) (normalise c given).
Proof.
  intros Hc Hn. unfold normalise. destruct (accepted c given) eqn:E.
  - unfold accepted in E. apply andb_true_iff in E as [_ E]. apply forallb_nonneg; assumption.
  - apply Forall_map_mulc; [assumption|]. apply fallback_nonneg; assumption.
Qed.

Lemma normalise_sum c given : (1 <= length given)%nat -> sumZ (normalise c given) = 1000 * c.
Proof.
  intros Hn. unfold normalise. destruct (accepted c given) eqn:E.
  - unfold accepted in E. apply andb_true_iff in E as [E _]. lia.
  - rewrite sumZ_map_mul, fallback_sum by assumption. lia.
Qed.

Lemma normalise_keeps c given :
  Forall (fun m => 0 <= m) given -> sumZ given = 1000 * c -> normalise c given = given.
Proof.
  intros Hpos Hs. unfold normalise, accepted.
  replace (sumZ given =? 1000 * c) with true by lia.
  apply forallb_nonneg in Hpos. rewrite Hpos. reflexivity.
Qed.

(* ... and ONLY then: weights that are kept are non-negative and sum to one *)
Lemma normalise_changes c given :
  (1 <= length given)%nat -> ~ (Forall (fun m => 0 <= m) given /\ sumZ given = 1000 * c) ->
  normalise c given = map (Z.mul c) (repeat (fb (Z.of_nat (length given))) (length given - 1)
                                       ++ [fb_last (Z.of_nat (length given))]).
Proof.
  intros Hn H. unfold normalise. destruct (accepted c given) eqn:E.
  - exfalso. apply H. unfold accepted in E. apply andb_true_iff in E as [E1 E2].
    split; [apply forallb_nonneg; assumption|lia].
  - rewrite fallback_shape by assumption. reflexivity.
Qed.

Lemma monitor_accepts_normalised c given :
  0 <= c -> (1 <= length given)%nat -> monitor_accepts c (normalise c given) = true.
Proof.
  intros Hc Hn. unfold monitor_accepts, accepted.
  rewrite (normalise_sum c given Hn), Z.eqb_refl.
  apply forallb_nonneg, normalise_nonneg; assumption.
Qed.

(* ---- progress *)
Lemma total_bounds D ws prog :
  0 <= D -> Forall (fun w => 0 <= w) ws -> Forall (fun a => 0 <= a <= D) prog -> length prog = length ws ->
  0 <= total ws prog <= D * sumZ ws.
Proof.
  intros HD Hw. revert prog. induction Hw as [|w ws Hw0 _ IH]; intros prog Hp Hl.
  - destruct prog; cbn; lia.
  - destruct prog as [|a prog]; [discriminate|]. inversion Hp as [|? ? Ha Hp']; subst.
    cbn [total sumZ fold_right]. fold (sumZ ws). specialize (IH prog Hp' ltac:(cbn in Hl; lia)). nia.
Qed.

Lemma total_complete D ws : total ws (repeat D (length ws)) = D * sumZ ws.
Proof.
  induction ws as [|w ws IH]; cbn [length repeat total sumZ fold_right]; [lia|]. fold (sumZ ws). lia.
Qed.

(* pre-fix behaviour: negative weights were kept *)
Lemma prefix_negative_kept : normalise_prefix [15000; -5000] = [15000; -5000].
Proof. reflexivity. Qed.
