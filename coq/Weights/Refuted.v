(* C20 — parts of the full statement that are false of the (faithful) model. *)
From Coq Require Import ZArith List Bool.
Import ListNotations.
Require Import V.Weights.Model V.Weights.Proofs.
Open Scope Z_scope.

(* F20b (repaired by a fix: commit): the pinned code judged weights by their truncated thousandths:
   weights with four decimals that sum to one were NOT kept (0.3333 + 0.6667 -> 0.5/0.5), and
   four-decimal weights that do NOT sum to one could be kept (0.3335 + 0.6675 = 1.001). *)
Theorem C20_four_decimals_refuted :
  (exists given, Forall (fun m => 0 <= m) given /\ sumZ given = 10000 /\ normalise_trunc given <> given) /\
  (exists given, normalise_trunc given = given /\ sumZ given <> 10000).
Proof.
  split.
  - exists [3333; 6667]. split; [repeat constructor; discriminate|]. split; [reflexivity|discriminate].
  - exists [3335; 6675]. split; [reflexivity|discriminate].
Qed.
Print Assumptions C20_four_decimals_refuted.

(* F20a (repaired by a fix: commit): the pinned code kept negative given weights. *)
Theorem C20_negative_prefix_refuted :
  exists given, three_decimals given /\ ~ Forall (fun m => 0 <= m) (normalise_prefix given).
Proof.
  exists [15000; -5000]. split.
  - repeat constructor; [exists 1500|exists (-500)]; reflexivity.
  - intros H. inversion H as [|? ? _ H2]; subst. inversion H2 as [|? ? H3 _]; subst. apply H3; reflexivity.
Qed.
Print Assumptions C20_negative_prefix_refuted.
