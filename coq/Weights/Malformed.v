(* C20 — malformed weights: facts about Model.inject (FlowIR.inject_default_values on entries that are
   numbers, missing, texts, nan/inf or objects float() refuses), Model.mon_used (the weights
   StatusMonitor.__init__ finally uses, with its own equal-weight fallback) and their composition. *)
From Coq Require Import ZArith List Bool Lia ZifyBool.
Import ListNotations.
Require Import V.Weights.Model V.Weights.Proofs.
Open Scope Z_scope.

Definition nonneg (l : list Z) : Prop := Forall (fun m => 0 <= m) l.

(* the numbers inject_default_values converts the entries to (nan/inf: 0, never accepted) *)
Definition values (given : list wt) : list Z :=
  map (fun w => match inj_value w with Some v => v | None => 0 end) given.

Definition cnt (given : list wt) : Z := sumZ (map (fun w => if is_unparsable w then 1 else 0) given).

Lemma cnt_nonneg given : 0 <= cnt given.
Proof. unfold cnt. induction given as [|w l IH]; cbn [map]; [cbn; lia|]. rewrite sumZ_cons. destruct (is_unparsable w); lia. Qed.

Lemma cnt_zero given : existsb is_unparsable given = false -> cnt given = 0.
Proof.
  unfold cnt. induction given as [|w l IH]; cbn [map existsb]; [reflexivity|]. rewrite sumZ_cons.
  intros H. apply orb_false_iff in H as [H1 H2]. rewrite H1, (IH H2). reflexivity.
Qed.

Lemma cnt_pos given : existsb is_unparsable given = true -> 1 <= cnt given.
Proof.
  unfold cnt. induction given as [|w l IH]; cbn [map existsb]; [discriminate|]. rewrite sumZ_cons.
  pose proof (cnt_nonneg l) as Hc. unfold cnt in Hc.
  destruct (is_unparsable w); cbn [orb]; intros H; [lia|]. specialize (IH H). lia.
Qed.

Lemma all_some_length l : forall vs, all_some l = Some vs -> length vs = length l.
Proof.
  induction l as [|o l IH]; intros vs H; cbn in H.
  - inversion H; reflexivity.
  - destruct o as [x|]; [|discriminate]. destruct (all_some l) as [r|] eqn:E; [|discriminate].
    inversion H; subst. cbn. rewrite (IH r eq_refl). reflexivity.
Qed.

Lemma all_some_values given vs : all_some (map inj_value given) = Some vs -> vs = values given.
Proof.
  revert vs. induction given as [|w l IH]; intros vs H; cbn in H.
  - inversion H; reflexivity.
  - destruct (inj_value w) as [x|] eqn:Ew; [|discriminate].
    destruct (all_some (map inj_value l)) as [r|] eqn:E; [|discriminate].
    inversion H; subst. unfold values. cbn [map]. rewrite Ew. f_equal. apply IH; reflexivity.
Qed.

Lemma sumZ_repeat' x k : sumZ (repeat x k) = Z.of_nat k * x.
Proof. apply sumZ_repeat. Qed.

Lemma nonneg_repeat x k : 0 <= x -> nonneg (repeat x k).
Proof. intros; apply Forall_repeat; assumption. Qed.

Lemma sumZ_map_muln n l : sumZ (map (Z.mul n) l) = n * sumZ l.
Proof. apply sumZ_map_mul. Qed.

(* ---- inject *)
Lemma inject_none_iff c given : inject c given = None <-> existsb is_bad given = true.
Proof.
  unfold inject. destruct (existsb is_bad given); [tauto|].
  destruct (inj_accepts c given); split; discriminate.
Qed.

Lemma inject_length c given loaded : inject c given = Some loaded -> length loaded = length given.
Proof.
  unfold inject, defaults. destruct (existsb is_bad given); [discriminate|].
  destruct (inj_accepts c given); intros H; inversion H; subst.
  - apply map_length.
  - rewrite !map_length, fallback_length. reflexivity.
Qed.

Lemma all_some_map_Some (f : wt -> option Z) g l : (forall w, In w l -> f w = Some (g w)) -> all_some (map f l) = Some (map g l).
Proof.
  induction l as [|w l IH]; intros H; cbn [map all_some]; [reflexivity|].
  rewrite (H w (or_introl eq_refl)), IH; [reflexivity|]. intros; apply H; right; assumption.
Qed.

Lemma all_some_numbers (f : wt -> option Z) g ms : (forall m, f (WNum m) = Some (g m)) ->
  all_some (map f (map WNum ms)) = Some (map g ms).
Proof. intros H. induction ms as [|m l IH]; cbn [map all_some]; [reflexivity|]. rewrite H, IH. reflexivity. Qed.

(* on numbers (given, or missing = 0) inject is the normalise of the existing theorems *)
Lemma inject_numbers c ms : inject c (map WNum ms) = Some (map WNum (normalise c ms)).
Proof.
  unfold inject, inj_accepts, normalise, defaults.
  assert (Hb : existsb is_bad (map WNum ms) = false) by (induction ms; cbn; auto).
  rewrite Hb, (all_some_numbers inj_value (fun m => m)) by reflexivity. rewrite map_id, map_length.
  destruct (accepted c ms); [|reflexivity].
  f_equal. rewrite map_map. reflexivity.
Qed.

(* ---- the monitor alone, on ANY entries *)
Lemma mon_used_length c ws : length (mon_used c ws) = length ws.
Proof.
  unfold mon_used. destruct (all_some _) as [vs|] eqn:E; [|apply repeat_length].
  destruct (accepted _ vs); [|apply repeat_length].
  rewrite (all_some_length _ _ E), map_length. reflexivity.
Qed.

Lemma mon_used_nonneg c ws : 0 <= c -> nonneg (mon_used c ws).
Proof.
  intros Hc. unfold mon_used. destruct (all_some _) as [vs|] eqn:E; [|apply nonneg_repeat; lia].
  destruct (accepted _ vs) eqn:A; [|apply nonneg_repeat; lia].
  unfold accepted in A. apply andb_true_iff in A as [_ A]. apply forallb_nonneg; assumption.
Qed.

Lemma mon_used_sum c ws : sumZ (mon_used c ws) = 1000 * c * Z.of_nat (length ws).
Proof.
  unfold mon_used. destruct (all_some _) as [vs|] eqn:E; [|rewrite sumZ_repeat; lia].
  destruct (accepted _ vs) eqn:A; [|rewrite sumZ_repeat; lia].
  unfold accepted in A. apply andb_true_iff in A as [A _]. lia.
Qed.

Lemma nonneg_map_mul n l : 0 <= n -> nonneg l -> nonneg (map (Z.mul n) l).
Proof. intros Hn H. apply Forall_map_mulc; assumption. Qed.

Lemma mon_used_numbers c ms :
  nonneg ms -> sumZ ms = 1000 * c -> mon_used c (map WNum ms) = map (Z.mul (Z.of_nat (length ms))) ms.
Proof.
  intros Hp Hs. unfold mon_used. rewrite map_length.
  rewrite (all_some_numbers _ (Z.mul (Z.of_nat (length ms)))) by reflexivity.
  unfold accepted. rewrite sumZ_map_muln, Hs.
  replace (Z.of_nat (length ms) * (1000 * c) =? 1000 * (c * Z.of_nat (length ms))) with true by lia.
  assert (H : forallb (fun m => 0 <=? m) (map (Z.mul (Z.of_nat (length ms))) ms) = true)
    by (apply forallb_nonneg, nonneg_map_mul; [lia|assumption]).
  rewrite H. reflexivity.
Qed.

(* ---- load, then report *)
Lemma mon_after_fill c n given : existsb is_bad given = false ->
  forall vs, all_some (map inj_value given) = Some vs ->
  exists vs', all_some (map (mon_value c n) (map fill given)) = Some vs' /\
    sumZ vs' = n * sumZ vs + 1000000 * c * cnt given /\
    (0 <= n -> 0 <= c -> nonneg vs -> nonneg vs') /\
    (existsb is_unparsable given = false -> vs' = map (Z.mul n) vs).
Proof.
  induction given as [|w l IH]; intros Hb vs Hv.
  - cbn in Hv. inversion Hv; subst. exists []. split; [reflexivity|]. split; [cbn; lia|]. split; [intros; constructor|reflexivity].
  - cbn [existsb] in Hb. apply orb_false_iff in Hb as [Hw Hb].
    cbn [map all_some] in Hv. destruct (inj_value w) as [x|] eqn:Ew; [|discriminate].
    destruct (all_some (map inj_value l)) as [r|] eqn:Er; [|discriminate]. inversion Hv; subst vs; clear Hv.
    destruct (IH Hb r eq_refl) as [r' [H1 [H2 [H3 H4]]]].
    assert (Hcnt : cnt (w :: l) = (if is_unparsable w then 1 else 0) + cnt l) by reflexivity.
    destruct w as [m| |[m|]| | |]; cbn in Ew; inversion Ew; subst x; try discriminate Hw;
      cbn [map fill mon_value all_some]; rewrite H1; eexists; (split; [reflexivity|]);
      rewrite Hcnt; cbn [is_unparsable existsb orb]; rewrite !sumZ_cons, H2.
    all: split; [lia|].
    all: split; [intros Hn Hc Hp; inversion Hp; subst; constructor; [nia|apply H3; assumption]|].
    all: intros Hu; try discriminate Hu; cbn [map]; rewrite (H4 Hu); reflexivity.
Qed.

Definition NN (given : list wt) : Z := Z.of_nat (length given).

(* the complete description of the weights in use after a load *)
Lemma used_spec c given : 1 <= c -> (1 <= length given)%nat ->
  used c given =
    if existsb is_bad given then None
    else if inj_accepts c given
         then if existsb is_unparsable given then Some (repeat (1000 * c) (length given))
              else Some (map (Z.mul (NN given)) (values given))
         else Some (map (Z.mul (NN given)) (defaults c (length given))).
Proof.
  intros Hc Hn. unfold used, inject.
  destruct (existsb is_bad given) eqn:Hb; [reflexivity|].
  destruct (inj_accepts c given) eqn:Ha.
  - unfold inj_accepts in Ha. destruct (all_some (map inj_value given)) as [vs|] eqn:Ev; [|discriminate].
    destruct (mon_after_fill c (NN given) given Hb vs Ev) as [vs' [H1 [H2 [H3 H4]]]].
    unfold accepted in Ha. apply andb_true_iff in Ha as [Hs Hp]. apply forallb_nonneg in Hp.
    f_equal. unfold mon_used. rewrite map_length. fold (NN given). rewrite H1.
    assert (HN : 1 <= NN given) by (unfold NN; lia).
    destruct (existsb is_unparsable given) eqn:Hu.
    + pose proof (cnt_pos given Hu) as Hcnt. unfold accepted.
      replace (sumZ vs' =? 1000 * (c * NN given)) with false by nia. reflexivity.
    + rewrite (cnt_zero given Hu) in H2. unfold accepted.
      replace (sumZ vs' =? 1000 * (c * NN given)) with true by nia.
      assert (Hp' : forallb (fun m => 0 <=? m) vs' = true) by (apply forallb_nonneg, H3; [lia|lia|assumption]).
      rewrite Hp'. cbn [andb]. rewrite (H4 eq_refl), (all_some_values given vs Ev). reflexivity.
  - f_equal. unfold defaults.
    assert (E : length (map WNum (map (Z.mul c) (fallback (length given)))) = length given)
      by (rewrite !map_length, fallback_length; reflexivity).
    pose proof (mon_used_numbers c (map (Z.mul c) (fallback (length given)))) as H.
    rewrite map_length, fallback_length in H. apply H.
    + apply Forall_map_mulc; [lia|apply fallback_nonneg; assumption].
    + rewrite sumZ_map_mul, fallback_sum by assumption. lia.
Qed.

Lemma used_none_iff c given : used c given = None <-> existsb is_bad given = true.
Proof. unfold used. rewrite <- (inject_none_iff c given). destruct (inject c given); split; congruence. Qed.

Lemma used_good c given u : 1 <= c -> used c given = Some u ->
  length u = length given /\ nonneg u /\ sumZ u = 1000 * c * NN given.
Proof.
  intros Hc. unfold used. destruct (inject c given) as [loaded|] eqn:E; [|discriminate].
  intros H; inversion H; subst u. pose proof (inject_length c given loaded E) as HL.
  split; [rewrite mon_used_length; assumption|]. split; [apply mon_used_nonneg; lia|].
  rewrite mon_used_sum. unfold NN. rewrite HL. reflexivity.
Qed.

(* well-formed weights (numbers, missing = 0, numeric texts) that are non-negative and sum to one are
   the weights in use *)
Lemma used_keeps c given ms : 1 <= c -> (1 <= length given)%nat ->
  existsb is_bad given = false -> existsb is_unparsable given = false ->
  all_some (map inj_value given) = Some ms -> nonneg ms -> sumZ ms = 1000 * c ->
  used c given = Some (map (Z.mul (NN given)) ms).
Proof.
  intros Hc Hn Hb Hu Hv Hp Hs. rewrite used_spec by assumption. rewrite Hb, Hu.
  unfold inj_accepts. rewrite Hv. unfold accepted.
  replace (sumZ ms =? 1000 * c) with true by lia.
  apply forallb_nonneg in Hp. rewrite Hp. cbn [andb]. rewrite (all_some_values given ms Hv). reflexivity.
Qed.

(* progress with the weights in use (units 1/(1000 c n), per-stage progress a/D) *)
Lemma used_progress c ws D prog : 1 <= c -> 0 <= D ->
  Forall (fun a => 0 <= a <= D) prog -> length prog = length ws ->
  0 <= total (mon_used c ws) prog <= D * (1000 * c * Z.of_nat (length ws)) /\
  total (mon_used c ws) (repeat D (length ws)) = D * (1000 * c * Z.of_nat (length ws)).
Proof.
  intros Hc HD Hp Hl. rewrite <- (mon_used_sum c ws). split.
  - apply total_bounds; [assumption|apply mon_used_nonneg; lia|assumption|rewrite mon_used_length; assumption].
  - rewrite <- (mon_used_length c ws) at 1. apply total_complete.
Qed.

(* ---- a stage WITHOUT an entry, a stage whose ENTRY HAS NO WEIGHT (status executable / references only) and a stage
   of weight 0.0 are loaded alike, and after loading every stage HAS a weight *)
Lemma is_bad_as_zero given : existsb is_bad (map as_zero given) = existsb is_bad given.
Proof. induction given as [|w l IH]; [reflexivity|]. cbn [map existsb]. rewrite IH. destruct w; reflexivity. Qed.

Lemma inj_value_as_zero given : map inj_value (map as_zero given) = map inj_value given.
Proof. rewrite map_map. apply map_ext. intros w; destruct w as [m| |[m|]| | |]; reflexivity. Qed.

Lemma fill_as_zero given : map fill (map as_zero given) = map fill given.
Proof. rewrite map_map. apply map_ext. intros w; destruct w as [m| |[m|]| | |]; reflexivity. Qed.

Lemma inject_as_zero c given : inject c (map as_zero given) = inject c given.
Proof.
  unfold inject, inj_accepts. rewrite is_bad_as_zero, inj_value_as_zero, fill_as_zero, map_length. reflexivity.
Qed.

Lemma used_as_zero c given : used c (map as_zero given) = used c given.
Proof. unfold used. rewrite inject_as_zero. reflexivity. Qed.

Lemma inject_has_weights c given loaded : inject c given = Some loaded -> forallb has_weight loaded = true.
Proof.
  unfold inject. destruct (existsb is_bad given); [discriminate|].
  destruct (inj_accepts c given); intros H; inversion H; subst; apply forallb_forall; intros w Hin;
    apply in_map_iff in Hin as [x [<- _]]; [destruct x as [m| |[m|]| | |]|]; reflexivity.
Qed.

(* weights that sum to one, some stages having an entry without weight or no entry: kept, those stages weigh 0 *)
Lemma used_entries_kept c given ms : 1 <= c -> (1 <= length given)%nat ->
  Forall (fun w => match w with WNum _ | WMissing | WEntry => True | _ => False end) given ->
  ms = map (fun w => match w with WNum m => m | _ => 0 end) given ->
  nonneg ms -> sumZ ms = 1000 * c ->
  used c given = Some (map (Z.mul (NN given)) ms).
Proof.
  intros Hc Hn Hk -> Hp Hs. apply used_keeps; try assumption; clear Hp Hs Hn.
  - induction Hk as [|w l Hw _ IH]; [reflexivity|]. cbn [existsb]. rewrite IH. destruct w; cbn in Hw; try contradiction; reflexivity.
  - induction Hk as [|w l Hw _ IH]; [reflexivity|]. cbn [existsb]. rewrite IH. destruct w; cbn in Hw; try contradiction; reflexivity.
  - induction Hk as [|w l Hw _ IH]; [reflexivity|]. cbn [map all_some]. rewrite IH.
    destruct w; cbn in Hw; try contradiction; reflexivity.
Qed.
