(* C20 — executable IEEE-754 binary64 model (Coq primitive floats: the same round-to-nearest-even
   double arithmetic as CPython's float) of the accumulation in StatusMonitor.run/CheckStatus:

       stage_status = 0.0
       for stage_index in active_stages:   stage_status += active_stages[stage_index] * self.stageWeights[stage_index]
       for stage_index in stages_finished: stage_status += self.stageWeights[stage_index]

   active   = (progress, weight) of the current stage followed by the stages in transit, in dict order;
   finished = weights of the finished stages, in list order.
   The correspondence run evaluates fprogress on the exact doubles of the implementation and demands
   bit-for-bit equality with Status.totalProgress(); the error bounds are proved in FloatSum.v. *)
From Coq Require Import List Bool PrimFloat.
Import ListNotations.

Definition fprogress (active : list (float * float)) (finished : list float) : float :=
  fold_left PrimFloat.add finished
    (fold_left (fun a pw => PrimFloat.add a (PrimFloat.mul (fst pw) (snd pw))) active PrimFloat.zero).

(* admissible inputs: finite, weight >= 0, progress in [0, 1] *)
Definition weight_ok (w : float) : bool := PrimFloat.is_finite w && PrimFloat.leb PrimFloat.zero w.
Definition prog_ok (p : float) : bool :=
  PrimFloat.is_finite p && PrimFloat.leb PrimFloat.zero p && PrimFloat.leb p PrimFloat.one.

(* what the correspondence compares: (active, finished, total reported by the implementation) *)
Definition check_fcase (c : list (float * float) * (list float * float)) : bool :=
  PrimFloat.eqb (fprogress (fst c) (fst (snd c))) (snd (snd c)).
