(* C20 — the floating point accumulation of total progress (FloatModel.fprogress, Coq primitive
   floats = IEEE-754 binary64 round-to-nearest-even) against the exact real/rational value.
   RSum.v (abstract rounding) is instantiated with Flocq's binary64 rounding; Flocq's
   IEEE754.PrimFloat ties the primitive operations to Flocq's Bplus/Bmult.  *)
From Coq Require Import ZArith Reals Lra Lia List Bool.
From Flocq Require Import Core Relative Plus_error BinarySingleNaN.
From Flocq Require IEEE754.PrimFloat.
Require Import V.Weights.RSum V.Weights.FloatModel.
Module FP := Flocq.IEEE754.PrimFloat.
Module CF := Coq.Floats.PrimFloat.
Import ListNotations.
Open Scope R_scope.

Notation fexp64 := (FLT_exp (-1074) 53).
Definition rnd64 (x : R) : R := round radix2 fexp64 ZnearestE x.
Definition F64 (x : R) : Prop := generic_format radix2 fexp64 x.
Definition u64 : R := / 2 * bpow radix2 (-53 + 1).       (* 2^-53 *)
Definition eta64 : R := / 2 * bpow radix2 (-1074).        (* 2^-1075 *)

Local Instance p53 : Prec_gt_0 53 := FP.Hprec.
Local Instance pmax : Prec_lt_emax 53 1024 := FP.Hmax.

Lemma u64_val : u64 = / 9007199254740992.
Proof.
  unfold u64. replace (bpow radix2 (-53 + 1)) with (/ 4503599627370496) by reflexivity. lra.
Qed.

Lemma u64_range : 0 <= u64 <= 1.
Proof. rewrite u64_val. lra. Qed.

Lemma eta64_pos : 0 <= eta64.
Proof. unfold eta64. pose proof (bpow_ge_0 radix2 (-1074)). lra. Qed.

Lemma eta64_le_u64 : eta64 <= u64.
Proof.
  unfold eta64, u64. assert (H : bpow radix2 (-1074) <= bpow radix2 (-53 + 1)) by (apply bpow_le; lia). lra.
Qed.

Lemma rnd64_plus x y : F64 x -> F64 y -> Rabs (rnd64 (x + y) - (x + y)) <= u64 * Rabs (x + y).
Proof.
  intros Fx Fy.
  destruct (FLT_plus_error_N_ex radix2 (-1074) 53 (fun z => negb (Z.even z)) x y Fx Fy) as [eps [He Heq]].
  unfold rnd64. rewrite Heq.
  replace ((x + y) * (1 + eps) - (x + y)) with (eps * (x + y)) by ring.
  rewrite Rabs_mult. apply Rmult_le_compat_r; [apply Rabs_pos|].
  eapply Rle_trans; [exact He|]. apply u_rod1pu_ro_le_u_ro.
Qed.

Lemma rnd64_any x : Rabs (rnd64 x - x) <= u64 * Rabs x + eta64.
Proof.
  destruct (error_N_FLT radix2 (-1074) 53 ltac:(lia) (fun z => negb (Z.even z)) x) as [eps [eta [He [Ht [_ Heq]]]]].
  unfold rnd64. rewrite Heq.
  replace (x * (1 + eps) + eta - x) with (eps * x + eta) by ring.
  eapply Rle_trans; [apply Rabs_triang|]. rewrite Rabs_mult.
  apply Rplus_le_compat; [|exact Ht]. apply Rmult_le_compat_r; [apply Rabs_pos|exact He].
Qed.

Lemma rnd64_F x : F64 (rnd64 x).
Proof. apply generic_format_round; typeclasses eauto. Qed.

Lemma rnd64_mono x y : x <= y -> rnd64 x <= rnd64 y.
Proof. apply round_le; typeclasses eauto. Qed.

Lemma rnd64_0 : rnd64 0 = 0.
Proof. apply round_0. typeclasses eauto. Qed.

Lemma rnd64_id x : F64 x -> rnd64 x = x.
Proof. apply round_generic. typeclasses eauto. Qed.

(* ---- Flocq binary64 *)
Notation B64 := (binary_float 53 1024).
Definition fin (x : B64) : Prop := is_finite x = true.

Lemma B2R_F64 (x : B64) : F64 (B2R x).
Proof. exact (generic_format_B2R 53 1024 x). Qed.

Lemma bpow1024_big : 18 < bpow radix2 1024.
Proof.
  apply Rlt_le_trans with (bpow radix2 5); [|apply bpow_le; lia].
  replace (bpow radix2 5) with 32 by reflexivity. lra.
Qed.

Lemma Bplus_ok (x y : B64) :
  fin x -> fin y -> 0 <= B2R x + B2R y -> (1 + u64) * (B2R x + B2R y) < bpow radix2 1024 ->
  B2R (Bplus mode_NE x y) = rnd64 (B2R x + B2R y) /\ fin (Bplus mode_NE x y).
Proof.
  intros Fx Fy H0 Hb.
  pose proof (Bplus_correct 53 1024 p53 pmax mode_NE x y Fx Fy) as H.
  change (round radix2 (SpecFloat.fexp 53 1024) (round_mode mode_NE) (B2R x + B2R y))
    with (rnd64 (B2R x + B2R y)) in H.
  rewrite Rlt_bool_true in H.
  - destruct H as [H1 [H2 _]]. split; assumption.
  - pose proof (rnd_plus_bounds u64 rnd64 F64 rnd64_plus _ _ (B2R_F64 x) (B2R_F64 y) H0) as [B1 B2].
    assert (0 <= rnd64 (B2R x + B2R y)) by (rewrite <- rnd64_0; apply rnd64_mono, H0).
    rewrite Rabs_pos_eq by assumption. lra.
Qed.

Lemma Bmult_ok (p w : B64) :
  fin p -> fin w -> 0 <= B2R p <= 1 -> 0 <= B2R w ->
  B2R (Bmult mode_NE p w) = rnd64 (B2R p * B2R w) /\ fin (Bmult mode_NE p w).
Proof.
  intros Fp Fw Hp Hw.
  pose proof (Bmult_correct 53 1024 p53 pmax mode_NE p w) as H.
  change (round radix2 (SpecFloat.fexp 53 1024) (round_mode mode_NE) (B2R p * B2R w))
    with (rnd64 (B2R p * B2R w)) in H.
  rewrite Rlt_bool_true in H.
  - destruct H as [H1 [H2 _]]. split; [assumption|]. unfold fin. rewrite H2, Fp, Fw. reflexivity.
  - assert (0 <= rnd64 (B2R p * B2R w)) by (rewrite <- rnd64_0; apply rnd64_mono; nra).
    rewrite Rabs_pos_eq by assumption.
    apply Rle_lt_trans with (B2R w).
    + rewrite <- (rnd64_id (B2R w) (B2R_F64 w)) at 2. apply rnd64_mono. nra.
    + pose proof (abs_B2R_lt_emax 53 1024 w) as A. rewrite Rabs_pos_eq in A by assumption. exact A.
Qed.

Definition Bsum (acc : B64) (ts : list B64) : B64 := fold_left (Bplus mode_NE) ts acc.

Lemma Bsum_ok : forall (ts : list B64) (acc : B64),
  fin acc -> Forall fin ts -> 0 <= B2R acc -> Forall (fun t => 0 <= B2R t) ts ->
  (1 + u64) ^ length ts * (B2R acc + sumR (map B2R ts)) < bpow radix2 1024 ->
  fin (Bsum acc ts) /\ B2R (Bsum acc ts) = rsum rnd64 (B2R acc) (map B2R ts).
Proof.
  induction ts as [|t ts IH]; intros acc Fa Fts Ha Hts Hb.
  - split; [exact Fa|reflexivity].
  - inversion Fts as [|? ? Ft Fts']; subst. inversion Hts as [|? ? Ht Hts']; subst.
    cbn [length map sumR fold_right pow] in Hb. fold (sumR (map B2R ts)) in Hb.
    assert (Hs : 0 <= sumR (map B2R ts)).
    { apply sumR_nonneg. apply Forall_forall. intros x Hx. apply in_map_iff in Hx as [y [<- Hy]].
      rewrite Forall_forall in Hts'. apply Hts', Hy. }
    pose proof (pow1p_ge1 u64 (length ts) (proj1 u64_range)) as P1.
    pose proof u64_range as Ur.
    assert (Hb1 : (1 + u64) * (B2R acc + B2R t) < bpow radix2 1024).
    { eapply Rle_lt_trans; [|exact Hb]. rewrite Rmult_assoc. apply Rmult_le_compat_l; [lra|].
      set (P := (1 + u64) ^ length ts) in *. nra. }
    destruct (Bplus_ok acc t Fa Ft ltac:(lra) Hb1) as [E1 F1].
    pose proof (rnd_plus_bounds u64 rnd64 F64 rnd64_plus _ _ (B2R_F64 acc) (B2R_F64 t) ltac:(lra)) as [B1 B2].
    cbn [Bsum fold_left map rsum]. fold (Bsum (Bplus mode_NE acc t) ts).
    rewrite <- E1. fold (rsum rnd64 (B2R (Bplus mode_NE acc t)) (map B2R ts)).
    apply IH; try assumption.
    + rewrite E1. assert (0 <= (1 - u64) * (B2R acc + B2R t)) by (apply Rmult_le_pos; lra). lra.
    + eapply Rle_lt_trans; [|exact Hb]. rewrite E1.
      rewrite Rmult_assoc, (Rmult_comm (1 + u64)), Rmult_assoc.
      apply Rmult_le_compat_l; [lra|]. nra.
Qed.

(* ---- primitive floats *)
Definition fval (x : CF.float) : R := B2R (FP.Prim2B x).
Definition ffin (x : CF.float) : Prop := fin (FP.Prim2B x).

Lemma Prim2B_fold_add : forall ts acc,
  FP.Prim2B (fold_left CF.add ts acc) = Bsum (FP.Prim2B acc) (map FP.Prim2B ts).
Proof.
  induction ts as [|t ts IH]; intros acc; [reflexivity|].
  cbn [fold_left map Bsum]. rewrite IH, FP.add_equiv. reflexivity.
Qed.

Definition fmulpw (pw : CF.float * CF.float) : CF.float := CF.mul (fst pw) (snd pw).

Lemma fprogress_terms active finished :
  fprogress active finished = fold_left CF.add (map fmulpw active ++ finished) CF.zero.
Proof.
  unfold fprogress. rewrite fold_left_app. f_equal.
  generalize CF.zero. induction active as [|pw l IH]; intros a; [reflexivity|].
  cbn [fold_left map]. apply IH.
Qed.

Lemma Rle_bool_true_inv x y : Rle_bool x y = true -> x <= y.
Proof. destruct (Rle_bool_spec x y); [auto|discriminate]. Qed.

Lemma weight_ok_spec w : weight_ok w = true -> ffin w /\ 0 <= fval w.
Proof.
  unfold weight_ok. intros H. apply andb_true_iff in H as [H1 H2].
  rewrite FP.is_finite_equiv in H1. split; [exact H1|].
  rewrite FP.leb_equiv in H2. rewrite Bleb_correct in H2; [|rewrite FP.zero_equiv, FP.Prim2B_B2Prim; reflexivity|exact H1].
  apply Rle_bool_true_inv in H2. rewrite FP.zero_equiv, FP.Prim2B_B2Prim in H2. exact H2.
Qed.

Lemma fval_one : fval CF.one = 1.
Proof. unfold fval. rewrite FP.one_equiv, FP.Prim2B_B2Prim. apply Bone_correct. Qed.

Lemma prog_ok_spec p : prog_ok p = true -> ffin p /\ 0 <= fval p <= 1.
Proof.
  unfold prog_ok. intros H. apply andb_true_iff in H as [H H3]. pose proof H as Hw.
  apply weight_ok_spec in Hw as [Hf H0]. split; [exact Hf|]. split; [exact H0|].
  rewrite FP.leb_equiv in H3. rewrite Bleb_correct in H3; [|exact Hf|rewrite FP.one_equiv, FP.Prim2B_B2Prim; reflexivity].
  apply Rle_bool_true_inv in H3. fold (fval p) in H3. fold (fval CF.one) in H3. rewrite fval_one in H3. exact H3.
Qed.

Definition rpairs (active : list (CF.float * CF.float)) : list (R * R) :=
  map (fun pw => (fval (fst pw), fval (snd pw))) active.

(* exact real value of the sum over the float inputs *)
Definition exactF (active : list (CF.float * CF.float)) (finished : list CF.float) : R :=
  exact_prods (rpairs active) + sumR (map fval finished).

Lemma active_terms (active : list (CF.float * CF.float)) :
  Forall (fun pw => prog_ok (fst pw) = true /\ weight_ok (snd pw) = true) active ->
  Forall fin (map FP.Prim2B (map fmulpw active)) /\
  map B2R (map FP.Prim2B (map fmulpw active)) = prods rnd64 (rpairs active).
Proof.
  induction 1 as [|[p w] l [Hp Hw] _ IH]; [split; [constructor|reflexivity]|].
  cbn [fst snd] in *. apply prog_ok_spec in Hp as [Fp Rp]. apply weight_ok_spec in Hw as [Fw Rw].
  destruct (Bmult_ok _ _ Fp Fw Rp Rw) as [E1 F1]. destruct IH as [IH1 IH2].
  cbn [map]. unfold fmulpw at 1 3. cbn [fst snd]. rewrite FP.mul_equiv. split.
  - constructor; [exact F1|exact IH1].
  - unfold rpairs, prods in *. cbn [map fst snd]. f_equal; [exact E1|exact IH2].
Qed.

Lemma finished_terms (finished : list CF.float) :
  Forall (fun w => weight_ok w = true) finished ->
  Forall fin (map FP.Prim2B finished) /\ Forall (fun w => 0 <= w) (map fval finished) /\
  Forall F64 (map fval finished).
Proof.
  induction 1 as [|w l Hw _ [IH1 [IH2 IH3]]]; [repeat split; constructor|].
  apply weight_ok_spec in Hw as [Fw Rw]. cbn [map].
  repeat split; constructor; try assumption. apply B2R_F64.
Qed.

Lemma rpairs_nonneg (active : list (CF.float * CF.float)) :
  Forall (fun pw => prog_ok (fst pw) = true /\ weight_ok (snd pw) = true) active ->
  Forall (fun x => 0 <= fst x /\ 0 <= snd x) (rpairs active).
Proof.
  induction 1 as [|[p w] l [Hp Hw] _ IH]; [constructor|].
  cbn [fst snd] in *. apply prog_ok_spec in Hp as [_ Rp]. apply weight_ok_spec in Hw as [_ Rw].
  unfold rpairs. cbn [map fst snd]. constructor; [cbn [fst snd]; lra|exact IH].
Qed.

Section Main.
  Variables (active : list (CF.float * CF.float)) (finished : list CF.float).
  Hypothesis Hact : Forall (fun pw => prog_ok (fst pw) = true /\ weight_ok (snd pw) = true) active.
  Hypothesis Hfin : Forall (fun w => weight_ok w = true) finished.
  Let n := (length active + length finished)%nat.
  Hypothesis Hn : (Z.of_nat n <= 1048576)%Z.
  Hypothesis HE : exactF active finished <= 4.

  Let terms : list B64 := map FP.Prim2B (map fmulpw active ++ finished).

  Lemma INR_n_le : INR n <= 1048576.
  Proof. rewrite INR_IZR_INZ. apply IZR_le. exact Hn. Qed.

  (* The float total is finite, non-negative, and within the relative bound of the exact sum. *)
  Theorem fprogress_bounds :
    ffin (fprogress active finished) /\
    0 <= fval (fprogress active finished) /\
    (1 - u64) ^ S n * exactF active finished - INR (length active) * eta64
      <= fval (fprogress active finished)
      <= (1 + u64) ^ S n * exactF active finished + (1 + u64) ^ n * (INR (length active) * eta64).
  Proof.
    destruct (active_terms active Hact) as [A1 A2]. destruct (finished_terms finished Hfin) as [G1 [G2 G3]].
    pose proof (rpairs_nonneg active Hact) as Hnn.
    assert (Lr : length (rpairs active) = length active) by apply map_length.
    assert (Lf : length (map fval finished) = length finished) by apply map_length.
    pose proof (rtotal_bounds u64 eta64 rnd64 F64 u64_range eta64_pos rnd64_plus rnd64_any rnd64_F rnd64_mono rnd64_0
                  (rpairs active) (map fval finished) Hnn G2 G3) as RT.
    cbv zeta in RT. rewrite Lr, Lf in RT. fold n in RT. fold (exactF active finished) in RT.
    set (E := exactF active finished) in *.
    (* the list of real terms *)
    assert (MT : map B2R terms = prods rnd64 (rpairs active) ++ map fval finished).
    { unfold terms. rewrite !map_app. f_equal; [exact A2|]. unfold fval. rewrite map_map. reflexivity. }
    assert (FT : Forall fin terms) by (unfold terms; rewrite map_app; apply Forall_app; split; assumption).
    destruct (prods_bounds u64 eta64 rnd64 rnd64_any rnd64_mono rnd64_0 (rpairs active) Hnn) as [Tp Tb].
    rewrite Lr in Tb.
    assert (HT : Forall (fun t => 0 <= B2R t) terms).
    { assert (H : Forall (fun x => 0 <= x) (map B2R terms)) by (rewrite MT; apply Forall_app; split; assumption).
      rewrite Forall_forall in H |- *. intros t Ht. apply H. apply in_map, Ht. }
    assert (LT : length terms = n).
    { unfold terms. rewrite map_length, app_length, map_length. reflexivity. }
    (* no overflow *)
    pose proof INR_n_le as Hn'. pose proof u64_range as Ur. pose proof u64_val as Uv.
    pose proof eta64_pos as Ep. pose proof eta64_le_u64 as Eu.
    assert (Hla : 0 <= INR (length active) <= INR n).
    { split; [apply pos_INR|]. apply le_INR. unfold n. lia. }
    assert (Hke : 0 <= INR (length active) * eta64 <= 1) by nra.
    assert (Pn : (1 + u64) ^ n <= 2).
    { eapply Rle_trans; [apply pow1p_le; [lra|nra]|]. nra. }
    pose proof (pow1p_ge1 u64 n (proj1 Ur)) as P1.
    assert (HE0 : 0 <= E).
    { unfold E, exactF. apply Rplus_le_le_0_compat; [|apply sumR_nonneg, G2].
      unfold exact_prods. apply sumR_nonneg. apply Forall_forall. intros x Hx.
      apply in_map_iff in Hx as [y [<- Hy]]. rewrite Forall_forall in Hnn. destruct (Hnn y Hy). nra. }
    assert (Hsum : sumR (map B2R terms) <= 9).
    { rewrite MT, sumR_app. fold E in HE. unfold E, exactF in HE, HE0.
      set (Ea := exact_prods (rpairs active)) in *. set (Sf := sumR (map fval finished)) in *.
      assert (0 <= Sf) by (apply sumR_nonneg, G2). nra. }
    assert (Hs0 : 0 <= sumR (map B2R terms)).
    { apply sumR_nonneg. rewrite MT. apply Forall_app; split; assumption. }
    assert (Z0 : FP.Prim2B CF.zero = B754_zero false) by (rewrite FP.zero_equiv; apply FP.Prim2B_B2Prim).
    assert (OV : (1 + u64) ^ length terms * (B2R (FP.Prim2B CF.zero) + sumR (map B2R terms)) < bpow radix2 1024).
    { rewrite LT, Z0. cbn [B2R]. eapply Rle_lt_trans; [|exact bpow1024_big]. nra. }
    destruct (Bsum_ok terms (FP.Prim2B CF.zero) ltac:(rewrite Z0; reflexivity) FT ltac:(rewrite Z0; cbn; lra) HT OV) as [S1 S2].
    rewrite Z0 in S1, S2. cbn [B2R] in S2. rewrite MT in S2.
    assert (EQ : FP.Prim2B (fprogress active finished) = Bsum (FP.Prim2B CF.zero) terms).
    { rewrite fprogress_terms, Prim2B_fold_add. reflexivity. }
    rewrite Z0 in EQ.
    assert (Hr : fval (fprogress active finished) = rsum rnd64 0 (prods rnd64 (rpairs active) ++ map fval finished)).
    { unfold fval. rewrite EQ. exact S2. }
    split; [unfold ffin; rewrite EQ; exact S1|]. rewrite Hr. exact RT.
  Qed.

  (* the same, in closed form: |float total - exact| <= (n+1) 2^-52 exact + n 2^-1074 *)
  Theorem fprogress_error :
    Rabs (fval (fprogress active finished) - exactF active finished)
      <= INR (S n) * (2 * u64) * exactF active finished + INR n * (2 * eta64).
  Proof.
    destruct fprogress_bounds as [_ [_ [L U]]].
    set (E := exactF active finished) in *. set (r := fval (fprogress active finished)) in *.
    pose proof INR_n_le as Hn'. pose proof u64_range as Ur. pose proof u64_val as Uv. pose proof eta64_pos as Ep.
    assert (HE0 : 0 <= E).
    { destruct (finished_terms finished Hfin) as [_ [G2 _]]. pose proof (rpairs_nonneg active Hact) as Hnn.
      unfold E, exactF. apply Rplus_le_le_0_compat; [|apply sumR_nonneg, G2].
      unfold exact_prods. apply sumR_nonneg. apply Forall_forall. intros x Hx.
      apply in_map_iff in Hx as [y [<- Hy]]. rewrite Forall_forall in Hnn. destruct (Hnn y Hy). nra. }
    assert (Hla : 0 <= INR (length active) <= INR n).
    { split; [apply pos_INR|]. apply le_INR. unfold n. lia. }
    assert (HS : INR (S n) = INR n + 1) by apply S_INR.
    assert (PU : (1 + u64) ^ S n <= 1 + 2 * INR (S n) * u64) by (apply pow1p_le; [lra|nra]).
    assert (Pn : (1 + u64) ^ n <= 2).
    { eapply Rle_trans; [apply pow1p_le; [lra|nra]|]. nra. }
    pose proof (pow1m_ge u64 (S n) Ur) as PL.
    pose proof (pow1p_ge1 u64 n (proj1 Ur)) as P1.
    assert (Hk : 0 <= INR (length active) * eta64) by nra.
    apply Rabs_le. split.
    - apply Rle_trans with ((1 - u64) ^ S n * E - INR (length active) * eta64 - E); [|lra].
      assert ((1 - INR (S n) * u64) * E <= (1 - u64) ^ S n * E) by (apply Rmult_le_compat_r; lra). nra.
    - apply Rle_trans with ((1 + u64) ^ S n * E + (1 + u64) ^ n * (INR (length active) * eta64) - E); [lra|].
      assert ((1 + u64) ^ S n * E <= (1 + 2 * INR (S n) * u64) * E) by (apply Rmult_le_compat_r; lra).
      assert ((1 + u64) ^ n * (INR (length active) * eta64) <= 2 * (INR n * eta64)) by nra.
      nra.
  Qed.
End Main.

(* ---- the float inputs are themselves roundings of exact values (weights k/W read from the
   package or computed as k/1000.0, progress a/D computed as len_finished/float(total)):
   each is within one relative rounding error u64 of its exact value. *)
Definition fnear (x : CF.float) (q : R) : Prop := near u64 (fval x) q.

Lemma near_rnd64 q : bpow radix2 (-1022) <= q -> near u64 (rnd64 q) q.
Proof.
  intros Hq. assert (0 < q) by (pose proof (bpow_gt_0 radix2 (-1022)); lra).
  pose proof (relative_error_N_FLT radix2 (-1074) 53 ltac:(lia) (fun z => negb (Z.even z)) q) as H0.
  rewrite (Rabs_pos_eq q) in H0 by lra. specialize (H0 Hq).
  apply Rabs_le_inv in H0. unfold near, u64, rnd64.
  change (bpow radix2 (- (53) + 1)) with (bpow radix2 (-52)) in H0.
  change (bpow radix2 (-53 + 1)) with (bpow radix2 (-52)). lra.
Qed.

Lemma near_rnd64_0 : near u64 (rnd64 0) 0.
Proof. rewrite rnd64_0. unfold near. lra. Qed.

Lemma rpairs_near (l1 : list (CF.float * CF.float)) (l2 : list (R * R)) :
  Forall2 (fun pw q => 0 <= fst q /\ 0 <= snd q /\ fnear (fst pw) (fst q) /\ fnear (snd pw) (snd q)) l1 l2 ->
  Forall2 (fun x q => 0 <= fst q /\ 0 <= snd q /\ near u64 (fst x) (fst q) /\ near u64 (snd x) (snd q)) (rpairs l1) l2.
Proof. induction 1 as [|pw q l1 l2 H _ IH]; [constructor|]. cbn [rpairs map]. constructor; [exact H|exact IH]. Qed.

Lemma fvals_near (l1 : list CF.float) (l2 : list R) :
  Forall2 (fun w q => 0 <= q /\ fnear w q) l1 l2 ->
  Forall2 (fun x q => 0 <= q /\ near u64 x q) (map fval l1) l2.
Proof. induction 1 as [|w q l1 l2 H _ IH]; [constructor|]. cbn [map]. constructor; [exact H|exact IH]. Qed.

Section Rational.
  Variables (active : list (CF.float * CF.float)) (finished : list CF.float).
  Variables (qa : list (R * R)) (qf : list R).
  Hypothesis Hact : Forall (fun pw => prog_ok (fst pw) = true /\ weight_ok (snd pw) = true) active.
  Hypothesis Hfin : Forall (fun w => weight_ok w = true) finished.
  Hypothesis Hqa : Forall2 (fun pw q => 0 <= fst q /\ 0 <= snd q /\ fnear (fst pw) (fst q) /\ fnear (snd pw) (snd q)) active qa.
  Hypothesis Hqf : Forall2 (fun w q => 0 <= q /\ fnear w q) finished qf.
  Let n := (length active + length finished)%nat.
  Hypothesis Hn : (Z.of_nat n <= 1048576)%Z.
  Let X := exact_prods qa + sumR qf.
  Hypothesis HX : X <= 2.

  Lemma exactF_near : 0 <= X /\ (1 - u64) ^ 2 * X <= exactF active finished <= (1 + u64) ^ 2 * X.
  Proof.
    pose proof (rpairs_near _ _ Hqa) as A. pose proof (fvals_near _ _ Hqf) as B.
    destruct (near_prods u64 u64_range _ _ A) as [A0 [A1 A2]].
    destruct (near_sum u64 u64_range _ _ B) as [B0 [B1 B2]].
    pose proof u64_range as Ur. unfold X, exactF.
    set (Ea := exact_prods (rpairs active)) in *. set (Sf := sumR (map fval finished)) in *.
    set (Xa := exact_prods qa) in *. set (Xf := sumR qf) in *.
    replace ((1 - u64) ^ 2) with ((1 - u64) * (1 - u64)) in * by ring.
    replace ((1 + u64) ^ 2) with ((1 + u64) * (1 + u64)) in * by ring.
    assert (0 <= (1 - u64) * Xf) by (apply Rmult_le_pos; lra).
    assert (0 <= u64 * ((1 - u64) * Xf)) by (apply Rmult_le_pos; lra).
    assert (0 <= u64 * ((1 + u64) * Xf)) by (apply Rmult_le_pos; [lra|apply Rmult_le_pos; lra]).
    split; [lra|]. split; lra.
  Qed.

  Theorem fprogress_vs_exact :
    ffin (fprogress active finished) /\ 0 <= fval (fprogress active finished) /\
    Rabs (fval (fprogress active finished) - X) <= INR (n + 3) * (2 * u64) * X + INR n * (2 * eta64).
  Proof.
    destruct exactF_near as [X0 [L U]].
    pose proof u64_range as Ur. pose proof u64_val as Uv. pose proof eta64_pos as Ep.
    assert (HE : exactF active finished <= 4).
    { eapply Rle_trans; [exact U|]. replace ((1 + u64) ^ 2) with ((1 + u64) * (1 + u64)) by ring.
      rewrite Uv. nra. }
    destruct (fprogress_bounds active finished Hact Hfin Hn HE) as [Ff [F0 [FL FU]]].
    fold n in FL, FU. split; [exact Ff|]. split; [exact F0|].
    set (E := exactF active finished) in *. set (r := fval (fprogress active finished)) in *.
    pose proof (INR_n_le active finished Hn) as Hn'. fold n in Hn'.
    assert (Hla : 0 <= INR (length active) <= INR n).
    { split; [apply pos_INR|]. apply le_INR. unfold n. lia. }
    assert (H3 : INR (n + 3) = INR n + 3) by (rewrite plus_INR; simpl; lra).
    assert (EqU : (1 + u64) ^ S n * (1 + u64) ^ 2 = (1 + u64) ^ (n + 3)).
    { rewrite <- pow_add. f_equal. lia. }
    assert (EqL : (1 - u64) ^ S n * (1 - u64) ^ 2 = (1 - u64) ^ (n + 3)).
    { rewrite <- pow_add. f_equal. lia. }
    assert (PU : (1 + u64) ^ (n + 3) <= 1 + 2 * INR (n + 3) * u64) by (apply pow1p_le; [lra|nra]).
    pose proof (pow1m_ge u64 (n + 3) Ur) as PL.
    assert (Pn : (1 + u64) ^ n <= 2).
    { eapply Rle_trans; [apply pow1p_le; [lra|nra]|]. nra. }
    pose proof (pow1p_ge1 u64 n (proj1 Ur)) as P1.
    pose proof (pow1p_ge1 u64 (S n) (proj1 Ur)) as P1s.
    pose proof (pow1m_range u64 (S n) Ur) as P2s.
    assert (Hk : 0 <= INR (length active) * eta64) by nra.
    assert (FU' : r <= (1 + u64) ^ (n + 3) * X + 2 * (INR n * eta64)).
    { rewrite <- EqU. eapply Rle_trans; [exact FU|].
      assert ((1 + u64) ^ S n * E <= (1 + u64) ^ S n * ((1 + u64) ^ 2 * X)) by (apply Rmult_le_compat_l; lra).
      assert ((1 + u64) ^ n * (INR (length active) * eta64) <= 2 * (INR n * eta64)) by nra. lra. }
    assert (FL' : (1 - u64) ^ (n + 3) * X - INR n * eta64 <= r).
    { rewrite <- EqL. eapply Rle_trans; [|exact FL].
      assert ((1 - u64) ^ S n * ((1 - u64) ^ 2 * X) <= (1 - u64) ^ S n * E) by (apply Rmult_le_compat_l; lra).
      nra. }
    apply Rabs_le. split.
    - assert ((1 - INR (n + 3) * u64) * X <= (1 - u64) ^ (n + 3) * X) by (apply Rmult_le_compat_r; lra). nra.
    - assert ((1 + u64) ^ (n + 3) * X <= (1 + 2 * INR (n + 3) * u64) * X) by (apply Rmult_le_compat_r; lra). nra.
  Qed.
End Rational.

(* concrete values, for the non-vacuity example *)
Definition fhalf : CF.float := CF.div CF.one CF.two.
Lemma fval_half : fval fhalf = / 2.
Proof.
  unfold fval, FP.Prim2B. rewrite B2R_SF2B.
  replace (FloatOps.Prim2SF fhalf) with (SpecFloat.S754_finite false 4503599627370496 (-53)) by (vm_compute; reflexivity).
  cbn [SF2R]. unfold F2R. cbn [Fnum Fexp cond_Zopp].
  replace (bpow radix2 (-53)) with (/ 9007199254740992) by reflexivity. lra.
Qed.

Lemma consts64 : 2 * u64 = / 4503599627370496 /\ 2 * eta64 = bpow radix2 (-1074).
Proof. split; [rewrite u64_val; lra|unfold eta64; lra]. Qed.

(* every stage complete: all exact progress values are 1 and the exact weights sum to one *)
Lemma exact_prods_complete (qa : list (R * R)) :
  Forall (fun q => fst q = 1) qa -> exact_prods qa = sumR (map snd qa).
Proof.
  unfold exact_prods, sumR. induction 1 as [|[p w] l H _ IH]; [reflexivity|].
  cbn [map fold_right fst snd] in *. rewrite IH, H. lra.
Qed.

Theorem fprogress_complete active finished qa qf :
  Forall (fun pw => prog_ok (fst pw) = true /\ weight_ok (snd pw) = true) active ->
  Forall (fun w => weight_ok w = true) finished ->
  Forall2 (fun pw q => 0 <= fst q /\ 0 <= snd q /\ fnear (fst pw) (fst q) /\ fnear (snd pw) (snd q)) active qa ->
  Forall2 (fun w q => 0 <= q /\ fnear w q) finished qf ->
  (Z.of_nat (length active + length finished) <= 1048576)%Z ->
  Forall (fun q => fst q = 1) qa -> sumR (map snd qa) + sumR qf = 1 ->
  Rabs (fval (fprogress active finished) - 1)
    <= INR (length active + length finished + 3) * (2 * u64) + INR (length active + length finished) * (2 * eta64).
Proof.
  intros Ha Hf Hqa Hqf Hn H1 Hs.
  assert (HX : exact_prods qa + sumR qf = 1) by (rewrite exact_prods_complete; assumption).
  destruct (fprogress_vs_exact active finished qa qf Ha Hf Hqa Hqf Hn ltac:(lra)) as [_ [_ B]].
  rewrite HX in B. lra.
Qed.

Example float_nonvacuous :
  Forall (fun pw => prog_ok (fst pw) = true /\ weight_ok (snd pw) = true) [(fhalf, fhalf)] /\
  Forall (fun w => weight_ok w = true) [fhalf] /\
  Forall2 (fun pw q => 0 <= fst q /\ 0 <= snd q /\ fnear (fst pw) (fst q) /\ fnear (snd pw) (snd q)) [(fhalf, fhalf)] [(/ 2, / 2)] /\
  Forall2 (fun w q => 0 <= q /\ fnear w q) [fhalf] [/ 2] /\
  exact_prods [(/ 2, / 2)] + sumR [/ 2] = 3 / 4 /\
  CF.eqb (fprogress [(fhalf, fhalf)] [fhalf]) (CF.add (CF.mul fhalf fhalf) fhalf) = true.
Proof.
  assert (N : fnear fhalf (/ 2)) by (unfold fnear, near; rewrite fval_half; pose proof u64_range; lra).
  assert (W : weight_ok fhalf = true) by (vm_compute; reflexivity).
  assert (P : prog_ok fhalf = true) by (vm_compute; reflexivity).
  split; [repeat constructor; cbn [fst snd]; assumption|].
  split; [repeat constructor; assumption|].
  split; [constructor; [cbn [fst snd]; split; [lra|split; [lra|split; exact N]]|constructor]|].
  split; [constructor; [split; [lra|exact N]|constructor]|].
  split; [unfold exact_prods, sumR; cbn [map fold_right fst snd]; lra|].
  vm_compute. reflexivity.
Qed.
