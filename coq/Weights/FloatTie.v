(* Finite sweeps tying the integer model of C20 to the IEEE-754 double arithmetic the Python code
   performs.  Each statement carries its bound; it is proved by vm_compute over the whole range and
   lifted with forallb_forall.  The primitives PrimFloat.* are the only assumptions. *)
From Coq Require Import ZArith List Bool Lia PrimFloat Uint63 FloatOps SpecFloat.
Import ListNotations.

(* truncation toward zero of a finite float, via its exact SpecFloat decoding *)
Definition trunc_sf (x : spec_float) : option Z :=
  match x with
  | S754_zero _ => Some 0%Z
  | S754_finite s m e =>
      let v := match e with
               | Z0 => Z.pos m
               | Zpos p => (Z.pos m * Z.pow_pos 2 p)%Z
               | Zneg p => (Z.pos m / Z.pow_pos 2 p)%Z
               end in
      Some (if s then (- v)%Z else v)
  | _ => None
  end.

Definition ftrunc (x : float) : option Z := trunc_sf (Prim2SF x).
Definition fZ (z : Z) : float := of_uint63 (Uint63.of_Z z).   (* exact for 0 <= z < 2^53 *)

Definition zrange (lo n : nat) : list Z := map (fun i => Z.of_nat (lo + i)) (seq 0 n).

(* int((k/1000.0) * 1000) = k  for every weight with three decimals in [0,1] *)
Definition tie_k (k : Z) : bool :=
  match ftrunc (PrimFloat.mul (PrimFloat.div (fZ k) (fZ 1000)) (fZ 1000)) with Some r => Z.eqb r k | None => false end.

(* int(1000 / n) = 1000 / n (floor), and the default weight maps back to its thousandths *)
Definition tie_n (n : Z) : bool :=
  match ftrunc (PrimFloat.div (fZ 1000) (fZ n)) with Some r => Z.eqb r (1000 / n) | None => false end.

(* the coded "last stage" condition  n * int(100 * fallbackWeight) != 1000  is true
   (int(100 * (q/1000.0)) may differ from q/10 by one, e.g. q = 290, so the condition itself is swept) *)
Definition tie_q (n : Z) : bool :=
  match ftrunc (PrimFloat.mul (fZ 100) (PrimFloat.div (fZ (1000 / n)) (fZ 1000))) with
  | Some r => negb (Z.eqb (n * r) 1000) | None => false end.

Lemma in_zrange lo n z : (Z.of_nat lo <= z < Z.of_nat (lo + n))%Z -> In z (zrange lo n).
Proof.
  intros H. unfold zrange. apply in_map_iff. exists (Z.to_nat z - lo)%nat. split; [lia|].
  apply in_seq. lia.
Qed.

Lemma tie_k_all : forall k, (0 <= k <= 1000)%Z -> tie_k k = true.
Proof.
  assert (H : forallb tie_k (zrange 0 1001) = true) by (vm_compute; reflexivity).
  intros k Hk. rewrite forallb_forall in H. apply H. apply in_zrange. lia.
Qed.

Lemma tie_n_all : forall n, (1 <= n <= 2000)%Z -> tie_n n = true.
Proof.
  assert (H : forallb tie_n (zrange 1 2000) = true) by (vm_compute; reflexivity).
  intros n Hn. rewrite forallb_forall in H. apply H. apply in_zrange. lia.
Qed.

Lemma tie_q_all : forall n, (1 <= n <= 2000)%Z -> tie_q n = true.
Proof.
  assert (H : forallb tie_q (zrange 1 2000) = true) by (vm_compute; reflexivity).
  intros n Hn. rewrite forallb_forall in H. apply H. apply in_zrange. lia.
Qed.

