(* C20 — Reported progress is a proper weighted fraction.  Property theorems only. *)
From Coq Require Import ZArith List Bool Reals Lia.
Import ListNotations.
Require Import V.Weights.Model V.Weights.Proofs V.Weights.Malformed V.Weights.Stages V.Weights.FloatTie.
Require Import V.Weights.RSum V.Weights.FloatModel V.Weights.FloatSum.
Open Scope Z_scope.

(* Weights after loading: for every number of stages n >= 1, every scale c >= 1 (unit 1/(1000c):
   weights written with ANY number of decimals) and every assignment of given, missing (= 0) or
   negative weights: non-negative, sum to one (1000c units), equal to the given ones whenever those
   are non-negative and sum to one — and only then (otherwise the defaults) —, and accepted
   unchanged by the status monitor's own re-check.  No hypothesis on the number of decimals
   (the former three_decimals hypothesis is gone with the fix of F20b). *)
Theorem C20_weights : forall (c : Z) (given : list Z),
  1 <= c -> (1 <= length given)%nat ->
  length (normalise c given) = length given /\
  Forall (fun m => 0 <= m) (normalise c given) /\
  sumZ (normalise c given) = 1000 * c /\
  (Forall (fun m => 0 <= m) given -> sumZ given = 1000 * c -> normalise c given = given) /\
  (~ (Forall (fun m => 0 <= m) given /\ sumZ given = 1000 * c) ->
     normalise c given = map (Z.mul c) (repeat (1000 / Z.of_nat (length given)) (length given - 1)
                           ++ [1000 - (Z.of_nat (length given) - 1) * (1000 / Z.of_nat (length given))])) /\
  monitor_accepts c (normalise c given) = true.
Proof.
  intros c given Hc Hn. repeat split.
  - exact (normalise_length c given).
  - exact (normalise_nonneg c given ltac:(lia) Hn).
  - exact (normalise_sum c given Hn).
  - intros Hp Hs. exact (normalise_keeps c given Hp Hs).
  - intros H. exact (normalise_changes c given Hn H).
  - exact (monitor_accepts_normalised c given ltac:(lia) Hn).
Qed.
Print Assumptions C20_weights.

(* Non-negativity and acceptance by the monitor for any decimals (now a corollary of C20_weights). *)
Theorem C20_nonneg_any_decimals : forall (c : Z) (given : list Z),
  1 <= c -> (1 <= length given)%nat ->
  Forall (fun m => 0 <= m) (normalise c given) /\ monitor_accepts c (normalise c given) = true.
Proof.
  intros c given Hc Hn. split; [exact (normalise_nonneg c given ltac:(lia) Hn)|exact (monitor_accepts_normalised c given ltac:(lia) Hn)].
Qed.
Print Assumptions C20_nonneg_any_decimals.

(* The default path, explicitly: n-1 weights floor(1000/n)/1000 and the remainder on the last stage. *)
Theorem C20_default_path : forall n : nat, (1 <= n)%nat ->
  fallback n = repeat (1000 / Z.of_nat n) (n - 1) ++ [1000 - (Z.of_nat n - 1) * (1000 / Z.of_nat n)] /\
  Forall (fun w => 0 <= w) (fallback n) /\ sumZ (fallback n) = 1000.
Proof.
  intros n Hn. split; [exact (fallback_shape n Hn)|]. split; [exact (fallback_nonneg n Hn)|exact (fallback_sum n Hn)].
Qed.
Print Assumptions C20_default_path.

(* Total progress: per-stage progress a_i/D in [0,1], weights non-negative summing to S:
   0 <= total <= D*S, and total = D*S once every stage has completed. *)
Theorem C20_progress : forall (D : Z) (ws prog : list Z),
  0 <= D -> Forall (fun w => 0 <= w) ws -> Forall (fun a => 0 <= a <= D) prog -> length prog = length ws ->
  0 <= total ws prog <= D * sumZ ws /\ total ws (repeat D (length ws)) = D * sumZ ws.
Proof. intros D ws prog HD Hw Hp Hl. split; [exact (total_bounds D ws prog HD Hw Hp Hl)|exact (total_complete D ws)]. Qed.
Print Assumptions C20_progress.

(* ---- MALFORMED weights ("every assignment of given, missing or malformed stage weights").
   An entry is a number, missing, a text (numeric or not), nan/inf, or an object float() refuses
   (Model.wt).  used c given = the weights StatusMonitor finally uses after the workflow was loaded
   through FlowIR.inject_default_values (None: the load raised), in units 1/(1000*c*n).
   For every scale c >= 1, every n >= 1 and EVERY assignment of entries:
   the load raises exactly when an entry is an object float() refuses (None, list, mapping); otherwise the
   weights in use have one entry per stage, are non-negative and sum to one (1000*c*n units); they are
   - the given numbers (numbers, missing = 0, numeric texts) when those are non-negative and sum to one and
     no entry is an unparsable text,
   - the monitor's OWN equal weights 1/n when the numbers are non-negative and sum to one but an
     unparsable text (counted 0.0 by the load and left in the loaded FlowIR) is among the entries,
   - the explicit defaults of C20_default_path otherwise (also for nan / inf). *)
Theorem C20_malformed_weights : forall (c : Z) (given : list wt),
  1 <= c -> (1 <= length given)%nat ->
  (used c given = None <-> existsb is_bad given = true) /\
  (forall u, used c given = Some u ->
     length u = length given /\ Forall (fun m => 0 <= m) u /\ sumZ u = 1000 * c * Z.of_nat (length given)) /\
  used c given =
    (if existsb is_bad given then None
     else if inj_accepts c given
          then if existsb is_unparsable given then Some (repeat (1000 * c) (length given))
               else Some (map (Z.mul (Z.of_nat (length given))) (values given))
          else Some (map (Z.mul (Z.of_nat (length given))) (map (Z.mul c) (fallback (length given))))) /\
  (forall ms, existsb is_bad given = false -> existsb is_unparsable given = false ->
     all_some (map inj_value given) = Some ms -> Forall (fun m => 0 <= m) ms -> sumZ ms = 1000 * c ->
     used c given = Some (map (Z.mul (Z.of_nat (length given))) ms)).
Proof.
  intros c given Hc Hn. split; [exact (used_none_iff c given)|].
  split; [intros u Hu; exact (used_good c given u Hc Hu)|].
  split; [exact (used_spec c given Hc Hn)|].
  intros ms Hb Hu Hv Hp Hs. exact (used_keeps c given ms Hc Hn Hb Hu Hv Hp Hs).
Qed.
Print Assumptions C20_malformed_weights.

(* A status-report ENTRY WITHOUT a 'stage-weight' key (an entry that only defines the status executable, its arguments
   or references, or an empty mapping: Model.WEntry) next to weighted entries and stages without any entry
   (Model.WMissing): the three ways of giving a stage no weight - no entry, an entry without the key, the weight 0.0 -
   are loaded alike; after a load EVERY stage has a weight in the status-report (so the monitor never meets a missing
   key in a loaded workflow); and numbers that are non-negative and sum to one are the weights in use, the stages
   without a weight weighing 0 - for every scale, every n >= 1 and every such assignment. *)
Theorem C20_entry_without_weight : forall (c : Z) (given : list wt),
  inject c (map as_zero given) = inject c given /\ used c (map as_zero given) = used c given /\
  (forall loaded, inject c given = Some loaded -> forallb has_weight loaded = true) /\
  (1 <= c -> (1 <= length given)%nat ->
   Forall (fun w => match w with WNum _ | WMissing | WEntry => True | _ => False end) given ->
   Forall (fun m => 0 <= m) (map (fun w => match w with WNum m => m | _ => 0 end) given) ->
   sumZ (map (fun w => match w with WNum m => m | _ => 0 end) given) = 1000 * c ->
   used c given = Some (map (Z.mul (Z.of_nat (length given))) (map (fun w => match w with WNum m => m | _ => 0 end) given))).
Proof.
  intros c given. split; [exact (inject_as_zero c given)|]. split; [exact (used_as_zero c given)|].
  split; [exact (inject_has_weights c given)|].
  intros Hc Hn Hk Hp Hs. exact (used_entries_kept c given _ Hc Hn Hk eq_refl Hp Hs).
Qed.
Print Assumptions C20_entry_without_weight.

(* The status monitor alone, on ANY entries it may find in the status-report of the loaded FlowIR
   (also one set after loading): the weights it uses have one entry per stage, are non-negative and
   sum to one; non-negative numbers summing to one are used as they are. *)
Theorem C20_monitor_weights : forall (c : Z) (ws : list wt),
  1 <= c ->
  length (mon_used c ws) = length ws /\ Forall (fun m => 0 <= m) (mon_used c ws) /\
  sumZ (mon_used c ws) = 1000 * c * Z.of_nat (length ws) /\
  (forall ms, ws = map WNum ms -> Forall (fun m => 0 <= m) ms -> sumZ ms = 1000 * c ->
     mon_used c ws = map (Z.mul (Z.of_nat (length ms))) ms).
Proof.
  intros c ws Hc. split; [exact (mon_used_length c ws)|]. split; [exact (mon_used_nonneg c ws ltac:(lia))|].
  split; [exact (mon_used_sum c ws)|]. intros ms -> Hp Hs. exact (mon_used_numbers c ms Hp Hs).
Qed.
Print Assumptions C20_monitor_weights.

(* On numbers the malformed model IS the model of C20_weights: the loaded status-report holds normalise. *)
Theorem C20_weights_numbers : forall (c : Z) (ms : list Z),
  inject c (map WNum ms) = Some (map WNum (normalise c ms)).
Proof. exact inject_numbers. Qed.
Print Assumptions C20_weights_numbers.

(* Total progress with the weights in use, whatever the entries were: in [0,1] and one when complete. *)
Theorem C20_used_progress : forall (c : Z) (ws : list wt) (D : Z) (prog : list Z),
  1 <= c -> 0 <= D -> Forall (fun a => 0 <= a <= D) prog -> length prog = length ws ->
  0 <= total (mon_used c ws) prog <= D * (1000 * c * Z.of_nat (length ws)) /\
  total (mon_used c ws) (repeat D (length ws)) = D * (1000 * c * Z.of_nat (length ws)).
Proof. exact used_progress. Qed.
Print Assumptions C20_used_progress.

(* Which stages the report counts (Controller.get_stages_finished / get_stages_in_transit): for ANY set of
   nodes - also after nodes were added to stages that had finished (iterations of a DoWhile) - no stage is
   both finished and in transit, and every known stage is in exactly one of the two lists: each stage
   weight enters the sum of CheckStatus at most once, so C20_progress bounds the report by one. *)
Theorem C20_stage_lists : forall (stages : list Z) (nodes : list (Z * bool)) (s : Z),
  (In s (stages_finished stages nodes) -> ~ In s (stages_in_transit nodes)) /\
  (In s stages ->
   (In s (stages_finished stages nodes) /\ ~ In s (stages_in_transit nodes)) \/
   (~ In s (stages_finished stages nodes) /\ In s (stages_in_transit nodes))).
Proof.
  intros stages nodes s. split; [exact (finished_not_in_transit stages nodes s)|exact (known_stage_counted_once stages nodes s)].
Qed.
Print Assumptions C20_stage_lists.

(* A RESTART from a later stage (the first Controller.initialise is for the stage `start`; Model.restart_nodes
   marks every node of a stage before it as done, as initialise does): for ANY nodes and any starting stage,
   - the two lists still partition the known stages (no stage in both, every known stage in exactly one),
   - every known stage before the starting one is FINISHED and not in transit: its weight is counted in full,
   - the stages from the starting one on are listed exactly as they would be without the restart,
   - an ordinary launch (start = 0) marks nothing,
   and the report (k skipped stages, the others with progress a_i/D): at least the weights of the skipped stages, at
   most one, and one once the remaining stages completed. *)
Theorem C20_restart_lists : forall (start : Z) (stages : list Z) (nodes : list (Z * bool)) (s : Z),
  (In s (ctl_finished start stages nodes) -> ~ In s (ctl_in_transit start nodes)) /\
  (In s stages ->
   (In s (ctl_finished start stages nodes) /\ ~ In s (ctl_in_transit start nodes)) \/
   (~ In s (ctl_finished start stages nodes) /\ In s (ctl_in_transit start nodes))) /\
  (In s stages -> s < start -> In s (ctl_finished start stages nodes) /\ ~ In s (ctl_in_transit start nodes)) /\
  (start <= s ->
   (In s (ctl_finished start stages nodes) <-> In s (stages_finished stages nodes)) /\
   (In s (ctl_in_transit start nodes) <-> In s (stages_in_transit nodes))) /\
  (Forall (fun nb => 0 <= fst nb) nodes ->
   ctl_finished 0 stages nodes = stages_finished stages nodes /\ ctl_in_transit 0 nodes = stages_in_transit nodes).
Proof.
  intros start stages nodes s.
  split; [exact (finished_not_in_transit stages (restart_nodes start nodes) s)|].
  split; [exact (known_stage_counted_once stages (restart_nodes start nodes) s)|].
  split; [exact (restart_skipped_finished start stages nodes s)|].
  split; [exact (restart_later_unchanged start stages nodes s)|exact (restart_ordinary_launch stages nodes)].
Qed.
Print Assumptions C20_restart_lists.

(* The WINDOW between a component's termination and the controller's notification (Model.nstate: a node is running,
   has REPORTED a terminal state without Controller.finishedCheck having run for it, or has been OBSERVED): for ANY
   nodes in ANY of the three states, any starting stage and any selection of running components that terminate
   without a notification being delivered,
   - the two lists partition the known stages at that moment too,
   - they are the lists of the moment before (they depend on what the controller observed only),
   - a stage (from the starting one on) with a component that is not observed - running or terminated - is in transit
     and NOT finished, so its weight is never counted in full on top of its progress,
   - every component of a finished stage reports a terminal state: the full weight IS its fraction of terminated
     components; and that fraction is between 0 and 1 for every stage. *)
Theorem C20_window_lists : forall (sel : Z * nstate -> bool) (start : Z) (stages : list Z) (nodes : list (Z * nstate)) (s : Z),
  (In s (win_finished start stages nodes) -> ~ In s (win_in_transit start nodes)) /\
  (In s stages ->
   (In s (win_finished start stages nodes) /\ ~ In s (win_in_transit start nodes)) \/
   (~ In s (win_finished start stages nodes) /\ In s (win_in_transit start nodes))) /\
  (win_finished start stages (terminate_sel sel nodes) = win_finished start stages nodes /\
   win_in_transit start (terminate_sel sel nodes) = win_in_transit start nodes) /\
  (forall st, In (s, st) nodes -> st <> NObserved -> start <= s ->
     In s (win_in_transit start nodes) /\ ~ In s (win_finished start stages nodes)) /\
  (start <= s -> In s (win_finished start stages nodes) ->
     (forall st, In (s, st) nodes -> st = NObserved) /\ stage_reported nodes s = stage_size nodes s) /\
  0 <= stage_reported nodes s <= stage_size nodes s.
Proof.
  intros sel start stages nodes s.
  split; [exact (finished_not_in_transit stages (restart_nodes start (observed_view nodes)) s)|].
  split; [exact (known_stage_counted_once stages (restart_nodes start (observed_view nodes)) s)|].
  split; [exact (window_lists_unchanged sel start stages nodes)|].
  split; [intros st; exact (window_unobserved_in_transit start stages nodes s st)|].
  split; [exact (window_finished_complete start stages nodes s)|exact (stage_reported_bounds nodes s)].
Qed.
Print Assumptions C20_window_lists.

Theorem C20_restart_progress : forall (D : Z) (k : nat) (ws prog : list Z),
  0 <= D -> Forall (fun w => 0 <= w) ws -> Forall (fun a => 0 <= a <= D) prog ->
  (length prog + k = length ws)%nat ->
  D * sumZ (firstn k ws) <= total ws (restart_prog D k prog) <= D * sumZ ws /\
  total ws (restart_prog D k (repeat D (length ws - k))) = D * sumZ ws.
Proof. exact restart_total. Qed.
Print Assumptions C20_restart_progress.

(* Tie to IEEE-754 doubles (bounded sweeps, bounds in the statement). *)
Theorem C20_float_tie :
  (forall k, 0 <= k <= 1000 -> tie_k k = true) /\
  (forall n, 1 <= n <= 2000 -> tie_n n = true) /\
  (forall n, 1 <= n <= 2000 -> tie_q n = true).
Proof. split; [exact tie_k_all|split; [exact tie_n_all|exact tie_q_all]]. Qed.
Print Assumptions C20_float_tie.

(* ---- The binary64 accumulation of CheckStatus (FloatModel.fprogress, IEEE-754 double,
   round-to-nearest-even, exactly the operations of the code: 0.0, then += p*w per active stage,
   then += w per finished stage), for ALL inputs with at most 2^20 stages:
   active stages carry doubles (p, w) that are within one rounding (relative 2^-53) of exact
   values (qp, qw) >= 0 -- as are a weight parsed from a decimal or computed as k/1000.0 and a progress
   computed as len_finished/float(total) -- finished stages a double w near qw.  With
   X = sum qp*qw + sum qw (the exact total of Model.total, X <= 2) the reported double is finite,
   non-negative and   |reported - X| <= (n+3) * 2^-52 * X + n * 2^-1074. *)
Theorem C20_float_progress :
  forall (active : list (PrimFloat.float * PrimFloat.float)) (finished : list PrimFloat.float)
         (qa : list (R * R)) (qf : list R),
  Forall (fun pw => prog_ok (fst pw) = true /\ weight_ok (snd pw) = true) active ->
  Forall (fun w => weight_ok w = true) finished ->
  Forall2 (fun pw q => (0 <= fst q)%R /\ (0 <= snd q)%R /\ fnear (fst pw) (fst q) /\ fnear (snd pw) (snd q)) active qa ->
  Forall2 (fun w q => (0 <= q)%R /\ fnear w q) finished qf ->
  (Z.of_nat (length active + length finished) <= 1048576)%Z ->
  (exact_prods qa + sumR qf <= 2)%R ->
  ffin (fprogress active finished) /\ (0 <= fval (fprogress active finished))%R /\
  (Rabs (fval (fprogress active finished) - (exact_prods qa + sumR qf))
     <= INR (length active + length finished + 3) * (2 * u64) * (exact_prods qa + sumR qf)
        + INR (length active + length finished) * (2 * eta64))%R.
Proof. exact fprogress_vs_exact. Qed.
Print Assumptions C20_float_progress.

(* ... and once every stage has completed (all exact progress values 1, exact weights summing to
   one) the reported double is within (n+3) ulp(1) = (n+3) * 2^-52 (+ n * 2^-1074) of 1.0.
   It is NOT always exactly 1.0: ten stages of weight 0.1 give 0.9999999999999999 (see the harness). *)
Theorem C20_float_complete :
  forall (active : list (PrimFloat.float * PrimFloat.float)) (finished : list PrimFloat.float)
         (qa : list (R * R)) (qf : list R),
  Forall (fun pw => prog_ok (fst pw) = true /\ weight_ok (snd pw) = true) active ->
  Forall (fun w => weight_ok w = true) finished ->
  Forall2 (fun pw q => (0 <= fst q)%R /\ (0 <= snd q)%R /\ fnear (fst pw) (fst q) /\ fnear (snd pw) (snd q)) active qa ->
  Forall2 (fun w q => (0 <= q)%R /\ fnear w q) finished qf ->
  (Z.of_nat (length active + length finished) <= 1048576)%Z ->
  Forall (fun q => fst q = 1%R) qa -> (sumR (map snd qa) + sumR qf = 1)%R ->
  (Rabs (fval (fprogress active finished) - 1)
     <= INR (length active + length finished + 3) * (2 * u64)
        + INR (length active + length finished) * (2 * eta64))%R.
Proof. exact fprogress_complete. Qed.
Print Assumptions C20_float_complete.

(* the constants, and: a correctly rounded normal number is "near" its exact value, so the
   hypotheses fnear are met by every weight/progress the code computes by one rounding *)
Theorem C20_float_constants :
  (2 * u64 = / 4503599627370496)%R /\ (2 * eta64 = Raux.bpow Zaux.radix2 (-1074))%R /\
  (forall q : R, (Raux.bpow Zaux.radix2 (-1022) <= q)%R -> near u64 (rnd64 q) q) /\ near u64 (rnd64 0) 0.
Proof. destruct consts64 as [A B]. split; [exact A|]. split; [exact B|]. split; [exact near_rnd64|exact near_rnd64_0]. Qed.
Print Assumptions C20_float_constants.

(* non-vacuity: a 3-stage package giving 0.2/0.3/0.5 meets every hypothesis, is kept, a
   7-stage package giving nothing gets 6 x 0.142 + 0.148, four- and ten-decimal weights summing to one
   are kept, malformed entries meet the hypotheses of C20_malformed_weights; the float theorems' hypotheses are met by FloatSum.float_nonvacuous *)
Example C20_nonvacuous :
  normalise 10 [2000; 3000; 5000] = [2000; 3000; 5000] /\
  normalise 10 [0;0;0;0;0;0;0] = [1420;1420;1420;1420;1420;1420;1480] /\
  normalise 10 [15000; -5000] = [5000; 5000] /\
  normalise 10 [3333; 6667] = [3333; 6667] /\ normalise 10 [3335; 6675] = [5000; 5000] /\
  normalise 10000000 [3333333333; 6666666667] = [3333333333; 6666666667] /\
  total [2000; 3000; 5000] [4;2;0] = 14000 /\
  (* malformed: 'n/a' + 0.4 + 0.6 stays in the loaded FlowIR, the monitor uses 1/3 each (units 1/30000) *)
  inject 10 [WText None; WNum 4000; WNum 6000] = Some [WText None; WNum 4000; WNum 6000] /\
  used 10 [WText None; WNum 4000; WNum 6000] = Some [10000; 10000; 10000] /\
  used 10 [WText (Some 4000); WMissing; WNum 6000] = Some [12000; 0; 18000] /\
  used 10 [WNan; WNum 4000; WNum 6000] = Some [9990; 9990; 10020] /\
  used 10 [WBad; WNum 10000] = None /\
  mon_used 10 [WMissing; WNum 5000] = [10000; 10000] /\
  total (mon_used 10 [WText None; WNum 4000; WNum 6000]) [8; 8; 8] = 8 * 30000 /\
  (* stage 2 had finished, then an iteration of a DoWhile added an active node to it *)
  stages_finished [0; 1; 2; 3] [(0, false); (1, false); (2, false); (3, true)] = [0; 1; 2] /\
  stages_finished [0; 1; 2; 3] [(0, false); (1, false); (2, false); (3, false); (1, true); (2, true); (3, true)] = [0] /\
  stages_in_transit [(0, false); (1, false); (2, false); (3, false); (1, true); (2, true); (3, true)] = [1; 2; 3] /\
  (* a restart from stage 2 of four stages weighing 0.4/0.3/0.2/0.1: nothing was delivered yet, stages 0 and 1 are
     finished, the report starts at 0.7 and ends at one *)
  ctl_finished 2 [0; 1; 2; 3] [(0, true); (1, true); (2, true); (2, true); (3, true)] = [0; 1] /\
  ctl_in_transit 2 [(0, true); (1, true); (2, true); (2, true); (3, true)] = [2; 2; 3] /\
  ctl_finished 0 [0; 1; 2; 3] [(0, true); (1, true); (2, true); (2, true); (3, true)] = [] /\
  total [4000; 3000; 2000; 1000] (restart_prog 2 2 [0; 0]) = 2 * 7000 /\
  total [4000; 3000; 2000; 1000] (restart_prog 2 2 [1; 0]) = 2 * 8000 /\
  total [4000; 3000; 2000; 1000] (restart_prog 2 2 (repeat 2 (4 - 2))) = 2 * 10000 /\
  (* stage 1 only defines a status executable (an entry without weight), 0.7 + 0.3 given: loaded as 0.0, kept *)
  inject 10 [WNum 7000; WEntry; WNum 3000] = Some [WNum 7000; WNum 0; WNum 3000] /\
  used 10 [WNum 7000; WEntry; WNum 3000] = Some [21000; 0; 9000] /\
  used 10 [WEntry; WMissing; WNum 10000] = Some [0; 0; 30000] /\
  used 10 [WNum 7000; WEntry; WNum 2000] = Some [9990; 9990; 10020] /\
  (* the monitor alone on an entry without the key: a KeyError, the stage counts as 1000/n, equal weights *)
  mon_used 10 [WNum 7000; WEntry; WNum 3000] = [10000; 10000; 10000] /\
  (* the window: stage0's only component terminated, the controller (already on stage 1) was not notified: stage 0 is
     in transit with progress 1/1, not finished; after the notification it is finished *)
  win_finished 0 [0; 1; 2] [(0, NReported); (1, NRunning); (1, NRunning); (2, NRunning)] = [] /\
  win_in_transit 0 [(0, NReported); (1, NRunning); (1, NRunning); (2, NRunning)] = [0; 1; 1; 2] /\
  stage_reported [(0, NReported); (1, NRunning); (1, NRunning); (2, NRunning)] 0 = 1 /\
  win_finished 0 [0; 1; 2] [(0, NObserved); (1, NReported); (1, NRunning); (2, NRunning)] = [0] /\
  terminate_sel (fun ns => fst ns =? 1) [(0, NObserved); (1, NRunning); (2, NRunning)] = [(0, NObserved); (1, NReported); (2, NRunning)].
Proof. repeat split; reflexivity. Qed.
