(* C20 — Reported progress is a proper weighted fraction.  Property theorems only. *)
From Coq Require Import ZArith List Bool.
Import ListNotations.
Require Import V.Weights.Model V.Weights.Proofs V.Weights.FloatTie.
Open Scope Z_scope.

(* Weights after loading: for every number of stages n >= 1 and every assignment of given
   (three-decimal), missing (= 0) or negative weights: non-negative, sum to one (10000
   ten-thousandths), equal to the given ones whenever those are non-negative and sum to one, and
   accepted unchanged by the status monitor's own re-check. *)
Theorem C20_weights : forall given : list Z,
  (1 <= length given)%nat -> three_decimals given ->
  length (normalise given) = length given /\
  Forall (fun m => 0 <= m) (normalise given) /\
  sumZ (normalise given) = 10000 /\
  (Forall (fun m => 0 <= m) given -> sumZ given = 10000 -> normalise given = given) /\
  monitor_accepts (normalise given) = true.
Proof.
  intros given Hn H3. repeat split.
  - exact (normalise_length given).
  - exact (normalise_nonneg given Hn).
  - exact (normalise_sum given Hn H3).
  - intros Hp Hs. exact (normalise_keeps given H3 Hp Hs).
  - exact (monitor_accepts_normalised given Hn).
Qed.
Print Assumptions C20_weights.

(* Non-negativity and acceptance by the monitor hold for any decimals. *)
Theorem C20_nonneg_any_decimals : forall given : list Z,
  (1 <= length given)%nat ->
  Forall (fun m => 0 <= m) (normalise given) /\ monitor_accepts (normalise given) = true.
Proof. intros given Hn. split; [exact (normalise_nonneg given Hn)|exact (monitor_accepts_normalised given Hn)]. Qed.
Print Assumptions C20_nonneg_any_decimals.

(* The default path, explicitly: n-1 weights floor(1000/n)/1000 and the remainder on the last stage. *)
Theorem C20_default_path : forall n : nat, (1 <= n)%nat ->
  fallback n = repeat (1000 / Z.of_nat n) (n - 1) ++ [1000 - (Z.of_nat n - 1) * (1000 / Z.of_nat n)] /\
  Forall (fun w => 0 <= w) (fallback n) /\ sumZ (fallback n) = 1000.
Proof.
  intros n Hn. split; [exact (fallback_shape n Hn)|]. split; [exact (fallback_nonneg n Hn)|exact (fallback_sum n Hn)].
Qed.
Print Assumptions C20_default_path.

(* Total progress: per-stage progress a_i/D in [0,1], weights non-negative summing to S:
   0 <= total <= D*S, and total = D*S once every stage has completed. *)
Theorem C20_progress : forall (D : Z) (ws prog : list Z),
  0 <= D -> Forall (fun w => 0 <= w) ws -> Forall (fun a => 0 <= a <= D) prog -> length prog = length ws ->
  0 <= total ws prog <= D * sumZ ws /\ total ws (repeat D (length ws)) = D * sumZ ws.
Proof. intros D ws prog HD Hw Hp Hl. split; [exact (total_bounds D ws prog HD Hw Hp Hl)|exact (total_complete D ws)]. Qed.
Print Assumptions C20_progress.

(* Tie to IEEE-754 doubles (bounded sweeps, bounds in the statement). *)
Theorem C20_float_tie :
  (forall k, 0 <= k <= 1000 -> tie_k k = true) /\
  (forall n, 1 <= n <= 2000 -> tie_n n = true) /\
  (forall n, 1 <= n <= 2000 -> tie_q n = true).
Proof. split; [exact tie_k_all|split; [exact tie_n_all|exact tie_q_all]]. Qed.
Print Assumptions C20_float_tie.

(* non-vacuity: a 3-stage package giving 0.2/0.3/0.5 meets every hypothesis, is kept, and a
   7-stage package giving nothing gets 6 x 0.142 + 0.148 *)
Example C20_nonvacuous :
  three_decimals [2000; 3000; 5000] /\ normalise [2000; 3000; 5000] = [2000; 3000; 5000] /\
  normalise [0;0;0;0;0;0;0] = [1420;1420;1420;1420;1420;1420;1480] /\
  normalise [15000; -5000] = [5000; 5000] /\
  total [2000; 3000; 5000] [4;2;0] = 14000.
Proof.
  repeat split; try reflexivity.
  repeat constructor; [exists 200|exists 300|exists 500]; reflexivity.
Qed.
