(* C20 — stage weights and total progress.
   Model of FlowIR.inject_default_values (weight normalisation, flowir.py), of the re-check in
   StatusMonitor.__init__ (output.py) and of the accumulation in StatusMonitor.run/CheckStatus.

   Units.  A weight given by the package is a decimal number; with a scale c >= 1 it is represented
   by the integer m = 1000 * c * w.  The default weights are computed in thousandths; the tie
   between this integer arithmetic and the binary floating point arithmetic of the code is
   FloatTie.v (finite sweeps), FloatSum.v (accumulation) plus the correspondence run.
   (The pinned code computed int(w * 1000), truncation toward zero of the thousandths:
   Z.quot m 10 for c = 10 — kept as normalise_trunc for Refuted.v.) *)
From Coq Require Import ZArith List Bool.
Import ListNotations.
Open Scope Z_scope.

Definition sumZ (l : list Z) : Z := fold_right Z.add 0 l.

(* int(e * 1000) for e = m / 10000 *)
Definition trunc1000 (m : Z) : Z := Z.quot m 10.

(* fallbackWeight = int(1000 / n) / 1000.0, in thousandths *)
Definition fb (n : Z) : Z := 1000 / n.

(* the last stage: (1000 - (n-1) * int(1000/n)) / 1000.0, in thousandths *)
Definition fb_last (n : Z) : Z := 1000 - (n - 1) * fb n.

(* the coded test  num_stages * int(100*fallbackWeight) != 1000 ; int(100 * (q/1000.0)) = q / 10 *)
Definition last_differs (n : Z) : bool := negb (n * (fb n / 10) =? 1000).

Definition fallback (n : nat) : list Z :=
  match n with
  | O => []
  | S k => if last_differs (Z.of_nat n)
           then repeat (fb (Z.of_nat n)) k ++ [fb_last (Z.of_nat n)]
           else repeat (fb (Z.of_nat n)) n
  end.

(* given: one entry per stage; a missing/unparsable weight is 0.  Unit: 1/(1000*c) for a scale
   c >= 1 chosen by the caller (c = 1: thousandths, c = 10: ten-thousandths, c = 10^(d-3) for
   weights written with d decimals), so weights with ANY number of decimals are covered.
   FlowIR.stage_weights_add_to_one (fix of F20b) compares the weights as the decimal numbers they
   were written as: exact sum = 1 and no negative entry.  The defaults are thousandths, i.e.
   multiples of c.  Result in the same unit. *)
Definition accepted (c : Z) (given : list Z) : bool :=
  (sumZ given =? 1000 * c) && forallb (fun m => 0 <=? m) given.

Definition normalise (c : Z) (given : list Z) : list Z :=
  if accepted c given then given else map (Z.mul c) (fallback (length given)).

(* the behaviour of the pinned code before the fix of F20b (unit: ten-thousandths, c = 10):
   the weights were judged by their truncated thousandths int(w * 1000) *)
Definition accepted_trunc (given : list Z) : bool :=
  (sumZ (map trunc1000 given) =? 1000) && forallb (fun m => 0 <=? m) given.
Definition normalise_trunc (given : list Z) : list Z :=
  if accepted_trunc given then given else map (Z.mul 10) (fallback (length given)).

(* ... and before the fix of F20a (negative weights were kept) *)
Definition accepted_prefix (given : list Z) : bool := sumZ (map trunc1000 given) =? 1000.
Definition normalise_prefix (given : list Z) : list Z :=
  if accepted_prefix given then given else map (Z.mul 10) (fallback (length given)).

(* StatusMonitor.__init__: re-check of the (already normalised) weights with the same test; on
   failure every weight becomes 1.0/n — represented here by the verdict false. *)
Definition monitor_accepts (c : Z) (ws : list Z) : bool := accepted c ws.

(* total progress: stage i contributes a_i/D of its weight (finished stages: a_i = D).
   Numerator over the common denominator D * 10000. *)
Fixpoint total (ws prog : list Z) : Z :=
  match ws, prog with
  | w :: ws', a :: prog' => a * w + total ws' prog'
  | _, _ => 0
  end.

(* what the correspondence compares: normalised weights and the monitor verdict *)
Definition run_case (c : Z) (given : list Z) : list Z * bool :=
  let w := normalise c given in (w, monitor_accepts c w).

Definition check_case (x : (Z * list Z) * (list Z * bool)) : bool :=
  let r := run_case (fst (fst x)) (snd (fst x)) in
  (if list_eq_dec Z.eq_dec (fst r) (fst (snd x)) then true else false) && Bool.eqb (snd r) (snd (snd x)).

(* ======================================================================================
   MALFORMED weights (the property quantifies over "given, missing or malformed stage weights").
   What a status-report entry may hold, as the two consumers of the weights see it
   (FlowIR.inject_default_values at load time, StatusMonitor.__init__ when reporting starts):

     WNum m        a number (float, int, bool): float(x) is the decimal m / (1000c)
     WMissing      no entry for the stage at all
     WEntry        an entry for the stage (status executable / arguments / references / an empty mapping)
                   WITHOUT the key 'stage-weight'.  The two are different code paths of inject_default_values (the
                   first creates the entry {'stage-weight': 0.0}, the second adds the key 0.0 to the existing entry)
                   and of the monitor (a stage without entry cannot reach it from a loaded workflow; an entry
                   without the key is a KeyError there)
     WText (Some m) a text that float() parses to the decimal m / (1000c)   ('0.5', ' 0.5 ', '5e-1')
     WText None    a text that float() refuses with ValueError              ('n/a', '', 'high', '0,5')
     WNan          float() succeeds with nan or +-inf (the floats nan/inf, the texts 'nan', 'inf', '-Infinity')
     WBad          an object float() refuses with TypeError (None, a list, a mapping)

   inject_default_values: `try: float(...) except ValueError: 0.0` - a text that does not parse counts
   as 0.0 AND STAYS in the loaded FlowIR when the weights are accepted; a TypeError escapes (the load
   raises: no workflow is loaded); nan/inf are never accepted.  Entries are only rewritten (all of
   them, to the defaults) when the weights are not accepted; a missing entry is filled with 0.0.
   StatusMonitor.__init__: `try: float(...) except: fallbackWeight * 1000` with fallbackWeight =
   1.0 / n - whatever cannot be converted (also a missing key, None) counts as 1000/n; the weights are
   re-judged with the same test and, when refused, EVERY stage gets the monitor's own fallback 1.0/n.
   The weights the monitor finally uses are in units 1/(1000*c*n) (so that 1/n is the integer 1000c). *)
Inductive wt : Type :=
| WNum (m : Z)
| WMissing
| WText (v : option Z)
| WNan
| WBad
| WEntry.

Definition opt_eqb (a b : option Z) : bool :=
  match a, b with Some x, Some y => x =? y | None, None => true | _, _ => false end.

Definition wt_eqb (a b : wt) : bool :=
  match a, b with
  | WNum x, WNum y => x =? y
  | WMissing, WMissing => true
  | WText x, WText y => opt_eqb x y
  | WNan, WNan => true
  | WBad, WBad => true
  | WEntry, WEntry => true
  | _, _ => false
  end.

Fixpoint list_eqb {A} (eqb : A -> A -> bool) (l r : list A) : bool :=
  match l, r with
  | [], [] => true
  | x :: l', y :: r' => eqb x y && list_eqb eqb l' r'
  | _, _ => false
  end.

Fixpoint all_some (l : list (option Z)) : option (list Z) :=
  match l with
  | [] => Some []
  | None :: _ => None
  | Some x :: l' => match all_some l' with Some r => Some (x :: r) | None => None end
  end.

Definition is_bad (w : wt) : bool := match w with WBad => true | _ => false end.
Definition is_unparsable (w : wt) : bool := match w with WText None => true | _ => false end.

(* float(entry) as inject_default_values sees it (None: nan / inf) *)
Definition inj_value (w : wt) : option Z :=
  match w with
  | WNum m => Some m
  | WMissing => Some 0
  | WText (Some m) => Some m
  | WText None => Some 0
  | WNan => None
  | WBad => Some 0            (* not reached: the load has raised *)
  | WEntry => Some 0          (* the key is added with 0.0 first *)
  end.

Definition fill (w : wt) : wt := match w with WMissing | WEntry => WNum 0 | _ => w end.

(* a stage without an entry, a stage whose entry has no weight, and a stage of weight 0.0 *)
Definition as_zero (w : wt) : wt := fill w.
Definition has_weight (w : wt) : bool := match w with WMissing | WEntry => false | _ => true end.

Definition defaults (c : Z) (n : nat) : list Z := map (Z.mul c) (fallback n).

(* the verdict of stage_weights_add_to_one on the converted weights *)
Definition inj_accepts (c : Z) (given : list wt) : bool :=
  match all_some (map inj_value given) with Some vs => accepted c vs | None => false end.

(* the status-report of the loaded FlowIR; None: the load raised (TypeError) *)
Definition inject (c : Z) (given : list wt) : option (list wt) :=
  if existsb is_bad given then None
  else if inj_accepts c given then Some (map fill given)
  else Some (map WNum (defaults c (length given))).

(* float(entry) as StatusMonitor.__init__ sees it, in units 1/(1000*c*n): a number m is n*m, what
   cannot be converted is fallbackWeight * 1000 = 1000/n i.e. 10^6 * c; None: nan / inf *)
Definition mon_value (c n : Z) (w : wt) : option Z :=
  match w with
  | WNum m => Some (n * m)
  | WText (Some m) => Some (n * m)
  | WNan => None
  | WMissing | WText None | WBad | WEntry => Some (1000000 * c)
  end.

(* the weights the monitor uses (StatusMonitor.stageWeights), units 1/(1000*c*n) *)
Definition mon_used (c : Z) (ws : list wt) : list Z :=
  let n := Z.of_nat (length ws) in
  match all_some (map (mon_value c n) ws) with
  | Some vs => if accepted (c * n) vs then vs else repeat (1000 * c) (length ws)
  | None => repeat (1000 * c) (length ws)
  end.

(* load, then report: None = the load raised *)
Definition used (c : Z) (given : list wt) : option (list Z) :=
  match inject c given with Some loaded => Some (mon_used c loaded) | None => None end.

(* correspondence, malformed family: ((c, given), (loaded status-report or raised, weights in use)) *)
Definition olist_eqb {A} (eqb : A -> A -> bool) (a b : option (list A)) : bool :=
  match a, b with Some x, Some y => list_eqb eqb x y | None, None => true | _, _ => false end.

Definition check_wcase (x : (Z * list wt) * (option (list wt) * option (list Z))) : bool :=
  let c := fst (fst x) in let given := snd (fst x) in
  olist_eqb wt_eqb (inject c given) (fst (snd x)) && olist_eqb Z.eqb (used c given) (snd (snd x)).

(* correspondence, the monitor alone on a status-report set after loading: ((c, entries), weights in use) *)
Definition check_mcase (x : (Z * list wt) * list Z) : bool :=
  list_eqb Z.eqb (mon_used (fst (fst x)) (snd (fst x))) (snd x).

(* ======================================================================================
   Which stages CheckStatus counts (Controller.get_stages_finished / get_stages_in_transit, control.py).
   A node of the workflow graph is (stage index, active?) - active until the controller has observed its
   termination; nodes may be ADDED to existing stages while the workflow runs (iterations of a DoWhile).
   in transit: the stages of the active nodes; finished: the known stages without an active node -
   both computed from the nodes as they are NOW. *)
Definition stage_active (nodes : list (Z * bool)) (s : Z) : bool :=
  existsb (fun nb => (fst nb =? s) && snd nb) nodes.
Definition stages_in_transit (nodes : list (Z * bool)) : list Z := map fst (filter snd nodes).
Definition stages_finished (stages : list Z) (nodes : list (Z * bool)) : list Z :=
  filter (fun s => negb (stage_active nodes s)) stages.

Definition subset_b (l r : list Z) : bool := forallb (fun x => existsb (Z.eqb x) r) l.

(* correspondence: ((known stages, nodes), (finished, in transit) reported by the real Controller) *)
Definition check_scase (x : (list Z * list (Z * bool)) * (list Z * list Z)) : bool :=
  let st := fst (fst x) in let nodes := snd (fst x) in
  list_eqb Z.eqb (stages_finished st nodes) (fst (snd x)) &&
  subset_b (stages_in_transit nodes) (snd (snd x)) && subset_b (snd (snd x)) (stages_in_transit nodes).

(* ======================================================================================
   A RESTART from a later stage (elaunch --startStage / restart of an instance): the FIRST call of
   Controller.initialise is for the stage `start` > 0 (Controller._starting_index).  The stages before it were
   completed by an earlier run: initialise marks every node (and placeholder) of a stage before the starting one as
   done (comp_done) - it is never active again, nothing is ever launched or delivered for it - and it does so again
   at every later initialise.  get_stages_finished walks ALL known stages (_stageStates holds the skipped ones too),
   get_stages_in_transit all nodes: the skipped stages are finished stages, their weights are counted in full by
   CheckStatus from the first report on.  start = 0 (an ordinary launch) marks nothing.
   (A node ADDED to a skipped stage later would be active until the next initialise; this needs a restart in the middle
   of a DoWhile that iterates again, which the code refuses - the next iteration cannot be instantiated.) *)
Definition restart_nodes (start : Z) (nodes : list (Z * bool)) : list (Z * bool) :=
  map (fun nb => (fst nb, snd nb && (start <=? fst nb))) nodes.
Definition ctl_finished (start : Z) (stages : list Z) (nodes : list (Z * bool)) : list Z :=
  stages_finished stages (restart_nodes start nodes).
Definition ctl_in_transit (start : Z) (nodes : list (Z * bool)) : list Z :=
  stages_in_transit (restart_nodes start nodes).
(* ======================================================================================
   The WINDOW between a component's termination and the controller's notification.  A component first reaches its
   terminal state (its engine exits, ComponentState.state is finished/failed/shutdown: what the component REPORTS,
   what StageState / get_stage_status read) and only later does the controller run Controller.finishedCheck for it
   (another thread, behind comp_lock; postponed while the controller sleeps) and add it to comp_done (what the
   controller has OBSERVED, Controller.node_is_active).  Both lists are computed from the OBSERVED view only. *)
Inductive nstate : Type := NRunning | NReported | NObserved.
Definition is_observed (s : nstate) : bool := match s with NObserved => true | _ => false end.
Definition observed_view (nodes : list (Z * nstate)) : list (Z * bool) :=
  map (fun ns => (fst ns, negb (is_observed (snd ns)))) nodes.
Definition win_finished (start : Z) (stages : list Z) (nodes : list (Z * nstate)) : list Z :=
  ctl_finished start stages (observed_view nodes).
Definition win_in_transit (start : Z) (nodes : list (Z * nstate)) : list Z :=
  ctl_in_transit start (observed_view nodes).
(* the components selected by sel terminate; no notification is delivered *)
Definition terminate_sel (sel : Z * nstate -> bool) (nodes : list (Z * nstate)) : list (Z * nstate) :=
  map (fun ns => (fst ns, match snd ns with NRunning => if sel ns then NReported else NRunning | st => st end)) nodes.
(* get_stage_status: components of the stage that report a terminal state / components of the stage *)
Definition stage_size (nodes : list (Z * nstate)) (s : Z) : Z :=
  sumZ (map (fun ns => if fst ns =? s then 1 else 0) nodes).
Definition stage_reported (nodes : list (Z * nstate)) (s : Z) : Z :=
  sumZ (map (fun ns => if (fst ns =? s) && negb (match snd ns with NRunning => true | _ => false end) then 1 else 0) nodes).

(* the progress vector of a report when the first k stages were skipped: D (complete) for each of them *)
Definition restart_prog (D : Z) (k : nat) (prog : list Z) : list Z := (repeat D k ++ prog)%list.

(* correspondence: (((starting stage, known stages), nodes as the DRIVER knows them: active = no termination was
   delivered), (finished, in transit) reported by the real Controller) *)
Definition check_rcase (x : ((Z * list Z) * list (Z * bool)) * (list Z * list Z)) : bool :=
  let start := fst (fst (fst x)) in let st := snd (fst (fst x)) in let nodes := snd (fst x) in
  list_eqb Z.eqb (ctl_finished start st nodes) (fst (snd x)) &&
  subset_b (ctl_in_transit start nodes) (snd (snd x)) && subset_b (snd (snd x)) (ctl_in_transit start nodes).

(* correspondence with the three node states: (((starting stage, known stages), nodes: NObserved = finishedCheck was
   delivered by the driver, NReported = the component reached its terminal state and no notification was delivered
   (in this run), NRunning otherwise), (finished, in transit) reported by the real Controller) *)
Definition check_wincase (x : ((Z * list Z) * list (Z * nstate)) * (list Z * list Z)) : bool :=
  check_rcase ((fst (fst x), observed_view (snd (fst x))), snd x).
