(* C20 — stage weights and total progress.
   Model of FlowIR.inject_default_values (weight normalisation, flowir.py), of the re-check in
   StatusMonitor.__init__ (output.py) and of the accumulation in StatusMonitor.run/CheckStatus.

   Units.  A weight given by the package is a decimal number; with a scale c >= 1 it is represented
   by the integer m = 1000 * c * w.  The default weights are computed in thousandths; the tie
   between this integer arithmetic and the binary floating point arithmetic of the code is
   FloatTie.v (finite sweeps), FloatSum.v (accumulation) plus the correspondence run.
   (The pinned code computed int(w * 1000), truncation toward zero of the thousandths:
   Z.quot m 10 for c = 10 — kept as normalise_trunc for Refuted.v.) *)
From Coq Require Import ZArith List Bool.
Import ListNotations.
Open Scope Z_scope.

Definition sumZ (l : list Z) : Z := fold_right Z.add 0 l.

(* int(e * 1000) for e = m / 10000 *)
Definition trunc1000 (m : Z) : Z := Z.quot m 10.

(* fallbackWeight = int(1000 / n) / 1000.0, in thousandths *)
Definition fb (n : Z) : Z := 1000 / n.

(* the last stage: (1000 - (n-1) * int(1000/n)) / 1000.0, in thousandths *)
Definition fb_last (n : Z) : Z := 1000 - (n - 1) * fb n.

(* the coded test  num_stages * int(100*fallbackWeight) != 1000 ; int(100 * (q/1000.0)) = q / 10 *)
Definition last_differs (n : Z) : bool := negb (n * (fb n / 10) =? 1000).

Definition fallback (n : nat) : list Z :=
  match n with
  | O => []
  | S k => if last_differs (Z.of_nat n)
           then repeat (fb (Z.of_nat n)) k ++ [fb_last (Z.of_nat n)]
           else repeat (fb (Z.of_nat n)) n
  end.

(* given: one entry per stage; a missing/unparsable weight is 0.  Unit: 1/(1000*c) for a scale
   c >= 1 chosen by the caller (c = 1: thousandths, c = 10: ten-thousandths, c = 10^(d-3) for
   weights written with d decimals), so weights with ANY number of decimals are covered.
   FlowIR.stage_weights_add_to_one (fix of F20b) compares the weights as the decimal numbers they
   were written as: exact sum = 1 and no negative entry.  The defaults are thousandths, i.e.
   multiples of c.  Result in the same unit. *)
Definition accepted (c : Z) (given : list Z) : bool :=
  (sumZ given =? 1000 * c) && forallb (fun m => 0 <=? m) given.

Definition normalise (c : Z) (given : list Z) : list Z :=
  if accepted c given then given else map (Z.mul c) (fallback (length given)).

(* the behaviour of the pinned code before the fix of F20b (unit: ten-thousandths, c = 10):
   the weights were judged by their truncated thousandths int(w * 1000) *)
Definition accepted_trunc (given : list Z) : bool :=
  (sumZ (map trunc1000 given) =? 1000) && forallb (fun m => 0 <=? m) given.
Definition normalise_trunc (given : list Z) : list Z :=
  if accepted_trunc given then given else map (Z.mul 10) (fallback (length given)).

(* ... and before the fix of F20a (negative weights were kept) *)
Definition accepted_prefix (given : list Z) : bool := sumZ (map trunc1000 given) =? 1000.
Definition normalise_prefix (given : list Z) : list Z :=
  if accepted_prefix given then given else map (Z.mul 10) (fallback (length given)).

(* StatusMonitor.__init__: re-check of the (already normalised) weights with the same test; on
   failure every weight becomes 1.0/n — represented here by the verdict false. *)
Definition monitor_accepts (c : Z) (ws : list Z) : bool := accepted c ws.

(* total progress: stage i contributes a_i/D of its weight (finished stages: a_i = D).
   Numerator over the common denominator D * 10000. *)
Fixpoint total (ws prog : list Z) : Z :=
  match ws, prog with
  | w :: ws', a :: prog' => a * w + total ws' prog'
  | _, _ => 0
  end.

(* what the correspondence compares: normalised weights and the monitor verdict *)
Definition run_case (c : Z) (given : list Z) : list Z * bool :=
  let w := normalise c given in (w, monitor_accepts c w).

Definition check_case (x : (Z * list Z) * (list Z * bool)) : bool :=
  let r := run_case (fst (fst x)) (snd (fst x)) in
  (if list_eq_dec Z.eq_dec (fst r) (fst (snd x)) then true else false) && Bool.eqb (snd r) (snd (snd x)).
