(* C09 — the recogniser wf_string of canonical reference strings (Model.v) against the generator-style
   grammar wf_parts (Proofs.v): soundness, completeness, round trip of every recognised string, and the
   normal-form theorem for every string the parsers accept. *)
From Coq Require Import String Ascii List Bool Arith NArith Lia.
Require Import V.Lib.PyStr V.Ref.Model V.Ref.Proofs.
Import ListNotations.
Open Scope string_scope.

(* ================================================================ small facts *)
Lemma has_stage_prefix_eq s : has_stage_prefix s = stage_prefixed s.
Proof. reflexivity. Qed.

Lemma split_colon_app a m :
  hasc ":" a = false -> hasc ":" m = false -> split_colon (a ++ String ":" m) = Some (a, m).
Proof. intros A M. unfold split_colon. rewrite (split1_app _ _ _ A), M. reflexivity. Qed.

Lemma split_colon_some s a m :
  split_colon s = Some (a, m) -> s = a ++ String ":" m /\ hasc ":" a = false /\ hasc ":" m = false.
Proof.
  unfold split_colon. destruct (split1 ":" s) as [[x y]|] eqn:S; [|discriminate].
  destruct (hasc ":" y) eqn:Y; [discriminate|]. intros E; inversion E; subst.
  apply split1_some in S as [-> H]. auto.
Qed.

Lemma hasc_app_false c a b : hasc c (a ++ b) = false -> hasc c a = false /\ hasc c b = false.
Proof. rewrite hasc_app. apply orb_false_iff. Qed.

Lemma hasc_cons_false c x s : hasc c (String x s) = false -> hasc c s = false.
Proof. cbn [hasc]. intros H. apply orb_false_iff in H as [_ H]. exact H. Qed.

(* ---- p[: p.rfind('/')] and p[p.rfind('/') + 1 :] *)
Lemma dir_raw_app d f : hasc "/" f = false -> dir_raw (d ++ String "/" f) = d.
Proof.
  intros F. induction d as [|c d IH].
  - cbn. rewrite F. reflexivity.
  - cbn [append dir_raw]. rewrite hasc_app. cbn [hasc]. rewrite Ascii.eqb_refl, orb_true_r, IH. reflexivity.
Qed.

Lemma dir_last a : hasc "/" a = true -> a = dir_raw a ++ String "/" (last_seg a).
Proof.
  induction a as [|c a IH]; [discriminate|]. cbn [hasc dir_raw last_seg]. intros H.
  destruct (hasc "/" a) eqn:E.
  - cbn [append]. rewrite <- (IH eq_refl). reflexivity.
  - rewrite orb_false_r in H. unfold is_slash. rewrite H. apply Ascii.eqb_eq in H. subst c. reflexivity.
Qed.

Lemma last_seg_noslash a : hasc "/" (last_seg a) = false.
Proof.
  induction a as [|c a IH]; [reflexivity|]. cbn [last_seg]. destruct (hasc "/" a) eqn:E; [exact IH|].
  unfold is_slash. destruct (Ascii.eqb c "/") eqn:C; [exact E|]. cbn [hasc]. rewrite C, E. reflexivity.
Qed.

Lemma head_last a : head_raw a ++ last_seg a = a.
Proof.
  induction a as [|c a IH]; [reflexivity|]. cbn [head_raw last_seg]. destruct (hasc "/" a).
  - cbn [append]. rewrite IH. reflexivity.
  - destruct (is_slash c); reflexivity.
Qed.

Lemma dir_raw_abs a : startswith a "/" = true -> dir_raw a <> "" -> startswith (dir_raw a) "/" = true.
Proof.
  destruct a as [|c a]; [discriminate|]. unfold startswith. cbn [prefixb dir_raw].
  destruct (hasc "/" a); [|congruence]. intros H _. exact H.
Qed.

Lemma abs_decompose a :
  startswith a "/" = true -> abs_canonical a = true ->
  exists d l, a = d ++ String "/" l /\ startswith d "/" = true /\ ends_slash d = false /\ hasc "/" l = false.
Proof.
  intros A H. unfold abs_canonical in H. apply andb_true_iff in H as [H1 H2].
  apply negb_true_iff in H1, H2. apply String.eqb_neq in H1.
  exists (dir_raw a), (last_seg a). split; [apply dir_last, startswith_hasc; exact A|].
  split; [apply dir_raw_abs; assumption|]. split; [exact H2|apply last_seg_noslash].
Qed.

(* ================================================================ completeness: print p is recognised *)
Lemma canonical_seg_abs n prod :
  var_search prod = false -> canonical_seg ("stage" ++ dec n ++ "." ++ prod) = true.
Proof.
  intros V. unfold canonical_seg.
  replace ("stage" ++ dec n ++ "." ++ prod) with (("stage" ++ dec n) ++ String "." prod)
    by (rewrite append_assoc; reflexivity).
  rewrite split1_app.
  - rewrite stage_match_dec, String.eqb_refl, V. reflexivity.
  - rewrite hasc_app. cbn. apply dec_hasc. reflexivity.
Qed.

Lemma canonical_seg_rel prod : stage_prefixed prod = false -> canonical_seg prod = true.
Proof.
  unfold stage_prefixed, canonical_seg. destruct (split1 "." prod) as [[st job]|]; [|reflexivity].
  destruct (stage_match st); [discriminate|reflexivity].
Qed.

Lemma refpart_facts st prod file meth :
  wf_component (st, prod, file, meth) = true ->
  hasc ":" (refpart st prod file) = false /\ startswith (refpart st prod file) "/" = false.
Proof.
  intros W. apply wf_component_inv in W as (Hp & Hm & Hf & Hs & Hst). split.
  - unfold refpart. rewrite hasc_app, identifier_nocolon by exact Hp. destruct file as [f|]; cbn; [|reflexivity].
    apply Hf. reflexivity.
  - unfold refpart, startswith. destruct st as [n|]; [reflexivity|]. cbn [identifier_of].
    destruct prod as [|c prod'].
    + destruct Hst as [_ [[A _]|A]]; [congruence|]. subst file. reflexivity.
    + cbn [hasc] in Hs. apply orb_false_iff in Hs as [E _]. cbn [append prefixb].
      rewrite Ascii.eqb_sym, E. reflexivity.
Qed.

Theorem wf_string_complete p : wf_parts p = true -> wf_string (print_pref p) = true.
Proof.
  unfold wf_parts. intros H. apply orb_true_iff in H as [H|H]; [apply orb_true_iff in H as [H|H]|].
  - (* component-shaped *)
    destruct p as [[[st prod] file] meth]. apply andb_true_iff in H as [W V].
    destruct (refpart_facts _ _ _ _ W) as [Hc Hsl].
    pose proof (wf_component_inv _ _ _ _ W) as (Hp & Hm & Hf & Hs & Hst).
    unfold print_pref. rewrite compile_ref_refpart. unfold wf_string.
    rewrite (split_colon_app _ _ Hc Hm), Hsl.
    assert (C : canonical_seg (identifier_of st prod) = true).
    { destruct st as [n|]; cbn [identifier_of].
      - apply canonical_seg_abs. apply negb_true_iff in V. exact V.
      - apply canonical_seg_rel. destruct Hst as [A _]. exact A. }
    unfold refpart. destruct file as [f|].
    + rewrite (split1_app _ _ _ (identifier_noslash st prod Hs)), C. apply orb_true_r.
    + rewrite append_nil_r, (split1_none _ _ (identifier_noslash st prod Hs)). exact C.
  - (* below a reserved folder *)
    destruct p as [[[st prod] file] meth]. unfold wf_special, nocolon in H.
    destruct st; [discriminate|]. destruct file; [discriminate|].
    apply andb_true_iff in H as [H H3]. apply andb_true_iff in H as [H1 H2]. apply negb_true_iff in H1, H2.
    destruct (split1 "/" prod) as [[t0 rest]|] eqn:S; [|discriminate].
    pose proof (split1_some _ _ _ _ S) as [E _].
    unfold print_pref, compile_ref, wf_string.
    change (prod ++ ":" ++ meth) with (prod ++ String ":" meth).
    rewrite (split_colon_app _ _ H1 H2). rewrite E at 1. rewrite (special_not_abs _ _ H3), S, H3. reflexivity.
  - (* absolute path *)
    destruct p as [[[st prod] file] meth]. pose proof (wf_abs_inv _ _ _ _ H) as (-> & f & -> & A & En & Cp & Cf & Cm & Sf).
    unfold print_pref, compile_ref, wf_string.
    replace (prod ++ "/" ++ f ++ ":" ++ meth) with ((prod ++ String "/" f) ++ String ":" meth)
      by (rewrite append_assoc; reflexivity).
    rewrite split_colon_app; [|rewrite hasc_app; cbn [hasc]; rewrite Cp, Cf; reflexivity|exact Cm].
    rewrite (startswith_app _ _ A). unfold abs_canonical. rewrite (dir_raw_app _ _ Sf), En.
    destruct prod; [discriminate|reflexivity].
Qed.

(* ================================================================ soundness: a recognised string is printed from wf parts *)
Lemma seg_decompose t :
  canonical_seg t = true ->
  stage_prefixed t = false \/
  exists n job, t = "stage" ++ dec n ++ "." ++ job /\ var_search job = false.
Proof.
  unfold canonical_seg, stage_prefixed. destruct (split1 "." t) as [[st job]|] eqn:S; [|left; reflexivity].
  destruct (stage_match st) as [n|]; [|left; reflexivity]. intros H. right.
  apply andb_true_iff in H as [H1 H2]. apply String.eqb_eq in H1. apply negb_true_iff in H2.
  apply split1_some in S as [-> _]. exists n, job. split; [|exact H2]. rewrite H1 at 1.
  rewrite append_assoc. reflexivity.
Qed.

Lemma stage_id_facts c n job :
  hasc c ("stage" ++ dec n ++ "." ++ job) = false -> hasc c job = false.
Proof.
  intros H. change ("stage" ++ dec n ++ "." ++ job) with ("stage" ++ (dec n ++ String "." job)) in H.
  apply hasc_app_false in H as [_ H]. apply hasc_app_false in H as [_ H]. apply hasc_cons_false in H. exact H.
Qed.

Lemma wf_component_mk st prod file meth :
  hasc ":" prod = false -> hasc ":" meth = false -> (forall f, file = Some f -> hasc ":" f = false) ->
  hasc "/" prod = false ->
  match st with
  | Some _ => True
  | None => stage_prefixed prod = false /\ (file = None \/ in_strs prod ("" :: Special) = false)
  end ->
  wf_component (st, prod, file, meth) = true.
Proof.
  intros Hp Hm Hf Hs Hst. unfold wf_component, nocolon. rewrite Hp, Hm, Hs. cbn [negb andb].
  assert (F : match file with Some f => negb (hasc ":" f) | None => true end = true).
  { destruct file as [f|]; [rewrite (Hf f eq_refl)|]; reflexivity. }
  rewrite F. cbn [andb]. destruct st as [n|]; [reflexivity|]. destruct Hst as [A B]. rewrite A. cbn [negb andb].
  destruct B as [->|B]; [apply orb_true_r|rewrite B; reflexivity].
Qed.

Lemma print_stage n job tail :
  "stage" ++ dec n ++ "." ++ job ++ tail = ("stage" ++ dec n ++ "." ++ job) ++ tail.
Proof.
  change ("stage" ++ dec n ++ "." ++ job ++ tail) with ("stage" ++ (dec n ++ ("." ++ (job ++ tail)))).
  change ("stage" ++ dec n ++ "." ++ job) with ("stage" ++ (dec n ++ ("." ++ job))).
  rewrite !append_assoc. reflexivity.
Qed.

Theorem wf_string_sound s : wf_string s = true -> exists p, wf_parts p = true /\ print_pref p = s.
Proof.
  unfold wf_string. destruct (split_colon s) as [[a m]|] eqn:S; [|discriminate].
  apply split_colon_some in S as (-> & Ca & Cm).
  destruct (startswith a "/") eqn:A.
  - (* absolute path *)
    intros H. destruct (abs_decompose a A H) as (d & l & -> & Ad & Ed & Sl).
    apply hasc_app_false in Ca as [Cd Cl]. apply hasc_cons_false in Cl.
    exists (None, d, Some l, m). split.
    + unfold wf_parts. apply orb_true_iff. right. unfold wf_abs, nocolon. rewrite Ad, Ed, Cd, Cl, Cm, Sl. reflexivity.
    + unfold print_pref, compile_ref. rewrite append_assoc. reflexivity.
  - destruct (split1 "/" a) as [[t0 rest]|] eqn:T.
    + pose proof (split1_some _ _ _ _ T) as [Ea St0].
      destruct (in_strs t0 Special) eqn:Sp.
      * (* below a reserved folder *)
        intros _. exists (None, a, None, m). split; [|reflexivity].
        unfold wf_parts. apply orb_true_iff. left. apply orb_true_iff. right.
        unfold wf_special, nocolon. rewrite Ca, Cm, T, Sp. reflexivity.
      * cbn [orb]. intros H. subst a.
        apply hasc_app_false in Ca as [Ct Cr]. apply hasc_cons_false in Cr.
        assert (Ne : in_strs t0 ("" :: Special) = false).
        { unfold in_strs. cbn [existsb]. fold (in_strs t0 Special). rewrite Sp, orb_false_r.
          destruct t0; [discriminate A|reflexivity]. }
        destruct (seg_decompose t0 H) as [P|(n & job & -> & V)].
        -- exists (None, t0, Some rest, m). split.
           ++ unfold wf_parts. apply orb_true_iff. left. apply orb_true_iff. left. rewrite andb_true_r.
              apply wf_component_mk; auto. intros f E; inversion E; subst; exact Cr.
           ++ unfold print_pref, compile_ref. rewrite append_assoc. reflexivity.
        -- exists (Some n, job, Some rest, m). split.
           ++ unfold wf_parts. apply orb_true_iff. left. apply orb_true_iff. left. rewrite V. cbn [negb]. rewrite andb_true_r.
              apply wf_component_mk; auto; try (eapply stage_id_facts; eassumption).
              intros f E; inversion E; subst; exact Cr.
           ++ unfold print_pref, compile_ref.
              rewrite (append_assoc _ (String "/" rest) (String ":" m)), <- print_stage. reflexivity.
    + (* no path *)
      apply split1_none_inv in T. intros H.
      destruct (seg_decompose a H) as [P|(n & job & -> & V)].
      * exists (None, a, None, m). split; [|reflexivity].
        unfold wf_parts. apply orb_true_iff. left. apply orb_true_iff. left. rewrite andb_true_r.
        apply wf_component_mk; auto. intros f E; discriminate.
      * exists (Some n, job, None, m). split.
        -- unfold wf_parts. apply orb_true_iff. left. apply orb_true_iff. left. rewrite V. cbn [negb]. rewrite andb_true_r.
           apply wf_component_mk; auto; try (eapply stage_id_facts; eassumption). intros f E; discriminate.
        -- unfold print_pref, compile_ref.
           rewrite <- print_stage. reflexivity.
Qed.

(* the recognised strings are exactly the printed forms of the grammar *)
Theorem wf_string_iff s : wf_string s = true <-> exists p, wf_parts p = true /\ print_pref p = s.
Proof.
  split; [apply wf_string_sound|]. intros (p & W & <-). apply wf_string_complete. exact W.
Qed.

(* round trip for every recognised string, under every application-dependency / folder list *)
Theorem accepted_roundtrip s ad sf :
  wf_string s = true ->
  exists p, parse_full s None ad sf = Some p /\ wf_parts p = true /\ print_pref p = s.
Proof.
  intros H. destruct (wf_string_sound s H) as (p & W & <-). exists p.
  split; [apply roundtrip; exact W|]. split; [exact W|reflexivity].
Qed.

(* ================================================================ normal form of every accepted string *)
Lemma rstrip_empty s : rstrip_slash s = "" -> all_chars is_slash s = true.
Proof.
  destruct s as [|c s]; [reflexivity|]. cbn [rstrip_slash all_chars].
  destruct (is_slash c && all_chars is_slash s) eqn:E; [reflexivity|discriminate].
Qed.

Lemma rstrip_not_ends s : ends_slash (rstrip_slash s) = false.
Proof.
  induction s as [|c s IH]; [reflexivity|]. cbn [rstrip_slash].
  destruct (is_slash c && all_chars is_slash s) eqn:E; [reflexivity|].
  cbn [ends_slash]. destruct (rstrip_slash s) eqn:R; [|exact IH].
  apply rstrip_empty in R. rewrite R, andb_true_r in E. exact E.
Qed.

Lemma rstrip_hasc c s : hasc c s = false -> hasc c (rstrip_slash s) = false.
Proof.
  induction s as [|x s IH]; [reflexivity|]. cbn [hasc rstrip_slash]. intros H.
  apply orb_false_iff in H as [H1 H2].
  destruct (is_slash x && all_chars is_slash s); [reflexivity|]. cbn [hasc]. rewrite H1, (IH H2). reflexivity.
Qed.

Lemma special_novar job : in_strs job ("" :: Special) = true -> var_search job = false.
Proof.
  unfold in_strs, Special. cbn [existsb]. intros H.
  repeat (apply orb_true_iff in H as [H|H]); try discriminate; apply String.eqb_eq in H; subst job; reflexivity.
Qed.

(* the first segment [t] of a relative reference, read under the owner's stage [idx] *)
Definition seg_guard (t : string) : bool :=
  match split1 "." t with
  | Some (st, job) => match stage_match st with
                      | Some _ => negb (var_search job && has_stage_prefix job)
                      | None => true
                      end
  | None => true
  end.

Lemma seg_nf t file m idx ad sf si job has :
  hasc "/" t = false -> hasc ":" t = false -> hasc ":" m = false ->
  (forall f, file = Some f -> hasc ":" f = false) ->
  (file = None \/ in_strs t ("" :: Special) = false) ->
  seg_guard t = true ->
  parse_producer t idx = (si, job, has) ->
  let p := (if not_component job has (folders_of ad sf) then None else si, job, file, m) in
  wf_parts p = true /\ parse_full (print_pref p) idx ad sf = Some p.
Proof.
  intros St Ct Cm Cf Fs G P.
  assert (A : startswith t "/" = false) by (apply hasc_not_prefix; exact St).
  unfold parse_producer in P. rewrite A in P. unfold seg_guard in G.
  assert (WP : forall st, wf_component (st, job, file, m) = true ->
               match st with Some _ => var_search job = false | None => True end ->
               wf_parts (st, job, file, m) = true).
  { intros st W V. unfold wf_parts. rewrite W. destruct st; [rewrite V|]; reflexivity. }
  assert (D : (exists st0 n, t = st0 ++ String "." job /\ si = Some n /\ has = true /\
                             negb (var_search job && has_stage_prefix job) = true)
              \/ (stage_prefixed t = false /\ si = idx /\ job = t /\ has = false)).
  { unfold stage_prefixed. destruct (split1 "." t) as [[st0 job0]|] eqn:S.
    - destruct (stage_match st0) as [n|] eqn:M.
      + left. inversion P; subst. apply split1_some in S as [-> _]. exists st0, n. auto.
      + right. inversion P; subst. auto.
    - right. inversion P; subst. auto. }
  clear P G. destruct D as [(st0 & n & -> & -> & -> & G)|(SP & -> & -> & ->)].
  - (* stage prefix recognised *)
    apply hasc_app_false in St as [_ St]. apply hasc_cons_false in St.
    apply hasc_app_false in Ct as [_ Ct]. apply hasc_cons_false in Ct.
    unfold not_component. cbn [negb]. rewrite !andb_false_r. cbn [orb].
    destruct (var_search job) eqn:V.
    + cbn [andb] in G. apply negb_true_iff in G. rewrite has_stage_prefix_eq in G.
      assert (W : wf_component (None, job, file, m) = true).
      { apply wf_component_mk; auto. split; [exact G|]. right.
        destruct (in_strs job ("" :: Special)) eqn:E; [|reflexivity].
        apply special_novar in E. congruence. }
      split; [apply WP; [exact W|exact I]|].
      unfold print_pref. rewrite (parse_full_print _ _ _ _ _ _ _ W), V, orb_true_r. reflexivity.
    + assert (W : wf_component (Some n, job, file, m) = true) by (apply wf_component_mk; auto).
      split; [apply WP; [exact W|first [exact V|reflexivity]]|].
      unfold print_pref. rewrite (parse_full_print _ _ _ _ _ _ _ W), V. reflexivity.
  - (* no stage prefix: the stage is the owner's, unless the segment is a folder or holds a variable *)
    unfold not_component. cbn [negb]. rewrite !andb_true_r, St, orb_false_r.
    destruct (in_strs t (folders_of ad sf) || var_search t) eqn:NC.
    + assert (W : wf_component (None, t, file, m) = true) by (apply wf_component_mk; auto).
      split; [apply WP; [exact W|exact I]|].
      unfold print_pref. rewrite (parse_full_print _ _ _ _ _ _ _ W), NC. reflexivity.
    + apply orb_false_iff in NC as [NC1 NC2]. destruct idx as [i|].
      * assert (W : wf_component (Some i, t, file, m) = true) by (apply wf_component_mk; auto).
        split; [apply WP; [exact W|exact NC2]|].
        unfold print_pref. rewrite (parse_full_print _ _ _ _ _ _ _ W), NC2. reflexivity.
      * assert (W : wf_component (None, t, file, m) = true) by (apply wf_component_mk; auto).
        split; [apply WP; [exact W|exact I]|].
        unfold print_pref. rewrite (parse_full_print _ _ _ _ _ _ _ W), NC1, NC2. reflexivity.
Qed.

(* every string the parsers accept (exactly one colon), outside the two recorded boundary classes, parses to parts
   of the grammar, and those parts are a fixed point: parse (print (parse s)) = parse s, under every owner stage,
   application-dependency list and folder list *)
Theorem normal_form s idx ad sf p :
  parse_full s idx ad sf = Some p -> nf_guard s = true ->
  wf_parts p = true /\ parse_full (print_pref p) idx ad sf = Some p.
Proof.
  intros H G. unfold parse_full, parse_data in H. unfold nf_guard in G.
  destruct (split_colon s) as [[a m]|] eqn:S; [|discriminate].
  apply split_colon_some in S as (_ & Ca & Cm).
  destruct (startswith a "/") eqn:A.
  - (* absolute path *)
    destruct (os_split a) as [h t] eqn:O. apply negb_true_iff in G.
    pose proof (os_split_abs a A) as Hh. rewrite O in Hh. cbn [fst] in Hh.
    unfold parse_producer in H. rewrite Hh in H. unfold not_component in H.
    rewrite (startswith_hasc _ Hh) in H. cbn [negb andb] in H. rewrite orb_true_r in H. cbn [orb] in H.
    inversion H; subst p. clear H.
    unfold os_split in O. rewrite G in O. inversion O; subst h t. clear O.
    rewrite <- (head_last a) in Ca. apply hasc_app_false in Ca as [Ch Cl].
    assert (W : wf_abs (None, rstrip_slash (head_raw a), Some (last_seg a), m) = true).
    { unfold wf_abs, nocolon. rewrite Hh, rstrip_not_ends, (rstrip_hasc _ _ Ch), Cl, Cm, last_seg_noslash. reflexivity. }
    split; [unfold wf_parts; rewrite W; apply orb_true_r|apply roundtrip_abs; exact W].
  - destruct (split1 "/" a) as [[t0 rest]|] eqn:T.
    + pose proof (split1_hasc _ _ _ _ T) as Hsl. pose proof (split1_some _ _ _ _ T) as [Ea St0].
      destruct (in_strs t0 Special) eqn:Sp.
      * (* below a reserved folder *)
        assert (PP : parse_producer a idx = (idx, a, false)).
        { rewrite Ea at 1. rewrite (parse_producer_special _ _ _ Sp). rewrite <- Ea. reflexivity. }
        rewrite PP in H. unfold not_component in H. rewrite Hsl in H. cbn [negb andb] in H.
        rewrite orb_true_r in H. cbn [orb] in H. inversion H; subst p. clear H.
        assert (W : wf_special (None, a, None, m) = true).
        { unfold wf_special, nocolon. rewrite Ca, Cm, T, Sp. reflexivity. }
        split; [unfold wf_parts; rewrite W; rewrite orb_true_r; reflexivity|apply roundtrip_special; exact W].
      * destruct (parse_producer t0 idx) as [[si job] has] eqn:P. inversion H; subst p. clear H.
        rewrite Ea in Ca. apply hasc_app_false in Ca as [Ct Cr]. apply hasc_cons_false in Cr.
        unfold first_seg_of in G. rewrite T in G.
        apply (seg_nf t0 (Some rest) m idx ad sf si job has); auto.
        -- intros f E; inversion E; subst; exact Cr.
        -- right. unfold in_strs. cbn [existsb]. fold (in_strs t0 Special). rewrite Sp, orb_false_r.
           destruct t0; [rewrite Ea in A; discriminate A|reflexivity].
    + (* no path *)
      pose proof (split1_none_inv _ _ T) as Sa.
      destruct (parse_producer a idx) as [[si job] has] eqn:P. inversion H; subst p. clear H.
      unfold first_seg_of in G. rewrite T in G.
      apply (seg_nf a None m idx ad sf si job has); auto. intros f E; discriminate.
Qed.

(* ... hence the printed parse is the canonical spelling: recognised by wf_string, and printing its parse gives it back *)
Corollary normal_form_string s idx ad sf p :
  parse_full s idx ad sf = Some p -> nf_guard s = true ->
  wf_string (print_pref p) = true /\
  option_map print_pref (parse_full (print_pref p) idx ad sf) = Some (print_pref p).
Proof.
  intros H G. destruct (normal_form _ _ _ _ _ H G) as [W R]. split; [apply wf_string_complete; exact W|].
  rewrite R. reflexivity.
Qed.

(* ================================================================ the recognised strings are EXACTLY those that round-trip *)
Lemma length_app a b : String.length (a ++ b) = String.length a + String.length b.
Proof. induction a as [|c a IH]; cbn; [reflexivity|rewrite IH; reflexivity]. Qed.

Lemma special_nodot t : in_strs t Special = true -> split1 "." t = None.
Proof.
  unfold in_strs, Special. cbn [existsb]. intros H.
  repeat (apply orb_true_iff in H as [H|H]); try discriminate; apply String.eqb_eq in H; subst t; reflexivity.
Qed.

(* outside the guard the printed parse is a different string *)
Lemma guard_false_not_fixed s ad sf p :
  parse_full s None ad sf = Some p -> nf_guard s = false -> print_pref p <> s.
Proof.
  intros H G E. apply (f_equal String.length) in E.
  unfold parse_full, parse_data in H. unfold nf_guard in G.
  destruct (split_colon s) as [[a m]|] eqn:S; [|discriminate].
  apply split_colon_some in S as (-> & Ca & Cm).
  destruct (startswith a "/") eqn:A.
  - apply negb_false_iff in G. unfold os_split in H. rewrite G in H.
    assert (Hh : startswith (head_raw a) "/" = true).
    { pose proof (os_split_abs a A) as X. unfold os_split in X. rewrite G in X. exact X. }
    unfold parse_producer in H. rewrite Hh in H. unfold not_component in H.
    rewrite (startswith_hasc _ Hh) in H. cbn [negb andb] in H. rewrite orb_true_r in H. cbn [orb] in H.
    inversion H; subst p. clear H.
    assert (L : String.length a = String.length (head_raw a) + String.length (last_seg a))
      by (rewrite <- length_app, head_last; reflexivity).
    unfold print_pref, compile_ref in E. rewrite !length_app in E. cbn [String.length] in E. lia.
  - assert (D : exists t0 tail st0 job n, a = t0 ++ tail /\ hasc "/" t0 = false /\ in_strs t0 Special = false /\
                 (tail = "" \/ exists rest, tail = String "/" rest /\ split1 "/" a = Some (t0, rest)) /\
                 (tail = "" -> split1 "/" a = None) /\
                 split1 "." t0 = Some (st0, job) /\ stage_match st0 = Some n /\ var_search job = true).
    { unfold first_seg_of in G.
      destruct (split1 "/" a) as [[t0 rest]|] eqn:T.
      - pose proof (split1_some _ _ _ _ T) as [Ea St0].
        destruct (split1 "." t0) as [[st0 job]|] eqn:S1; [|discriminate].
        destruct (stage_match st0) as [n|] eqn:M; [|discriminate].
        apply negb_false_iff in G. apply andb_true_iff in G as [V _].
        exists t0, (String "/" rest), st0, job, n. repeat split; auto.
        + destruct (in_strs t0 Special) eqn:Sp; [|reflexivity]. apply special_nodot in Sp. congruence.
        + right. exists rest. auto.
        + discriminate.
      - destruct (split1 "." a) as [[st0 job]|] eqn:S1; [|discriminate].
        destruct (stage_match st0) as [n|] eqn:M; [|discriminate].
        apply negb_false_iff in G. apply andb_true_iff in G as [V _].
        exists a, "", st0, job, n. rewrite append_nil_r. repeat split; auto.
        + apply split1_none_inv. exact T.
        + destruct (in_strs a Special) eqn:Sp; [|reflexivity]. apply special_nodot in Sp. congruence. }
    destruct D as (t0 & tail & st0 & job & n & Ea & St0 & Sp & Tl & Tn & S1 & M & V).
    assert (PP : parse_producer t0 None = (Some n, job, true)).
    { assert (A0 : startswith t0 "/" = false) by (apply hasc_not_prefix; exact St0).
      unfold parse_producer. rewrite A0, S1, M. reflexivity. }
    pose proof (split1_some _ _ _ _ S1) as [Et _].
    assert (NC : forall F, not_component job true F = true).
    { intros F. unfold not_component. rewrite V. apply orb_true_r. }
    destruct Tl as [->|(rest & -> & T)].
    + rewrite (Tn eq_refl) in H. rewrite append_nil_r in Ea. subst a. rewrite PP, NC in H.
      inversion H; subst p. clear H. unfold print_pref, compile_ref in E. rewrite Et in E.
      rewrite !length_app in E. cbn [String.length] in E. rewrite ?length_app in E. cbn [String.length] in E. lia.
    + rewrite T, Sp, PP, NC in H. inversion H; subst p. clear H. unfold print_pref, compile_ref in E.
      rewrite Ea, Et in E.
      rewrite !length_app in E. cbn [String.length] in E. rewrite ?length_app in E. cbn [String.length] in E. lia.
Qed.

Theorem wf_string_iff_roundtrip s ad sf :
  wf_string s = true <-> option_map print_pref (parse_full s None ad sf) = Some s.
Proof.
  split.
  - intros H. destruct (accepted_roundtrip s ad sf H) as (p & -> & _ & <-). reflexivity.
  - intros H. destruct (parse_full s None ad sf) as [p|] eqn:P; [|discriminate]. cbn in H. injection H as E.
    destruct (nf_guard s) eqn:G.
    + destruct (normal_form _ _ _ _ _ P G) as [W _]. rewrite <- E. apply wf_string_complete. exact W.
    + exfalso. exact (guard_false_not_fixed _ _ _ _ P G E).
Qed.

(* ================================================================ DoWhile / iteration names  <iteration>#<name> *)
Lemma dec_first n : exists c r, dec n = String c r /\ is_digit c = true.
Proof.
  pose proof (dec_digits n) as D. pose proof (undec_dec n) as U.
  destruct (dec n) as [|c r]; [cbn in U; discriminate|]. cbn [all_chars] in D. apply andb_true_iff in D as [D _].
  exists c, r. auto.
Qed.

Lemma loop_name_not_stage k name : stage_prefixed (dec k ++ "#" ++ name) = false.
Proof.
  destruct (dec_first k) as (c & r & -> & D). unfold stage_prefixed. cbn [append split1].
  destruct (Ascii.eqb c ".") eqn:E; [reflexivity|].
  destruct (split1 "." (r ++ String "#" name)) as [[l r']|]; [|reflexivity].
  rewrite stage_match_not_s; [reflexivity|].
  destruct (Ascii.eqb "s" c) eqn:S; [|reflexivity]. apply Ascii.eqb_eq in S. subst c. discriminate D.
Qed.

Lemma wf_component_loop k name file meth :
  hasc ":" name = false -> hasc "/" name = false -> hasc ":" meth = false ->
  (forall f, file = Some f -> hasc ":" f = false) ->
  wf_component (None, dec k ++ "#" ++ name, file, meth) = true.
Proof.
  intros Cn Sn Cm Cf. apply wf_component_mk; auto.
  - rewrite hasc_app, dec_hasc by reflexivity. cbn. exact Cn.
  - rewrite hasc_app, dec_hasc by reflexivity. cbn. exact Sn.
  - split; [apply loop_name_not_stage|]. right.
    destruct (dec_first k) as (c & r & E & D). rewrite E. unfold in_strs, Special. cbn [existsb append String.eqb].
    destruct c as [[|] [|] [|] [|] [|] [|] [|] [|]]; try discriminate D; reflexivity.
Qed.

(* the relative spelling <iteration>#<name>[/file]:method read under the owner's stage i and the stage-qualified
   spelling stage<i>.<iteration>#<name>[/file]:method name the same target *)
Theorem same_target_loop k name file meth i idx' ad sf :
  hasc ":" name = false -> hasc "/" name = false -> hasc ":" meth = false ->
  (forall f, file = Some f -> hasc ":" f = false) ->
  in_strs (dec k ++ "#" ++ name) (folders_of ad sf) = false -> var_search (dec k ++ "#" ++ name) = false ->
  let prod := dec k ++ "#" ++ name in
  parse_full (print_pref (None, prod, file, meth)) (Some i) ad sf = Some (Some i, prod, file, meth) /\
  parse_full (print_pref (Some i, prod, file, meth)) idx' ad sf = Some (Some i, prod, file, meth).
Proof.
  intros Cn Sn Cm Cf F V prod. apply same_target; auto. apply wf_component_loop; auto.
Qed.
