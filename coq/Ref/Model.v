(* C09 — Data references parse, print and classify consistently.

   Character-level model of (python/experiment/model/frontends/flowir.py)
     FlowIR.ParseDataReference            -> parse_data
     FlowIR.ParseProducerReference        -> parse_producer   (regex  stage([0-9]+)  used with re.match -> stage_match)
     FlowIR.ParseDataReferenceFull        -> parse_full
     FlowIR.compile_reference             -> compile_ref
     FlowIR.is_var_reference              -> is_var_reference (regexes %\([a-zA-Z0-9_.-]+\)s and \[(\d+)\] used with re.search)
     FlowIR.is_datareference_to_component -> is_dref_component
     FlowIR.application_dependency_to_name-> app_dep_name     (os.path.split / os.path.splitext / lower)
     FlowIR.expand_potential_component_reference -> expand_potential
     FlowIR.expand_component_references   -> expand_refs
     Manifest.top_level_folders           -> top_level_folders (repaired code), top_level_folders_pinned (before the fix)
   and of graph.ComponentIdentifier / graph.DataReference (absoluteReference, relativeReference, to_uid) -> dref, to_uid.
   A raised ValueError is None.  Stage indices are N; everything else is a string. *)
From Coq Require Import String Ascii List Bool Arith NArith ZArith.
Require Import V.Lib.PyStr V.Lib.JTree.
Import ListNotations.
Open Scope string_scope.

(* ---------------------------------------------------------------- characters and small string helpers *)
Fixpoint hasc (c : ascii) (s : string) : bool :=
  match s with EmptyString => false | String a s' => Ascii.eqb a c || hasc c s' end.

Definition in_strs (x : string) (l : list string) : bool := existsb (String.eqb x) l.

Fixpoint take_while (p : ascii -> bool) (s : string) : string :=
  match s with String a s' => if p a then String a (take_while p s') else EmptyString | EmptyString => EmptyString end.
Fixpoint drop_while (p : ascii -> bool) (s : string) : string :=
  match s with String a s' => if p a then drop_while p s' else s | EmptyString => EmptyString end.

Definition is_slash (a : ascii) : bool := Ascii.eqb a "/".
Definition is_lower (a : ascii) : bool := let n := nat_of_ascii a in Nat.leb 97 n && Nat.leb n 122.

(* ---------------------------------------------------------------- os.path (posixpath) *)
(* p[: p.rfind('/') + 1] *)
Fixpoint head_raw (s : string) : string :=
  match s with
  | EmptyString => EmptyString
  | String c s' => if hasc "/" s' then String c (head_raw s')
                   else if is_slash c then String c EmptyString else EmptyString
  end.
(* p[p.rfind('/') + 1 :] *)
Fixpoint last_seg (s : string) : string :=
  match s with
  | EmptyString => EmptyString
  | String c s' => if hasc "/" s' then last_seg s' else if is_slash c then s' else s
  end.
(* s.rstrip('/') *)
Fixpoint rstrip_slash (s : string) : string :=
  match s with
  | EmptyString => EmptyString
  | String c s' => if is_slash c && all_chars is_slash s' then EmptyString else String c (rstrip_slash s')
  end.
(* os.path.split *)
Definition os_split (p : string) : string * string :=
  let h := head_raw p in
  (if all_chars is_slash h then h else rstrip_slash h, last_seg p).

Fixpoint ends_slash (s : string) : bool :=
  match s with
  | EmptyString => false
  | String c EmptyString => is_slash c
  | String _ s' => ends_slash s'
  end.
(* os.path.join(a, b) *)
Definition os_join (a b : string) : string :=
  if startswith b "/" then b
  else if (match a with EmptyString => true | _ => false end) || ends_slash a then a ++ b
  else a ++ "/" ++ b.

Fixpoint rfind_from (c : ascii) (s : string) (i : nat) (acc : option nat) : option nat :=
  match s with
  | EmptyString => acc
  | String a s' => rfind_from c s' (S i) (if Ascii.eqb a c then Some i else acc)
  end.
Definition rfind_c (c : ascii) (s : string) : option nat := rfind_from c s 0 None.

(* os.path.splitext(p)[0]  (genericpath._splitext with sep='/', extsep='.') *)
Definition splitext_root (p : string) : string :=
  match rfind_c "." p with
  | None => p
  | Some d =>
      let start := match rfind_c "/" p with None => 0 | Some k => S k end in
      if Nat.leb start d
      then if existsb (fun k => match String.get k p with Some a => negb (Ascii.eqb a ".") | None => false end)
                      (seq start (d - start))
           then take d p else p
      else p
  end.

(* FlowIR.application_dependency_to_name *)
Definition app_dep_name (id : string) : string :=
  let id1 := rstrip_slash id in
  let folder := if startswith id1 "/" then snd (os_split id1) else id1 in
  lower (splitext_root folder).

(* ---------------------------------------------------------------- the regular expressions *)
(* re.match(r"stage([0-9]+)", st): a PREFIX match; group 1 is the maximal digit run; int() of it *)
Definition stage_match (st : string) : option N :=
  if prefixb "stage" st then
    match take_while is_digit (drop 5 st) with
    | EmptyString => None
    | ds => undec ds
    end
  else None.

(* [a-zA-Z0-9_.-] *)
Definition var_char (a : ascii) : bool :=
  is_digit a || is_upper a || is_lower a || Ascii.eqb a "_" || Ascii.eqb a "." || Ascii.eqb a "-".

(* %\([a-zA-Z0-9_.-]+\)s  anchored at the head of s (the class excludes ')' so only the maximal run can match) *)
Definition var_at (s : string) : bool :=
  match s with
  | String "%" (String "(" t) =>
      match take_while var_char t with
      | EmptyString => false
      | _ => prefixb ")s" (drop_while var_char t)
      end
  | _ => false
  end.
Fixpoint var_search (s : string) : bool :=
  var_at s || match s with EmptyString => false | String _ s' => var_search s' end.

(* \[(\d+)\] anchored at the head *)
Definition index_at (s : string) : bool :=
  match s with
  | String "[" t =>
      match take_while is_digit t with
      | EmptyString => false
      | _ => prefixb "]" (drop_while is_digit t)
      end
  | _ => false
  end.
Fixpoint index_search (s : string) : bool :=
  index_at s || match s with EmptyString => false | String _ s' => index_search s' end.

Definition is_var_reference (s : string) : bool := var_search s || index_search s.

(* ---------------------------------------------------------------- constants of FlowIR *)
Definition Special : list string := ["input"; "data"; "bin"; "conf"].
Definition methods : list string :=
  ["copy"; "link"; "ref"; "copyout"; "extract"; "output"; "loopref"; "loopoutput"].

(* ---------------------------------------------------------------- parsers *)
(* reference, method = value.split(':')   -- ValueError unless exactly one ':' *)
Definition split_colon (v : string) : option (string * string) :=
  match split1 ":" v with
  | Some (a, b) => if hasc ":" b then None else Some (a, b)
  | None => None
  end.

(* FlowIR.ParseDataReference: (producer reference, file, method) *)
Definition parse_data (v : string) : option (string * option string * string) :=
  match split_colon v with
  | None => None
  | Some (reference, meth) =>
      if startswith reference "/" then
        let (h, t) := os_split reference in Some (h, Some t, meth)
      else match split1 "/" reference with
           | Some (t0, rest) => if in_strs t0 Special then Some (reference, None, meth)
                                else Some (t0, Some rest, meth)
           | None => Some (reference, None, meth)
           end
  end.

(* FlowIR.ParseProducerReference: (stageIndex, jobName, hasIndex) *)
Definition parse_producer (reference : string) (idx : option N) : option N * string * bool :=
  if startswith reference "/" then (idx, reference, false)
  else match split1 "." reference with
       | None => (idx, reference, false)
       | Some (st, job) =>
           match stage_match st with
           | Some n => (Some n, job, true)
           | None => (idx, reference, false)
           end
       end.

(* parsed reference: stage, producer, file, method *)
Definition pref : Type := option N * string * option string * string.

(* the test that strips the stage index in ParseDataReferenceFull / is_datareference_to_component *)
Definition not_component (job : string) (has : bool) (folders : list string) : bool :=
  (in_strs job folders && negb has) || (hasc "/" job && negb has) || var_search job.

(* FlowIR.ParseDataReferenceFull(value, index, application_dependencies, special_folders) *)
Definition parse_full (v : string) (idx : option N) (ad sf : list string) : option pref :=
  match parse_data v with
  | None => None
  | Some (reference, file, meth) =>
      let '(si, job, has) := parse_producer reference idx in
      let folders := (sf ++ Special ++ map app_dep_name ad)%list in
      Some (if not_component job has folders then None else si, job, file, meth)
  end.

(* FlowIR.is_datareference_to_component(value, top_level_folders) *)
Definition is_dref_component (v : string) (tlf : list string) : option bool :=
  match parse_data v with
  | None => None
  | Some (reference, _, _) =>
      let '(_, job, has) := parse_producer reference None in
      Some (negb (not_component job has (Special ++ tlf)%list))
  end.

(* ---------------------------------------------------------------- printer *)
(* FlowIR.compile_reference(producer, filename, method, stage_index) *)
Definition compile_ref (prod : string) (file : option string) (meth : string) (st : option N) : string :=
  let body := match file with
              | None => prod ++ ":" ++ meth
              | Some f => prod ++ "/" ++ f ++ ":" ++ meth
              end in
  match st with None => body | Some n => "stage" ++ dec n ++ "." ++ body end.

Definition print_pref (p : pref) : string := let '(st, prod, file, meth) := p in compile_ref prod file meth st.

(* ---------------------------------------------------------------- expansion to the absolute form *)
Definition known_t : Type := option (list (N * list string)).

Definition known_in (known : known_t) (i : N) (p : string) : bool :=
  match known with
  | None => false
  | Some m => match List.find (fun kv => N.eqb (fst kv) i) m with
              | Some (_, l) => in_strs p l
              | None => false
              end
  end.

(* FlowIR.expand_potential_component_reference(ref, stage_context, known_components, top_level_folders, force_expand) *)
Definition expand_potential (r : string) (ctx : N) (known : known_t) (tlf : option (list string)) (force : bool)
  : option string :=
  match parse_full r None [] [] with
  | None => None
  | Some (si, prod, file, meth) =>
      let mi := match si with Some n => n | None => ctx end in
      if is_var_reference prod then Some r
      else
        let direct := (match tlf, si with Some l, None => in_strs prod l | _, _ => false end) || hasc "/" prod in
        let rc := force || (match tlf with Some (_ :: _) => negb direct | _ => false end) || known_in known mi prod in
        Some (if rc then compile_ref prod file meth (Some mi) else r)
  end.

Fixpoint mapM {A B} (f : A -> option B) (l : list A) : option (list B) :=
  match l with
  | [] => Some []
  | x :: r => match f x, mapM f r with Some y, Some ys => Some (y :: ys) | _, _ => None end
  end.

Definition all_folders (ad tlf : list string) : list string := (tlf ++ map app_dep_name ad ++ Special)%list.

(* FlowIR.expand_component_references(references, stage_context, known_components, application_dependencies, top_level_folders) *)
Definition expand_refs (refs : list string) (ctx : N) (known : known_t) (ad tlf : list string) : option (list string) :=
  mapM (fun r => expand_potential r ctx known (Some (all_folders ad tlf)) false) refs.

Definition expand_one (r : string) (ctx : N) (known : known_t) (ad tlf : list string) : option string :=
  expand_potential r ctx known (Some (all_folders ad tlf)) false.

(* ---------------------------------------------------------------- Manifest.top_level_folders *)
Definition first_seg_of (sep : ascii) (k : string) : string :=
  match split1 sep k with Some (a, _) => a | None => k end.
(* after the fix: x.split(os.path.sep, 1)[0] *)
Definition top_level_folders (keys : list string) : list string := map (first_seg_of "/") keys.
(* the pinned code: x.split(os.path.pathsep, 1)[0], os.pathsep = ':' *)
Definition top_level_folders_pinned (keys : list string) : list string := map (first_seg_of ":") keys.

(* ---------------------------------------------------------------- graph.DataReference / ComponentIdentifier *)
Definition identifier_of (si : option N) (name : string) : string :=
  match si with Some n => "stage" ++ dec n ++ "." ++ name | None => name end.

(* (absoluteReference, relativeReference, stageIndex, producerName, path, method) *)
Definition dref (v : string) (idx : option N)
  : option (string * string * option N * string * option string * string) :=
  match parse_data v with
  | None => None
  | Some (ident, file, meth) =>
      if in_strs meth methods then
        let '(si, name, _) := parse_producer ident idx in
        let wf x := match file with Some f => os_join x f | None => x end in
        Some (wf (identifier_of si name) ++ ":" ++ meth, wf name ++ ":" ++ meth, si, name, file, meth)
      else None
  end.

(* ComponentIdentifier.to_uid: the part after the instance URI *)
Definition uid_escape (id : string) : string := replace "&" "%26" (replace "%" "%25" id).

(* ================================================================ correspondence glue *)
Definition jerr : jv := JInt (-1).
Definition jN (n : N) : jv := JInt (Z.of_N n).
Definition jopt {A} (f : A -> jv) (o : option A) : jv := match o with Some x => f x | None => JNull end.
Definition jres {A} (f : A -> jv) (o : option A) : jv := match o with Some x => f x | None => jerr end.
Definition jpref (p : pref) : jv :=
  let '(st, prod, file, meth) := p in JList [jopt jN st; JStr prod; jopt JStr file; JStr meth].

Record ctx := { c_stage : N; c_known : list (N * list string); c_appdeps : list string; c_keys : list string }.

(* everything observed of the implementation for one (context, reference string) *)
Definition observe (c : ctx) (r : string) : jv :=
  let tlf := top_level_folders (c_keys c) in
  let ad := c_appdeps c in
  let known := Some (c_known c) in
  let e1 := expand_one r (c_stage c) known ad tlf in
  JList [
    (* 0 ParseDataReference *)
    jres (fun x => let '(a, f, m) := x in JList [JStr a; jopt JStr f; JStr m]) (parse_data r);
    (* 1 ParseProducerReference of the producer part, with and without the owner's stage *)
    jres (fun x => let '(a, _, _) := x in
                   let '(s1, j1, h1) := parse_producer a (Some (c_stage c)) in
                   let '(s2, j2, h2) := parse_producer a None in
                   JList [jopt jN s1; JStr j1; JBool h1; jopt jN s2; JStr j2; JBool h2]) (parse_data r);
    (* 2 ParseDataReferenceFull(r, None) and its compile_reference *)
    jres jpref (parse_full r None [] []);
    jres (fun p => JStr (print_pref p)) (parse_full r None [] []);
    (* 4 ParseDataReferenceFull(r, stage, app deps, top level folders) and its compile_reference *)
    jres jpref (parse_full r (Some (c_stage c)) ad tlf);
    jres (fun p => JStr (print_pref p)) (parse_full r (Some (c_stage c)) ad tlf);
    (* 6 expand_component_references once and twice *)
    jres JStr e1;
    jres JStr (match e1 with Some r' => expand_one r' (c_stage c) known ad tlf | None => None end);
    (* 8 expand_potential_component_reference: no folders / known only / forced / folders but no known *)
    jres JStr (expand_potential r (c_stage c) known None false);
    jres JStr (expand_potential r (c_stage c) None None true);
    jres JStr (expand_potential r (c_stage c) None (Some tlf) false);
    (* 11 is_datareference_to_component *)
    jres JBool (is_dref_component r (tlf ++ map app_dep_name ad)%list);
    (* 12 DataReference(r, stage) and DataReference(r) *)
    jres (fun x => let '(a, b, si, n, f, m) := x in JList [JStr a; JStr b; jopt jN si; JStr n; jopt JStr f; JStr m; JStr (uid_escape (identifier_of si n))])
         (dref r (Some (c_stage c)));
    jres (fun x => let '(a, b, si, n, f, m) := x in JList [JStr a; JStr b; jopt jN si; JStr n; jopt JStr f; JStr m; JStr (uid_escape (identifier_of si n))])
         (dref r None)
  ].

(* case = (context index, reference string, observation of the implementation) *)
Definition check_case (ctxs : list ctx) (c : nat * string * jv) : bool :=
  let '(i, r, o) := c in
  match nth_error ctxs i with
  | Some cx => jv_eqb (observe cx r) o
  | None => false
  end.

(* manifest keys -> Manifest.top_level_folders and FlowIR.application_dependency_to_name *)
Definition check_folders (c : list string * list string * list string * list string) : bool :=
  let '(keys, tl, ads, names) := c in
  jv_eqb (JList (map JStr (top_level_folders keys))) (JList (map JStr tl)) &&
  jv_eqb (JList (map JStr (map app_dep_name ads))) (JList (map JStr names)).

(* ================================================================ recogniser of canonical reference strings
   (appended for the proof strengthening of C09; nothing above is changed)

   wf_string s = true  iff  s is the canonical spelling of a reference, i.e. (Proofs.v) s = print p for parts p of
   the grammar wf_parts, i.e. the parsers read s back to exactly the parts it was printed from.  Built from the
   same recognisers as the parsers: value.split(':') (split_colon), reference.split('/', 1), the regular
   expressions stage([0-9]+) (stage_match, re.match) and %\([a-zA-Z0-9_.-]+\)s (var_search, re.search). *)

(* p[: p.rfind('/')]  (the directory part without its final separator; "" when there is no '/') *)
Fixpoint dir_raw (s : string) : string :=
  match s with
  | EmptyString => EmptyString
  | String c s' => if hasc "/" s' then String c (dir_raw s') else EmptyString
  end.

(* an absolute path /dir/file whose directory part is not empty and does not end with a separator
   (regular expression  /(.*[^/])?/[^/]*  restricted to strings with a non-empty group 1 ... = ^/.*[^/]/[^/]*$ ) *)
Definition abs_canonical (a : string) : bool :=
  let d := dir_raw a in negb (String.eqb d "") && negb (ends_slash d).

(* the first path segment of a relative reference: either no stage prefix is recognised in front of its first
   dot, or the prefix is spelled canonically (stage<decimal without leading zeros>, nothing after the digits)
   and the producer after the dot holds no variable *)
Definition canonical_seg (t : string) : bool :=
  match split1 "." t with
  | Some (st, job) => match stage_match st with
                      | Some n => String.eqb st ("stage" ++ dec n) && negb (var_search job)
                      | None => true
                      end
  | None => true
  end.

Definition wf_string (s : string) : bool :=
  match split_colon s with
  | None => false
  | Some (a, _) =>
      if startswith a "/" then abs_canonical a
      else match split1 "/" a with
           | Some (t0, _) => in_strs t0 Special || canonical_seg t0
           | None => canonical_seg a
           end
  end.

(* does re.match recognise a stage index in front of the first dot (same as Proofs.stage_prefixed) *)
Definition has_stage_prefix (s : string) : bool :=
  match split1 "." s with
  | Some (st, _) => match stage_match st with Some _ => true | None => false end
  | None => false
  end.

(* the accepted strings whose printed parse is a fixed point of parse-then-print: everything except
   (F9a) an absolute path directly under the root (directory part only slashes) and
   (F9e) a stage prefix in front of a variable producer that itself starts with a stage prefix *)
Definition nf_guard (s : string) : bool :=
  match split_colon s with
  | None => true
  | Some (a, _) =>
      if startswith a "/" then negb (all_chars is_slash (head_raw a))
      else match split1 "." (first_seg_of "/" a) with
           | Some (st, job) => match stage_match st with
                               | Some _ => negb (var_search job && has_stage_prefix job)
                               | None => true
                               end
           | None => true
           end
  end.

(* second observation of one (context, reference string): is the string canonical (impl: print(parse r) = r),
   the guard, and parse (print (parse r)) against parse r without and with the context *)
Definition reparse (r : string) (idx : option N) (ad sf : list string) : option bool :=
  match parse_full r idx ad sf with
  | None => None
  | Some p => Some (match parse_full (print_pref p) idx ad sf with
                    | Some p' => jv_eqb (jpref p') (jpref p)
                    | None => false
                    end)
  end.

Definition observe2 (c : ctx) (r : string) : jv :=
  let tlf := top_level_folders (c_keys c) in
  JList [ JBool (wf_string r); JBool (nf_guard r);
          jres JBool (reparse r None [] []);
          jres JBool (reparse r (Some (c_stage c)) (c_appdeps c) tlf) ].

Definition check_case2 (ctxs : list ctx) (c : nat * string * jv * jv) : bool :=
  let '(i, r, o, o2) := c in
  match nth_error ctxs i with
  | Some cx => jv_eqb (observe cx r) o && jv_eqb (observe2 cx r) o2
  | None => false
  end.

(* ================================================================ folders taken from a DIRECTORY LISTING
   (appended: Manifest.fromDirectory, the implied manifest of a package / instance directory; nothing above is changed)

   Manifest.fromDirectory(path, include_dirs, include_files) lists the entries of path with os.listdir and keeps an
   entry when os.path.isdir(entry) (include_dirs) or else os.path.isfile(entry) (include_files).  Both tests use
   stat(), i.e. they FOLLOW symbolic links: a link to a directory is a directory, a link to a regular file is a
   file, a dangling link / a link loop / a fifo (or a link to one) is neither.  The kind of an entry is what
   lstat() and stat() say about it; the harness creates real entries of every kind and tells the model their kind.
   path itself is tested with os.path.isdir as well (a file, a missing path or a dangling link give the empty manifest).
   method / resolve_paths only change the VALUES of the implied manifest, not its keys. *)
Inductive ekind : Type :=
  | KDir | KFile | KOther                      (* a directory, a regular file, a fifo / socket / device *)
  | KLinkDir | KLinkFile | KLinkOther          (* a symbolic link that resolves to one of the above *)
  | KDangling.                                 (* a symbolic link that does not resolve (missing target, loop) *)

(* os.path.isdir / os.path.isfile: S_ISDIR / S_ISREG of os.stat(), which follows links; False when stat() fails *)
Definition kind_isdir (k : ekind) : bool := match k with KDir | KLinkDir => true | _ => false end.
Definition kind_isfile (k : ekind) : bool := match k with KFile | KLinkFile => true | _ => false end.

Definition listing : Type := list (string * ekind).

(* if include_dirs and isdir(e): keep   elif include_files and isfile(e): keep *)
Definition keeps (inc_dirs inc_files : bool) (k : ekind) : bool :=
  if inc_dirs && kind_isdir k then true else inc_files && kind_isfile k.

(* the keys of the implied manifest, in listing order *)
Definition from_directory (root : ekind) (inc_dirs inc_files : bool) (l : listing) : list string :=
  if kind_isdir root then map fst (filter (fun e => keeps inc_dirs inc_files (snd e)) l) else [].

(* Manifest.fromDirectory(path, ...).top_level_folders *)
Definition dir_folders (root : ekind) (inc_dirs inc_files : bool) (l : listing) : list string :=
  top_level_folders (from_directory root inc_dirs inc_files l).

(* one listing case of the correspondence run:
   (kind of the path, include_dirs, include_files, listing sorted by name,
    keys of the implied manifest and top_level_folders of the implementation (sorted by name),
    owner stage, known components, application dependencies,
    [(reference string, observation, second observation)] made with the implementation's top_level_folders) *)
Definition listing_case : Type :=
  ekind * bool * bool * listing * list string * list string * N * list (N * list string) * list string
  * list (string * jv * jv).

Definition check_listing (c : listing_case) : bool :=
  let '(root, incd, incf, l, keys, tlf, st, known, ad, refs) := c in
  let mk := from_directory root incd incf l in
  let cx := {| c_stage := st; c_known := known; c_appdeps := ad; c_keys := mk |} in
  jv_eqb (JList (map JStr mk)) (JList (map JStr keys)) &&
  jv_eqb (JList (map JStr (dir_folders root incd incf l))) (JList (map JStr tlf)) &&
  forallb (fun x => let '(r, o, o2) := x in jv_eqb (observe cx r) o && jv_eqb (observe2 cx r) o2) refs.

(* ================================================================ the life cycle of ONE Manifest object
   (appended: Manifest.__init__ followed by Manifest.update / Manifest.clear; nothing above is changed)

   A Manifest keeps a dict {target folder: source}.  Manifest(d) copies the keys of d; Manifest.update(other) -- other a
   dict or another Manifest -- is dict.update: a key that is already there keeps its position, a new key is appended;
   Manifest.clear() empties the dict.  top_level_folders is a property of the CURRENT dict: it is recomputed from
   the keys the manifest holds at the time it is read, whatever the object held when it was created. *)
Inductive mop : Type :=
  | MUpdate (keys : list string)
  | MClear.

(* the keys of a Python dict in insertion order *)
Definition dict_add (ks : list string) (k : string) : list string := if in_strs k ks then ks else (ks ++ [k])%list.
Definition dict_update (ks new : list string) : list string := fold_left dict_add new ks.

Definition mstep (ks : list string) (op : mop) : list string :=
  match op with MUpdate new => dict_update ks new | MClear => [] end.

(* the keys of Manifest(init) after the operations; construction is the first update of an empty dict *)
Definition mrun (init : list string) (ops : list mop) : list string := fold_left mstep ops (dict_update [] init).

(* Manifest(init) ... .top_level_folders read after the operations *)
Definition session_folders (init : list string) (ops : list mop) : list string := top_level_folders (mrun init ops).

(* the keys after construction and after every operation *)
Fixpoint mtrace (ks : list string) (ops : list mop) : list (list string) :=
  ks :: match ops with [] => [] | op :: r => mtrace (mstep ks op) r end.

(* one session of the correspondence run:
   (keys given to Manifest(...), the operations, [(manifest keys, top_level_folders)] of the implementation after the
    construction and after every operation, owner stage, known components, application dependencies,
    [(reference string, observation, second observation)] made with the top_level_folders read at the END) *)
Definition session_case : Type :=
  list string * list mop * list (list string * list string) * N * list (N * list string) * list string
  * list (string * jv * jv).

Definition jstrs (l : list string) : jv := JList (map JStr l).

Definition check_session (c : session_case) : bool :=
  let '(init, ops, steps, st, known, ad, refs) := c in
  let cx := {| c_stage := st; c_known := known; c_appdeps := ad; c_keys := mrun init ops |} in
  jv_eqb (JList (map (fun ks => JList [jstrs ks; jstrs (top_level_folders ks)]) (mtrace (dict_update [] init) ops)))
         (JList (map (fun s => JList [jstrs (fst s); jstrs (snd s)]) steps)) &&
  forallb (fun x => let '(r, o, o2) := x in jv_eqb (observe cx r) o && jv_eqb (observe2 cx r) o2) refs.
