(* C09 — Data references parse, print and classify consistently.  Property theorems only.
   A well-formed reference is a string BUILT by the printer from parts satisfying wf_parts
   (component-shaped: optional stage index, producer without '/' ':' and without a stage-like
   prefix, optional file path, method; or a path below a reserved folder; or an absolute path /dir/file whose
   directory part does not end with a separator).  The same set of references is recognised on STRINGS by the
   boolean recogniser wf_string of Model.v (C09_wf_string_grammar, C09_wf_string_iff_roundtrip). *)
From Coq Require Import String Ascii List Bool NArith.
Import ListNotations.
Require Import V.Lib.PyStr V.Ref.Model V.Ref.Proofs V.Ref.Accept V.Ref.Listing V.Ref.Session.
Open Scope string_scope.

(* parse (print parts) = parts, whatever the application dependencies and extra folders *)
Theorem C09_roundtrip : forall p ad sf,
  wf_parts p = true -> parse_full (print_pref p) None ad sf = Some p.
Proof. exact roundtrip. Qed.
Print Assumptions C09_roundtrip.

(* hence print (parse r) = r for every reference string r of the grammar *)
Theorem C09_roundtrip_string : forall r p ad sf,
  wf_parts p = true -> r = print_pref p -> option_map print_pref (parse_full r None ad sf) = Some r.
Proof. exact roundtrip_string. Qed.
Print Assumptions C09_roundtrip_string.

(* expansion to the absolute form is idempotent, for EVERY string, context and folder list *)
Theorem C09_expand_idempotent : forall r r' ctx known tlf,
  known_noslash known ->
  expand_potential r ctx known tlf false = Some r' -> expand_potential r' ctx known tlf false = Some r'.
Proof. exact expand_idempotent. Qed.
Print Assumptions C09_expand_idempotent.

Theorem C09_expand_refs_idempotent : forall refs refs' ctx known ad tlf,
  known_noslash known ->
  expand_refs refs ctx known ad tlf = Some refs' -> expand_refs refs' ctx known ad tlf = Some refs'.
Proof. exact expand_refs_idempotent. Qed.
Print Assumptions C09_expand_refs_idempotent.

(* the relative spelling read under the owner's stage i and the absolute spelling read under any
   stage name the same (stage, producer, file, method) *)
Theorem C09_same_target : forall prod file meth i idx' ad sf,
  wf_component (None, prod, file, meth) = true ->
  in_strs prod (folders_of ad sf) = false -> var_search prod = false ->
  parse_full (print_pref (None, prod, file, meth)) (Some i) ad sf = Some (Some i, prod, file, meth) /\
  parse_full (print_pref (Some i, prod, file, meth)) idx' ad sf = Some (Some i, prod, file, meth).
Proof. exact same_target. Qed.
Print Assumptions C09_same_target.

(* graph.DataReference: absoluteReference / relativeReference of either spelling are the two spellings *)
Theorem C09_same_target_dref : forall prod file meth i,
  wf_component (None, prod, file, meth) = true -> prod <> "" ->
  in_strs meth methods = true ->
  (forall f, file = Some f -> startswith f "/" = false) ->
  dref (print_pref (None, prod, file, meth)) (Some i)
  = Some (print_pref (Some i, prod, file, meth), print_pref (None, prod, file, meth), Some i, prod, file, meth) /\
  dref (print_pref (Some i, prod, file, meth)) None
  = Some (print_pref (Some i, prod, file, meth), print_pref (None, prod, file, meth), Some i, prod, file, meth).
Proof. exact same_target_dref. Qed.
Print Assumptions C09_same_target_dref.

(* never a component: absolute path, first segment a reserved / app-dep / top-level folder, variable *)
Theorem C09_classify_direct : forall r a meth idx ad sf,
  split_colon r = Some (a, meth) ->
  (startswith a "/" = true \/
   (stage_prefixed (first_seg_of "/" a) = false /\
    (in_strs (first_seg_of "/" a) (folders_of ad sf) = true \/ var_search (first_seg_of "/" a) = true))) ->
  exists prod file, parse_full r idx ad sf = Some (None, prod, file, meth).
Proof. exact classify_direct. Qed.
Print Assumptions C09_classify_direct.

Theorem C09_classify_direct_expand : forall r a meth ctx known ad tlf,
  split_colon r = Some (a, meth) -> known_noslash known ->
  (startswith a "/" = true \/
   (stage_prefixed (first_seg_of "/" a) = false /\
    ((in_strs (first_seg_of "/" a) (all_folders ad tlf) = true /\ known_in known ctx (first_seg_of "/" a) = false)
     \/ var_search (first_seg_of "/" a) = true))) ->
  expand_one r ctx known ad tlf = Some r.
Proof. exact classify_direct_expand. Qed.
Print Assumptions C09_classify_direct_expand.

(* every other well-formed reference is a component reference (in particular when its producer is a known component) *)
Theorem C09_classify_component : forall st prod file meth ctx known ad tlf,
  wf_component (st, prod, file, meth) = true ->
  is_var_reference prod = false ->
  (st = None -> in_strs prod tlf = false /\ in_strs prod Special = false /\ in_strs prod (map app_dep_name ad) = false) ->
  let mi := match st with Some n => n | None => ctx end in
  expand_one (print_pref (st, prod, file, meth)) ctx known ad tlf = Some (print_pref (Some mi, prod, file, meth)) /\
  parse_full (print_pref (st, prod, file, meth)) (Some ctx) ad tlf = Some (Some mi, prod, file, meth).
Proof. exact classify_component. Qed.
Print Assumptions C09_classify_component.

(* the top-level folders of a manifest are the first path segments of its keys (repaired code) *)
Theorem C09_top_level_folders : forall keys f,
  In f (top_level_folders keys) ->
  hasc "/" f = false /\ exists k, In k keys /\ (k = f \/ exists rest, k = f ++ String "/" rest).
Proof. exact top_level_first_segments. Qed.
Print Assumptions C09_top_level_folders.

(* ---------------------------------------------------------------- absolute paths with a directory part *)
(* /dir/file:method round-trips, under every owner stage and folder list; the guard "the directory does not end
   with a separator" is exact (Refuted.v: C09_abs_guard_refuted, finding F9a) *)
Theorem C09_roundtrip_abs : forall p idx ad sf,
  wf_abs p = true -> parse_full (print_pref p) idx ad sf = Some p.
Proof. exact roundtrip_abs. Qed.
Print Assumptions C09_roundtrip_abs.

(* ---------------------------------------------------------------- the grammar as a recogniser of strings *)
(* wf_string recognises exactly the printed forms of the grammar *)
Theorem C09_wf_string_grammar : forall s,
  wf_string s = true <-> exists p, wf_parts p = true /\ print_pref p = s.
Proof. exact wf_string_iff. Qed.
Print Assumptions C09_wf_string_grammar.

(* every recognised string parses to parts of the grammar that print back to it *)
Theorem C09_accepted_roundtrip : forall s ad sf,
  wf_string s = true ->
  exists p, parse_full s None ad sf = Some p /\ wf_parts p = true /\ print_pref p = s.
Proof. exact accepted_roundtrip. Qed.
Print Assumptions C09_accepted_roundtrip.

(* and the recognised strings are EXACTLY the strings on which print (parse s) = s: for every string at all *)
Theorem C09_wf_string_iff_roundtrip : forall s ad sf,
  wf_string s = true <-> option_map print_pref (parse_full s None ad sf) = Some s.
Proof. exact wf_string_iff_roundtrip. Qed.
Print Assumptions C09_wf_string_iff_roundtrip.

(* normal form: for EVERY string the parsers accept, under every owner stage / application dependencies / folders,
   outside the two boundary classes of nf_guard (Refuted.v: C09_normal_form_guard_refuted), the parsed parts are in
   the grammar and are a fixed point of print-then-parse; the printed parse is the canonical spelling *)
Theorem C09_normal_form : forall s idx ad sf p,
  parse_full s idx ad sf = Some p -> nf_guard s = true ->
  wf_parts p = true /\ parse_full (print_pref p) idx ad sf = Some p.
Proof. exact normal_form. Qed.
Print Assumptions C09_normal_form.

Theorem C09_normal_form_string : forall s idx ad sf p,
  parse_full s idx ad sf = Some p -> nf_guard s = true ->
  wf_string (print_pref p) = true /\
  option_map print_pref (parse_full (print_pref p) idx ad sf) = Some (print_pref p).
Proof. exact normal_form_string. Qed.
Print Assumptions C09_normal_form_string.

(* ---------------------------------------------------------------- DoWhile / iteration producers  <iteration>#<name> *)
Theorem C09_same_target_loop : forall k name file meth i idx' ad sf,
  hasc ":" name = false -> hasc "/" name = false -> hasc ":" meth = false ->
  (forall f, file = Some f -> hasc ":" f = false) ->
  in_strs (dec k ++ "#" ++ name) (folders_of ad sf) = false -> var_search (dec k ++ "#" ++ name) = false ->
  let prod := dec k ++ "#" ++ name in
  parse_full (print_pref (None, prod, file, meth)) (Some i) ad sf = Some (Some i, prod, file, meth) /\
  parse_full (print_pref (Some i, prod, file, meth)) idx' ad sf = Some (Some i, prod, file, meth).
Proof. exact same_target_loop. Qed.
Print Assumptions C09_same_target_loop.

(* ---------------------------------------------------------------- folders taken from a directory listing *)
(* Manifest.fromDirectory: every listed directory, and every symbolic link that resolves to a directory, is a
   top-level folder of the package / instance (whatever include_files says, for a path that is itself a directory) *)
Theorem C09_listing_folders_complete : forall root incf l n k,
  kind_isdir root = true -> In (n, k) l -> kind_isdir k = true -> hasc "/" n = false ->
  in_strs n (dir_folders root true incf l) = true.
Proof. exact listing_folders_complete. Qed.
Print Assumptions C09_listing_folders_complete.

(* and nothing else is: a top-level folder is a listed entry that passes the link-following type test *)
Theorem C09_listing_folders_sound : forall root incd incf l f,
  (forall e, In e l -> hasc "/" (fst e) = false) ->
  In f (dir_folders root incd incf l) ->
  kind_isdir root = true /\ exists k, In (f, k) l /\ keeps incd incf k = true.
Proof. exact listing_folders_sound. Qed.
Print Assumptions C09_listing_folders_sound.

(* a reference into a listed directory or into a link to a directory is never a component reference, for both classifiers *)
Theorem C09_classify_direct_listing : forall r a meth idx ad root incf l k,
  split_colon r = Some (a, meth) ->
  stage_prefixed (first_seg_of "/" a) = false ->
  kind_isdir root = true -> In (first_seg_of "/" a, k) l -> kind_isdir k = true ->
  exists prod file, parse_full r idx ad (dir_folders root true incf l) = Some (None, prod, file, meth).
Proof. exact classify_direct_listing. Qed.
Print Assumptions C09_classify_direct_listing.

Theorem C09_classify_direct_expand_listing : forall r a meth ctx known ad root incf l k,
  split_colon r = Some (a, meth) -> known_noslash known ->
  stage_prefixed (first_seg_of "/" a) = false ->
  kind_isdir root = true -> In (first_seg_of "/" a, k) l -> kind_isdir k = true ->
  known_in known ctx (first_seg_of "/" a) = false ->
  expand_one r ctx known ad (dir_folders root true incf l) = Some r.
Proof. exact classify_direct_expand_listing. Qed.
Print Assumptions C09_classify_direct_expand_listing.

(* a well-formed reference whose producer is a listed file / fifo / dangling link, or is not listed, is a component reference *)
Theorem C09_classify_component_listing : forall st prod file meth ctx known ad root l,
  wf_component (st, prod, file, meth) = true ->
  is_var_reference prod = false ->
  (forall e, In e l -> hasc "/" (fst e) = false) ->
  (st = None -> (forall k, In (prod, k) l -> kind_isdir k = false) /\
                in_strs prod Special = false /\ in_strs prod (map app_dep_name ad) = false) ->
  let mi := match st with Some n => n | None => ctx end in
  let tlf := dir_folders root true false l in
  expand_one (print_pref (st, prod, file, meth)) ctx known ad tlf = Some (print_pref (Some mi, prod, file, meth)) /\
  parse_full (print_pref (st, prod, file, meth)) (Some ctx) ad tlf = Some (Some mi, prod, file, meth).
Proof. exact classify_component_listing. Qed.
Print Assumptions C09_classify_component_listing.

(* ---------------------------------------------------------------- the life cycle of ONE Manifest object *)
(* the keys a manifest holds after Manifest(init) and any sequence of update() / clear() are exactly those given to the
   constructor or to an update() that no clear() follows *)
Theorem C09_session_keys_live : forall init ops k, In k (mrun init ops) <-> live (events init ops) k.
Proof. exact session_keys_live. Qed.
Print Assumptions C09_session_keys_live.

(* top_level_folders read after the session: the first path segment of every key held NOW is a folder ... *)
Theorem C09_session_folders_complete : forall init ops k,
  In k (mrun init ops) -> in_strs (first_seg_of "/" k) (session_folders init ops) = true.
Proof. exact session_folders_complete. Qed.
Print Assumptions C09_session_folders_complete.

(* ... and only those: a folder whose keys were dropped by clear() (or never added) is not reported *)
Theorem C09_session_folders_sound : forall init ops f,
  In f (session_folders init ops) ->
  hasc "/" f = false /\ exists k, live (events init ops) k /\ (k = f \/ exists rest, k = f ++ String "/" rest).
Proof. exact session_folders_sound. Qed.
Print Assumptions C09_session_folders_sound.

Theorem C09_session_after_update : forall init ops new k,
  In k new -> in_strs (first_seg_of "/" k) (session_folders init (ops ++ [MUpdate new])) = true.
Proof. exact session_after_update. Qed.
Print Assumptions C09_session_after_update.

Theorem C09_session_update_keeps : forall init ops new f,
  in_strs f (session_folders init ops) = true -> in_strs f (session_folders init (ops ++ [MUpdate new])) = true.
Proof. exact session_update_keeps. Qed.
Print Assumptions C09_session_update_keeps.

Theorem C09_session_after_clear : forall init ops, session_folders init (ops ++ [MClear]) = [].
Proof. exact session_after_clear. Qed.
Print Assumptions C09_session_after_clear.

(* a reference into a folder of the CURRENT manifest is never a component reference, for both classifiers *)
Theorem C09_classify_direct_session : forall r a meth idx ad init ops k,
  split_colon r = Some (a, meth) ->
  stage_prefixed (first_seg_of "/" a) = false ->
  In k (mrun init ops) -> first_seg_of "/" k = first_seg_of "/" a ->
  exists prod file, parse_full r idx ad (session_folders init ops) = Some (None, prod, file, meth).
Proof. exact classify_direct_session. Qed.
Print Assumptions C09_classify_direct_session.

Theorem C09_classify_direct_expand_session : forall r a meth ctx known ad init ops k,
  split_colon r = Some (a, meth) -> known_noslash known ->
  stage_prefixed (first_seg_of "/" a) = false ->
  In k (mrun init ops) -> first_seg_of "/" k = first_seg_of "/" a ->
  known_in known ctx (first_seg_of "/" a) = false ->
  expand_one r ctx known ad (session_folders init ops) = Some r.
Proof. exact classify_direct_expand_session. Qed.
Print Assumptions C09_classify_direct_expand_session.

(* a well-formed reference whose producer is not (or no longer) the first segment of a live key is a component reference *)
Theorem C09_classify_component_session : forall st prod file meth ctx known ad init ops,
  wf_component (st, prod, file, meth) = true ->
  is_var_reference prod = false ->
  (st = None -> (forall k, live (events init ops) k -> first_seg_of "/" k <> prod) /\
                in_strs prod Special = false /\ in_strs prod (map app_dep_name ad) = false) ->
  let mi := match st with Some n => n | None => ctx end in
  let tlf := session_folders init ops in
  expand_one (print_pref (st, prod, file, meth)) ctx known ad tlf = Some (print_pref (Some mi, prod, file, meth)) /\
  parse_full (print_pref (st, prod, file, meth)) (Some ctx) ad tlf = Some (Some mi, prod, file, meth).
Proof. exact classify_component_session. Qed.
Print Assumptions C09_classify_component_session.

(* non-vacuity: a stage-prefixed reference with dots, dashes, loop prefix and a nested glob path is in the
   grammar and round-trips; the nested manifest key foo/bar makes foo/bar/f.txt:ref a folder reference while
   gen_2/out.d/f.txt:ref of stage 3 becomes stage3.gen_2/out.d/f.txt:ref *)
Example C09_nonvacuous :
  wf_parts (Some 12%N, "a.b-3#loop", Some "sub/out.d/*.dat", "copyout") = true /\
  print_pref (Some 12%N, "a.b-3#loop", Some "sub/out.d/*.dat", "copyout") = "stage12.a.b-3#loop/sub/out.d/*.dat:copyout" /\
  parse_full "stage12.a.b-3#loop/sub/out.d/*.dat:copyout" None [] []
    = Some (Some 12%N, "a.b-3#loop", Some "sub/out.d/*.dat", "copyout") /\
  wf_parts (None, "data/sub/x.txt", None, "ref") = true /\
  top_level_folders ["foo/bar"; "hooks"] = ["foo"; "hooks"] /\
  expand_refs ["foo/bar/f.txt:ref"; "gen_2/out.d/f.txt:ref"; "/abs/x:copy"; "%(v)s/y:ref"] 3 (Some [(3%N, ["gen_2"])])
              ["Appx.application"] (top_level_folders ["foo/bar"; "hooks"])
    = Some ["foo/bar/f.txt:ref"; "stage3.gen_2/out.d/f.txt:ref"; "/abs/x:copy"; "%(v)s/y:ref"] /\
  (* absolute paths, the recogniser, the guard and the loop names *)
  wf_parts (None, "/opt//data.d/sub", Some "f.txt", "copy") = true /\
  wf_string "/opt//data.d/sub/f.txt:copy" = true /\ wf_string "stage12.a.b-3#loop/sub/out.d/*.dat:copyout" = true /\
  wf_string "data/sub/x.txt:ref" = true /\ wf_string "/file:ref" = false /\ wf_string "stage01.A:ref" = false /\
  wf_string "stage1x.foo:ref" = false /\ wf_string "a:b:c" = false /\
  nf_guard "stage01.A/x:ref" = true /\ nf_guard "stage1x.foo:ref" = true /\ nf_guard "/a_s//:loopref" = true /\
  parse_full "stage01.A/x:ref" (Some 4%N) ["Appx"] ["foo"] = Some (Some 1%N, "A", Some "x", "ref") /\
  print_pref (Some 1%N, "A", Some "x", "ref") = "stage1.A/x:ref" /\
  in_strs (dec 3 ++ "#" ++ "loop") (folders_of ["Appx"] ["foo"]) = false /\ var_search (dec 3 ++ "#" ++ "loop") = false /\
  parse_full "3#loop/out:ref" (Some 2%N) ["Appx"] ["foo"] = Some (Some 2%N, "3#loop", Some "out", "ref") /\
  parse_full "stage2.3#loop/out:ref" None ["Appx"] ["foo"] = Some (Some 2%N, "3#loop", Some "out", "ref") /\
  (* a package directory: lib is a directory, models a link to a directory, gen_2 a regular file, old a dangling
     link, README.md a link to a file: only lib and models are folders; gen_2 stays a component of stage 3 *)
  dir_folders KDir true false [("README.md", KLinkFile); ("gen_2", KFile); ("lib", KDir); ("models", KLinkDir); ("old", KDangling)]
    = ["lib"; "models"] /\
  dir_folders KLinkDir true true [("README.md", KLinkFile); ("gen_2", KFile); ("lib", KDir); ("pipe", KOther)]
    = ["README.md"; "gen_2"; "lib"] /\
  dir_folders KFile true true [("lib", KDir)] = [] /\
  expand_refs ["models/weights.bin:ref"; "lib/tool.sh:copy"; "gen_2/out.d/f.txt:ref"; "old/x:ref"] 3 (Some [(3%N, ["gen_2"])]) []
              (dir_folders KDir true false [("README.md", KLinkFile); ("gen_2", KFile); ("lib", KDir); ("models", KLinkDir); ("old", KDangling)])
    = Some ["models/weights.bin:ref"; "lib/tool.sh:copy"; "stage3.gen_2/out.d/f.txt:ref"; "stage3.old/x:ref"] /\
  (* one Manifest object: created with hooks, extended with a flat and a nested key (hooks again: keeps its place),
     emptied, extended again: the folders follow, and scripts/run.sh is a folder reference only while the manifest holds scripts *)
  mrun ["hooks"] [MUpdate ["scripts"; "assets/models/large"; "hooks"]] = ["hooks"; "scripts"; "assets/models/large"] /\
  session_folders ["hooks"] [MUpdate ["scripts"; "assets/models/large"; "hooks"]] = ["hooks"; "scripts"; "assets"] /\
  session_folders ["hooks"] [MUpdate ["scripts"; "gen_2/x"]; MClear] = [] /\
  session_folders ["hooks"] [MUpdate ["scripts"]; MClear; MUpdate ["assets"]] = ["assets"] /\
  expand_refs ["scripts/run.sh:ref"; "assets/models/large/weights.bin:link"; "gen_2/out.d/f.txt:ref"] 3 (Some [(3%N, ["gen_2"])]) []
              (session_folders ["hooks"] [MUpdate ["scripts"; "assets/models/large"]])
    = Some ["scripts/run.sh:ref"; "assets/models/large/weights.bin:link"; "stage3.gen_2/out.d/f.txt:ref"] /\
  expand_refs ["scripts/run.sh:ref"; "gen_2/out.d/f.txt:ref"] 3 (Some [(3%N, ["gen_2"])]) []
              (session_folders ["hooks"] [MUpdate ["scripts"; "gen_2/x"]; MClear; MUpdate ["assets"]])
    = Some ["stage3.scripts/run.sh:ref"; "stage3.gen_2/out.d/f.txt:ref"].
Proof. repeat split; vm_compute; reflexivity. Qed.
