(* C09 — folders taken from a directory listing (Manifest.fromDirectory): which entries of a package / instance
   directory count as top-level folders, and how references into each kind of entry are classified. *)
From Coq Require Import String Ascii List Bool NArith.
Import ListNotations.
Require Import V.Lib.PyStr V.Ref.Model V.Ref.Proofs.
Open Scope string_scope.

Lemma in_strs_In x l : in_strs x l = true <-> In x l.
Proof.
  unfold in_strs. rewrite existsb_exists. split.
  - intros (y & Hy & E). apply String.eqb_eq in E. subst. exact Hy.
  - intros H. exists x. split; [exact H|apply String.eqb_refl].
Qed.

Lemma in_strs_false x l : in_strs x l = false <-> ~ In x l.
Proof.
  split.
  - intros F H. apply in_strs_In in H. congruence.
  - intros H. destruct (in_strs x l) eqn:E; [|reflexivity]. apply in_strs_In in E. contradiction.
Qed.

Lemma first_seg_noslash n : hasc "/" n = false -> first_seg_of "/" n = n.
Proof. intros H. unfold first_seg_of. rewrite (split1_none _ _ H). reflexivity. Qed.

(* the implied manifest holds exactly the listed entries that pass the (link-following) type test *)
Lemma from_directory_In root incd incf l n :
  In n (from_directory root incd incf l) <->
  kind_isdir root = true /\ exists k, In (n, k) l /\ keeps incd incf k = true.
Proof.
  unfold from_directory. destruct (kind_isdir root).
  - rewrite in_map_iff. split.
    + intros ([n' k] & E & H). cbn in E. subst n'. apply filter_In in H as [H1 H2]. cbn in H2.
      split; [reflexivity|]. exists k. split; assumption.
    + intros (_ & k & H1 & H2). exists (n, k). split; [reflexivity|]. apply filter_In. split; assumption.
  - split; [intros []|intros [F _]; discriminate].
Qed.

(* completeness: every listed directory -- and every symbolic link that resolves to a directory -- is a top-level folder *)
Theorem listing_folders_complete root incf l n k :
  kind_isdir root = true -> In (n, k) l -> kind_isdir k = true -> hasc "/" n = false ->
  in_strs n (dir_folders root true incf l) = true.
Proof.
  intros R H K S. apply in_strs_In. unfold dir_folders, top_level_folders. apply in_map_iff.
  exists n. split; [apply first_seg_noslash; exact S|].
  apply from_directory_In. split; [exact R|]. exists k. split; [exact H|]. unfold keeps. rewrite K. reflexivity.
Qed.

(* soundness: a top-level folder is the name of a listed entry that passes the type test (entry names hold no '/') *)
Theorem listing_folders_sound root incd incf l f :
  (forall e, In e l -> hasc "/" (fst e) = false) ->
  In f (dir_folders root incd incf l) ->
  kind_isdir root = true /\ exists k, In (f, k) l /\ keeps incd incf k = true.
Proof.
  intros NS H. unfold dir_folders, top_level_folders in H. apply in_map_iff in H as (n & E & H).
  apply from_directory_In in H as (R & k & H1 & H2).
  rewrite (first_seg_noslash n (NS _ H1)) in E. subst n. split; [exact R|]. exists k. split; assumption.
Qed.

(* with the default options: files, fifos, dangling links and links to them are never folders *)
Corollary listing_not_folder root l n :
  (forall e, In e l -> hasc "/" (fst e) = false) ->
  (forall k, In (n, k) l -> kind_isdir k = false) ->
  in_strs n (dir_folders root true false l) = false.
Proof.
  intros NS H. apply in_strs_false. intros F. apply (listing_folders_sound _ _ _ _ _ NS) in F as (_ & k & H1 & H2).
  unfold keeps in H2. rewrite (H k H1) in H2. cbn in H2. discriminate.
Qed.

(* a reference whose first path segment is a listed directory (or a link to one) is never a component reference *)
Theorem classify_direct_listing r a meth idx ad root incf l k :
  split_colon r = Some (a, meth) ->
  stage_prefixed (first_seg_of "/" a) = false ->
  kind_isdir root = true -> In (first_seg_of "/" a, k) l -> kind_isdir k = true ->
  exists prod file, parse_full r idx ad (dir_folders root true incf l) = Some (None, prod, file, meth).
Proof.
  intros S P R H K. apply (classify_direct r a meth idx ad _ S). right. split; [exact P|]. left.
  unfold folders_of. rewrite in_strs_app.
  rewrite (listing_folders_complete root incf l _ k R H K (proj1 (first_seg_spec a))). reflexivity.
Qed.

Theorem classify_direct_expand_listing r a meth ctx known ad root incf l k :
  split_colon r = Some (a, meth) -> known_noslash known ->
  stage_prefixed (first_seg_of "/" a) = false ->
  kind_isdir root = true -> In (first_seg_of "/" a, k) l -> kind_isdir k = true ->
  known_in known ctx (first_seg_of "/" a) = false ->
  expand_one r ctx known ad (dir_folders root true incf l) = Some r.
Proof.
  intros S KN P R H K NK. apply (classify_direct_expand r a meth ctx known ad _ S KN). right. split; [exact P|]. left.
  split; [|exact NK]. unfold all_folders. rewrite in_strs_app.
  rewrite (listing_folders_complete root incf l _ k R H K (proj1 (first_seg_spec a))). reflexivity.
Qed.

(* ... and a well-formed reference whose producer is NOT a listed directory (a file, a fifo, a dangling link, or not
   listed at all), nor a reserved folder or an application dependency, is a component reference *)
Theorem classify_component_listing st prod file meth ctx known ad root l :
  wf_component (st, prod, file, meth) = true ->
  is_var_reference prod = false ->
  (forall e, In e l -> hasc "/" (fst e) = false) ->
  (st = None -> (forall k, In (prod, k) l -> kind_isdir k = false) /\
                in_strs prod Special = false /\ in_strs prod (map app_dep_name ad) = false) ->
  let mi := match st with Some n => n | None => ctx end in
  let tlf := dir_folders root true false l in
  expand_one (print_pref (st, prod, file, meth)) ctx known ad tlf = Some (print_pref (Some mi, prod, file, meth)) /\
  parse_full (print_pref (st, prod, file, meth)) (Some ctx) ad tlf = Some (Some mi, prod, file, meth).
Proof.
  intros W V NS H. apply classify_component; [exact W|exact V|].
  intros E. destruct (H E) as (H1 & H2 & H3). split; [|split; assumption].
  apply listing_not_folder; assumption.
Qed.
