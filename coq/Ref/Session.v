(* C09 — the life cycle of ONE Manifest object (Manifest.__init__, then Manifest.update / Manifest.clear in any order):
   the top-level folders are those of the keys the manifest holds NOW, and references classify accordingly. *)
From Coq Require Import String Ascii List Bool NArith.
Import ListNotations.
Require Import V.Lib.PyStr V.Ref.Model V.Ref.Proofs V.Ref.Listing.
Open Scope string_scope.

Lemma dict_add_In ks k x : In x (dict_add ks k) <-> In x ks \/ x = k.
Proof.
  unfold dict_add. destruct (in_strs k ks) eqn:E.
  - apply in_strs_In in E. split; [intros H; left; exact H|intros [H| ->]; assumption].
  - rewrite in_app_iff. cbn. split.
    + intros [H|[H|[]]]; [left; exact H|right; symmetry; exact H].
    + intros [H| ->]; [left; exact H|right; left; reflexivity].
Qed.

Lemma dict_update_In new : forall ks x, In x (dict_update ks new) <-> In x ks \/ In x new.
Proof.
  unfold dict_update. induction new as [|k new IH]; intros ks x; cbn.
  - split; [intros H; left; exact H|intros [H|[]]; exact H].
  - rewrite IH, dict_add_In. split.
    + intros [[H| ->]|H]; [left; exact H|right; left; reflexivity|right; right; exact H].
    + intros [H|[<-|H]]; [left; left; exact H|left; right; reflexivity|right; exact H].
Qed.

Definition is_update (o : mop) : bool := match o with MUpdate _ => true | MClear => false end.
Definition no_clear (ops : list mop) : bool := forallb is_update ops.

(* the events of a session: the construction is the first update *)
Definition events (init : list string) (ops : list mop) : list mop := MUpdate init :: ops.

(* k was given to the constructor or to an update() that no clear() follows *)
Definition live (evs : list mop) (k : string) : Prop :=
  exists pre new post, evs = (pre ++ MUpdate new :: post)%list /\ In k new /\ no_clear post = true.

Lemma run_In evs : forall ks k,
  In k (fold_left mstep evs ks) <-> (In k ks /\ no_clear evs = true) \/ live evs k.
Proof.
  induction evs as [|op evs IH]; intros ks k.
  - cbn. split.
    + intros H. left. split; [exact H|reflexivity].
    + intros [[H _]|(pre & new & post & E & _)]; [exact H|]. destruct pre; discriminate.
  - cbn [fold_left]. rewrite IH. destruct op as [new|]; cbn [mstep no_clear forallb is_update andb].
    + rewrite dict_update_In. fold (no_clear evs). split.
      * intros [[[H|H] N]|(pre & n' & post & E & I & N)].
        -- left. split; assumption.
        -- right. exists [], new, evs. repeat split; assumption.
        -- right. exists (MUpdate new :: pre)%list, n', post. rewrite E. repeat split; assumption.
      * intros [[H N]|(pre & n' & post & E & I & N)].
        -- left. split; [left; exact H|exact N].
        -- destruct pre as [|a pre]; cbn in E; injection E as E1 E2.
           ++ subst. left. split; [right; exact I|exact N].
           ++ right. exists pre, n', post. repeat split; assumption.
    + split.
      * intros [[[] _]|(pre & n' & post & E & I & N)].
        right. exists (MClear :: pre)%list, n', post. rewrite E. repeat split; assumption.
      * intros [[_ N]|(pre & n' & post & E & I & N)]; [discriminate|].
        destruct pre as [|a pre]; cbn in E; [discriminate|]. injection E as E1 E2.
        right. exists pre, n', post. repeat split; assumption.
Qed.

(* the keys a manifest holds after a session are exactly the live ones *)
Theorem session_keys_live init ops k : In k (mrun init ops) <-> live (events init ops) k.
Proof.
  unfold mrun, events. change (fold_left mstep ops (dict_update [] init)) with (fold_left mstep (MUpdate init :: ops) []).
  rewrite run_In. split; [intros [[[] _]|H]; exact H|intros H; right; exact H].
Qed.

Lemma mrun_app init ops op : mrun init (ops ++ [op]) = mstep (mrun init ops) op.
Proof. unfold mrun. rewrite fold_left_app. reflexivity. Qed.

(* every key of the current manifest yields its first path segment as a top-level folder ... *)
Theorem session_folders_complete init ops k :
  In k (mrun init ops) -> in_strs (first_seg_of "/" k) (session_folders init ops) = true.
Proof.
  intros H. apply in_strs_In. unfold session_folders, top_level_folders. apply in_map_iff. exists k. split; [reflexivity|exact H].
Qed.

(* ... and nothing else is one: a folder that is no longer (or not yet) the first segment of a key is not reported *)
Theorem session_folders_sound init ops f :
  In f (session_folders init ops) ->
  hasc "/" f = false /\ exists k, live (events init ops) k /\ (k = f \/ exists rest, k = f ++ String "/" rest).
Proof.
  intros H. apply top_level_first_segments in H as (A & k & Hk & B). split; [exact A|].
  exists k. split; [apply session_keys_live; exact Hk|exact B].
Qed.

(* the two operations, as seen by the next read *)
Theorem session_after_update init ops new k :
  In k new -> in_strs (first_seg_of "/" k) (session_folders init (ops ++ [MUpdate new])) = true.
Proof.
  intros H. apply session_folders_complete. rewrite mrun_app. cbn. apply dict_update_In. right. exact H.
Qed.

Theorem session_update_keeps init ops new f :
  in_strs f (session_folders init ops) = true -> in_strs f (session_folders init (ops ++ [MUpdate new])) = true.
Proof.
  intros H. apply in_strs_In in H. apply in_strs_In. unfold session_folders, top_level_folders in *.
  apply in_map_iff in H as (k & E & Hk). apply in_map_iff. exists k. split; [exact E|].
  rewrite mrun_app. cbn. apply dict_update_In. left. exact Hk.
Qed.

Theorem session_after_clear init ops : session_folders init (ops ++ [MClear]) = [].
Proof. unfold session_folders. rewrite mrun_app. reflexivity. Qed.

(* a reference whose first path segment is the first segment of a key the manifest holds now is never a component reference *)
Theorem classify_direct_session r a meth idx ad init ops k :
  split_colon r = Some (a, meth) ->
  stage_prefixed (first_seg_of "/" a) = false ->
  In k (mrun init ops) -> first_seg_of "/" k = first_seg_of "/" a ->
  exists prod file, parse_full r idx ad (session_folders init ops) = Some (None, prod, file, meth).
Proof.
  intros S P H E. apply (classify_direct r a meth idx ad _ S). right. split; [exact P|]. left.
  unfold folders_of. rewrite in_strs_app. rewrite <- E, (session_folders_complete _ _ _ H). reflexivity.
Qed.

Theorem classify_direct_expand_session r a meth ctx known ad init ops k :
  split_colon r = Some (a, meth) -> known_noslash known ->
  stage_prefixed (first_seg_of "/" a) = false ->
  In k (mrun init ops) -> first_seg_of "/" k = first_seg_of "/" a ->
  known_in known ctx (first_seg_of "/" a) = false ->
  expand_one r ctx known ad (session_folders init ops) = Some r.
Proof.
  intros S KN P H E NK. apply (classify_direct_expand r a meth ctx known ad _ S KN). right. split; [exact P|]. left.
  split; [|exact NK]. unfold all_folders. rewrite in_strs_app. rewrite <- E, (session_folders_complete _ _ _ H). reflexivity.
Qed.

(* ... and a well-formed reference whose producer is not the first segment of any key the manifest holds now (never
   added, or dropped by clear()), nor a reserved folder or an application dependency, is a component reference *)
Theorem classify_component_session st prod file meth ctx known ad init ops :
  wf_component (st, prod, file, meth) = true ->
  is_var_reference prod = false ->
  (st = None -> (forall k, live (events init ops) k -> first_seg_of "/" k <> prod) /\
                in_strs prod Special = false /\ in_strs prod (map app_dep_name ad) = false) ->
  let mi := match st with Some n => n | None => ctx end in
  let tlf := session_folders init ops in
  expand_one (print_pref (st, prod, file, meth)) ctx known ad tlf = Some (print_pref (Some mi, prod, file, meth)) /\
  parse_full (print_pref (st, prod, file, meth)) (Some ctx) ad tlf = Some (Some mi, prod, file, meth).
Proof.
  intros W V H. apply classify_component; [exact W|exact V|].
  intros E. destruct (H E) as (H1 & H2 & H3). split; [|split; assumption].
  apply in_strs_false. intros F. unfold session_folders, top_level_folders in F.
  apply in_map_iff in F as (k & Ek & Hk). apply (H1 k); [apply session_keys_live; exact Hk|exact Ek].
Qed.
