(* C09 — parts of the full statement that are false of the faithful model (boundary inputs outside
   wf_parts, and the behaviour of the pinned code before the fix of Manifest.top_level_folders). *)
From Coq Require Import String Ascii List Bool NArith.
Import ListNotations.
Require Import V.Lib.PyStr V.Ref.Model V.Ref.Proofs.
Open Scope string_scope.

(* F9a: a file directly under the root directory is printed with a doubled slash *)
Theorem C09_root_file_roundtrip_refuted :
  exists r, option_map print_pref (parse_full r None [] []) = Some "//file:ref" /\ r = "/file:ref".
Proof. exists "/file:ref". split; vm_compute; reflexivity. Qed.
Print Assumptions C09_root_file_roundtrip_refuted.

(* F9b: re.match accepts garbage after the stage index *)
Theorem C09_stage_garbage_refuted :
  exists r, parse_full r None [] [] = Some (Some 1%N, "foo", None, "ref") /\ r = "stage1x.foo:ref" /\
            option_map print_pref (parse_full r None [] []) <> Some r.
Proof. exists "stage1x.foo:ref". split; [vm_compute; reflexivity|]. split; [reflexivity|]. vm_compute. discriminate. Qed.
Print Assumptions C09_stage_garbage_refuted.

(* F9d: leading zeros of the stage index are not preserved *)
Theorem C09_leading_zero_refuted :
  exists r, r = "stage01.A:ref" /\ option_map print_pref (parse_full r None [] []) = Some "stage1.A:ref".
Proof. exists "stage01.A:ref". split; vm_compute; reflexivity. Qed.
Print Assumptions C09_leading_zero_refuted.

(* F9e: a stage prefix in front of a variable producer is dropped *)
Theorem C09_stage_before_variable_refuted :
  exists r, r = "stage1.%(v)s:ref" /\ parse_full r None [] [] = Some (None, "%(v)s", None, "ref") /\
            option_map print_pref (parse_full r None [] []) = Some "%(v)s:ref".
Proof. exists "stage1.%(v)s:ref". repeat split; vm_compute; reflexivity. Qed.
Print Assumptions C09_stage_before_variable_refuted.

(* F9c (repaired by a fix: commit): the pinned top_level_folders split on ':' so the nested manifest key
   foo/bar was not reduced to foo, and a reference below that folder was classified as a component *)
Theorem C09_nested_manifest_key_pinned_refuted :
  top_level_folders_pinned ["foo/bar"] = ["foo/bar"] /\
  expand_one "foo/bar/f.txt:ref" 0 (Some [(0%N, ["hello"])]) [] (top_level_folders_pinned ["foo/bar"])
    = Some "stage0.foo/bar/f.txt:ref" /\
  expand_one "foo/bar/f.txt:ref" 0 (Some [(0%N, ["hello"])]) [] (top_level_folders ["foo/bar"])
    = Some "foo/bar/f.txt:ref".
Proof. repeat split; vm_compute; reflexivity. Qed.
Print Assumptions C09_nested_manifest_key_pinned_refuted.

(* F9a, stated on the parts: the guard of wf_abs ("the directory part does not end with a separator") is necessary.
   Both witnesses satisfy every other conjunct of wf_abs and do not round-trip: the root directory itself, and a
   directory spelled with a trailing separator (the '//' spelling) *)
Theorem C09_abs_guard_refuted :
  exists p q, p = (None, "/", Some "file", "ref") /\ q = (None, "/a_s/", Some "", "loopref") /\
    wf_abs p = false /\ wf_abs q = false /\
    print_pref p = "//file:ref" /\ parse_full (print_pref p) None [] [] = Some (None, "//", Some "file", "ref") /\
    print_pref q = "/a_s//:loopref" /\ parse_full (print_pref q) None [] [] = Some (None, "/a_s", Some "", "loopref").
Proof. eexists; eexists. repeat split; vm_compute; reflexivity. Qed.
Print Assumptions C09_abs_guard_refuted.

(* the two classes excluded by nf_guard are not fixed points: parse (print (parse s)) <> parse s
   (F9a: a file directly under the root gains a separator at every pass; F9e: a stage prefix in front of a variable
   producer is dropped, which exposes a second stage prefix) *)
Theorem C09_normal_form_guard_refuted :
  exists s1 s2, s1 = "/file:ref" /\ s2 = "stage1.stage2.%(v)s:ref" /\
    nf_guard s1 = false /\ nf_guard s2 = false /\
    parse_full s1 None [] [] = Some (None, "/", Some "file", "ref") /\
    parse_full (print_pref (None, "/", Some "file", "ref")) None [] [] = Some (None, "//", Some "file", "ref") /\
    parse_full s2 None [] [] = Some (None, "stage2.%(v)s", None, "ref") /\
    parse_full (print_pref (None, "stage2.%(v)s", None, "ref")) None [] [] = Some (None, "%(v)s", None, "ref").
Proof. eexists; eexists. repeat split; vm_compute; reflexivity. Qed.
Print Assumptions C09_normal_form_guard_refuted.
