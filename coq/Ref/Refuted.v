(* C09 — parts of the full statement that are false of the faithful model (boundary inputs outside
   wf_parts, and the behaviour of the pinned code before the fix of Manifest.top_level_folders). *)
From Coq Require Import String Ascii List Bool NArith.
Import ListNotations.
Require Import V.Lib.PyStr V.Ref.Model.
Open Scope string_scope.

(* F9a: a file directly under the root directory is printed with a doubled slash *)
Theorem C09_root_file_roundtrip_refuted :
  exists r, option_map print_pref (parse_full r None [] []) = Some "//file:ref" /\ r = "/file:ref".
Proof. exists "/file:ref". split; vm_compute; reflexivity. Qed.
Print Assumptions C09_root_file_roundtrip_refuted.

(* F9b: re.match accepts garbage after the stage index *)
Theorem C09_stage_garbage_refuted :
  exists r, parse_full r None [] [] = Some (Some 1%N, "foo", None, "ref") /\ r = "stage1x.foo:ref" /\
            option_map print_pref (parse_full r None [] []) <> Some r.
Proof. exists "stage1x.foo:ref". split; [vm_compute; reflexivity|]. split; [reflexivity|]. vm_compute. discriminate. Qed.
Print Assumptions C09_stage_garbage_refuted.

(* F9d: leading zeros of the stage index are not preserved *)
Theorem C09_leading_zero_refuted :
  exists r, r = "stage01.A:ref" /\ option_map print_pref (parse_full r None [] []) = Some "stage1.A:ref".
Proof. exists "stage01.A:ref". split; vm_compute; reflexivity. Qed.
Print Assumptions C09_leading_zero_refuted.

(* F9e: a stage prefix in front of a variable producer is dropped *)
Theorem C09_stage_before_variable_refuted :
  exists r, r = "stage1.%(v)s:ref" /\ parse_full r None [] [] = Some (None, "%(v)s", None, "ref") /\
            option_map print_pref (parse_full r None [] []) = Some "%(v)s:ref".
Proof. exists "stage1.%(v)s:ref". repeat split; vm_compute; reflexivity. Qed.
Print Assumptions C09_stage_before_variable_refuted.

(* F9c (repaired by a fix: commit): the pinned top_level_folders split on ':' so the nested manifest key
   foo/bar was not reduced to foo, and a reference below that folder was classified as a component *)
Theorem C09_nested_manifest_key_pinned_refuted :
  top_level_folders_pinned ["foo/bar"] = ["foo/bar"] /\
  expand_one "foo/bar/f.txt:ref" 0 (Some [(0%N, ["hello"])]) [] (top_level_folders_pinned ["foo/bar"])
    = Some "stage0.foo/bar/f.txt:ref" /\
  expand_one "foo/bar/f.txt:ref" 0 (Some [(0%N, ["hello"])]) [] (top_level_folders ["foo/bar"])
    = Some "foo/bar/f.txt:ref".
Proof. repeat split; vm_compute; reflexivity. Qed.
Print Assumptions C09_nested_manifest_key_pinned_refuted.
