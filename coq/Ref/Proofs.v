(* C09 — lemmas about the reference parsers / printer / expansion of Model.v *)
From Coq Require Import String Ascii List Bool Arith NArith Lia DecimalString.
Require Import V.Lib.PyStr V.Ref.Model.
Import ListNotations.
Open Scope string_scope.

(* ================================================================ strings *)
Lemma hasc_app c a b : hasc c (a ++ b) = hasc c a || hasc c b.
Proof. induction a as [|x a IH]; cbn; [reflexivity|]. rewrite IH, orb_assoc. reflexivity. Qed.

Lemma split1_app c a b : hasc c a = false -> split1 c (a ++ String c b) = Some (a, b).
Proof.
  induction a as [|x a IH]; cbn; intros H.
  - rewrite Ascii.eqb_refl. reflexivity.
  - apply orb_false_iff in H as [H1 H2]. rewrite H1, (IH H2). reflexivity.
Qed.

Lemma split1_none c s : hasc c s = false -> split1 c s = None.
Proof.
  induction s as [|x s IH]; cbn; intros H; [reflexivity|].
  apply orb_false_iff in H as [H1 H2]. rewrite H1, (IH H2). reflexivity.
Qed.

Lemma split1_some c s a b : split1 c s = Some (a, b) -> s = a ++ String c b /\ hasc c a = false.
Proof.
  revert a b; induction s as [|x s IH]; cbn; intros a b H; [discriminate|].
  destruct (Ascii.eqb x c) eqn:E.
  - inversion H; subst. apply Ascii.eqb_eq in E; subst. split; reflexivity.
  - destruct (split1 c s) as [[l r]|]; [|discriminate]. inversion H; subst.
    destruct (IH l b eq_refl) as [-> Hl]. split; [reflexivity|]. cbn. rewrite E, Hl. reflexivity.
Qed.

Lemma split1_hasc c s a b : split1 c s = Some (a, b) -> hasc c s = true.
Proof.
  intros H. apply split1_some in H as [-> _]. rewrite hasc_app. cbn. rewrite Ascii.eqb_refl, orb_true_r. reflexivity.
Qed.

Lemma hasc_not_prefix c s : hasc c s = false -> prefixb (String c "") s = false.
Proof. destruct s as [|x s]; cbn; [reflexivity|]. intros H. apply orb_false_iff in H as [H _].
  rewrite Ascii.eqb_sym, H. reflexivity. Qed.

Lemma all_take_while p s : all_chars p s = true -> take_while p s = s.
Proof. induction s as [|x s IH]; cbn; [reflexivity|]. intros H. apply andb_true_iff in H as [H1 H2].
  rewrite H1, (IH H2). reflexivity. Qed.

Lemma all_digits_hasc c s : is_digit c = false -> all_chars is_digit s = true -> hasc c s = false.
Proof.
  intros Hc. induction s as [|x s IH]; cbn; [reflexivity|]. intros H. apply andb_true_iff in H as [H1 H2].
  rewrite (IH H2), orb_false_r. destruct (Ascii.eqb x c) eqn:E; [|reflexivity].
  apply Ascii.eqb_eq in E; subst. congruence.
Qed.

Lemma digits_of_uint d : all_chars is_digit (NilEmpty.string_of_uint d) = true.
Proof. induction d; cbn; try reflexivity; exact IHd. Qed.

Lemma dec_digits n : all_chars is_digit (dec n) = true.
Proof.
  unfold dec, NilZero.string_of_uint. destruct (N.to_uint n) eqn:E; try reflexivity; apply digits_of_uint.
Qed.

Lemma dec_hasc c n : is_digit c = false -> hasc c (dec n) = false.
Proof. intros H. apply all_digits_hasc; [exact H|apply dec_digits]. Qed.

Lemma hasc_ends_slash s : hasc "/" s = false -> ends_slash s = false.
Proof.
  induction s as [|x s IH]; cbn; [reflexivity|]. intros H. apply orb_false_iff in H as [H1 H2].
  destruct s; [exact H1|]. apply IH. exact H2.
Qed.

(* ================================================================ the stage prefix *)
(* does re.match recognise a stage index in front of the first dot *)
Definition stage_prefixed (s : string) : bool :=
  match split1 "." s with
  | Some (st, _) => match stage_match st with Some _ => true | None => false end
  | None => false
  end.

Lemma stage_match_dec n : stage_match ("stage" ++ dec n) = Some n.
Proof.
  unfold stage_match. rewrite prefixb_refl. change (drop 5 ("stage" ++ dec n)) with (dec n).
  rewrite (all_take_while _ _ (dec_digits n)).
  pose proof (undec_dec n) as U. destruct (dec n) eqn:E; [|exact U].
  cbn in U. discriminate.
Qed.

Lemma parse_producer_abs n prod idx :
  parse_producer ("stage" ++ dec n ++ "." ++ prod) idx = (Some n, prod, true).
Proof.
  unfold parse_producer. change (startswith ("stage" ++ dec n ++ "." ++ prod) "/") with false. cbv iota.
  replace ("stage" ++ dec n ++ "." ++ prod) with (("stage" ++ dec n) ++ String "." prod)
    by (rewrite append_assoc; reflexivity).
  rewrite split1_app.
  - rewrite stage_match_dec. reflexivity.
  - rewrite hasc_app. cbn. apply dec_hasc. reflexivity.
Qed.

Lemma parse_producer_rel prod idx :
  startswith prod "/" = false -> stage_prefixed prod = false -> parse_producer prod idx = (idx, prod, false).
Proof.
  unfold parse_producer, stage_prefixed. intros -> H.
  destruct (split1 "." prod) as [[st job]|]; [|reflexivity].
  destruct (stage_match st); [discriminate|reflexivity].
Qed.

(* a path below a special folder never carries a stage prefix *)
Lemma stage_match_not_s c s : Ascii.eqb "s" c = false -> stage_match (String c s) = None.
Proof. intros H. unfold stage_match. cbn [prefixb]. rewrite H. reflexivity. Qed.

Lemma parse_producer_special t0 rest idx :
  in_strs t0 Special = true -> parse_producer (t0 ++ String "/" rest) idx = (idx, t0 ++ String "/" rest, false).
Proof.
  intros H. unfold in_strs, Special in H. cbn [existsb] in H.
  repeat (apply orb_true_iff in H as [H|H]); try discriminate; apply String.eqb_eq in H; subst t0;
    unfold parse_producer; cbn [append startswith prefixb Ascii.eqb Bool.eqb andb];
    cbn [split1 Ascii.eqb Bool.eqb];
    destruct (split1 "." rest) as [[l r]|]; try reflexivity;
    rewrite stage_match_not_s by reflexivity; reflexivity.
Qed.

(* ================================================================ printing, then parsing *)
Definition nocolon (s : string) : bool := negb (hasc ":" s).

Definition refpart (st : option N) (prod : string) (file : option string) : string :=
  identifier_of st prod ++ match file with Some f => String "/" f | None => "" end.

Lemma compile_ref_refpart prod file meth st :
  compile_ref prod file meth st = refpart st prod file ++ String ":" meth.
Proof.
  unfold compile_ref, refpart, identifier_of. destruct st as [n|], file as [f|]; cbn;
    rewrite ?append_assoc; cbn; rewrite ?append_assoc; cbn; rewrite ?append_nil_r; reflexivity.
Qed.

Lemma identifier_noslash st prod : hasc "/" prod = false -> hasc "/" (identifier_of st prod) = false.
Proof.
  intros H. destruct st as [n|]; cbn; [|exact H].
  rewrite hasc_app, dec_hasc by reflexivity. cbn. exact H.
Qed.

Lemma identifier_nocolon st prod : hasc ":" prod = false -> hasc ":" (identifier_of st prod) = false.
Proof.
  intros H. destruct st as [n|]; cbn; [|exact H].
  rewrite hasc_app, dec_hasc by reflexivity. cbn. exact H.
Qed.

Lemma identifier_not_special n prod : in_strs (identifier_of (Some n) prod) Special = false.
Proof. reflexivity. Qed.

(* component-shaped parts: what the parts must satisfy for the printed string to be read back *)
Definition wf_component (p : pref) : bool :=
  let '(st, prod, file, meth) := p in
  nocolon prod && nocolon meth && match file with Some f => nocolon f | None => true end &&
  negb (hasc "/" prod) &&
  match st with
  | Some _ => true
  | None => negb (stage_prefixed prod) &&
            (negb (in_strs prod ("" :: Special)) || match file with None => true | Some _ => false end)
  end.

Lemma wf_component_inv st prod file meth :
  wf_component (st, prod, file, meth) = true ->
  hasc ":" prod = false /\ hasc ":" meth = false /\ (forall f, file = Some f -> hasc ":" f = false) /\
  hasc "/" prod = false /\
  match st with
  | Some _ => True
  | None => stage_prefixed prod = false /\ ((prod <> "" /\ in_strs prod Special = false) \/ file = None)
  end.
Proof.
  unfold wf_component, nocolon. intros H.
  apply andb_true_iff in H as [H H5]. apply andb_true_iff in H as [H H4]. apply andb_true_iff in H as [H H3].
  apply andb_true_iff in H as [H1 H2].
  apply negb_true_iff in H1, H2, H4. repeat split; try assumption.
  - intros f ->. apply negb_true_iff in H3. exact H3.
  - destruct st; [exact I|]. apply andb_true_iff in H5 as [A B]. apply negb_true_iff in A. split; [exact A|].
    apply orb_true_iff in B as [B|B]; [left|right; destruct file; [discriminate|reflexivity]].
    apply negb_true_iff in B. unfold in_strs in B. cbn [existsb] in B. apply orb_false_iff in B as [B1 B2].
    split; [intros ->; discriminate|exact B2].
Qed.

Lemma parse_data_print st prod file meth :
  wf_component (st, prod, file, meth) = true ->
  parse_data (compile_ref prod file meth st) = Some (identifier_of st prod, file, meth).
Proof.
  intros W. apply wf_component_inv in W as (Hp & Hm & Hf & Hs & Hst).
  rewrite compile_ref_refpart. unfold parse_data, split_colon.
  assert (Hc : hasc ":" (refpart st prod file) = false).
  { unfold refpart. rewrite hasc_app, identifier_nocolon by exact Hp. destruct file as [f|]; cbn; [|reflexivity].
    apply Hf. reflexivity. }
  rewrite (split1_app _ _ _ Hc), Hm.
  assert (Hsl : startswith (refpart st prod file) "/" = false).
  { unfold refpart, startswith. destruct st as [n|]; [reflexivity|]. cbn [identifier_of].
    destruct prod as [|c prod'].
    - destruct Hst as [_ [[A _]|A]]; [congruence|]. subst file. reflexivity.
    - cbn [hasc] in Hs. apply orb_false_iff in Hs as [E _]. cbn [append prefixb].
      rewrite Ascii.eqb_sym, E. reflexivity. }
  rewrite Hsl. unfold refpart.
  destruct file as [f|].
  - rewrite (split1_app _ _ _ (identifier_noslash st prod Hs)).
    destruct st as [n|]; [reflexivity|]. cbn [identifier_of].
    destruct Hst as [_ [[_ A]|A]]; [rewrite A; reflexivity|discriminate].
  - rewrite append_nil_r, (split1_none _ _ (identifier_noslash st prod Hs)). reflexivity.
Qed.

Definition folders_of (ad sf : list string) : list string := (sf ++ Special ++ map app_dep_name ad)%list.

(* parse (print parts), for any owner stage and any folder lists *)
Lemma parse_full_print st prod file meth idx ad sf :
  wf_component (st, prod, file, meth) = true ->
  parse_full (compile_ref prod file meth st) idx ad sf =
  Some (match st with
        | Some n => if var_search prod then None else Some n
        | None => if in_strs prod (folders_of ad sf) || var_search prod then None else idx
        end, prod, file, meth).
Proof.
  intros W. unfold parse_full. rewrite (parse_data_print _ _ _ _ W).
  apply wf_component_inv in W as (Hp & Hm & Hf & Hs & Hst).
  destruct st as [n|]; cbn [identifier_of].
  - rewrite parse_producer_abs. unfold not_component. cbn [negb]. rewrite !andb_false_r. reflexivity.
  - destruct Hst as [Hsp _].
    rewrite parse_producer_rel; [|apply hasc_not_prefix; exact Hs|exact Hsp].
    unfold not_component, folders_of. cbn [negb]. rewrite !andb_true_r, Hs, orb_false_r. reflexivity.
Qed.

(* ================================================================ round trip *)
Lemma startswith_hasc_early s : startswith s "/" = true -> hasc "/" s = true.
Proof.
  destruct s as [|c s]; [discriminate|]. unfold startswith. cbn [prefixb hasc]. intros H.
  apply andb_true_iff in H as [H _]. rewrite Ascii.eqb_sym, H. reflexivity.
Qed.

Definition wf_special (p : pref) : bool :=
  let '(st, prod, file, meth) := p in
  match st, file with
  | None, None => nocolon prod && nocolon meth &&
                  match split1 "/" prod with Some (t0, _) => in_strs t0 Special | None => false end
  | _, _ => false
  end.

(* the generator-style grammar of well-formed references: parts from which a reference is BUILT *)
(* an absolute path with a directory part: /dir[/dir...]/file.  The guard is exact (see Refuted.v, finding F9a):
   the directory starts at the root and does not END with a separator (so it is neither empty nor the root itself);
   doubled separators INSIDE the directory are harmless *)
Definition wf_abs (p : pref) : bool :=
  let '(st, prod, file, meth) := p in
  match st, file with
  | None, Some f => startswith prod "/" && negb (ends_slash prod) &&
                    nocolon prod && nocolon f && nocolon meth && negb (hasc "/" f)
  | _, _ => false
  end.

Definition wf_parts (p : pref) : bool :=
  (wf_component p && let '(st, prod, _, _) := p in match st with Some _ => negb (var_search prod) | None => true end)
  || wf_special p || wf_abs p.

Lemma special_not_abs t0 rest : in_strs t0 Special = true -> startswith (t0 ++ String "/" rest) "/" = false.
Proof.
  intros H. unfold in_strs, Special in H. cbn [existsb] in H.
  repeat (apply orb_true_iff in H as [H|H]); try discriminate; apply String.eqb_eq in H; subst t0; reflexivity.
Qed.

Lemma roundtrip_special p idx ad sf : wf_special p = true -> parse_full (print_pref p) idx ad sf = Some p.
Proof.
  destruct p as [[[st prod] file] meth]. unfold wf_special, nocolon.
  destruct st; [discriminate|]. destruct file; [discriminate|]. intros H.
  apply andb_true_iff in H as [H H3]. apply andb_true_iff in H as [H1 H2]. apply negb_true_iff in H1, H2.
  destruct (split1 "/" prod) as [[t0 rest]|] eqn:S; [|discriminate].
  pose proof (split1_hasc _ _ _ _ S) as Hsl. apply split1_some in S as [E Ht0].
  unfold print_pref, compile_ref, parse_full, parse_data, split_colon.
  change (prod ++ ":" ++ meth) with (prod ++ String ":" meth).
  rewrite (split1_app _ _ _ H1), H2. rewrite E at 1. rewrite (special_not_abs _ _ H3).
  rewrite E at 1. rewrite (split1_app _ _ _ Ht0), H3.
  rewrite E at 1. rewrite (parse_producer_special _ _ _ H3). rewrite <- E.
  unfold not_component. rewrite Hsl. cbn [negb]. rewrite andb_true_r, orb_true_r. reflexivity.
Qed.

(* ---- absolute paths: os.path.split of dir ++ "/" ++ file *)
Lemma all_slash_app_false d x : ends_slash d = false -> d <> "" -> all_chars is_slash (d ++ x) = false.
Proof.
  induction d as [|c d IH]; [congruence|]. intros E _. destruct d as [|c' d'].
  - cbn in E. cbn. rewrite E. reflexivity.
  - cbn [append all_chars]. cbn [append all_chars] in IH. rewrite IH; [apply andb_false_r|exact E|discriminate].
Qed.

Lemma rstrip_cons c s : all_chars is_slash s = false -> rstrip_slash (String c s) = String c (rstrip_slash s).
Proof. intros H. cbn [rstrip_slash]. rewrite H, andb_false_r. reflexivity. Qed.

Lemma rstrip_app_slash d : ends_slash d = false -> rstrip_slash (d ++ "/") = d.
Proof.
  induction d as [|c d IH]; [reflexivity|]. intros E. destruct d as [|c' d'].
  - cbn in E. cbn. rewrite E. reflexivity.
  - change (String c (String c' d') ++ "/") with (String c (String c' d' ++ "/")).
    rewrite rstrip_cons by (apply all_slash_app_false; [exact E|discriminate]).
    rewrite (IH E). reflexivity.
Qed.

Lemma head_raw_app d f : hasc "/" f = false -> head_raw (d ++ String "/" f) = d ++ "/".
Proof.
  intros F. induction d as [|c d IH].
  - cbn. rewrite F. reflexivity.
  - cbn [append head_raw]. rewrite hasc_app. cbn [hasc]. rewrite Ascii.eqb_refl, orb_true_r, IH. reflexivity.
Qed.

Lemma last_seg_app d f : hasc "/" f = false -> last_seg (d ++ String "/" f) = f.
Proof.
  intros F. induction d as [|c d IH].
  - cbn. rewrite F. reflexivity.
  - cbn [append last_seg]. rewrite hasc_app. cbn [hasc]. rewrite Ascii.eqb_refl, orb_true_r, IH. reflexivity.
Qed.

Lemma os_split_app d f :
  d <> "" -> ends_slash d = false -> hasc "/" f = false -> os_split (d ++ String "/" f) = (d, f).
Proof.
  intros N E F. unfold os_split. rewrite (head_raw_app _ _ F), (last_seg_app _ _ F).
  rewrite (all_slash_app_false d "/" E N), (rstrip_app_slash d E). reflexivity.
Qed.

Lemma wf_abs_inv st prod file meth :
  wf_abs (st, prod, file, meth) = true ->
  st = None /\ exists f, file = Some f /\ startswith prod "/" = true /\ ends_slash prod = false /\
  hasc ":" prod = false /\ hasc ":" f = false /\ hasc ":" meth = false /\ hasc "/" f = false.
Proof.
  unfold wf_abs, nocolon. destruct st; [discriminate|]. destruct file as [f|]; [|discriminate]. intros H.
  repeat (apply andb_true_iff in H as [H ?]). repeat match goal with X : negb _ = true |- _ => apply negb_true_iff in X end.
  split; [reflexivity|]. exists f. repeat split; assumption.
Qed.

Lemma startswith_nonempty s : startswith s "/" = true -> s <> "".
Proof. intros H ->. discriminate. Qed.

Lemma startswith_app s t : startswith s "/" = true -> startswith (s ++ t) "/" = true.
Proof. destruct s; [discriminate|]. unfold startswith. cbn. exact (fun H => H). Qed.

Lemma parse_data_abs prod f meth :
  wf_abs (None, prod, Some f, meth) = true ->
  parse_data (compile_ref prod (Some f) meth None) = Some (prod, Some f, meth).
Proof.
  intros W. apply wf_abs_inv in W as (_ & f' & E & A & En & Cp & Cf & Cm & Sf). inversion E; subst f'.
  unfold compile_ref, parse_data, split_colon.
  replace (prod ++ "/" ++ f ++ ":" ++ meth) with ((prod ++ String "/" f) ++ String ":" meth)
    by (rewrite append_assoc; reflexivity).
  rewrite split1_app by (rewrite hasc_app; cbn [hasc]; rewrite Cp, Cf; reflexivity).
  rewrite Cm, (startswith_app _ _ A), (os_split_app _ _ (startswith_nonempty _ A) En Sf). reflexivity.
Qed.

Lemma roundtrip_abs p idx ad sf : wf_abs p = true -> parse_full (print_pref p) idx ad sf = Some p.
Proof.
  destruct p as [[[st prod] file] meth]. intros W. pose proof (wf_abs_inv _ _ _ _ W) as (-> & f & -> & A & _).
  unfold print_pref, parse_full. rewrite (parse_data_abs _ _ _ W).
  unfold parse_producer. rewrite A. unfold not_component. rewrite (startswith_hasc_early _ A). cbn [negb andb].
  rewrite orb_true_r. reflexivity.
Qed.

Theorem roundtrip p ad sf : wf_parts p = true -> parse_full (print_pref p) None ad sf = Some p.
Proof.
  unfold wf_parts. intros H. apply orb_true_iff in H as [H|H]; [|apply roundtrip_abs; exact H].
  apply orb_true_iff in H as [H|H]; [|apply roundtrip_special; exact H].
  destruct p as [[[st prod] file] meth]. apply andb_true_iff in H as [W V].
  unfold print_pref. rewrite (parse_full_print _ _ _ _ _ _ _ W).
  destruct st as [n|].
  - apply negb_true_iff in V. rewrite V. reflexivity.
  - destruct (in_strs prod (folders_of ad sf) || var_search prod); reflexivity.
Qed.

Corollary roundtrip_string r p ad sf :
  wf_parts p = true -> r = print_pref p -> option_map print_pref (parse_full r None ad sf) = Some r.
Proof. intros W ->. rewrite (roundtrip _ _ _ W). reflexivity. Qed.

(* ================================================================ same target *)
Lemma wf_component_abs st prod file meth n :
  wf_component (st, prod, file, meth) = true -> wf_component (Some n, prod, file, meth) = true.
Proof. unfold wf_component. intros H. apply andb_true_iff in H as [H _]. rewrite H. reflexivity. Qed.

Theorem same_target prod file meth i idx' ad sf :
  wf_component (None, prod, file, meth) = true ->
  in_strs prod (folders_of ad sf) = false -> var_search prod = false ->
  parse_full (print_pref (None, prod, file, meth)) (Some i) ad sf = Some (Some i, prod, file, meth) /\
  parse_full (print_pref (Some i, prod, file, meth)) idx' ad sf = Some (Some i, prod, file, meth).
Proof.
  intros W F V. unfold print_pref. split.
  - rewrite (parse_full_print _ _ _ _ _ _ _ W), F, V. reflexivity.
  - rewrite (parse_full_print _ _ _ _ _ _ _ (wf_component_abs _ _ _ _ i W)), V. reflexivity.
Qed.

(* graph.DataReference: the absolute spelling of a relative reference owned by stage i, and back *)
Theorem same_target_dref prod file meth i :
  wf_component (None, prod, file, meth) = true -> prod <> "" ->
  in_strs meth methods = true ->
  (forall f, file = Some f -> startswith f "/" = false) ->
  dref (print_pref (None, prod, file, meth)) (Some i)
  = Some (print_pref (Some i, prod, file, meth), print_pref (None, prod, file, meth), Some i, prod, file, meth) /\
  dref (print_pref (Some i, prod, file, meth)) None
  = Some (print_pref (Some i, prod, file, meth), print_pref (None, prod, file, meth), Some i, prod, file, meth).
Proof.
  intros W Hne Hm Hf. pose proof (wf_component_abs _ _ _ _ i W) as W'.
  unfold print_pref, dref. rewrite (parse_data_print _ _ _ _ W), (parse_data_print _ _ _ _ W'), Hm.
  apply wf_component_inv in W as (Hp & _ & _ & Hs & [Hsp _]).
  cbn [identifier_of]. rewrite parse_producer_abs, (parse_producer_rel _ _ (hasc_not_prefix _ _ Hs) Hsp).
  assert (J : forall f, file = Some f ->
            os_join (identifier_of (Some i) prod) f = identifier_of (Some i) prod ++ "/" ++ f /\
            os_join prod f = prod ++ "/" ++ f).
  { intros f E. unfold os_join. rewrite (Hf f E).
    rewrite (hasc_ends_slash _ (identifier_noslash (Some i) prod Hs)), (hasc_ends_slash _ Hs).
    destruct prod; [congruence|]. split; reflexivity. }
  unfold compile_ref. destruct file as [f|].
  - destruct (J f eq_refl) as [J1 J2]. rewrite J1, J2. cbn [identifier_of].
    rewrite ?append_assoc. cbn. rewrite ?append_assoc. cbn. split; reflexivity.
  - cbn [identifier_of]. rewrite ?append_assoc. cbn. rewrite ?append_assoc. cbn. split; reflexivity.
Qed.

(* ================================================================ shape of a parsed reference *)
Lemma startswith_hasc s : startswith s "/" = true -> hasc "/" s = true.
Proof.
  destruct s as [|c s]; [discriminate|]. unfold startswith. cbn [prefixb hasc]. intros H.
  apply andb_true_iff in H as [H _]. rewrite Ascii.eqb_sym, H. reflexivity.
Qed.

Lemma os_split_abs a : startswith a "/" = true -> startswith (fst (os_split a)) "/" = true.
Proof.
  destruct a as [|c a]; [discriminate|]. unfold startswith. cbn [prefixb]. intros H.
  apply andb_true_iff in H as [H _]. apply Ascii.eqb_eq in H. subst c.
  unfold os_split. cbn [fst head_raw]. change (is_slash "/") with true. cbv iota.
  destruct (hasc "/" a); [|reflexivity].
  cbn [all_chars]. change (is_slash "/") with true. cbn [andb].
  destruct (all_chars is_slash (head_raw a)) eqn:E; [reflexivity|].
  cbn [rstrip_slash]. change (is_slash "/") with true. cbn [andb]. rewrite E. reflexivity.
Qed.

Lemma parse_producer_job c x idx si job has :
  parse_producer x idx = (si, job, has) -> hasc c x = false -> hasc c job = false.
Proof.
  unfold parse_producer. destruct (startswith x "/"); [intros E; inversion E; subst; auto|].
  destruct (split1 "." x) as [[st j]|] eqn:S; [|intros E; inversion E; subst; auto].
  destruct (stage_match st); intros E; inversion E; subst; auto.
  intros H. apply split1_some in S as [-> _]. rewrite hasc_app in H. apply orb_false_iff in H as [_ H].
  cbn [hasc] in H. apply orb_false_iff in H as [_ H]. exact H.
Qed.

Lemma parse_full_shape r idx ad sf si prod file meth :
  parse_full r idx ad sf = Some (si, prod, file, meth) -> hasc "/" prod = false ->
  hasc ":" prod = false /\ hasc ":" meth = false /\ (forall f, file = Some f -> hasc ":" f = false).
Proof.
  unfold parse_full, parse_data, split_colon. intros H Hs.
  destruct (split1 ":" r) as [[a b]|] eqn:S; [|discriminate].
  destruct (hasc ":" b) eqn:Hb; [discriminate|].
  apply split1_some in S as [_ Ha].
  destruct (startswith a "/") eqn:A.
  - destruct (os_split a) as [h t] eqn:O.
    pose proof (os_split_abs a A) as Hh. rewrite O in Hh. cbn [fst] in Hh.
    unfold parse_producer in H. rewrite Hh in H. cbv beta iota zeta in H. inversion H; subst.
    apply startswith_hasc in Hh. congruence.
  - destruct (split1 "/" a) as [[t0 rest]|] eqn:T.
    + pose proof (split1_some _ _ _ _ T) as [Ea Ht0].
      destruct (in_strs t0 Special) eqn:Sp.
      * rewrite Ea in H. rewrite (parse_producer_special _ _ _ Sp) in H. cbv beta iota zeta in H.
        inversion H; subst prod.
        rewrite hasc_app in Hs. cbn [hasc] in Hs. rewrite Ascii.eqb_refl in Hs. cbn [orb] in Hs.
        rewrite orb_true_r in Hs. discriminate.
      * rewrite Ea, hasc_app in Ha. apply orb_false_iff in Ha as [Ha1 Ha2]. cbn [hasc] in Ha2.
        apply orb_false_iff in Ha2 as [_ Ha2]. clear Ea.
        destruct (parse_producer t0 idx) as [[si0 job] has] eqn:P. inversion H; subst.
        split; [eapply parse_producer_job; eauto|]. split; [exact Hb|]. intros f E; inversion E; subst; exact Ha2.
    + destruct (parse_producer a idx) as [[si0 job] has] eqn:P. inversion H; subst.
      split; [eapply parse_producer_job; eauto|]. split; [exact Hb|]. intros f E; discriminate.
Qed.

(* ================================================================ expansion is idempotent *)
Definition known_noslash (known : known_t) : Prop := forall i p, known_in known i p = true -> hasc "/" p = false.

Theorem expand_idempotent r r' ctx known tlf :
  known_noslash known ->
  expand_potential r ctx known tlf false = Some r' -> expand_potential r' ctx known tlf false = Some r'.
Proof.
  intros K. unfold expand_potential at 1.
  destruct (parse_full r None [] []) as [[[[si prod] file] meth]|] eqn:E; [|discriminate].
  destruct (is_var_reference prod) eqn:V.
  { intros H; inversion H; subst r'. unfold expand_potential. rewrite E, V. reflexivity. }
  match goal with |- Some (if ?rc then _ else _) = _ -> _ => destruct rc eqn:RC end.
  - assert (Hs : hasc "/" prod = false).
    { cbn [orb] in RC. apply orb_true_iff in RC as [RC|RC]; [|exact (K _ _ RC)].
      destruct tlf as [[|x l]|]; try discriminate. apply negb_true_iff in RC.
      apply orb_false_iff in RC as [_ RC]. exact RC. }
    destruct (parse_full_shape _ _ _ _ _ _ _ _ E Hs) as (Hp & Hm & Hf).
    remember (match si with Some n => n | None => ctx end) as mi eqn:Emi. clear Emi.
    assert (W : wf_component (Some mi, prod, file, meth) = true).
    { unfold wf_component, nocolon. rewrite Hp, Hm, Hs. destruct file as [f|]; [rewrite (Hf f eq_refl)|]; reflexivity. }
    intros H. assert (R : r' = compile_ref prod file meth (Some mi)) by congruence. clear H. subst r'.
    unfold expand_potential.
    rewrite (parse_full_print _ _ _ _ None [] [] W).
    apply orb_false_iff in V as [V1 V2]. unfold is_var_reference. rewrite V1, V2. cbn [orb]. cbv iota.
    match goal with |- Some (if ?rc then _ else _) = _ => destruct rc end; reflexivity.
  - intros H; inversion H; subst r'. unfold expand_potential. rewrite E, V, RC. reflexivity.
Qed.

(* expand_component_references on a list *)
Lemma mapM_idem {A} (f : A -> option A) l l' :
  (forall x y, f x = Some y -> f y = Some y) -> mapM f l = Some l' -> mapM f l' = Some l'.
Proof.
  intros F. revert l'. induction l as [|x l IH]; cbn; intros l' H.
  - inversion H; reflexivity.
  - destruct (f x) eqn:E; [|discriminate]. destruct (mapM f l) eqn:M; [|discriminate]. inversion H; subst.
    cbn. rewrite (F _ _ E), (IH _ eq_refl). reflexivity.
Qed.

Theorem expand_refs_idempotent refs refs' ctx known ad tlf :
  known_noslash known ->
  expand_refs refs ctx known ad tlf = Some refs' -> expand_refs refs' ctx known ad tlf = Some refs'.
Proof. intros K. unfold expand_refs. apply mapM_idem. intros x y. apply expand_idempotent. exact K. Qed.

(* ================================================================ classification *)
Lemma in_strs_app x a b : in_strs x (a ++ b)%list = in_strs x a || in_strs x b.
Proof. apply existsb_app. Qed.

Lemma all_folders_cons ad tlf : exists x l, all_folders ad tlf = (x :: l)%list.
Proof.
  unfold all_folders. destruct tlf; [|eexists; eexists; reflexivity]. cbn [app].
  destruct (map app_dep_name ad); eexists; eexists; reflexivity.
Qed.

(* a reference built from component-shaped parts whose producer is not a folder name and holds no
   variable is a component reference: both classifiers say so, whatever the known components *)
Theorem classify_component st prod file meth ctx known ad tlf :
  wf_component (st, prod, file, meth) = true ->
  is_var_reference prod = false ->
  (st = None -> in_strs prod tlf = false /\ in_strs prod Special = false /\ in_strs prod (map app_dep_name ad) = false) ->
  let mi := match st with Some n => n | None => ctx end in
  expand_one (print_pref (st, prod, file, meth)) ctx known ad tlf = Some (print_pref (Some mi, prod, file, meth)) /\
  parse_full (print_pref (st, prod, file, meth)) (Some ctx) ad tlf = Some (Some mi, prod, file, meth).
Proof.
  intros W V F mi. pose proof V as V0. apply orb_false_iff in V as [V1 V2].
  pose proof (wf_component_inv _ _ _ _ W) as (_ & _ & _ & Hs & _).
  destruct (all_folders_cons ad tlf) as (x & l & EF).
  unfold print_pref. split.
  - unfold expand_one, expand_potential. rewrite (parse_full_print _ _ _ _ None [] [] W), V1.
    destruct st as [n|].
    + rewrite V0, Hs, EF. reflexivity.
    + destruct (F eq_refl) as (F1 & F2 & F3).
      assert (D : in_strs prod (all_folders ad tlf) = false).
      { unfold all_folders. rewrite !in_strs_app, F1, F2, F3. reflexivity. }
      destruct (in_strs prod (folders_of [] []) || false); rewrite V0, D, Hs, EF; reflexivity.
  - rewrite (parse_full_print _ _ _ _ (Some ctx) ad tlf W), V1. destruct st as [n|]; [reflexivity|].
    destruct (F eq_refl) as (F1 & F2 & F3). unfold folders_of. rewrite !in_strs_app, F1, F2, F3. reflexivity.
Qed.

(* a reference whose first path segment is a reserved folder, an application dependency or a
   top-level folder, or which is an absolute path, or whose producer holds a variable, parses to
   stage None (not a component), for every owner stage *)
Theorem classify_direct r a meth idx ad sf :
  split_colon r = Some (a, meth) ->
  (startswith a "/" = true \/
   (stage_prefixed (first_seg_of "/" a) = false /\
    (in_strs (first_seg_of "/" a) (folders_of ad sf) = true \/ var_search (first_seg_of "/" a) = true))) ->
  exists prod file, parse_full r idx ad sf = Some (None, prod, file, meth).
Proof.
  intros S H. unfold parse_full, parse_data. rewrite S.
  destruct (startswith a "/") eqn:A.
  - destruct (os_split a) as [h t] eqn:O.
    pose proof (os_split_abs a A) as Hh. rewrite O in Hh. cbn [fst] in Hh.
    exists h, (Some t). unfold parse_producer. rewrite Hh. unfold not_component.
    rewrite (startswith_hasc _ Hh). cbn [negb andb]. rewrite orb_true_r. reflexivity.
  - destruct H as [H|[Hsp Hcls]]; [discriminate|]. unfold first_seg_of in *.
    destruct (split1 "/" a) as [[t0 rest]|] eqn:T.
    + pose proof (split1_hasc _ _ _ _ T) as Hsl. pose proof (split1_some _ _ _ _ T) as [Ea Ht0].
      destruct (in_strs t0 Special) eqn:Sp.
      * exists a, None. rewrite Ea at 1. rewrite (parse_producer_special _ _ _ Sp). rewrite <- Ea.
        unfold not_component. rewrite Hsl. cbn [negb andb]. rewrite orb_true_r. reflexivity.
      * exists t0, (Some rest). rewrite (parse_producer_rel _ _ (hasc_not_prefix _ _ Ht0) Hsp).
        unfold not_component. fold (folders_of ad sf). cbn [negb]. rewrite andb_true_r.
        destruct Hcls as [C|C]; rewrite C; [reflexivity|]. rewrite !orb_true_r. reflexivity.
    + exists a, None. rewrite (parse_producer_rel _ _ A Hsp).
      unfold not_component. fold (folders_of ad sf). cbn [negb]. rewrite andb_true_r.
      destruct Hcls as [C|C]; rewrite C; [reflexivity|]. rewrite !orb_true_r. reflexivity.
Qed.

(* ... and expand_component_references leaves it untouched (when no known component carries the same
   name as the folder; known component names hold no '/') *)
Lemma expand_direct_core r si prod file meth ctx known tlf :
  parse_full r None [] [] = Some (si, prod, file, meth) ->
  known_noslash known ->
  (is_var_reference prod = true \/ hasc "/" prod = true \/
   (si = None /\ in_strs prod tlf = true /\ known_in known ctx prod = false)) ->
  expand_potential r ctx known (Some tlf) false = Some r.
Proof.
  intros E K H. unfold expand_potential. rewrite E.
  destruct (is_var_reference prod) eqn:V; [reflexivity|].
  destruct H as [H|[H|(-> & H1 & H2)]]; [discriminate| |].
  - rewrite H, orb_true_r.
    destruct (known_in known match si with Some n => n | None => ctx end prod) eqn:KI.
    + apply K in KI. congruence.
    + destruct tlf; reflexivity.
  - rewrite H1, H2. cbn [orb negb]. destruct tlf; reflexivity.
Qed.

Theorem classify_direct_expand r a meth ctx known ad tlf :
  split_colon r = Some (a, meth) -> known_noslash known ->
  (startswith a "/" = true \/
   (stage_prefixed (first_seg_of "/" a) = false /\
    ((in_strs (first_seg_of "/" a) (all_folders ad tlf) = true /\ known_in known ctx (first_seg_of "/" a) = false)
     \/ var_search (first_seg_of "/" a) = true))) ->
  expand_one r ctx known ad tlf = Some r.
Proof.
  intros S K H. unfold expand_one.
  assert (P : exists si prod file, parse_full r None [] [] = Some (si, prod, file, meth) /\
          (is_var_reference prod = true \/ hasc "/" prod = true \/
           (si = None /\ in_strs prod (all_folders ad tlf) = true /\ known_in known ctx prod = false))).
  { unfold parse_full, parse_data. rewrite S.
    destruct (startswith a "/") eqn:A.
    - destruct (os_split a) as [h t] eqn:O.
      pose proof (os_split_abs a A) as Hh. rewrite O in Hh. cbn [fst] in Hh.
      unfold parse_producer. rewrite Hh. eexists; eexists; eexists. split; [reflexivity|].
      right; left. apply startswith_hasc. exact Hh.
    - destruct H as [H|[Hsp Hcls]]; [discriminate|]. unfold first_seg_of in *.
      destruct (split1 "/" a) as [[t0 rest]|] eqn:T.
      + pose proof (split1_hasc _ _ _ _ T) as Hsl. pose proof (split1_some _ _ _ _ T) as [Ea Ht0].
        destruct (in_strs t0 Special) eqn:Sp.
        * assert (PP : parse_producer a None = (None, a, false)).
          { rewrite Ea at 1. rewrite (parse_producer_special _ _ _ Sp). rewrite <- Ea. reflexivity. }
          rewrite PP. eexists; eexists; eexists. split; [reflexivity|]. right; left. exact Hsl.
        * rewrite (parse_producer_rel _ _ (hasc_not_prefix _ _ Ht0) Hsp).
          exists None, t0, (Some rest). split; [destruct (not_component t0 false _); reflexivity|].
          destruct Hcls as [[C1 C2]|C]; [right; right; auto|left; unfold is_var_reference; rewrite C; reflexivity].
      + rewrite (parse_producer_rel _ _ A Hsp).
        exists None, a, None. split; [destruct (not_component a false _); reflexivity|].
        destruct Hcls as [[C1 C2]|C]; [right; right; auto|left; unfold is_var_reference; rewrite C; reflexivity]. }
  destruct P as (si & prod & file & E & C). exact (expand_direct_core _ _ _ _ _ _ _ _ E K C).
Qed.

(* ================================================================ Manifest.top_level_folders (repaired) *)
Lemma split1_none_inv c s : split1 c s = None -> hasc c s = false.
Proof.
  induction s as [|x s IH]; cbn; [reflexivity|]. destruct (Ascii.eqb x c); [discriminate|].
  destruct (split1 c s) as [[l r]|]; [discriminate|]. intros _. cbn. apply IH. reflexivity.
Qed.

Lemma first_seg_spec k :
  hasc "/" (first_seg_of "/" k) = false /\
  (k = first_seg_of "/" k \/ exists rest, k = first_seg_of "/" k ++ String "/" rest).
Proof.
  unfold first_seg_of. destruct (split1 "/" k) as [[a b]|] eqn:S.
  - apply split1_some in S as [-> H]. split; [exact H|right; exists b; reflexivity].
  - split; [apply split1_none_inv; exact S|left; reflexivity].
Qed.

Theorem top_level_first_segments keys f :
  In f (top_level_folders keys) ->
  hasc "/" f = false /\ exists k, In k keys /\ (k = f \/ exists rest, k = f ++ String "/" rest).
Proof.
  unfold top_level_folders. intros H. apply in_map_iff in H as (k & <- & Hk).
  destruct (first_seg_spec k) as [A B]. split; [exact A|]. exists k. split; [exact Hk|]. exact B.
Qed.
