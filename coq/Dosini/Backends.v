(* C19 — backend-specific options (Dosini.options_for_backend, every backend the code knows) and several loads in one process. *)
From Coq Require Import String Ascii List Bool ZArith.
Require Import V.Lib.PyStr V.Lib.JTree V.Dosini.Codec V.Dosini.Generated V.Dosini.Text V.Dosini.Model V.Dosini.Proofs.
Import ListNotations.
Open Scope string_scope.
Local Open Scope list_scope.

Lemma measured_backends_ok : backends_ok = true.
Proof. vm_compute. reflexivity. Qed.

(* a name that is not a key of the format stays a variable of the component, with its text, whatever the text is *)
Lemma variable_kept n v : mem n known_keys = false -> parse_c [(n, v)] = Some (mkComp [] [(n, v)]).
Proof. intros H. unfold parse_c. cbn. unfold parse_entry. cbn [fst]. rewrite H. reflexivity. Qed.

(* every option of every backend survives the format as what it is: a variable of the component (any text), or an option with
   a reader row that the writers emit under the same key *)
Theorem backend_options_survive b ns n :
  In (b, ns) backend_options -> In n ns ->
  (mem n known_keys = false /\ forall v, parse_c [(n, v)] = Some (mkComp [] [(n, v)])) \/
  (exists path p ex d, lookup n parse_table = Some (path, p, ex) /\ lookup path dump_table = Some (n, d)).
Proof.
  intros Hb Hn. pose proof measured_backends_ok as H. unfold backends_ok in H.
  rewrite forallb_forall in H. specialize (H _ Hb). cbn [snd] in H.
  rewrite forallb_forall in H. specialize (H _ Hn). unfold backend_name_ok in H.
  destruct (mem n known_keys) eqn:K.
  - right. destruct (lookup n parse_table) as [[[path p] ex]|]; [|discriminate].
    destruct (lookup path dump_table) as [[ik d]|] eqn:D; [|discriminate].
    apply String.eqb_eq in H. subst ik. exists path, p, ex, d. split; [reflexivity|exact D].
  - left. split; [reflexivity|]. intros v. exact (variable_kept n v K).
Qed.

(* what a load returns does not depend on the loads made before it *)
Theorem loads_independent before i after :
  nth_error (load_seq (before ++ i :: after)) (length before) = Some (parse_c i).
Proof.
  unfold load_seq. rewrite map_app. cbn [map].
  rewrite nth_error_app2 by (rewrite map_length; apply Nat.le_refl).
  rewrite map_length, Nat.sub_diag. reflexivity.
Qed.
