(* C19 — proofs about the configparser text layer (Text.v): for every table inside the guard [table_ok]
   the writer produces a text and the reader, run on that text, returns exactly the table (no defaults). *)
From Coq Require Import String Ascii List Bool Arith Lia.
Require Import V.Lib.PyStr V.Lib.JTree V.Dosini.Codec V.Dosini.Text.
Import ListNotations.
Open Scope string_scope.

(* ------------------------------------------------------------------ strings *)
Lemma all_chars_app f a b : all_chars f (a ++ b) = all_chars f a && all_chars f b.
Proof. induction a as [|x a IH]; cbn; [reflexivity|]. rewrite IH, andb_assoc. reflexivity. Qed.

Lemma rstrip_app_nonempty a b : rstrip b <> "" -> rstrip (a ++ b) = a ++ rstrip b.
Proof.
  intros H. induction a as [|x a IH]; [reflexivity|].
  cbn [append rstrip]. rewrite IH.
  destruct (a ++ rstrip b) eqn:E; [|reflexivity].
  exfalso. destruct a; cbn in E; [contradiction|discriminate].
Qed.

Lemma rstrip_app_empty a b : rstrip b = "" -> rstrip (a ++ b) = rstrip a.
Proof.
  intros H. induction a as [|x a IH]; [exact H|].
  cbn [append rstrip]. rewrite IH. reflexivity.
Qed.

Lemma rstrip_fix_nonempty s : s <> "" -> rstrip s = s -> rstrip s <> "".
Proof. intros N E. rewrite E. exact N. Qed.

Lemma stripped_first l : stripped l = true -> lstrip l = l.
Proof.
  unfold stripped. destruct l as [|a l]; [reflexivity|]. intros H.
  apply andb_true_iff in H as [H _]. apply negb_true_iff in H. cbn. rewrite H. reflexivity.
Qed.

Lemma stripped_rstrip l : stripped l = true -> rstrip l = l.
Proof. unfold stripped. intros H. apply andb_true_iff in H as [_ H]. apply String.eqb_eq in H. exact H. Qed.

Lemma stripped_strip l : stripped l = true -> strip l = l.
Proof. intros H. unfold strip. rewrite (stripped_first _ H). exact (stripped_rstrip _ H). Qed.

(* ------------------------------------------------------------------ lines of the written text *)
Lemma lines_line l rest : no_break l = true -> lines (l ++ NL ++ rest) = l :: lines rest.
Proof.
  unfold no_break. induction l as [|a l IH]; intros H.
  - reflexivity.
  - cbn [all_chars] in H. apply andb_true_iff in H as [Ha Hl]. apply andb_true_iff in Ha as [Hn Hc].
    apply negb_true_iff in Hn, Hc. cbn [append lines]. rewrite Hn, Hc, (IH Hl). reflexivity.
Qed.

Lemma no_break_snoc p a :
  no_break p = true -> is_nl a = false -> is_cr a = false -> no_break (p ++ String a "") = true.
Proof.
  unfold no_break. intros Hp Hn Hc. rewrite all_chars_app, Hp. cbn. rewrite Hn, Hc. reflexivity.
Qed.

Lemma lines_value v : forall p rest,
  no_break p = true -> no_cr v = true ->
  lines (p ++ indent v ++ NL ++ rest) =
  (p ++ fst (splitnl v)) :: (map (String TAB) (snd (splitnl v)) ++ lines rest)%list.
Proof.
  induction v as [|a r IH]; intros p rest Hp Hv.
  - cbn [indent splitnl fst snd map app]. rewrite append_nil_r.
    change ("" ++ NL ++ rest) with (NL ++ rest). exact (lines_line p rest Hp).
  - unfold no_cr in Hv. cbn [all_chars] in Hv. apply andb_true_iff in Hv as [Hc Hr].
    apply negb_true_iff in Hc. cbn [indent splitnl].
    destruct (splitnl r) as [h t] eqn:E. destruct (is_nl a) eqn:Hn.
    + cbn [fst snd map]. rewrite append_nil_r.
      change (p ++ String "010"%char (String TAB (indent r)) ++ NL ++ rest)
        with (p ++ NL ++ (String TAB "" ++ indent r ++ NL ++ rest)).
      rewrite (lines_line p _ Hp).
      rewrite (IH (String TAB "") rest eq_refl Hr). reflexivity.
    + cbn [fst snd].
      change (p ++ String a (indent r) ++ NL ++ rest) with (p ++ String a "" ++ indent r ++ NL ++ rest).
      rewrite <- append_assoc.
      rewrite (IH (p ++ String a "") rest (no_break_snoc p a Hp Hn Hc) Hr). cbn [fst snd].
      rewrite append_assoc. reflexivity.
Qed.

Lemma join_splitnl v : join NL (fst (splitnl v) :: snd (splitnl v)) = v.
Proof.
  induction v as [|a r IH]; [reflexivity|].
  cbn [splitnl]. destruct (splitnl r) as [h t]. cbn [fst snd] in IH.
  destruct (is_nl a) eqn:Hn; cbn [fst snd].
  - apply Ascii.eqb_eq in Hn. subst a.
    change (join NL ("" :: h :: t)) with ("" ++ NL ++ join NL (h :: t)). rewrite IH. reflexivity.
  - destruct t as [|x t].
    + cbn in *. rewrite IH. reflexivity.
    + change (join NL (String a h :: x :: t)) with (String a (h ++ NL ++ join NL (x :: t))).
      change (join NL (h :: x :: t)) with (h ++ NL ++ join NL (x :: t)) in IH. rewrite IH. reflexivity.
Qed.

(* the lines the writer produces for one entry and one section *)
Definition entry_lines (e : string * string) : list string :=
  (fst e ++ " = " ++ fst (splitnl (snd e))) :: map (String TAB) (snd (splitnl (snd e))).
Definition section_lines (s : string * entries) : list string :=
  ("[" ++ fst s ++ "]") :: (flat_map entry_lines (snd s) ++ [""])%list.

Lemma key_no_break k : key_ok k = true -> no_break k = true.
Proof.
  unfold key_ok. destruct k as [|a k]; [discriminate|]. intros H.
  repeat (apply andb_true_iff in H as [H ?]). assumption.
Qed.

Lemma value_no_cr v : value_ok v = true -> no_cr v = true.
Proof.
  unfold value_ok. intros H. repeat (apply andb_true_iff in H as [H ?]). assumption.
Qed.

Lemma lines_entries es : forall rest,
  forallb (fun e : string * string => key_ok (fst e) && value_ok (snd e)) es = true ->
  lines (cat (map entry_text es) ++ rest) = (flat_map entry_lines es ++ lines rest)%list.
Proof.
  induction es as [|[k v] es IH]; intros rest H; [reflexivity|].
  cbn [forallb fst snd] in H. apply andb_true_iff in H as [He Hes]. apply andb_true_iff in He as [Hk Hv].
  cbn [map cat flat_map].
  change (entry_text (k, v)) with (k ++ " = " ++ indent v ++ NL).
  change (entry_lines (k, v)) with ((k ++ " = " ++ fst (splitnl v)) :: map (String TAB) (snd (splitnl v))).
  rewrite !append_assoc.
  change (k ++ " = " ++ indent v ++ NL ++ cat (map entry_text es) ++ rest)
    with (k ++ (" = " ++ (indent v ++ NL ++ (cat (map entry_text es) ++ rest)))).
  rewrite <- (append_assoc k " = ").
  rewrite lines_value.
  - rewrite (IH rest Hes). rewrite append_assoc. cbn [app]. rewrite <- app_assoc. reflexivity.
  - unfold no_break. rewrite all_chars_app. fold (no_break k). rewrite (key_no_break _ Hk). reflexivity.
  - exact (value_no_cr _ Hv).
Qed.

Lemma section_text_app s rest :
  section_text s ++ rest = ("[" ++ fst s ++ "]") ++ NL ++ (cat (map entry_text (snd s)) ++ NL ++ rest).
Proof. unfold section_text. rewrite !append_assoc. reflexivity. Qed.

Lemma name_no_break n : name_ok n = true -> no_break ("[" ++ n ++ "]") = true.
Proof.
  unfold name_ok. destruct n as [|a n]; [discriminate|]. intros H.
  unfold no_break in *. change ("[" ++ String a n ++ "]") with (String "[" (String a n ++ "]")).
  cbn [all_chars]. rewrite all_chars_app. rewrite H. reflexivity.
Qed.

Lemma lines_section s rest :
  name_ok (fst s) = true ->
  forallb (fun e : string * string => key_ok (fst e) && value_ok (snd e)) (snd s) = true ->
  lines (section_text s ++ rest) = (section_lines s ++ lines rest)%list.
Proof.
  intros Hn He. rewrite section_text_app. rewrite (lines_line _ _ (name_no_break _ Hn)).
  rewrite (lines_entries _ _ He). unfold section_lines.
  change (NL ++ rest) with ("" ++ NL ++ rest). rewrite (lines_line "" rest eq_refl).
  cbn [app]. rewrite <- app_assoc. reflexivity.
Qed.

Definition sections_ok (t : table) : bool :=
  forallb (fun s : string * entries => name_ok (fst s) && entries_ok (snd s)) t.

Lemma entries_ok_each es : entries_ok es = true ->
  forallb (fun e : string * string => key_ok (fst e) && value_ok (snd e)) es = true.
Proof. unfold entries_ok. intros H. apply andb_true_iff in H as [_ H]. exact H. Qed.

Lemma lines_table t :
  sections_ok t = true -> lines (cat (map section_text t)) = flat_map section_lines t.
Proof.
  induction t as [|s t IH]; intros H; [reflexivity|].
  cbn [sections_ok forallb] in H. apply andb_true_iff in H as [Hs Ht]. apply andb_true_iff in Hs as [Hn He].
  cbn [map cat flat_map]. rewrite (lines_section s _ Hn (entries_ok_each _ He)). rewrite (IH Ht). reflexivity.
Qed.

(* ------------------------------------------------------------------ the pieces of a line *)
Lemma before_last_snoc c n : before_last c (n ++ String c "") = Some n.
Proof.
  induction n as [|a n IH]; cbn [append before_last].
  - rewrite Ascii.eqb_refl. reflexivity.
  - rewrite IH. reflexivity.
Qed.

Lemma split_delim_app k d r :
  all_chars (fun c => negb (is_delim c)) k = true -> is_delim d = true ->
  split_delim (k ++ String d r) = Some (k, r).
Proof.
  intros Hk Hd. induction k as [|a k IH]; cbn [append split_delim].
  - rewrite Hd. reflexivity.
  - cbn [all_chars] in Hk. apply andb_true_iff in Hk as [Ha Hk]. apply negb_true_iff in Ha.
    rewrite Ha, (IH Hk). reflexivity.
Qed.

Lemma strip_header n : strip ("[" ++ n ++ "]") = "[" ++ n ++ "]".
Proof.
  unfold strip. change (lstrip ("[" ++ n ++ "]")) with ("[" ++ n ++ "]").
  assert (H : rstrip (n ++ "]") = n ++ "]").
  { rewrite rstrip_app_nonempty; [reflexivity|discriminate]. }
  rewrite (rstrip_app_nonempty "[" (n ++ "]")); rewrite H; [reflexivity|].
  destruct n; discriminate.
Qed.

Lemma sect_header_line n : n <> "" -> sect_header ("[" ++ n ++ "]") = Some n.
Proof.
  intros N. change ("[" ++ n ++ "]") with (String "[" (n ++ "]")). cbn [sect_header].
  change (Ascii.eqb "[" "[") with true. cbn iota. rewrite before_last_snoc.
  destruct n; [contradiction|reflexivity].
Qed.

(* ------------------------------------------------------------------ ordered dictionaries *)
Lemma al_mem_app {A} k (a b : list (string * A)) : al_mem k (a ++ b)%list = al_mem k a || al_mem k b.
Proof. unfold al_mem. apply existsb_app. Qed.

Lemma al_update_last {A} n (f : A -> A) R x :
  al_mem n R = false -> al_update n f (R ++ [(n, x)])%list = (R ++ [(n, f x)])%list.
Proof.
  induction R as [|[k y] R IH]; cbn [app al_update]; intros H.
  - rewrite String.eqb_refl. reflexivity.
  - unfold al_mem in H. cbn [existsb fst] in H. apply orb_false_iff in H as [Hk HR].
    rewrite Hk. rewrite (IH HR). reflexivity.
Qed.

Lemma al_set_fresh {A} k (x : A) E : al_mem k E = false -> al_set k x E = (E ++ [(k, x)])%list.
Proof.
  induction E as [|[k' y] E IH]; cbn [app al_set]; intros H; [reflexivity|].
  unfold al_mem in H. cbn [existsb fst] in H. apply orb_false_iff in H as [Hk HE].
  rewrite Hk, (IH HE). reflexivity.
Qed.

(* ------------------------------------------------------------------ one line, one step *)
Section Steps.
Variables (D : rentries) (R : list (string * rentries)) (n : string).
Hypothesis Hdef : String.eqb n "DEFAULT" = false.
Hypothesis Hfresh : al_mem n R = false.

Definition at_sec (E : rentries) (o : option string) (i : nat) : rstate :=
  mkR D (R ++ [(n, E)])%list (Some n) o i.

Lemma upd_at_sec f E o i : upd_cur f (at_sec E o i) = at_sec (f E) o i.
Proof.
  unfold upd_cur, at_sec. cbn [cur defs secs opt ind]. rewrite Hdef.
  rewrite (al_update_last n f R E Hfresh). reflexivity.
Qed.

Lemma key_first k : key_ok k = true ->
  exists a k', k = String a k' /\ is_ws a = false /\ starts_comment k = false /\ Ascii.eqb a "[" = false.
Proof.
  unfold key_ok. destruct k as [|a k']; [discriminate|]. intros H.
  repeat (apply andb_true_iff in H as [H ?]).
  exists a, k'. split; [reflexivity|].
  match goal with S : stripped _ = true |- _ => unfold stripped in S; apply andb_true_iff in S as [S _];
    apply negb_true_iff in S; rewrite S end.
  apply negb_true_iff in H. match goal with X : negb (Ascii.eqb a ";") = true |- _ => apply negb_true_iff in X; cbn; rewrite H, X end.
  match goal with X : negb (Ascii.eqb a "[") = true |- _ => apply negb_true_iff in X; rewrite X end.
  repeat split; reflexivity.
Qed.

Lemma key_stripped k : key_ok k = true -> stripped k = true.
Proof.
  unfold key_ok. destruct k as [|a k']; [discriminate|]. intros H.
  repeat (apply andb_true_iff in H as [H ?]). assumption.
Qed.

Lemma key_no_delim k : key_ok k = true -> all_chars (fun c => negb (is_delim c)) k = true.
Proof.
  unfold key_ok. destruct k as [|a k']; [discriminate|]. intros H.
  repeat (apply andb_true_iff in H as [H ?]). assumption.
Qed.

(* what is left of the first line of an entry after line.strip() *)
Definition after_eq (h : string) : string := match h with EmptyString => EmptyString | _ => " " ++ h end.

Lemma lstrip_app_first k X : key_ok k = true -> lstrip (k ++ X) = k ++ X.
Proof.
  intros Hk. destruct (key_first k Hk) as [a [k' [-> [Hw _]]]]. cbn [append lstrip]. rewrite Hw. reflexivity.
Qed.

Lemma strip_key_line k h : key_ok k = true -> stripped h = true ->
  strip (k ++ " = " ++ h) = (k ++ " ") ++ String "=" (after_eq h).
Proof.
  intros Hk Hh. unfold strip. rewrite (lstrip_app_first k _ Hk).
  destruct h as [|b h].
  - change (" = " ++ "") with " = ". rewrite (rstrip_app_nonempty k " = ") by discriminate.
    change (rstrip " = ") with " =". cbn [after_eq]. rewrite append_assoc. reflexivity.
  - pose proof (stripped_rstrip _ Hh) as Rh.
    assert (X : rstrip (" = " ++ String b h) = " = " ++ String b h).
    { rewrite rstrip_app_nonempty; rewrite Rh; [reflexivity|discriminate]. }
    rewrite (rstrip_app_nonempty k (" = " ++ String b h)); rewrite X; [|discriminate].
    cbn [after_eq]. rewrite append_assoc. reflexivity.
Qed.

Lemma strip_after_eq h : stripped h = true -> strip (after_eq h) = h.
Proof.
  intros Hh. destruct h as [|b h]; [reflexivity|].
  unfold after_eq, strip. change (lstrip (" " ++ String b h)) with (lstrip (String b h)).
  fold (strip (String b h)). exact (stripped_strip _ Hh).
Qed.

Lemma step_header E o i :
  name_ok n = true ->
  step (mkR D R E o i) ("[" ++ n ++ "]") = Some (at_sec [] None 0).
Proof.
  intros Hn. unfold step. rewrite strip_header.
  change ("[" ++ n ++ "]") with (String "[" (n ++ "]")) at 1 2 3.
  cbn [starts_comment]. change (Ascii.eqb "[" "#" || Ascii.eqb "[" ";") with false. cbn iota.
  change (indent_of (String "[" (n ++ "]"))) with 0.
  assert (L : Nat.ltb i 0 = false) by (apply Nat.ltb_ge; lia).
  cbn [cur opt ind]. rewrite L.
  assert (Nn : n <> "") by (destruct n; [discriminate|discriminate]).
  change (String "[" (n ++ "]")) with ("[" ++ n ++ "]").
  rewrite (sect_header_line n Nn). cbn [secs defs]. rewrite Hdef, Hfresh. cbn [orb].
  destruct E, o; reflexivity.
Qed.

Lemma step_key E o i k h :
  key_ok k = true -> stripped h = true -> al_mem k E = false ->
  step (at_sec E o i) (k ++ " = " ++ h) = Some (at_sec (E ++ [(k, [h])])%list (Some k) 0).
Proof.
  intros Hk Hh Hf. unfold step. rewrite (strip_key_line k h Hk Hh).
  destruct (key_first k Hk) as [a [k' [Ek [Hw [Hc Hb]]]]].
  assert (I : indent_of (k ++ " = " ++ h) = 0).
  { rewrite Ek. cbn [append indent_of]. rewrite Hw. reflexivity. }
  rewrite I.
  assert (L : Nat.ltb (ind (at_sec E o i)) 0 = false) by (apply Nat.ltb_ge; lia). rewrite L.
  assert (V : (k ++ " ") ++ String "=" (after_eq h) = String a ((k' ++ " ") ++ String "=" (after_eq h))).
  { rewrite Ek. reflexivity. }
  assert (C : starts_comment ((k ++ " ") ++ String "=" (after_eq h)) = false).
  { rewrite V. rewrite Ek in Hc. exact Hc. }
  rewrite C.
  assert (H : sect_header ((k ++ " ") ++ String "=" (after_eq h)) = None).
  { rewrite V. cbn [sect_header]. rewrite Hb. reflexivity. }
  assert (S : split_delim ((k ++ " ") ++ String "=" (after_eq h)) = Some (k ++ " ", after_eq h)).
  { apply split_delim_app; [|reflexivity]. rewrite all_chars_app, (key_no_delim k Hk). reflexivity. }
  assert (Rk : rstrip (k ++ " ") = k).
  { rewrite rstrip_app_empty by reflexivity. exact (stripped_rstrip _ (key_stripped _ Hk)). }
  rewrite H, S, Rk, (strip_after_eq h Hh).
  assert (Fin : upd_cur (al_set k [h]) (mkR D (R ++ [(n, E)])%list (Some n) (Some k) 0)
                = mkR D (R ++ [(n, (E ++ [(k, [h])])%list)])%list (Some n) (Some k) 0).
  { change (mkR D (R ++ [(n, E)])%list (Some n) (Some k) 0) with (at_sec E (Some k) 0).
    rewrite upd_at_sec, (al_set_fresh k [h] E Hf). reflexivity. }
  rewrite V. subst k. unfold at_sec. cbn [cur opt defs secs ind].
  destruct o; exact (f_equal Some Fin).
Qed.

Lemma append_line_last k l E vl :
  al_mem k E = false -> append_line k l (E ++ [(k, vl)])%list = (E ++ [(k, vl ++ [l])])%list.
Proof. intros H. unfold append_line. exact (al_update_last k _ E vl H). Qed.

Lemma step_cont E k vl l :
  stripped l = true -> starts_comment l = false -> al_mem k E = false ->
  step (at_sec (E ++ [(k, vl)])%list (Some k) 0) (String TAB l) =
  Some (at_sec (E ++ [(k, vl ++ [l])])%list (Some k) 0).
Proof.
  intros Hs Hc Hf. unfold step.
  assert (V : strip (String TAB l) = l).
  { unfold strip. change (lstrip (String TAB l)) with (lstrip l). fold (strip l). exact (stripped_strip _ Hs). }
  rewrite V, Hc. change (cur (at_sec (E ++ [(k, vl)])%list (Some k) 0)) with (Some n).
  change (opt (at_sec (E ++ [(k, vl)])%list (Some k) 0)) with (Some k).
  change (ind (at_sec (E ++ [(k, vl)])%list (Some k) 0)) with 0.
  destruct l as [|a l].
  - cbv beta iota. rewrite upd_at_sec, (append_line_last k "" E vl Hf). reflexivity.
  - assert (I : indent_of (String TAB (String a l)) = 1).
    { unfold stripped in Hs. apply andb_true_iff in Hs as [Hs _]. apply negb_true_iff in Hs.
      cbn [indent_of]. change (is_ws TAB) with true. rewrite Hs. reflexivity. }
    rewrite I. change (Nat.ltb 0 1) with true. cbv beta iota.
    rewrite upd_at_sec, (append_line_last k (String a l) E vl Hf). reflexivity.
Qed.

(* an empty line changes nothing that survives '\n'.join(lines).rstrip() *)
Lemma join_snoc_blank vl : rstrip (join NL (vl ++ [""])) = rstrip (join NL vl).
Proof.
  induction vl as [|x vl IH]; [reflexivity|].
  destruct vl as [|y vl].
  - cbn [app join]. rewrite append_nil_r. apply rstrip_app_empty. reflexivity.
  - change (join NL ((x :: y :: vl) ++ [""])) with (x ++ NL ++ join NL ((y :: vl) ++ [""])).
    change (join NL (x :: y :: vl)) with (x ++ NL ++ join NL (y :: vl)).
    rewrite <- !append_assoc.
    destruct (rstrip (join NL (y :: vl))) eqn:Y.
    + rewrite (rstrip_app_empty (x ++ NL) (join NL (y :: vl)) Y).
      exact (rstrip_app_empty (x ++ NL) _ IH).
    + assert (N1 : rstrip (join NL (y :: vl)) <> "") by (rewrite Y; discriminate).
      assert (N2 : rstrip (join NL ((y :: vl) ++ [""])) <> "") by (rewrite IH; discriminate).
      rewrite (rstrip_app_nonempty (x ++ NL) _ N1), (rstrip_app_nonempty (x ++ NL) _ N2), IH, Y. reflexivity.
Qed.

Lemma finish_append_blank k E : finish_entries (append_line k "" E) = finish_entries E.
Proof.
  unfold append_line, finish_entries. induction E as [|[k' vl] E IH]; [reflexivity|].
  cbn [al_update]. destruct (String.eqb k k'); cbn [map].
  - unfold join_value at 1 3. cbn [fst snd]. rewrite join_snoc_blank. reflexivity.
  - rewrite IH. reflexivity.
Qed.

Lemma step_blank E o i :
  exists E', step (at_sec E o i) "" = Some (at_sec E' o i) /\ finish_entries E' = finish_entries E.
Proof.
  unfold step. change (strip "") with "". cbn [starts_comment].
  change (cur (at_sec E o i)) with (Some n). change (opt (at_sec E o i)) with o.
  destruct o as [k|].
  - exists (append_line k "" E). rewrite upd_at_sec. split; [reflexivity|apply finish_append_blank].
  - exists E. split; reflexivity.
Qed.

(* ---- the lines of one entry, of all entries of a section *)
Lemma steps_app s a b : steps s (a ++ b)%list = match steps s a with Some s' => steps s' b | None => None end.
Proof. revert s. induction a as [|l a IH]; intros s; cbn [app steps]; [reflexivity|]. destruct (step s l); [apply IH|reflexivity]. Qed.

Lemma steps_conts E k t : forall vl,
  forallb (fun l => stripped l && negb (starts_comment l)) t = true -> al_mem k E = false ->
  steps (at_sec (E ++ [(k, vl)])%list (Some k) 0) (map (String TAB) t) =
  Some (at_sec (E ++ [(k, vl ++ t)])%list (Some k) 0).
Proof.
  induction t as [|l t IH]; intros vl H Hf.
  - cbn [map steps]. rewrite app_nil_r. reflexivity.
  - cbn [forallb] in H. apply andb_true_iff in H as [Hl Ht]. apply andb_true_iff in Hl as [Hs Hc].
    apply negb_true_iff in Hc. cbn [map steps]. rewrite (step_cont E k vl l Hs Hc Hf).
    rewrite (IH (vl ++ [l])%list Ht Hf). rewrite <- app_assoc. reflexivity.
Qed.

Definition raw_entry (e : string * string) : string * list string :=
  (fst e, fst (splitnl (snd e)) :: snd (splitnl (snd e))).

Lemma value_lines_ok v : value_ok v = true ->
  stripped (fst (splitnl v)) = true /\ forallb (fun l => stripped l && negb (starts_comment l)) (snd (splitnl v)) = true /\ rstrip v = v.
Proof.
  unfold value_ok. intros H. apply andb_true_iff in H as [H L]. apply andb_true_iff in H as [_ Rv].
  apply String.eqb_eq in Rv. destruct (splitnl v) as [h t]. apply andb_true_iff in L as [L1 L2].
  repeat split; assumption.
Qed.

Lemma steps_entry E o i k v :
  key_ok k = true -> value_ok v = true -> al_mem k E = false ->
  steps (at_sec E o i) (entry_lines (k, v)) = Some (at_sec (E ++ [raw_entry (k, v)])%list (Some k) 0).
Proof.
  intros Hk Hv Hf. destruct (value_lines_ok v Hv) as [Hh [Ht _]].
  unfold entry_lines, raw_entry. cbn [fst snd steps].
  rewrite (step_key E o i k _ Hk Hh Hf).
  exact (steps_conts E k _ [fst (splitnl v)] Ht Hf).
Qed.

Lemma nodupb_cons_mem k ks x : nodupb (k :: ks) = true -> In x ks -> String.eqb x k = false.
Proof.
  cbn [nodupb]. intros H Hin. apply andb_true_iff in H as [H _]. apply negb_true_iff in H.
  destruct (String.eqb x k) eqn:E; [|reflexivity]. apply String.eqb_eq in E. subst x.
  assert (M : mem k ks = true).
  { unfold mem. apply existsb_exists. exists k. split; [exact Hin|apply String.eqb_refl]. }
  congruence.
Qed.

Lemma steps_entries es : forall E o i,
  nodupb (map fst es) = true ->
  forallb (fun e : string * string => key_ok (fst e) && value_ok (snd e)) es = true ->
  (forall x, In x (map fst es) -> al_mem x E = false) ->
  exists o' i', steps (at_sec E o i) (flat_map entry_lines es) = Some (at_sec (E ++ map raw_entry es)%list o' i').
Proof.
  induction es as [|[k v] es IH]; intros E o i Hn Ho Hf.
  - exists o, i. cbn [flat_map map steps]. rewrite app_nil_r. reflexivity.
  - cbn [forallb fst snd] in Ho. apply andb_true_iff in Ho as [He Hes]. apply andb_true_iff in He as [Hk Hv].
    cbn [map fst] in Hn, Hf.
    assert (Hn' : nodupb (map fst es) = true).
    { cbn [nodupb] in Hn. apply andb_true_iff in Hn as [_ Hn]. exact Hn. }
    assert (Hf' : forall x, In x (map fst es) -> al_mem x (E ++ [raw_entry (k, v)])%list = false).
    { intros x Hx. rewrite al_mem_app. rewrite (Hf x (or_intror Hx)). unfold al_mem, raw_entry. cbn [existsb fst orb].
      rewrite (nodupb_cons_mem k _ x Hn Hx). reflexivity. }
    destruct (IH (E ++ [raw_entry (k, v)])%list (Some k) 0 Hn' Hes Hf') as [o' [i' Hs]].
    exists o', i'. cbn [flat_map]. rewrite steps_app.
    rewrite (steps_entry E o i k v Hk Hv (Hf k (or_introl eq_refl))). rewrite Hs.
    cbn [map]. rewrite <- app_assoc. reflexivity.
Qed.

Lemma finish_raw es :
  forallb (fun e : string * string => key_ok (fst e) && value_ok (snd e)) es = true ->
  finish_entries (map raw_entry es) = es.
Proof.
  unfold finish_entries. induction es as [|[k v] es IH]; intros H; [reflexivity|].
  cbn [forallb fst snd] in H. apply andb_true_iff in H as [He Hes]. apply andb_true_iff in He as [_ Hv].
  cbn [map]. rewrite (IH Hes). unfold join_value, raw_entry. cbn [fst snd].
  rewrite join_splitnl. destruct (value_lines_ok v Hv) as [_ [_ Rv]]. rewrite Rv. reflexivity.
Qed.
End Steps.

(* ------------------------------------------------------------------ one section, the whole table *)
Lemma steps_section D R c o i n es :
  String.eqb n "DEFAULT" = false -> al_mem n R = false -> name_ok n = true -> entries_ok es = true ->
  exists E' o' i',
    steps (mkR D R c o i) (section_lines (n, es)) = Some (mkR D (R ++ [(n, E')])%list (Some n) o' i') /\
    finish_entries E' = es.
Proof.
  intros Hd Hf Hn He. unfold section_lines. cbn [fst snd steps].
  rewrite (step_header D R n Hd Hf c o i Hn). rewrite steps_app.
  unfold entries_ok in He. apply andb_true_iff in He as [Hnd Hes].
  destruct (steps_entries D R n Hd Hf es [] None 0 Hnd Hes (fun x _ => eq_refl)) as [o' [i' Hs]].
  rewrite Hs. cbn [app steps].
  destruct (step_blank D R n Hd Hf (map raw_entry es) o' i') as [E' [Hb Hfin]].
  rewrite Hb. exists E', o', i'. split; [reflexivity|].
  rewrite Hfin. exact (finish_raw es Hes).
Qed.

Definition finish_sec (x : string * rentries) : string * entries := (fst x, finish_entries (snd x)).

Lemma steps_table t : forall D R c o i seen,
  names_ok seen t = true -> sections_ok t = true ->
  (forall x, al_mem x R = true -> mem x seen = true) ->
  exists s', steps (mkR D R c o i) (flat_map section_lines t) = Some s' /\ defs s' = D /\
             map finish_sec (secs s') = (map finish_sec R ++ t)%list.
Proof.
  induction t as [|[n es] t IH]; intros D R c o i seen Hn Hs Hseen.
  - exists (mkR D R c o i). cbn [flat_map steps defs secs]. rewrite app_nil_r. repeat split; reflexivity.
  - cbn [names_ok] in Hn. apply andb_true_iff in Hn as [Hn Hn3]. apply andb_true_iff in Hn as [Hn1 Hn2].
    apply negb_true_iff in Hn1, Hn2.
    cbn [sections_ok forallb fst snd] in Hs. apply andb_true_iff in Hs as [Hs1 Hs2].
    apply andb_true_iff in Hs1 as [Hname Hent].
    assert (Hf : al_mem n R = false).
    { destruct (al_mem n R) eqn:X; [|reflexivity]. rewrite (Hseen n X) in Hn2. discriminate. }
    destruct (steps_section D R c o i n es Hn1 Hf Hname Hent) as [E' [o' [i' [Hsec Hfin]]]].
    assert (Hseen' : forall x, al_mem x (R ++ [(n, E')])%list = true -> mem x (n :: seen) = true).
    { intros x Hx. rewrite al_mem_app in Hx. unfold mem. cbn [existsb].
      apply orb_true_iff in Hx as [Hx|Hx].
      - apply Hseen in Hx. unfold mem in Hx. rewrite Hx. apply orb_true_r.
      - unfold al_mem in Hx. cbn [existsb fst] in Hx. rewrite orb_false_r in Hx. rewrite Hx. reflexivity. }
    destruct (IH D (R ++ [(n, E')])%list (Some n) o' i' (n :: seen) Hn3 Hs2 Hseen') as [s' [H1 [H2 H3]]].
    exists s'. cbn [flat_map]. rewrite steps_app, Hsec. split; [exact H1|]. split; [exact H2|].
    rewrite H3, map_app, <- app_assoc. cbn [map app]. unfold finish_sec at 2. cbn [fst snd]. rewrite Hfin.
    reflexivity.
Qed.

(* inside the guard nothing goes to the defaults: no section is named '' *)
Lemma no_empty_name t : sections_ok t = true ->
  lookup "" t = None /\ map (fun s => section_text (own_section s)) t = map section_text t.
Proof.
  induction t as [|[n es] t IH]; intros H; [split; reflexivity|].
  cbn [sections_ok forallb fst snd] in H. apply andb_true_iff in H as [Hs Ht]. apply andb_true_iff in Hs as [Hn _].
  destruct (IH Ht) as [L M]. destruct n as [|a n]; [discriminate|].
  split.
  - cbn [lookup]. change (String.eqb "" (String a n)) with false. exact L.
  - cbn [map]. rewrite M. reflexivity.
Qed.

Lemma guard_values_ok t : sections_ok t = true -> values_ok t = true.
Proof.
  unfold sections_ok, values_ok. intros H. apply forallb_forall. intros s Hs.
  rewrite forallb_forall in H. specialize (H s Hs). apply andb_true_iff in H as [_ H].
  apply entries_ok_each in H. apply forallb_forall. intros e He.
  rewrite forallb_forall in H. specialize (H e He). apply andb_true_iff in H as [_ H].
  unfold value_ok in H. repeat (apply andb_true_iff in H as [H _]). exact H.
Qed.

Theorem text_roundtrip t :
  table_ok t = true -> exists txt, write_table t = Some txt /\ read_text txt = Some ([], t).
Proof.
  unfold table_ok. intros H. apply andb_true_iff in H as [Hn Hs]. fold (sections_ok t) in Hs.
  destruct (no_empty_name t Hs) as [L M].
  exists (cat (map section_text t)). split.
  - unfold write_table. rewrite Hn, (guard_values_ok t Hs). cbn [andb].
    unfold defaults_text. rewrite L, M. reflexivity.
  - unfold read_text. rewrite (lines_table t Hs).
    destruct (steps_table t [] [] None None 0 [] Hn Hs) as [s' [H1 [H2 H3]]].
    { intros x Hx. discriminate. }
    unfold init. rewrite H1. unfold finish. rewrite H2. cbn [finish_entries map].
    change (map (fun x : string * rentries => (fst x, finish_entries (snd x))) (secs s')) with (map finish_sec (secs s')).
    rewrite H3. reflexivity.
Qed.
