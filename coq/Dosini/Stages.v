(* C19 — stage indices spelled as text.  The legacy format names a stage by the word "stage" (or "STAGE")
   followed by the decimal index:
   - output.conf: `stages = stage2,stage10,stage11`  (Dosini._dump_output: ','.join('stage%d' % idx) ;
     Dosini.parse_output: split(','), strip every item, drop the empty ones,
     assert item.lower().startswith('stage'); int(item[5:]));
   - status.conf: section [STAGE10]  (Dosini._dump_status: 'STAGE%d' % idx ; Dosini.parse_status:
     assert name.startswith('STAGE'); int(name[5:])).
   The index is an arbitrary natural number: the codec must be the identity for indices of any number of digits.
   int() also accepts surrounding blanks, '+', '_' separators: not modelled, never generated; None = the
   AssertionError / ValueError of the real reader. *)
From Coq Require Import String Ascii List Bool NArith Lia DecimalString.
Require Import V.Lib.PyStr V.Dosini.Codec V.Dosini.Text.
Import ListNotations.
Open Scope string_scope.

Definition stage_name (n : N) : string := "stage" ++ dec n.
Definition status_name (n : N) : string := "STAGE" ++ dec n.

Definition stage_index (s : string) : option N :=
  if prefixb "stage" (lower s) then undec (drop 5 s) else None.
Definition status_index (s : string) : option N :=
  if prefixb "STAGE" s then undec (drop 5 s) else None.

Definition nonempty (s : string) : bool := match s with EmptyString => false | _ => true end.

Fixpoint sequence {A} (l : list (option A)) : option (list A) :=
  match l with
  | [] => Some []
  | x :: r => match x, sequence r with Some a, Some b => Some (a :: b) | _, _ => None end
  end.

Definition write_stages (l : list N) : string := join "," (map stage_name l).
Definition read_stages (v : string) : option (list N) :=
  sequence (map stage_index (filter nonempty (map strip (split_on "," v)))).

(* ---- checkers of the correspondence run *)
Definition olist_eqb (a b : option (list N)) : bool :=
  match a, b with
  | Some x, Some y => if list_eq_dec N.eq_dec x y then true else false
  | None, None => true
  | _, _ => false
  end.
Definition on_eqb (a b : option N) : bool :=
  match a, b with Some x, Some y => N.eqb x y | None, None => true | _, _ => false end.

(* (indices handed to _dump_output, text of the `stages` entry it wrote, indices parse_output read from it) *)
Definition check_stages_written (x : list N * string * option (list N)) : bool :=
  let '(l, txt, o) := x in
  String.eqb (write_stages l) txt && olist_eqb (read_stages txt) o && olist_eqb o (Some l).
(* (any text of a `stages` entry, what parse_output made of it; None = it raised) *)
Definition check_stages_read (x : string * option (list N)) : bool := olist_eqb (read_stages (fst x)) (snd x).
(* (index handed to _dump_status, section name written, index parse_status read; any section name, index read) *)
Definition check_status_written (x : N * string * option N) : bool :=
  let '(n, name, o) := x in String.eqb (status_name n) name && on_eqb (status_index name) o && on_eqb o (Some n).
Definition check_status_read (x : string * option N) : bool := on_eqb (status_index (fst x)) (snd x).

(* the four kinds of cases of stream S in one type (one evaluation inside Coq) *)
Inductive scase :=
  | SOut (l : list N) (txt : string) (o : option (list N))
  | SText (txt : string) (o : option (list N))
  | SStat (n : N) (name : string) (o : option N)
  | SSect (name : string) (o : option N).
Definition check_stage_case (c : scase) : bool :=
  match c with
  | SOut l txt o => check_stages_written (l, txt, o)
  | SText txt o => check_stages_read (txt, o)
  | SStat n name o => check_status_written (n, name, o)
  | SSect name o => check_status_read (name, o)
  end.

(* ------------------------------------------------------------------ proofs *)
Lemma digits_nilempty d : all_chars is_digit (NilEmpty.string_of_uint d) = true.
Proof. induction d; cbn [NilEmpty.string_of_uint all_chars]; try rewrite IHd; reflexivity. Qed.

Lemma dec_digits n : all_chars is_digit (dec n) = true.
Proof.
  unfold dec, NilZero.string_of_uint. destruct (N.to_uint n) eqn:E; try reflexivity;
    rewrite <- E; apply digits_nilempty.
Qed.

Lemma all_chars_impl (p q : ascii -> bool) s :
  (forall a, p a = true -> q a = true) -> all_chars p s = true -> all_chars q s = true.
Proof.
  intros I. induction s as [|a s IH]; cbn; [reflexivity|]. intros H.
  apply andb_true_iff in H as [Ha Hs]. rewrite (I a Ha), (IH Hs). reflexivity.
Qed.

Lemma digit_plain a : is_digit a = true -> negb (is_ws a) && negb (Ascii.eqb a ",") = true.
Proof.
  intros H. destruct a as [b0 b1 b2 b3 b4 b5 b6 b7].
  destruct b0, b1, b2, b3, b4, b5, b6, b7; try discriminate H; reflexivity.
Qed.

Definition plain (a : ascii) : bool := negb (is_ws a) && negb (Ascii.eqb a ",").

Lemma all_chars_app' f a b : all_chars f (a ++ b) = all_chars f a && all_chars f b.
Proof. induction a as [|c a IH]; cbn; [reflexivity|]. rewrite IH, andb_assoc. reflexivity. Qed.

Lemma stage_name_plain n : all_chars plain (stage_name n) = true.
Proof.
  unfold stage_name. rewrite all_chars_app'. apply andb_true_iff. split; [reflexivity|].
  exact (all_chars_impl _ _ _ digit_plain (dec_digits n)).
Qed.

Lemma rstrip_nows s : all_chars (fun a => negb (is_ws a)) s = true -> rstrip s = s.
Proof.
  induction s as [|a r IH]; [reflexivity|]. cbn [all_chars rstrip]. intros H.
  apply andb_true_iff in H as [Ha Hr]. rewrite (IH Hr). apply negb_true_iff in Ha.
  destruct r; [rewrite Ha|]; reflexivity.
Qed.

Lemma strip_stage_name n : strip (stage_name n) = stage_name n.
Proof.
  unfold strip. change (lstrip (stage_name n)) with (stage_name n).
  apply rstrip_nows. apply (all_chars_impl plain); [|apply stage_name_plain].
  intros a H. unfold plain in H. apply andb_true_iff in H. tauto.
Qed.

Lemma lower_app a b : lower (a ++ b) = lower a ++ lower b.
Proof. induction a as [|c a IH]; cbn; [reflexivity|]. rewrite IH. reflexivity. Qed.

Lemma stage_index_name n : stage_index (stage_name n) = Some n.
Proof.
  unfold stage_index, stage_name. rewrite lower_app. change (lower "stage") with "stage".
  rewrite prefixb_refl. change (drop 5 ("stage" ++ dec n)) with (dec n). apply undec_dec.
Qed.

Lemma status_index_name n : status_index (status_name n) = Some n.
Proof.
  unfold status_index, status_name. rewrite prefixb_refl.
  change (drop 5 ("STAGE" ++ dec n)) with (dec n). apply undec_dec.
Qed.

Lemma split_aux_word c acc w rest :
  all_chars (fun a => negb (Ascii.eqb a c)) w = true ->
  split_on_aux c acc (w ++ rest) = split_on_aux c (acc ++ w) rest.
Proof.
  revert acc. induction w as [|a w IH]; intros acc H; cbn in *.
  - rewrite append_nil_r. reflexivity.
  - apply andb_true_iff in H as [Ha Hw]. apply negb_true_iff in Ha. rewrite Ha.
    rewrite IH by exact Hw. rewrite append_assoc. reflexivity.
Qed.

Lemma split_join c ws :
  ws <> [] -> Forall (fun w => all_chars (fun a => negb (Ascii.eqb a c)) w = true) ws ->
  split_on c (join (String c "") ws) = ws.
Proof.
  unfold split_on. induction ws as [|x ws IH]; intros Hne H; [contradiction|].
  inversion H as [|? ? Hx Hws]; subst.
  destruct ws as [|y ws'].
  - cbn [join]. rewrite <- (append_nil_r x) at 1. rewrite split_aux_word by exact Hx. reflexivity.
  - change (join (String c "") (x :: y :: ws')) with (x ++ String c "" ++ join (String c "") (y :: ws')).
    rewrite split_aux_word by exact Hx. cbn [append split_on_aux]. rewrite Ascii.eqb_refl.
    rewrite IH; [reflexivity|discriminate|exact Hws].
Qed.

Lemma read_items l :
  sequence (map stage_index (filter nonempty (map strip (map stage_name l)))) = Some l.
Proof.
  induction l as [|n l IH]; [reflexivity|].
  cbn [map]. rewrite strip_stage_name. cbn [filter].
  change (nonempty (stage_name n)) with true. cbn [map sequence].
  rewrite stage_index_name, IH. reflexivity.
Qed.

(* every list of stage indices, of any length and any number of digits, is read back from the `stages` entry
   written for it *)
Theorem stages_roundtrip l : read_stages (write_stages l) = Some l.
Proof.
  unfold read_stages, write_stages. destruct l as [|n l]; [reflexivity|].
  change "," with (String "," "") at 1.
  rewrite split_join.
  - apply read_items.
  - discriminate.
  - apply Forall_forall. intros w Hw. apply in_map_iff in Hw as [m [<- _]].
    apply (all_chars_impl plain); [|apply stage_name_plain].
    intros a H. unfold plain in H. apply andb_true_iff in H. tauto.
Qed.

(* the written items are distinct for distinct indices: no two stages share a name *)
Lemma stage_name_inj n m : stage_name n = stage_name m -> n = m.
Proof.
  intros H. apply (f_equal stage_index) in H. rewrite !stage_index_name in H. congruence.
Qed.
