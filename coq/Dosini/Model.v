(* C19 — the model instantiated with the tables measured on the code under test (Generated.v) and the
   checkers evaluated by the correspondence run. *)
From Coq Require Import String Ascii List Bool ZArith.
Require Import V.Lib.PyStr V.Lib.JTree V.Dosini.Codec V.Dosini.Generated V.Dosini.Text.
Import ListNotations.
Open Scope string_scope.

Definition dump_c (c : comp) : option ini := dump_comp dump_table c.
Definition parse_c (i : ini) : option comp := parse_ini parse_table known_keys i.
Definition roundtrip_c (c : comp) : option comp := roundtrip dump_table parse_table known_keys c.

(* parse_component stores the references only when the list is not empty (`if references:`): an empty and
   an absent list of references are the same configuration; compared as such *)
Definition is_empty_refs (o : string * val) : bool :=
  String.eqb (fst o) "references" && match snd o with VList [] => true | _ => false end.
Definition norm_c (c : comp) : comp := mkComp (filter (fun o => negb (is_empty_refs o)) (opts c)) (vars c).
Definition same_comp (a b : comp) : bool := comp_eqb (norm_c a) (norm_c b).

(* case = (component handed to Dosini.dump, component found in the document returned by
   Dosini.load_from_directory; None when loading raised InvalidValueForConstant) *)
Definition check_case (x : comp * option comp) : bool :=
  match roundtrip_c (fst x), snd x with
  | Some c', Some o => same_comp c' o
  | None, None => true
  | _, _ => false
  end.

(* Dosini.load_from_directory ends with FlowIR.compress_flowir, which removes every empty collection of
   the loaded document: at the level of the instance files an option holding the empty list is absent *)
Definition is_empty_list (o : string * val) : bool := match snd o with VList [] => true | _ => false end.
Definition compress_c (c : comp) : comp := mkComp (filter (fun o => negb (is_empty_list o)) (opts c)) (vars c).
(* the section of a component in a stage file: the variables first, then the rendered options (comp_dict starts
   as the variables and is updated with what the writers extract) *)
Definition file_section (c : comp) : option ini :=
  match traverse (dump_opt dump_table) (opts c) with
  | Some l => Some (vars c ++ l)%list
  | None => None
  end.

(* the instance-file round trip of one component: its section goes through the configparser text layer
   (Text.v: written with add_section/set/write, read back from the text) and then through the reader *)
Definition via_file (name : string) (c : comp) : option comp :=
  match file_section c with
  | Some i => match write_table [(name, i)] with
              | Some txt => match read_text txt with
                            | Some (_, t') => match lookup name t' with Some i' => parse_c i' | None => None end
                            | None => None
                            end
              | None => None
              end
  | None => None
  end.

(* case = (name of the component, component handed to Dosini.dump, component in the loaded document) *)
Definition check_file_case (x : string * comp * option comp) : bool :=
  let '(name, c, o) := x in
  match via_file name c, o with
  | Some c', Some o => comp_eqb (compress_c c') (compress_c o)
  | None, None => true
  | _, _ => false
  end.

(* case = (component, entries of its section as written by Dosini.configuration_for_stage) *)
Definition check_dump (x : comp * ini) : bool :=
  match dump_c (fst x) with
  | Some i => al_eqb String.eqb i (snd x)
  | None => false
  end.

(* case = (entries of a section, what Dosini.parse_component returned for it) *)
Definition check_parse (x : ini * option comp) : bool :=
  match parse_c (fst x), snd x with
  | Some c', Some o => same_comp c' o
  | None, None => true
  | _, _ => false
  end.

(* the options a component may use for the round trip to be the identity: written by some row whose
   reader derives nothing on the side *)
Definition expressible (path : string) : bool :=
  match lookup path dump_table with
  | Some (ik, _) => match lookup ik parse_table with Some (_, _, []) => true | _ => false end
  | None => false
  end.

(* ---- several loads in one process.  Dosini.parse_component keeps nothing between two calls: what a load returns is a
   function of the section alone, whatever was loaded before (a component of the simulator backend, of kubernetes ...).
   A sequence of loads is modelled as the list of the independent results; the correspondence compares every load of a
   sequence (stream P: a component of each backend first, then probe components) with [parse_c]/[roundtrip_c] on tables that
   were measured BEFORE anything was loaded, and measures the tables again afterwards. *)
Definition load_seq (l : list ini) : list (option comp) := map parse_c l.

(* the options Dosini.options_for_backend lists for a backend (Generated.backend_options, enumerated on the code under
   test): a name that is a key of the format must have a reader row and be written under that very key; any other name is a
   plain variable of the component *)
Definition backend_name_ok (n : string) : bool :=
  if mem n known_keys then
    match lookup n parse_table with
    | Some (path, _, _) => match lookup path dump_table with Some (ik, _) => String.eqb ik n | None => false end
    | None => false
    end
  else true.
Definition backends_ok : bool := forallb (fun b : string * list string => forallb backend_name_ok (snd b)) backend_options.
