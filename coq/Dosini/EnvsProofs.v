(* C19 — the environment file round-trips every set of environments, the EMPTY ones included. *)
From Coq Require Import String Ascii List Bool.
Require Import V.Lib.PyStr V.Lib.JTree V.Dosini.Codec V.Dosini.Text V.Dosini.Stages V.Dosini.Proofs
  V.Dosini.TextProofs V.Dosini.Envs.
Import ListNotations.
Open Scope string_scope.
Local Open Scope list_scope.

Definition upname (e : string * entries) : string * entries := (upper (fst e), snd e).

Lemma al_set_fresh {A} k (x : A) acc : ~ In k (map fst acc) -> al_set k x acc = acc ++ [(k, x)].
Proof.
  induction acc as [|[k' y] acc IH]; cbn; intros H; [reflexivity|].
  destruct (String.eqb k k') eqn:E.
  - apply String.eqb_eq in E. subst. exfalso. apply H. left. reflexivity.
  - rewrite IH; [reflexivity|]. intros Hin. apply H. right. exact Hin.
Qed.

Lemma env_section_step n es r acc :
  collect_envs (env_section (n, es) :: r) acc = collect_envs r (al_set (upper n) es acc).
Proof. reflexivity. Qed.

(* every section written for an environment is collected under the upper-cased name with ITS entries - none, one or many *)
Lemma collect_env_sections envs : forall acc,
  NoDup (map fst acc ++ map (fun e => upper (fst e)) envs) ->
  collect_envs (map env_section envs) acc = Some (acc ++ map upname envs).
Proof.
  induction envs as [|[n es] envs IH]; intros acc H; cbn [map].
  - cbn. rewrite app_nil_r. reflexivity.
  - rewrite env_section_step.
    assert (F : ~ In (upper n) (map fst acc)).
    { cbn [map fst] in H. apply NoDup_remove_2 in H. intros Hin. apply H. apply in_or_app. left. exact Hin. }
    rewrite (al_set_fresh _ _ _ F). rewrite IH.
    + rewrite <- app_assoc. reflexivity.
    + rewrite map_app. cbn [map fst]. rewrite <- app_assoc. exact H.
Qed.

Lemma lookup_notin {A} k (m : list (string * A)) : ~ In k (map fst m) -> lookup k m = None.
Proof.
  induction m as [|[k' v] m IH]; cbn; intros H; [reflexivity|].
  destruct (String.eqb k k') eqn:E.
  - apply String.eqb_eq in E. subst. exfalso. apply H. left. reflexivity.
  - apply IH. intros Hin. apply H. right. exact Hin.
Qed.

Lemma filter_not_named {A} k (m : list (string * A)) :
  ~ In k (map fst m) -> filter (fun e => negb (String.eqb (fst e) k)) m = m.
Proof.
  induction m as [|[k' v] m IH]; cbn; intros H; [reflexivity|].
  destruct (String.eqb k' k) eqn:E.
  - apply String.eqb_eq in E. subst. exfalso. apply H. left. reflexivity.
  - cbn. rewrite IH; [reflexivity|]. intros Hin. apply H. right. exact Hin.
Qed.

Lemma map_fst_upname envs : map fst (map upname envs) = map (fun e => upper (fst e)) envs.
Proof. rewrite map_map. reflexivity. Qed.

(* ','.join of items without a comma, split(','), strip: the items *)
Lemma comma_items_join l :
  l <> [] -> forallb item_ok l = true -> comma_items (join "," l) = l /\ filter nonempty l = l.
Proof.
  intros Hne H. unfold comma_items. rewrite split_join.
  - split.
    + induction l as [|w l IH]; [reflexivity|]. cbn in H. apply andb_true_iff in H as [Hw Hl].
      cbn [map]. unfold item_ok in Hw. apply andb_true_iff in Hw as [_ Hs]. apply String.eqb_eq in Hs. rewrite Hs.
      destruct l as [|w' l']; [reflexivity|]. rewrite IH; [reflexivity|discriminate|exact Hl].
    + clear Hne. induction l as [|w l IH]; [reflexivity|]. cbn in H. apply andb_true_iff in H as [Hw Hl].
      unfold item_ok in Hw. apply andb_true_iff in Hw as [Hw _]. apply andb_true_iff in Hw as [Hw _].
      cbn [filter]. rewrite Hw, (IH Hl). reflexivity.
  - exact Hne.
  - rewrite forallb_forall in H. apply Forall_forall. intros w Hw. specialize (H w Hw).
    unfold item_ok in H. apply andb_true_iff in H as [H _]. apply andb_true_iff in H as [_ H]. exact H.
Qed.

Lemma nonnil_cases {A} (l : list A) : (l = [] /\ nonnil l = false) \/ (l <> [] /\ nonnil l = true).
Proof. destruct l; [left|right]; split; try reflexivity; discriminate. Qed.

(* sections -> dictionaries -> document, on the sections the writer produces *)
Theorem parse_written r t :
  root_ok r = true -> write_root r = Some t -> parse_envs t = Some (upper_names r).
Proof.
  destruct r as [envs apps venvs]. unfold root_ok, write_root, upper_names. cbn [r_envs r_apps r_venvs].
  intros G W. destruct (al_mem "SANDBOX" envs); [discriminate|]. injection W as <-.
  apply andb_true_iff in G as [G Hv]. apply andb_true_iff in G as [G Ha]. apply andb_true_iff in G as [Hd Hs].
  apply nodupb_NoDup in Hd. apply negb_true_iff in Hs.
  assert (NS : ~ In "SANDBOX" (map (fun e : string * entries => upper (fst e)) envs)).
  { intros Hin. apply mem_In in Hin. congruence. }
  change (map (fun e : string * entries => (upper (fst e), snd e)) envs) with (map upname envs).
  unfold parse_envs, sandbox_settings. cbn [r_apps r_venvs].
  destruct (nonnil_cases apps) as [[Ea Na]|[Ea Na]], (nonnil_cases venvs) as [[Ev Nv]|[Ev Nv]]; rewrite Na, Nv; cbn [app].
  - (* no SANDBOX section *)
    rewrite (collect_env_sections envs []) by exact Hd. cbn [app].
    rewrite lookup_notin by (rewrite map_fst_upname; exact NS). subst. reflexivity.
  - change (collect_envs (("SANDBOX", [("virtualenvs", join "," venvs)]) :: map env_section envs) [])
      with (collect_envs (map env_section envs) [("SANDBOX", [("virtualenvs", join "," venvs)])]).
    rewrite collect_env_sections by (cbn [map fst app]; constructor; [exact NS|exact Hd]).
    cbn [app lookup]. rewrite String.eqb_refl. cbn [filter fst negb]. rewrite String.eqb_refl. cbn [negb].
    rewrite filter_not_named by (rewrite map_fst_upname; exact NS).
    cbn [lookup]. change (String.eqb "applications" "virtualenvs") with false. cbn [lookup].
    rewrite String.eqb_refl. destruct (comma_items_join venvs Ev Hv) as [-> _]. subst. reflexivity.
  - change (collect_envs (("SANDBOX", [("applications", join "," apps)]) :: map env_section envs) [])
      with (collect_envs (map env_section envs) [("SANDBOX", [("applications", join "," apps)])]).
    rewrite collect_env_sections by (cbn [map fst app]; constructor; [exact NS|exact Hd]).
    cbn [app lookup]. rewrite String.eqb_refl. cbn [filter fst negb]. rewrite String.eqb_refl. cbn [negb].
    rewrite filter_not_named by (rewrite map_fst_upname; exact NS).
    cbn [lookup]. rewrite String.eqb_refl. change (String.eqb "virtualenvs" "applications") with false. cbn [lookup].
    destruct (comma_items_join apps Ea Ha) as [-> ->]. subst. reflexivity.
  - change (collect_envs (("SANDBOX", [("applications", join "," apps); ("virtualenvs", join "," venvs)]) :: map env_section envs) [])
      with (collect_envs (map env_section envs) [("SANDBOX", [("applications", join "," apps); ("virtualenvs", join "," venvs)])]).
    rewrite collect_env_sections by (cbn [map fst app]; constructor; [exact NS|exact Hd]).
    cbn [app lookup]. rewrite String.eqb_refl. cbn [filter fst negb]. rewrite String.eqb_refl. cbn [negb].
    rewrite filter_not_named by (rewrite map_fst_upname; exact NS).
    cbn [lookup]. rewrite String.eqb_refl. change (String.eqb "virtualenvs" "applications") with false. cbn [lookup].
    rewrite String.eqb_refl.
    destruct (comma_items_join apps Ea Ha) as [-> ->]. destruct (comma_items_join venvs Ev Hv) as [-> _]. reflexivity.
Qed.

Lemma names_ok_no_default t : forall seen, names_ok seen t = true ->
  filter (fun s : string * entries => negb (String.eqb (fst s) "DEFAULT")) t = t.
Proof.
  induction t as [|[n es] t IH]; intros seen H; [reflexivity|].
  cbn in H. apply andb_true_iff in H as [H Hr]. apply andb_true_iff in H as [Hn _].
  cbn [filter fst]. rewrite Hn. rewrite (IH _ Hr). reflexivity.
Qed.

(* the whole path through the file: for EVERY document inside the guard - any number of environments, each with any number
   of variables, zero included - whose sections are inside the guard of the text layer *)
Theorem root_roundtrip r t :
  root_ok r = true -> write_root r = Some t -> table_ok t = true -> root_via_file r = Some (upper_names r).
Proof.
  intros G W T. unfold root_via_file. rewrite W.
  destruct (text_roundtrip t T) as [txt [Hw Hr]]. rewrite Hw, Hr.
  unfold env_to_dict. cbn [fst snd].
  unfold table_ok in T. apply andb_true_iff in T as [Tn _]. rewrite (names_ok_no_default t [] Tn).
  exact (parse_written r t G W).
Qed.

(* in particular an environment without variables is an environment without variables after the round trip: it is neither
   dropped nor merged into another one *)
Corollary empty_environment_kept r t n :
  root_ok r = true -> write_root r = Some t -> table_ok t = true -> In (n, []) (r_envs r) ->
  exists r', root_via_file r = Some r' /\ In (upper n, []) (r_envs r') /\ length (r_envs r') = length (r_envs r).
Proof.
  intros G W T Hin. exists (upper_names r). split; [exact (root_roundtrip r t G W T)|]. split.
  - unfold upper_names. cbn [r_envs]. apply (in_map (fun e : string * entries => (upper (fst e), snd e)) _ _ Hin).
  - unfold upper_names. cbn [r_envs]. apply map_length.
Qed.

(* the guard is needed: an environment called `sandbox` is written as [ENV-SANDBOX], read back under the reserved name
   SANDBOX and removed with it; two environments whose names differ by case only share one section name *)
Lemma sandbox_name_refuted :
  root_via_file (mkRoot [("sandbox", [("X", "1")]); ("envA", [])] [] []) = Some (mkRoot [("ENVA", [])] [] []).
Proof. vm_compute. reflexivity. Qed.
Lemma same_name_ignoring_case_refuted :
  root_via_file (mkRoot [("envA", [("X", "1")]); ("ENVa", [])] [] []) = None.
Proof. vm_compute. reflexivity. Qed.
