(* C19 — proofs about coq/Dosini/Rewrite.v: what a reference reads in the META section of an instance stage file, and what a
   load sees of a directory that was written several times. *)
From Coq Require Import String Ascii List Bool ZArith.
Require Import V.Lib.PyStr V.Lib.JTree V.Dosini.Codec V.Dosini.Text V.Dosini.TextProofs V.Dosini.Rewrite.
Import ListNotations.
Open Scope string_scope.
Local Open Scope list_scope.

(* ---- association lists *)
Lemma lookup_app {A} k (a b : list (string * A)) :
  lookup k (a ++ b) = match lookup k a with Some v => Some v | None => lookup k b end.
Proof.
  induction a as [|[k' v] a IH]; [reflexivity|]. cbn. destruct (String.eqb k k'); [reflexivity|exact IH].
Qed.

Lemma lookup_map_key {A B} (F : string -> A -> B) k (a : list (string * A)) :
  lookup k (map (fun kv => (fst kv, F (fst kv) (snd kv))) a) = option_map (F k) (lookup k a).
Proof.
  induction a as [|[k' v] a IH]; [reflexivity|]. cbn. destruct (String.eqb k k') eqn:E; [|exact IH].
  apply String.eqb_eq in E. subst. reflexivity.
Qed.

Lemma lookup_filter_key {A} (P : string -> bool) k (a : list (string * A)) :
  lookup k (filter (fun kv => P (fst kv)) a) = if P k then lookup k a else None.
Proof.
  induction a as [|[k' v] a IH]; [destruct (P k); reflexivity|]. cbn.
  destruct (P k') eqn:Pk'; cbn; destruct (String.eqb k k') eqn:E.
  - apply String.eqb_eq in E. subst. rewrite Pk'. reflexivity.
  - exact IH.
  - apply String.eqb_eq in E. subst. rewrite IH, Pk'. reflexivity.
  - exact IH.
Qed.

Lemma lookup_in {A} k (m : list (string * A)) v : lookup k m = Some v -> In (k, v) m.
Proof.
  induction m as [|[k' w] m IH]; [discriminate|]. cbn. destruct (String.eqb k k') eqn:E.
  - intros [= <-]. apply String.eqb_eq in E. subst. left. reflexivity.
  - intros H. right. exact (IH H).
Qed.

Lemma filter_all {A} (l : list A) (p : A -> bool) : (forall x, p x = true) -> filter p l = l.
Proof. intros H. induction l as [|x l IH]; [reflexivity|]. cbn. rewrite H, IH. reflexivity. Qed.

(* ---- dict.update *)
Lemma lookup_update {A} n (a b : list (string * A)) :
  lookup n (update a b) = match lookup n b with Some v => (if has n a then Some v else Some v) | None => lookup n a end.
Proof.
  unfold update. rewrite lookup_app.
  rewrite (lookup_map_key (fun k v => match lookup k b with Some w => w | None => v end)).
  rewrite (lookup_filter_key (fun k => negb (has k a))). unfold has.
  destruct (lookup n a) as [va|]; cbn; destruct (lookup n b); reflexivity.
Qed.

Lemma lookup_update_resolved n (g s : tvars) : lookup n (update g s) = resolved g s n.
Proof. rewrite lookup_update. unfold resolved. destruct (lookup n s); [destruct (has n g)|]; reflexivity. Qed.

Lemma update_scalar (g s : tvars) :
  forallb (fun kv => scalar (snd kv)) g = true -> forallb (fun kv => scalar (snd kv)) s = true ->
  forallb (fun kv => scalar (snd kv)) (update g s) = true.
Proof.
  intros Hg Hs. rewrite forallb_forall in *. intros kv Hin. unfold update in Hin.
  apply in_app_or in Hin as [Hin|Hin].
  - apply in_map_iff in Hin as [e [<- He]]. cbn. destruct (lookup (fst e) s) as [w|] eqn:El.
    + exact (Hs _ (lookup_in _ _ _ El)).
    + exact (Hg _ He).
  - apply filter_In in Hin as [Hin _]. exact (Hs _ Hin).
Qed.

(* ---- str() of every variable *)
Lemma render_scalar (l : tvars) :
  forallb (fun kv => scalar (snd kv)) l = true ->
  exists i, render_vars l = Some i /\ map fst i = map fst l /\ forall n, lookup n i = text_of (lookup n l).
Proof.
  induction l as [|[k v] l IH]; intros H.
  - exists []. repeat split.
  - cbn in H. apply andb_true_iff in H as [Hv Hl]. destruct (IH Hl) as [i [Hi [Hk Hn]]].
    assert (exists t, pystr v = Some t) as [t Ht] by (destruct v as [| |[]| |]; try discriminate; eexists; reflexivity).
    exists ((k, t) :: i). cbn. rewrite Ht, Hi. repeat split.
    + cbn. rewrite Hk. reflexivity.
    + intros n. destruct (String.eqb n k); [cbn; symmetry; exact Ht|apply Hn].
Qed.

(* The [META] section of a stage file of an instance: for EVERY set of global variables and variables of the stage whose values
   are scalars of any type (text, int, float, bool), the section is written, holds exactly the names of the global variables
   and of the stage, and gives for every name the text str(value) of the value the name resolves to in the description:
   the variable of the stage when it has one, the global one otherwise *)
Theorem meta_resolves (g s : tvars) :
  forallb (fun kv => scalar (snd kv)) g = true -> forallb (fun kv => scalar (snd kv)) s = true ->
  exists i, meta_section true g s = Some i /\ map fst i = map fst (update g s) /\
            forall n, lookup n i = text_of (resolved g s n).
Proof.
  intros Hg Hs. destruct (render_scalar _ (update_scalar _ _ Hg Hs)) as [i [Hi [Hk Hn]]].
  exists i. repeat split; [exact Hi|exact Hk|]. intros n. rewrite Hn, lookup_update_resolved. reflexivity.
Qed.

(* a package stores the variables of the stage alone *)
Theorem meta_package (g s : tvars) :
  forallb (fun kv => scalar (snd kv)) s = true ->
  exists i, meta_section false g s = Some i /\ forall n, lookup n i = text_of (lookup n s).
Proof. intros Hs. destruct (render_scalar _ Hs) as [i [Hi [_ Hn]]]. exists i. split; assumption. Qed.

(* through the text layer: inside its guard the reader of the stage file sees the section that was written *)
Theorem meta_through_file (g s : tvars) i :
  meta_section true g s = Some i -> table_ok [("META", i)] = true -> meta_via_file true g s = Some i.
Proof.
  intros Hm Hg. unfold meta_via_file. rewrite Hm. destruct i as [|e i]; [reflexivity|].
  destruct (text_roundtrip _ Hg) as [txt [Hw Hr]]. rewrite Hw, Hr. reflexivity.
Qed.

(* ---- the directory *)
Lemma lookup_dump_update ii (old fresh : dir) f :
  never_replaced ii f = false ->
  lookup f (dump_dir ii true old fresh) =
  match lookup f fresh with Some c => Some c | None => if cleaned ii f then None else lookup f old end.
Proof.
  intros NR. unfold dump_dir. rewrite lookup_app.
  rewrite (lookup_map_key (fun k c => if never_replaced ii k then c else match lookup k fresh with Some c' => c' | None => c end)).
  rewrite (lookup_filter_key (fun k => negb (has k (filter (fun e => negb (cleaned ii (fst e))) old)))).
  unfold has. rewrite (lookup_filter_key (fun k => negb (cleaned ii k))). rewrite NR.
  destruct (cleaned ii f); cbn.
  - destruct (lookup f fresh); reflexivity.
  - destruct (lookup f old); cbn; destruct (lookup f fresh); reflexivity.
Qed.

Lemma lookup_dump_keep ii (old fresh : dir) f :
  lookup f (dump_dir ii false old fresh) = match lookup f old with Some c => Some c | None => lookup f fresh end.
Proof.
  unfold dump_dir. rewrite lookup_app, (lookup_filter_key (fun k => negb (has k old))). unfold has.
  destruct (lookup f old); reflexivity.
Qed.

Lemma dump_fresh ii up (fresh : dir) : dump_dir ii up [] fresh = fresh.
Proof. unfold dump_dir. destruct up; cbn; apply filter_all; reflexivity. Qed.

(* no file that a load of an instance reads is a variables file (the only files an instance write leaves as they are) *)
Lemma reads_instance_replaced f : reads_instance f = true -> never_replaced true f = false.
Proof.
  destruct f as [|a f]; [reflexivity|]. intros H.
  destruct (Ascii.eqb a "v") eqn:E.
  - apply Ascii.eqb_eq in E. subst. vm_compute in H. discriminate.
  - unfold never_replaced, is_variables_file, is_platform_variables, starts_with.
    change (String.eqb (String a f) "variables.conf") with (Ascii.eqb a "v" && String.eqb f "ariables.conf").
    change (prefixb "variables.d/" (String a f)) with (if Ascii.eqb a "v" then prefixb "ariables.d/" f else false).
    rewrite E. reflexivity.
Qed.

(* Writing with update_existing=True into a directory that holds ANY earlier files: every file the load reads has the content
   the last write gives it; a file the last write does not produce is read only if it is not a stage file of the flavour (nor,
   for a package, an experiment*.conf / variables.d/*.conf file) - the files an instance inherits from its package (output.conf,
   status.conf) and nothing else.  In particular the stage files a load discovers are exactly the stage files of the last write. *)
Theorem rewrite_last_wins ii (old fresh : dir) f :
  reads ii f = true ->
  lookup f (dump_dir ii true old fresh) =
  match lookup f fresh with Some c => Some c | None => if cleaned ii f then None else lookup f old end.
Proof.
  intros R. apply lookup_dump_update. destruct ii; [|reflexivity]. exact (reads_instance_replaced f R).
Qed.

Corollary rewrite_stage_files (old fresh : dir) f :
  is_instance_stage f = true -> lookup f (dump_dir true true old fresh) = lookup f fresh.
Proof.
  intros S. rewrite rewrite_last_wins.
  - cbn [cleaned]. rewrite S. destruct (lookup f fresh); reflexivity.
  - cbn [reads]. unfold reads_instance. rewrite S. destruct (String.eqb f "experiment.instance.conf"); reflexivity.
Qed.
