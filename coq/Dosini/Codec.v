(* C19 — the legacy sectioned-file (DOSINI) format: value codecs and the table-driven writer/reader.

   The per-option translation is DATA (coq/Dosini/Generated.v, measured on the code under test on every
   run); this file is the table-independent part of the model:
   - the values an option can hold and the three renderings used by the writers
     (Dosini._comp_*_to_*: str(v), str(v).lower(), ' '.join(v)),
   - the six conversions used by the reader (Dosini.parse_component: as is, value_to_int, value_to_float,
     value_to_bool, value.split(), value_to_memorybytes),
   - dump of one component to the entries of its section (Dosini._flowir_component_to_dict +
     configuration_for_stage) and parse of a section back to a component (Dosini.parse_component),
     both generic in the tables. *)
From Coq Require Import String Ascii List Bool ZArith NArith Lia.
Require Import V.Lib.PyStr V.Lib.JTree.
Import ListNotations.
Open Scope string_scope.

(* ---- values of component options (YAML scalars and lists of words) *)
Inductive val :=
  | VStr (s : string)
  | VInt (z : Z)
  | VBool (b : bool)
  | VFlt (r : string)            (* a float, by its Python repr; floats are opaque *)
  | VList (l : list string).

(* renderings: str(v); str(v).lower(); str(v).lower() for booleans and str(v) otherwise; ' '.join(v) *)
Inductive dcodec := DStr | DLower | DBool | DJoin.
Inductive pcodec := PStr | PInt | PFloat | PBool | PList | PMem.

Definition drow := (string * (string * dcodec))%type.
Definition prow := (string * (string * pcodec * list (string * val)))%type.

(* ---- str(int) / int(str) *)
Definition zstr (z : Z) : string :=
  match z with
  | Z0 => "0"
  | Zpos p => dec (Npos p)
  | Zneg p => String "-" (dec (Npos p))
  end.

(* the literals generated here: an optional minus sign and decimal digits (Python's int() also accepts
   surrounding blanks, '+', and '_' separators: not modelled, never generated) *)
Definition int_lit (s : string) : option Z :=
  match s with
  | String a r => if Ascii.eqb a "-" then option_map (fun n => Z.opp (Z.of_N n)) (undec r)
                  else option_map Z.of_N (undec s)
  | EmptyString => None
  end.

(* ---- the VariableFormat regular expression of dosini.py: re.match("%\([.A-Za-z_0-9-]+\)s", s) *)
Definition is_lower (a : ascii) : bool := let n := nat_of_ascii a in Nat.leb 97 n && Nat.leb n 122.
Definition is_name_char (a : ascii) : bool :=
  is_digit a || is_upper a || is_lower a || Ascii.eqb a "." || Ascii.eqb a "_" || Ascii.eqb a "-".

(* after at least one name character: more name characters, then ")s" *)
Fixpoint ref_tail (s : string) : bool :=
  match s with
  | String a r => if is_name_char a then ref_tail r
                  else Ascii.eqb a ")" && match r with String b _ => Ascii.eqb b "s" | _ => false end
  | EmptyString => false
  end.

Definition isref (s : string) : bool :=
  match s with
  | String a (String b (String c r)) => Ascii.eqb a "%" && Ascii.eqb b "(" && is_name_char c && ref_tail r
  | _ => false
  end.

(* ---- floats: repr(float(s)) for the plain decimal literals written by str(int) and str(float)
   (no exponent, no inf/nan: not generated).  "7" -> "7.0", "2.5" -> "2.5", "-0.125" -> "-0.125". *)
Definition all_digits (s : string) : bool :=
  match s with EmptyString => false | _ => all_chars is_digit s end.

Definition unsigned_float_norm (s : string) : option string :=
  match split1 "." s with
  | None => if all_digits s then Some (s ++ ".0") else None
  | Some (i, f) => if all_digits i && all_digits f then Some s else None
  end.

Definition float_norm (s : string) : option string :=
  match s with
  | String a r => if Ascii.eqb a "-" then option_map (String "-") (unsigned_float_norm r)
                  else unsigned_float_norm s
  | EmptyString => None
  end.

(* ---- booleans: value.lower() in yes/true/false/no *)
Definition bool_word (s : string) : option bool :=
  let l := lower s in
  if String.eqb l "yes" || String.eqb l "true" then Some true
  else if String.eqb l "no" || String.eqb l "false" then Some false
  else None.

(* ---- FlowIR.memory_to_bytes accepts: int(value), or int(value[:-2]) with the suffix Mi / Gi *)
Definition memok (s : string) : bool :=
  match int_lit s with
  | Some _ => true
  | None => match rev_str s with
            | String a (String b r) =>
                Ascii.eqb a "i" && (Ascii.eqb b "M" || Ascii.eqb b "G") &&
                match int_lit (rev_str r) with Some _ => true | None => false end
            | _ => false
            end
  end.

(* ---- str.split(): maximal runs of non-blank characters *)
Definition is_ws (a : ascii) : bool :=
  let n := nat_of_ascii a in Nat.eqb n 32 || (Nat.leb 9 n && Nat.leb n 13) || (Nat.leb 28 n && Nat.leb n 31).

Definition flush (acc : string) (l : list string) : list string :=
  match acc with EmptyString => l | _ => acc :: l end.

Fixpoint words_aux (acc : string) (s : string) : list string :=
  match s with
  | EmptyString => flush acc []
  | String a r => if is_ws a then flush acc (words_aux "" r)
                  else words_aux (acc ++ String a "") r
  end.
Definition words (s : string) : list string := words_aux "" s.

(* ---- the writers: how a value is rendered.  None = outside the model (Python would print the repr of
   a list, or raise TypeError on ' '.join of a scalar). *)
Definition pystr (v : val) : option string :=
  match v with
  | VStr s => Some s
  | VInt z => Some (zstr z)
  | VBool true => Some "True"
  | VBool false => Some "False"
  | VFlt r => Some r
  | VList _ => None
  end.

Definition encv (d : dcodec) (v : val) : option string :=
  match d with
  | DStr => pystr v
  | DLower => option_map lower (pystr v)
  | DBool => match v with VBool true => Some "true" | VBool false => Some "false" | _ => pystr v end
  | DJoin => match v with VList l => Some (join " " l) | _ => None end
  end.

(* ---- the reader: value_to_int / value_to_float / value_to_bool / value_to_memorybytes convert, and keep
   the text when the conversion fails but the text starts with a variable reference; None = the
   InvalidValueForConstant exception.  (dosini.py also keeps texts matching IndexAccess, ".+\[(\d+|%\(\S+\)s)\]":
   not modelled, never generated.) *)
Definition keep_ref (s : string) : option val := if isref s then Some (VStr s) else None.

Definition decv (p : pcodec) (s : string) : option val :=
  match p with
  | PStr => Some (VStr s)
  | PInt => match int_lit s with Some z => Some (VInt z) | None => keep_ref s end
  | PFloat => match float_norm s with Some r => Some (VFlt r) | None => keep_ref s end
  | PBool => match bool_word s with Some b => Some (VBool b) | None => keep_ref s end
  | PList => Some (VList (words s))
  | PMem => if memok s then Some (VStr s) else keep_ref s
  end.

(* ---- components: the options that are set (None = not set, the writers skip None), the variables *)
Record comp := mkComp { opts : list (string * val); vars : list (string * string) }.
Definition ini := list (string * string).

Definition mem (k : string) (l : list string) : bool := existsb (String.eqb k) l.

(* one option -> its entries; an option without a row is silently not written *)
Definition dump_opt (dt : list drow) (o : string * val) : option ini :=
  match lookup (fst o) dt with
  | None => Some []
  | Some (ik, d) => match encv d (snd o) with Some s => Some [(ik, s)] | None => None end
  end.

Fixpoint traverse {A B} (f : A -> option (list B)) (l : list A) : option (list B) :=
  match l with
  | [] => Some []
  | x :: r => match f x, traverse f r with
              | Some a, Some b => Some (a ++ b)%list
              | _, _ => None
              end
  end.

(* Dosini._flowir_component_to_dict: the variables (values already text: cfg.set(.., str(v))) and the
   rendered options share one section *)
Definition dump_comp (dt : list drow) (c : comp) : option ini :=
  match traverse (dump_opt dt) (opts c) with
  | Some l => Some (l ++ vars c)%list
  | None => None
  end.

(* Dosini.parse_component: a key of known_flowir_options() is removed from the variables and handled by
   the branch recorded in its row (no row: no branch matches, the value is lost); any other key stays a
   variable *)
Definition parse_entry (pt : list prow) (known : list string) (e : string * string)
  : option (list (string * val) * list (string * string)) :=
  if mem (fst e) known then
    match lookup (fst e) pt with
    | Some (path, p, extra) =>
        match decv p (snd e) with Some v => Some ((path, v) :: extra, []) | None => None end
    | None => Some ([], [])
    end
  else Some ([], [e]).

Fixpoint parse_ini (pt : list prow) (known : list string) (i : ini) : option comp :=
  match i with
  | [] => Some (mkComp [] [])
  | e :: r => match parse_entry pt known e, parse_ini pt known r with
              | Some (o, v), Some c => Some (mkComp (o ++ opts c) (v ++ vars c))%list
              | _, _ => None
              end
  end.

Definition roundtrip (dt : list drow) (pt : list prow) (known : list string) (c : comp) : option comp :=
  match dump_comp dt c with Some i => parse_ini pt known i | None => None end.

(* ---- the domain on which a (writer, reader) pair of codecs is the identity *)
Definition is_none {A} (o : option A) : bool := match o with None => true | Some _ => false end.
Definition word_ok (w : string) : bool :=
  match w with EmptyString => false | _ => all_chars (fun a => negb (is_ws a)) w end.

Definition wf_valb (d : dcodec) (p : pcodec) (v : val) : bool :=
  match d, p, v with
  | DStr, PStr, VStr _ => true
  | DStr, PInt, VInt _ => true
  | DStr, PInt, VStr s => isref s && is_none (int_lit s)
  | DStr, PFloat, VFlt r => match float_norm r with Some r' => String.eqb r' r | None => false end
  | DStr, PFloat, VStr s => isref s && is_none (float_norm s)
  | DStr, PBool, VBool _ => true
  | DLower, PBool, VBool _ => true
  | DLower, PBool, VStr s => isref s && String.eqb (lower s) s && is_none (bool_word s)
  | DStr, PBool, VStr s => isref s && is_none (bool_word s)
  | DBool, PBool, VBool _ => true
  | DBool, PBool, VStr s => isref s && is_none (bool_word s)
  | DJoin, PList, VList l => forallb word_ok l
  | DStr, PMem, VStr s => memok s || isref s
  | _, _, _ => false
  end.

(* a writer/reader pair that is the identity on everything the reader can produce: typed constants and
   kept variable references.  (DLower, PBool) is NOT such a pair: lower-casing changes the name of a
   referenced variable. *)
Definition compat (d : dcodec) (p : pcodec) : bool :=
  match d, p with
  | DStr, PStr | DStr, PInt | DStr, PFloat | DStr, PBool | DBool, PBool | DJoin, PList | DStr, PMem => true
  | _, _ => false
  end.

(* ---- the check on the tables: every written option is read back under the same FlowIR path by a
   compatible conversion, its ini key is one the reader recognises, and no two
   options share an ini key or a path *)
Fixpoint nodupb (l : list string) : bool :=
  match l with [] => true | x :: r => negb (mem x r) && nodupb r end.

Definition row_ok (pt : list prow) (known : list string) (r : drow) : bool :=
  let '(path, (ik, d)) := r in
  mem ik known &&
  match lookup ik pt with
  | Some (path', p, _) => String.eqb path' path && compat d p
  | None => false
  end.

Definition tables_ok (dt : list drow) (pt : list prow) (known : list string) : bool :=
  forallb (row_ok pt known) dt && nodupb (map (fun r => fst (snd r)) dt) && nodupb (map fst dt).

(* first written option that is not read back (the witness of a broken table) *)
Definition first_bad_row (dt : list drow) (pt : list prow) (known : list string) : option drow :=
  List.find (fun r => negb (row_ok pt known r)) dt.

(* ---- equality up to the order of entries (Python dicts) *)
Definition val_eqb (a b : val) : bool :=
  match a, b with
  | VStr x, VStr y => String.eqb x y
  | VInt x, VInt y => Z.eqb x y
  | VBool x, VBool y => Bool.eqb x y
  | VFlt x, VFlt y => String.eqb x y
  | VList x, VList y => if list_eq_dec string_dec x y then true else false
  | _, _ => false
  end.

Definition sub_al {A} (eqb : A -> A -> bool) (a b : list (string * A)) : bool :=
  forallb (fun kv => match lookup (fst kv) b with Some w => eqb (snd kv) w | None => false end) a.

Definition al_eqb {A} (eqb : A -> A -> bool) (a b : list (string * A)) : bool :=
  Nat.eqb (length a) (length b) && sub_al eqb a b && sub_al eqb b a.

Definition comp_eqb (a b : comp) : bool :=
  al_eqb val_eqb (opts a) (opts b) && al_eqb String.eqb (vars a) (vars b).
