(* C19 — the configparser text layer of the DOSINI files, as the code configures it.

   dosini.py builds every file through FlowConfigParser = configparser.ConfigParser with
     strict=False, allow_no_value=False, delimiters ('=', ':'), comment_prefixes ('#', ';'), no inline
     comment prefixes, empty_lines_in_values=True, default_section 'DEFAULT', optionxform = identity
     (keys keep their case), interpolation = BasicInterpolation: ON for cfg.set (before_set validates
     the '%' syntax and raises ValueError), OFF for reading (FlowConfigParser.get has raw=True).
   The writers call cfg.add_section(name), cfg.set(name, key, str(value)) and cfg.write(file); the
   readers call cfg.read([path]) and then cfg.sections()/options()/get(raw=True).

   This file is the executable model of
     - RawConfigParser.write/_write_section: the text produced for a table of sections,
     - BasicInterpolation.before_set: the validation of a value,
     - text-mode file iteration (universal newlines) + RawConfigParser._read + _join_multiline_values:
       the table read from ANY text (None = MissingSectionHeaderError / ParsingError).
   Strings are byte strings; blanks are the ASCII characters of str.isspace (Codec.is_ws). *)
From Coq Require Import String Ascii List Bool Arith.
Require Import V.Lib.PyStr V.Lib.JTree V.Dosini.Codec.
Import ListNotations.
Open Scope string_scope.

Definition is_nl (a : ascii) : bool := Ascii.eqb a "010"%char.
Definition is_cr (a : ascii) : bool := Ascii.eqb a "013"%char.
Definition NL : string := String "010"%char "".
Definition TAB : ascii := "009"%char.

(* a table: sections in file order, each with its entries in file order *)
Definition entries := list (string * string).
Definition table := list (string * entries).

(* ------------------------------------------------------------------ the writer *)
(* str(value).replace('\n', '\n\t') *)
Fixpoint indent (v : string) : string :=
  match v with
  | EmptyString => EmptyString
  | String a r => if is_nl a then String "010"%char (String TAB (indent r)) else String a (indent r)
  end.

Fixpoint cat (l : list string) : string :=
  match l with [] => EmptyString | x :: r => x ++ cat r end.

(* fp.write("{}{}\n".format(key, " = " + value)) *)
Definition entry_text (e : string * string) : string := fst e ++ " = " ++ indent (snd e) ++ NL.
(* fp.write("[{}]\n"); entries; fp.write("\n") *)
Definition section_text (s : string * entries) : string :=
  "[" ++ fst s ++ "]" ++ NL ++ cat (map entry_text (snd s)) ++ NL.

(* BasicInterpolation.before_set: tmp = value.replace('%%', ''); tmp = re.sub(r"%\(([^)]+)\)s", '', tmp);
   ValueError when '%' in tmp *)
Fixpoint strip_pp (s : string) : string :=
  match s with
  | EmptyString => EmptyString
  | String a r => match r with
                  | String b r' => if Ascii.eqb a "%" && Ascii.eqb b "%" then strip_pp r'
                                   else String a (strip_pp r)
                  | EmptyString => s
                  end
  end.

(* is every '%' of s the start of a %(name)s with a non-empty name without ')'?
   state 0: outside; 1: after '%'; 2: after '%('; 3: inside the name; 4: after the ')' *)
Fixpoint pct_scan (st : nat) (s : string) : bool :=
  match s with
  | EmptyString => Nat.eqb st 0
  | String a r =>
      match st with
      | 0 => if Ascii.eqb a "%" then pct_scan 1 r else pct_scan 0 r
      | 1 => if Ascii.eqb a "(" then pct_scan 2 r else false
      | 2 => if Ascii.eqb a ")" then false else pct_scan 3 r
      | 3 => if Ascii.eqb a ")" then pct_scan 4 r else pct_scan 3 r
      | _ => if Ascii.eqb a "s" then pct_scan 0 r else false
      end
  end.
Definition set_ok (v : string) : bool := pct_scan 0 (strip_pp v).

(* add_section: ValueError for 'DEFAULT', DuplicateSectionError for a name already added;
   set: ValueError for an invalid '%'.  None = the exception *)
Definition al_mem {A} (k : string) (l : list (string * A)) : bool :=
  existsb (fun e => String.eqb k (fst e)) l.

Fixpoint names_ok (seen : list string) (t : table) : bool :=
  match t with
  | [] => true
  | (n, _) :: r => negb (String.eqb n "DEFAULT") && negb (mem n seen) && names_ok (n :: seen) r
  end.

Definition values_ok (t : table) : bool :=
  forallb (fun s : string * entries => forallb (fun e : string * string => set_ok (snd e)) (snd s)) t.

(* cfg.set('', key, value) stores into the DEFAULTS (`if not section or section == default_section`): the
   entries of a section named '' are written under [DEFAULT], first, and its own section stays empty *)
Definition own_section (s : string * entries) : string * entries :=
  match fst s with EmptyString => (EmptyString, []) | _ => s end.
Definition defaults_text (t : table) : string :=
  match lookup EmptyString t with
  | Some (e :: es) => section_text ("DEFAULT", e :: es)
  | _ => EmptyString
  end.

Definition write_table (t : table) : option string :=
  if names_ok [] t && values_ok t then Some (defaults_text t ++ cat (map (fun s => section_text (own_section s)) t))
  else None.

(* ------------------------------------------------------------------ the reader *)
(* iteration over a file opened in text mode: lines end at \n, \r\n or \r (universal newlines);
   the terminators are not kept (every use of a line strips it first or looks only at its leading blanks) *)
Fixpoint lines (s : string) : list string :=
  match s with
  | EmptyString => []
  | String a r =>
      if is_nl a then EmptyString :: lines r
      else if is_cr a then
        match r with
        | String b _ => if is_nl b then lines r else EmptyString :: lines r
        | EmptyString => [EmptyString]
        end
      else match lines r with
           | [] => [String a EmptyString]
           | l :: ls => String a l :: ls
           end
  end.

Fixpoint lstrip (s : string) : string :=
  match s with
  | EmptyString => EmptyString
  | String a r => if is_ws a then lstrip r else s
  end.

Fixpoint rstrip (s : string) : string :=
  match s with
  | EmptyString => EmptyString
  | String a r => match rstrip r with
                  | EmptyString => if is_ws a then EmptyString else String a EmptyString
                  | r' => String a r'
                  end
  end.

Definition strip (s : string) : string := rstrip (lstrip s).

(* NONSPACECRE.search(line).start() *)
Fixpoint indent_of (s : string) : nat :=
  match s with
  | EmptyString => 0
  | String a r => if is_ws a then S (indent_of r) else 0
  end.

Definition starts_comment (s : string) : bool :=
  match s with
  | String a _ => Ascii.eqb a "#" || Ascii.eqb a ";"
  | EmptyString => false
  end.

(* the text before the last occurrence of c *)
Fixpoint before_last (c : ascii) (s : string) : option string :=
  match s with
  | EmptyString => None
  | String a r => match before_last c r with
                  | Some p => Some (String a p)
                  | None => if Ascii.eqb a c then Some EmptyString else None
                  end
  end.

(* SECTCRE.match(value): \[(?P<header>.+)\]  (greedy, anchored at the start only) *)
Definition sect_header (v : string) : option string :=
  match v with
  | String a r => if Ascii.eqb a "[" then
                    match before_last "]" r with
                    | Some EmptyString => None
                    | o => o
                    end
                  else None
  | EmptyString => None
  end.

(* OPTCRE.match(value): a lazy option group, blanks, the first '=' or ':', blanks, the rest of the line:
   the text is cut at the first delimiter; the caller strips both parts *)
Definition is_delim (a : ascii) : bool := Ascii.eqb a "=" || Ascii.eqb a ":".
Fixpoint split_delim (s : string) : option (string * string) :=
  match s with
  | EmptyString => None
  | String a r => if is_delim a then Some (EmptyString, r)
                  else match split_delim r with
                       | Some (x, y) => Some (String a x, y)
                       | None => None
                       end
  end.

(* dictionaries that keep insertion order *)
Fixpoint al_update {A} (k : string) (f : A -> A) (l : list (string * A)) : list (string * A) :=
  match l with
  | [] => []
  | (k', x) :: r => if String.eqb k k' then (k', f x) :: r else (k', x) :: al_update k f r
  end.

Fixpoint al_set {A} (k : string) (x : A) (l : list (string * A)) : list (string * A) :=
  match l with
  | [] => [(k, x)]
  | (k', y) :: r => if String.eqb k k' then (k', x) :: r else (k', y) :: al_set k x r
  end.

(* the values are lists of lines until the end of the file *)
Definition rentries := list (string * list string).
Record rstate := mkR {
  defs : rentries;                      (* parser._defaults *)
  secs : list (string * rentries);      (* parser._sections *)
  cur : option string;                  (* cursect: the section being filled (DEFAULT = the defaults) *)
  opt : option string;                  (* optname *)
  ind : nat                             (* indent_level *)
}.

Definition upd_cur (f : rentries -> rentries) (s : rstate) : rstate :=
  match cur s with
  | None => s
  | Some n => if String.eqb n "DEFAULT" then mkR (f (defs s)) (secs s) (cur s) (opt s) (ind s)
              else mkR (defs s) (al_update n f (secs s)) (cur s) (opt s) (ind s)
  end.

Definition append_line (o v : string) : rentries -> rentries := al_update o (fun l => (l ++ [v])%list).

(* one iteration of the loop of RawConfigParser._read; None = MissingSectionHeaderError now or
   ParsingError at the end of the file *)
Definition step (s : rstate) (line : string) : option rstate :=
  let v := strip line in
  if starts_comment v then Some s
  else match v with
  | EmptyString =>
      match cur s, opt s with
      | Some _, Some o => Some (upd_cur (append_line o EmptyString) s)
      | _, _ => Some s
      end
  | _ =>
      let ci := indent_of line in
      match cur s, opt s, Nat.ltb (ind s) ci with
      | Some _, Some o, true => Some (upd_cur (append_line o v) s)
      | _, _, _ =>
          match sect_header v with
          | Some n =>
              let secs' := if String.eqb n "DEFAULT" || al_mem n (secs s) then secs s
                           else (secs s ++ [(n, [])])%list in
              Some (mkR (defs s) secs' (Some n) None ci)
          | None =>
              match cur s with
              | None => None
              | Some _ =>
                  match split_delim v with
                  | None => None
                  | Some (o, x) =>
                      match rstrip o with
                      | EmptyString => None
                      | o' => Some (upd_cur (al_set o' [strip x]) (mkR (defs s) (secs s) (cur s) (Some o') ci))
                      end
                  end
              end
          end
      end
  end.

Fixpoint steps (s : rstate) (ls : list string) : option rstate :=
  match ls with
  | [] => Some s
  | l :: r => match step s l with Some s' => steps s' r | None => None end
  end.

(* _join_multiline_values: '\n'.join(lines).rstrip() *)
Definition join_value (e : string * list string) : string * string := (fst e, rstrip (join NL (snd e))).
Definition finish_entries (es : rentries) : entries := map join_value es.
Definition finish (s : rstate) : entries * table :=
  (finish_entries (defs s), map (fun x : string * rentries => (fst x, finish_entries (snd x))) (secs s)).

Definition init : rstate := mkR [] [] None None 0.

(* (defaults, sections) read from a text *)
Definition read_text (txt : string) : option (entries * table) :=
  match steps init (lines txt) with Some s => Some (finish s) | None => None end.

(* ------------------------------------------------------------------ the guard of the round trip *)
(* the lines of a value: (first, others) with '\n'.join(first :: others) = value *)
Fixpoint splitnl (s : string) : string * list string :=
  match s with
  | EmptyString => (EmptyString, [])
  | String a r => let (h, t) := splitnl r in
                  if is_nl a then (EmptyString, h :: t) else (String a h, t)
  end.

(* no blank at either end: l.strip() == l *)
Definition stripped (l : string) : bool :=
  match l with EmptyString => true | String a _ => negb (is_ws a) end && String.eqb (rstrip l) l.
Definition no_break (s : string) : bool := all_chars (fun a => negb (is_nl a) && negb (is_cr a)) s.
Definition no_cr (s : string) : bool := all_chars (fun a => negb (is_cr a)) s.

(* a section name: not empty, on one line (and not DEFAULT, distinct: names_ok) *)
Definition name_ok (n : string) : bool :=
  match n with EmptyString => false | _ => no_break n end.

(* a key: not empty, on one line, no blank at either end, no delimiter, and its first character does not
   make the line a comment or a section header *)
Definition key_ok (k : string) : bool :=
  match k with
  | EmptyString => false
  | String a _ => negb (Ascii.eqb a "#") && negb (Ascii.eqb a ";") && negb (Ascii.eqb a "[") &&
                  stripped k && no_break k && all_chars (fun c => negb (is_delim c)) k
  end.

(* a value: valid '%' syntax, no carriage return, no blank at the end of the text, every line without blanks
   at its ends, and no line after the first starts with a comment prefix *)
Definition value_ok (v : string) : bool :=
  set_ok v && no_cr v && String.eqb (rstrip v) v &&
  let (h, t) := splitnl v in
  stripped h && forallb (fun l => stripped l && negb (starts_comment l)) t.

Definition entries_ok (es : entries) : bool :=
  nodupb (map fst es) && forallb (fun e : string * string => key_ok (fst e) && value_ok (snd e)) es.

Definition table_ok (t : table) : bool :=
  names_ok [] t && forallb (fun s : string * entries => name_ok (fst s) && entries_ok (snd s)) t.

(* ------------------------------------------------------------------ checkers of the correspondence *)
Fixpoint list_eqb {A} (eqb : A -> A -> bool) (a b : list A) : bool :=
  match a, b with
  | [], [] => true
  | x :: a', y :: b' => eqb x y && list_eqb eqb a' b'
  | _, _ => false
  end.
Definition entry_eqb (a b : string * string) : bool := String.eqb (fst a) (fst b) && String.eqb (snd a) (snd b).
Definition entries_eqb : entries -> entries -> bool := list_eqb entry_eqb.
Definition table_eqb : table -> table -> bool :=
  list_eqb (fun a b => String.eqb (fst a) (fst b) && entries_eqb (snd a) (snd b)).
Definition read_eqb (a b : option (entries * table)) : bool :=
  match a, b with
  | Some (d, t), Some (d', t') => entries_eqb d d' && table_eqb t t'
  | None, None => true
  | _, _ => false
  end.
Definition ostr_eqb (a b : option string) : bool :=
  match a, b with Some x, Some y => String.eqb x y | None, None => true | _, _ => false end.

(* case = (table handed to add_section/set/write, text of the file or None when set/add_section raised,
   what cfg.read + sections()/options()/get(raw) gave for that file or None when reading raised).
   The model must give the same text and the same table read from it; and inside the guard the table read
   is the table written. *)
Definition check_text_case (x : table * option string * option (entries * table)) : bool :=
  let '(t, txt, back) := x in
  ostr_eqb (write_table t) txt &&
  match txt with
  | Some s => read_eqb (read_text s) back
  | None => match back with None => true | Some _ => false end
  end &&
  (negb (table_ok t) || read_eqb back (Some ([], t))).

(* case = (any text, what the real reader gave for it) *)
Definition check_read_case (x : string * option (entries * table)) : bool :=
  read_eqb (read_text (fst x)) (snd x).

(* the verdict of the guard, to be compared with its Python mirror *)
Definition check_guard_case (x : table * bool) : bool := Bool.eqb (table_ok (fst x)) (snd x).
