(* C19 — proofs about Render.v: the render of the code as it stands (private copy first) leaves every object that was alive
   before it as it was, returns the section of the pure model (Codec.dump_comp of the options that are set), and so n renders
   of one description object return n times the same section. *)
From Coq Require Import String Ascii List Bool Arith Lia.
Require Import V.Lib.PyStr V.Lib.JTree V.Dosini.Codec V.Dosini.Generated V.Dosini.Model V.Dosini.Render.
Import ListNotations.
Open Scope string_scope.
Open Scope list_scope.

Lemma sset_length s j o : length (sset s j o) = length s.
Proof. revert j; induction s as [|x r IH]; intros [|j]; cbn; auto. Qed.

Lemma sget_sset_other s j o i : i <> j -> sget (sset s j o) i = sget s i.
Proof.
  unfold sget. revert j i; induction s as [|x r IH]; intros [|j] [|i] H; cbn; auto; try congruence.
Qed.

Lemma loop_other dt keys : forall s j acc i, i <> j -> sget (snd (loop dt keys s j acc)) i = sget s i.
Proof.
  induction keys as [|[k v] r IH]; intros s j acc i H; cbn [loop]; [reflexivity|].
  rewrite IH by assumption. apply sget_sset_other; assumption.
Qed.

Lemma loop_length dt keys : forall s j acc, length (snd (loop dt keys s j acc)) = length s.
Proof.
  induction keys as [|[k v] r IH]; intros s j acc; cbn [loop]; [reflexivity|].
  rewrite IH. apply sset_length.
Qed.

Lemma loop_fst dt keys : forall s j acc,
  fst (loop dt keys s j acc) =
  match acc, traverse (dump_opt dt) (set_cells keys) with Some a, Some b => Some (a ++ b) | _, _ => None end.
Proof.
  induction keys as [|[k v] r IH]; intros s j acc; cbn [loop].
  - cbn. destruct acc; [rewrite app_nil_r|]; reflexivity.
  - rewrite IH. destruct v as [v|]; cbn [set_cells flat_map snd fst app traverse].
    + change (flat_map _ r) with (set_cells r).
      destruct acc as [a|]; [|destruct (dump_opt dt (k, v)), (traverse (dump_opt dt) (set_cells r)); reflexivity].
      destruct (dump_opt dt (k, v)) as [e|]; [|reflexivity].
      destruct (traverse (dump_opt dt) (set_cells r)) as [b|]; [|reflexivity].
      rewrite app_assoc. reflexivity.
    + reflexivity.
Qed.

Lemma traverse_filter dt o :
  traverse (dump_opt dt) (set_cells (filter (has_row dt) (filter not_none o))) = traverse (dump_opt dt) (set_cells o).
Proof.
  induction o as [|[k [v|]] r IH]; [reflexivity| |exact IH].
  cbn [filter not_none snd is_none negb]. unfold has_row at 1. cbn [fst].
  destruct (lookup k dt) as [row|] eqn:E.
  - cbn [set_cells flat_map snd fst app traverse].
    change (flat_map _ (filter (has_row dt) (filter not_none r))) with (set_cells (filter (has_row dt) (filter not_none r))).
    change (flat_map _ r) with (set_cells r). rewrite IH. reflexivity.
  - cbn [set_cells flat_map snd fst app traverse].
    change (flat_map _ r) with (set_cells r).
    unfold dump_opt at 2. cbn [fst]. rewrite E. rewrite IH.
    destruct (traverse (dump_opt dt) (set_cells r)); reflexivity.
Qed.

Lemma sget_app_old s o k : k < length s -> sget (s ++ [o]) k = sget s k.
Proof. intros H. unfold sget. apply app_nth1. assumption. Qed.

Lemma sget_app_new s o : sget (s ++ [o]) (length s) = o.
Proof. unfold sget. rewrite app_nth2 by lia. rewrite Nat.sub_diag. reflexivity. Qed.

(* one render of the code as it stands *)
Lemma translate_copy dt s i :
  fst (translate true dt s i) = traverse (dump_opt dt) (set_cells (sget s i)) /\
  (forall k, k < length s -> sget (snd (translate true dt s i)) k = sget s k) /\
  length s <= length (snd (translate true dt s i)).
Proof.
  unfold translate, salloc. rewrite sget_app_new. split; [|split].
  - rewrite loop_fst. cbn [app]. rewrite traverse_filter.
    destruct (traverse (dump_opt dt) (set_cells (sget s i))); reflexivity.
  - intros k Hk. rewrite loop_other by lia. apply sget_app_old. assumption.
  - rewrite loop_length, app_length. lia.
Qed.

Lemma render_copy dt s i vs :
  fst (render true dt s i vs) = dump_comp dt (mkComp (set_cells (sget s i)) vs) /\
  (forall k, k < length s -> sget (snd (render true dt s i vs)) k = sget s k) /\
  length s <= length (snd (render true dt s i vs)).
Proof.
  destruct (translate_copy dt s i) as [F [K L]]. unfold render.
  destruct (translate true dt s i) as [r s'] eqn:E. cbn [fst snd] in *. subst r.
  unfold dump_comp. cbn [opts vars]. auto.
Qed.

(* n renders of one description object: n times the section of the pure model, the description as it was *)
Theorem render_seq_copy dt n : forall s i vs, i < length s ->
  fst (render_seq true dt n s i vs) = repeat (dump_comp dt (mkComp (set_cells (sget s i)) vs)) n /\
  (forall k, k < length s -> sget (snd (render_seq true dt n s i vs)) k = sget s k) /\
  length s <= length (snd (render_seq true dt n s i vs)).
Proof.
  induction n as [|m IH]; intros s i vs Hi; cbn [render_seq repeat].
  - cbn. auto.
  - destruct (render_copy dt s i vs) as [F [K L]].
    destruct (render true dt s i vs) as [r s1] eqn:E. cbn [fst snd] in *.
    assert (Hi1 : i < length s1) by lia.
    destruct (IH s1 i vs Hi1) as [F2 [K2 L2]].
    destruct (render_seq true dt m s1 i vs) as [rs s2] eqn:E2. cbn [fst snd] in *.
    split; [|split].
    + rewrite F, F2, (K i Hi). reflexivity.
    + intros k Hk. rewrite K2 by lia. apply K. assumption.
    + lia.
Qed.

(* every section written by a sequence of renders of one description object loads like the description *)
Theorem render_seq_roundtrip n s i vs : i < length s ->
  Forall (fun r : option ini => match r with Some sec => parse_c sec | None => None end =
                                roundtrip_c (mkComp (set_cells (sget s i)) vs))
         (fst (render_seq true dump_table n s i vs)).
Proof.
  intros H. destruct (render_seq_copy dump_table n s i vs H) as [F _]. rewrite F.
  apply Forall_forall. intros x Hx. apply repeat_spec in Hx. subst x.
  unfold roundtrip_c, roundtrip, parse_c. destruct (dump_comp dump_table _); reflexivity.
Qed.
