(* C19 — The legacy configuration format round-trips an instance: property theorems. *)
From Coq Require Import String List Bool ZArith.
Require Import V.Lib.PyStr V.Lib.JTree V.Dosini.Codec V.Dosini.Generated V.Dosini.Model V.Dosini.Proofs V.Dosini.Tables
  V.Dosini.Text V.Dosini.TextProofs V.Dosini.FileProofs V.Dosini.Stages V.Dosini.Envs V.Dosini.EnvsProofs V.Dosini.Backends
  V.Dosini.Rewrite V.Dosini.RewriteProofs V.Dosini.Render V.Dosini.RenderProofs.
Import ListNotations.
Open Scope string_scope.

(* On the tables measured on the code under test at this run: every option the writers emit is read back
   under the same FlowIR path, by a conversion that inverts the writer's rendering, under a key the reader
   recognises; and no two options are written under one ini key. *)
Theorem C19_tables_inverse :
  (forall path ik d, In (path, (ik, d)) dump_table ->
     In ik known_keys /\ exists p ex, lookup ik parse_table = Some (path, p, ex) /\ compat d p = true) /\
  (forall r1 r2 : drow, In r1 dump_table -> In r2 dump_table -> fst (snd r1) = fst (snd r2) -> r1 = r2) /\
  dropped_keys = [].
Proof.
  split; [|split].
  - exact (tables_ok_rows _ _ _ measured_tables_ok).
  - intros r1 r2 H1 H2 E.
    exact (NoDup_map_inj _ _ _ _ (proj1 (tables_ok_keys _ _ _ measured_tables_ok)) H1 H2 E).
  - exact measured_nothing_dropped.
Qed.
Print Assumptions C19_tables_inverse.

(* The converse direction, on the measured tables: every option the reader can store (it has an ini key for it) is
   written by the writers when it is the only option of a component, under that very key.  Together with
   C19_tables_inverse the two tables are inverse bijections; with C19_component (the model writes every option on its own,
   whatever else the component sets, and the correspondence compares the real writers with it on every subset of every
   group of options) no option depends on the presence of another one. *)
Theorem C19_reader_options_written :
  forall ik path p ex, In (ik, (path, p, ex)) parse_table -> exists d, lookup path dump_table = Some (ik, d).
Proof. exact reader_rows_written. Qed.
Print Assumptions C19_reader_options_written.

(* Stage indices spelled as text (Stages.v): the `stages` entry of an output (','.join of 'stage%d') is read back
   (split(','), strip, drop empty items, int(item[5:])) as the list that was written, for EVERY list of natural numbers -
   any length, any number of digits; and the section name 'STAGE%d' of status.conf gives back its index. *)
Theorem C19_output_stages : forall l, read_stages (write_stages l) = Some l.
Proof. exact stages_roundtrip. Qed.
Print Assumptions C19_output_stages.

Theorem C19_stage_names :
  forall n, stage_index (stage_name n) = Some n /\ status_index (status_name n) = Some n.
Proof. intros n. split; [apply stage_index_name|apply status_index_name]. Qed.
Print Assumptions C19_stage_names.

(* Each (writer, reader) pair of codecs is the identity on its domain [wf_valb]: any text; every integer
   (str / int through the decimal printer of Lib.PyStr); floats in plain decimal notation; booleans
   (true/false); lists of non-empty blank-free words (' '.join / split); memory sizes; and, for every typed
   option, a text that starts with a variable reference and is not itself a literal of the type. *)
Theorem C19_codecs :
  forall d p v, wf_valb d p v = true -> exists s, encv d v = Some s /\ decv p s = Some v.
Proof. exact codec_roundtrip. Qed.
Print Assumptions C19_codecs.

Theorem C19_codecs_constants :
  (forall z, decv PInt (zstr z) = Some (VInt z)) /\
  (forall b, exists s, encv DBool (VBool b) = Some s /\ decv PBool s = Some (VBool b)) /\
  (forall l, forallb word_ok l = true -> decv PList (join " " l) = Some (VList l)) /\
  (forall s, decv PStr s = Some (VStr s)).
Proof.
  repeat split.
  - intros z. cbn. rewrite int_lit_zstr. reflexivity.
  - intros b. exact (codec_roundtrip DBool PBool (VBool b) eq_refl).
  - intros l H. cbn. rewrite words_join by exact H. reflexivity.
Qed.
Print Assumptions C19_codecs_constants.

(* For ANY pair of tables that passes the check, and any component whose options are written by some row
   with values in the codec domain and whose variable names are not option keys: parsing the dumped
   section gives the component back, extended with the options the reader derives on the side. *)
Theorem C19_component_tables :
  forall dt pt known c, tables_ok dt pt known = true -> wf_comp dt pt known c = true ->
    roundtrip dt pt known c = Some (normal dt pt c).
Proof. exact roundtrip_normal. Qed.
Print Assumptions C19_component_tables.

(* With the measured tables: parse (dump c) = c for every component that uses only expressible options
   (written by a row whose reader derives nothing else) with values in the codec domain. *)
Theorem C19_component :
  forall c, wf_comp dump_table parse_table known_keys c = true ->
    forallb (fun o => expressible (fst o)) (opts c) = true ->
    roundtrip_c c = Some c.
Proof.
  intros c W E. apply (roundtrip_identity _ _ _ _ measured_tables_ok W).
  rewrite forallb_forall in *. intros o Ho. specialize (E o Ho).
  unfold expressible in E. unfold derived.
  destruct (lookup (fst o) dump_table) as [[ik d]|]; [|reflexivity].
  destruct (lookup ik parse_table) as [[[pa p] ex]|]; [|reflexivity].
  destruct ex; [reflexivity|discriminate].
Qed.
Print Assumptions C19_component.

(* the one measured option whose reader derives something: repeat-interval also sets isRepeat *)
Theorem C19_component_derived :
  forall c, wf_comp dump_table parse_table known_keys c = true ->
    roundtrip_c c = Some (normal dump_table parse_table c).
Proof. intros c W. exact (roundtrip_normal _ _ _ _ measured_tables_ok W). Qed.
Print Assumptions C19_component_derived.

(* the limits of the format: an option without a writer is silently lost *)
Theorem C19_inexpressible_lost :
  forall p v, In p inexpressible -> roundtrip_c (mkComp [(p, v)] []) = Some (mkComp [] []).
Proof.
  intros p v H. pose proof measured_inexpressible as M. rewrite forallb_forall in M.
  specialize (M p H). unfold roundtrip_c, roundtrip, dump_comp, dump_opt. cbn [opts traverse fst snd].
  destruct (lookup p dump_table); [discriminate|reflexivity].
Qed.
Print Assumptions C19_inexpressible_lost.

(* The configparser text layer (Text.v: the file written by add_section/set/write of the FlowConfigParser, and
   the tables the FlowConfigParser reads from any text).  For EVERY table of sections inside the guard
     - section names: distinct, not DEFAULT, not empty, on one line;
     - keys of a section: distinct, not empty, on one line, no blank at either end, no '=' or ':', first character
       none of '#' ';' '[';
     - values: every '%' is '%%' or starts a %(name)s (cfg.set validates interpolation syntax), no carriage return,
       no blank at the end of the text, no blank at either end of any line, no line after the first starts with
       '#' or ';' (empty lines, '=' ':' '[' '#' inside a line, a first line starting with '#' are all allowed);
   the writer succeeds and the reader, run on the written text, returns no defaults and exactly the table: same
   sections in the same order, same keys (case kept) in the same order, same multi-line values. *)
Theorem C19_text_roundtrip :
  forall t, table_ok t = true -> exists txt, write_table t = Some txt /\ read_text txt = Some ([], t).
Proof. exact text_roundtrip. Qed.
Print Assumptions C19_text_roundtrip.

(* what the reader sees of a written file is its lines: for any table whose names, keys and values respect the
   line discipline, the lines of the written text are, section by section, the header, for every entry the first
   line `key = first` and one tab-indented line per further line of the value, and an empty line *)
Theorem C19_text_lines :
  forall t, sections_ok t = true -> lines (cat (map section_text t)) = flat_map section_lines t.
Proof. exact lines_table. Qed.
Print Assumptions C19_text_lines.

(* The environment file (experiment.instance.conf): for EVERY set of environments - any number of them, each with any number
   of variables, ZERO included - with names distinct ignoring case and none called SANDBOX, and lists of application
   dependencies / virtual environments whose items are non-empty, comma-free and blank-free at their ends: when the sections
   the writer produces are inside the guard of the text layer, writing the file (Text.write_table), reading the text
   (Text.read_text), environment_to_dict and parse_environment_dicts give the document back with its environment names
   upper-cased - same environments, same order of variables, same two lists.  An environment without variables is written as a
   section without entries and comes back as an environment without variables. *)
Theorem C19_environments_through_file :
  forall r t, root_ok r = true -> write_root r = Some t -> table_ok t = true -> root_via_file r = Some (upper_names r).
Proof. exact root_roundtrip. Qed.
Print Assumptions C19_environments_through_file.

Theorem C19_empty_environment_kept :
  forall r t n, root_ok r = true -> write_root r = Some t -> table_ok t = true -> In (n, []) (r_envs r) ->
  exists r', root_via_file r = Some r' /\ In (upper n, []) (r_envs r') /\ length (r_envs r') = length (r_envs r).
Proof. exact empty_environment_kept. Qed.
Print Assumptions C19_empty_environment_kept.

(* Backend-specific options, on the tables measured at this run: every name Dosini.options_for_backend lists for any backend
   the code knows (Generated.backend_options) is either not a key of the format - then it is a plain variable of the component
   and is read back as that variable with its text, for every text - or a key with a reader row whose option the writers emit
   under that very key (so C19_component covers it). *)
Theorem C19_backend_options :
  forall b ns n, In (b, ns) backend_options -> In n ns ->
  (mem n known_keys = false /\ forall v, parse_c [(n, v)] = Some (mkComp [] [(n, v)])) \/
  (exists path p ex d, lookup n parse_table = Some (path, p, ex) /\ lookup path dump_table = Some (n, d)).
Proof. exact backend_options_survive. Qed.
Print Assumptions C19_backend_options.

(* Several loads in one process: in the model a load is a function of the section alone - the result of the k-th load of a
   sequence is the result of that load on its own.  (The code under test is held to this by stream P of the correspondence.) *)
Theorem C19_loads_independent :
  forall before i after, nth_error (load_seq (before ++ i :: after)) (length before) = Some (parse_c i).
Proof. exact loads_independent. Qed.
Print Assumptions C19_loads_independent.

(* non-vacuity: a component of every value kind, a reference held by an int, a float and a bool option,
   and two variables; it satisfies the hypotheses of C19_component and round-trips by computation *)
Definition example_comp : comp :=
  mkComp [("references", VList ["stage0.A:ref"; "data/f.txt:copy"]);
          ("command.executable", VStr "bin/run.sh"); ("command.arguments", VStr "-n %(n)s  A:ref");
          ("command.resolvePath", VStr "%(DoResolve)s");
          ("workflowAttributes.maxRestarts", VInt (-1)); ("workflowAttributes.replicate", VStr "%(n)s");
          ("workflowAttributes.aggregate", VBool true);
          ("workflowAttributes.shutdownOn", VList ["KnownIssue"; "SystemIssue"]);
          ("resourceManager.config.walltime", VFlt "480.0"); ("resourceManager.lsf.statusRequestInterval", VStr "%(sri)s");
          ("resourceRequest.numberProcesses", VInt 16); ("resourceRequest.memory", VStr "2Gi");
          ("executors.post.lsf-dm-out.payload", VStr "all")]
         [("george", "of the jungle"); ("n", "3")].

(* The two layers composed, for one component of a stage file (measured tables): when the section written for
   the component (its variables, then its rendered options) is inside the guard of the text layer, writing the
   file, reading the text and parsing the section gives the component back. *)
Theorem C19_component_through_file :
  forall name c i,
    wf_comp dump_table parse_table known_keys c = true ->
    forallb (fun o => expressible (fst o)) (opts c) = true ->
    file_section c = Some i -> table_ok [(name, i)] = true ->
    via_file name c = Some c.
Proof. exact via_file_identity. Qed.
Print Assumptions C19_component_through_file.

(* TYPED variables (Rewrite.v).  The [META] section of a stage file of an instance: for EVERY set of global variables and of
   variables of the stage whose values are scalars of any type (text, int, float, bool - a YAML variables file keeps the YAML
   type), the section is written, holds exactly the names of the two sets, and gives for every name the text str(value) of the
   value the name resolves to in the description that was written (the variable of the stage, else the global one): True is
   stored as True, 3 as 3, 0.05 as 0.05, the text true as true. *)
Theorem C19_meta_variables :
  forall g s, forallb (fun kv => scalar (snd kv)) g = true -> forallb (fun kv => scalar (snd kv)) s = true ->
    exists i, meta_section true g s = Some i /\ map fst i = map fst (update g s) /\
              forall n, lookup n i = text_of (resolved g s n).
Proof. exact meta_resolves. Qed.
Print Assumptions C19_meta_variables.

(* composed with the text layer: when the section is inside the guard of C19_text_roundtrip the reader of the stage file sees it *)
Theorem C19_meta_through_file :
  forall g s i, meta_section true g s = Some i -> table_ok [("META", i)] = true -> meta_via_file true g s = Some i.
Proof. exact meta_through_file. Qed.
Print Assumptions C19_meta_through_file.

(* The configuration DIRECTORY over a sequence of writes (Rewrite.v).  Whatever files the directory held before
   Dosini.dump(.., update_existing=True) - the files of an earlier description with more stages, more components, other
   platforms, anything - every file a load reads afterwards has the content the last write gives it; a file the last write does
   not produce is read only when it is none of the files the cleanup removes (for an instance: output.conf / status.conf, which
   an instance inherits from its package).  C19_rewrite_stage_files: the stage files a load of an instance discovers are exactly
   the stage files of the last write.  C19_write_keeps_existing: with update_existing=False a file that exists is kept and a
   missing one is written.  C19_write_into_empty_directory: into an empty directory both modes write the same files. *)
Theorem C19_rewrite_last_wins :
  forall is_instance old fresh f, reads is_instance f = true ->
    lookup f (dump_dir is_instance true old fresh) =
    match lookup f fresh with Some c => Some c | None => if cleaned is_instance f then None else lookup f old end.
Proof. exact rewrite_last_wins. Qed.
Print Assumptions C19_rewrite_last_wins.

Theorem C19_rewrite_stage_files :
  forall old fresh f, is_instance_stage f = true -> lookup f (dump_dir true true old fresh) = lookup f fresh.
Proof. exact rewrite_stage_files. Qed.
Print Assumptions C19_rewrite_stage_files.

Theorem C19_write_keeps_existing :
  forall is_instance old fresh f,
    lookup f (dump_dir is_instance false old fresh) = match lookup f old with Some c => Some c | None => lookup f fresh end.
Proof. exact lookup_dump_keep. Qed.
Print Assumptions C19_write_keeps_existing.

Theorem C19_write_into_empty_directory : forall is_instance update fresh, dump_dir is_instance update [] fresh = fresh.
Proof. exact dump_fresh. Qed.
Print Assumptions C19_write_into_empty_directory.

(* an instance of three stages re-written with two: variables of every type at both scopes *)
Definition example_globals : tvars := [("restart", VBool true); ("n", VInt 4); ("tolerance", VFlt "0.05"); ("mode", VStr "true")].
Definition example_stage_vars : tvars := [("verbose", VBool false); ("n", VStr "007")].
Definition example_old_dir : dir :=
  [("experiment.instance.conf", "e1"); ("stages.d/stage0.instance.conf", "a1"); ("stages.d/stage1.instance.conf", "b1");
   ("stages.d/stage2.instance.conf", "c1"); ("stages.d/stage0.conf", "p0"); ("variables.conf", "v1"); ("output.conf", "o1")].
Definition example_new_files : dir :=
  [("experiment.instance.conf", "e2"); ("variables.conf", "v2"); ("stages.d/stage0.instance.conf", "a2");
   ("stages.d/stage1.instance.conf", "b2")].


(* ---- one description OBJECT written several times (Render.v).  Dosini.configuration_for_stage / _flowir_component_to_dict are
   handed the dictionaries of the description itself; _translate_dict_to_dict deletes the entries it has rendered from a private
   copy.  For EVERY store of objects, every description object of it, every number n of renders one after the other: each render
   returns the section of the pure model (dump_c of the options that are set: a cell holding None is not written) and every
   object alive before the renders - the description first of all - is afterwards what it was. *)
Theorem C19_render_keeps_description : forall n (s : store) i vs, i < length s ->
  fst (render_seq true dump_table n s i vs) = repeat (dump_c (mkComp (set_cells (sget s i)) vs)) n /\
  (forall k, k < length s -> sget (snd (render_seq true dump_table n s i vs)) k = sget s k).
Proof. intros n s i vs H. destruct (render_seq_copy dump_table n s i vs H) as [A [B _]]. split; assumption. Qed.
Print Assumptions C19_render_keeps_description.

(* ... hence every one of the sections, the second and the n-th like the first, loads like the description *)
Theorem C19_every_render_round_trips : forall n (s : store) i vs, i < length s ->
  Forall (fun r : option ini => match r with Some sec => parse_c sec | None => None end =
                                roundtrip_c (mkComp (set_cells (sget s i)) vs))
         (fst (render_seq true dump_table n s i vs)).
Proof. exact render_seq_roundtrip. Qed.
Print Assumptions C19_every_render_round_trips.

(* a table inside the guard of C19_text_roundtrip: a [META] section and two components; a value of five lines
   (an empty one, lines that look like an entry, a section header and an inline comment), a first line that
   starts with '#', keys in mixed case, %(name)s references and an escaped '%%' *)
Definition example_table : table :=
  [("META", [("n", "3"); ("Wall", "30.0")]);
   ("Gen", [("executable", "bin/run.sh");
            ("arguments", String.concat NL ["-n %(n)s  A:ref"; ""; "k = v"; "[x] # no comment"; "100%% : done"]);
            ("Mixed_Case", "#first"); ("job-type", "lsf")]);
   ("a]b", [])].

Definition example_cells : obj := [("command.executable", Some (VStr "echo")); ("command.arguments", None)].

Definition example_root : root :=
  mkRoot [("clean", []); ("gpu-env", [("PATH", "/opt/bin:$PATH"); ("DEFAULTS", "PATH:LD_LIBRARY_PATH")]); ("Bare", [])]
         ["App.application"; "b.application"] ["venvs/one"].

Example C19_example :
  wf_comp dump_table parse_table known_keys example_comp = true /\
  forallb (fun o => expressible (fst o)) (opts example_comp) = true /\
  roundtrip_c example_comp = Some example_comp /\
  roundtrip_c (mkComp [("workflowAttributes.repeatInterval", VFlt "2.5")] []) =
    Some (mkComp [("workflowAttributes.repeatInterval", VFlt "2.5"); ("workflowAttributes.isRepeat", VBool true)] []) /\
  table_ok example_table = true /\
  match write_table example_table with Some txt => read_text txt | None => None end = Some ([], example_table) /\
  match file_section example_comp with Some i => table_ok [("Gen", i)] | None => false end = true /\
  via_file "Gen" example_comp = Some example_comp /\
  (* the executors are independent options: a stage-in without a stage-out, a docker executor alone *)
  roundtrip_c (mkComp [("executors.pre.lsf-dm-in.payload", VStr "data/in.txt")] []) =
    Some (mkComp [("executors.pre.lsf-dm-in.payload", VStr "data/in.txt")] []) /\
  roundtrip_c (mkComp [("executors.main.docker.docker-image", VStr "repo/img:1"); ("executors.pre.lsf-dm-in.payload", VStr "all")] []) =
    Some (mkComp [("executors.main.docker.docker-image", VStr "repo/img:1"); ("executors.pre.lsf-dm-in.payload", VStr "all")] []) /\
  (* stage indices of one and two digits *)
  write_stages [2; 10; 11]%N = "stage2,stage10,stage11" /\
  read_stages "stage2, Stage10 ,,STAGE11" = Some [2; 10; 11]%N /\
  status_index "STAGE12" = Some 12%N /\
  (* environments: two without variables (one of them the only content of its kind), names in mixed case, both lists *)
  root_ok example_root = true /\
  match write_root example_root with Some t => table_ok t | None => false end = true /\
  write_root example_root =
    Some [("SANDBOX", [("applications", "App.application,b.application"); ("virtualenvs", "venvs/one")]);
          ("ENV-CLEAN", []); ("ENV-GPU-ENV", [("PATH", "/opt/bin:$PATH"); ("DEFAULTS", "PATH:LD_LIBRARY_PATH")]); ("ENV-BARE", [])] /\
  root_via_file example_root = Some (upper_names example_root) /\
  root_via_file (mkRoot [("clean", [])] [] []) = Some (mkRoot [("CLEAN", [])] [] []) /\
  (* a backend option that the format keeps as a variable, loaded after a component of that backend *)
  existsb (fun b => negb (forallb (fun n => mem n known_keys) (snd b))) backend_options = true /\
  nth_error (load_seq [[("job-type", "simulator"); ("sim_expected_exit_code", "1")]; [("sim_expected_exit_code", "24 0")]]) 1 =
    Some (Some (mkComp [] [("sim_expected_exit_code", "24 0")])) /\
  (* typed variables in the META section of an instance; the directory of an instance re-written with fewer stages *)
  forallb (fun kv => scalar (snd kv)) (example_globals ++ example_stage_vars)%list = true /\
  meta_section true example_globals example_stage_vars =
    Some [("restart", "True"); ("n", "007"); ("tolerance", "0.05"); ("mode", "true"); ("verbose", "False")] /\
  meta_via_file true example_globals example_stage_vars = meta_section true example_globals example_stage_vars /\
  seen true (dump_dir true true example_old_dir example_new_files) =
    [("experiment.instance.conf", "e2"); ("output.conf", "o1"); ("stages.d/stage0.instance.conf", "a2"); ("stages.d/stage1.instance.conf", "b2")] /\
  lookup "variables.conf" (dump_dir true true example_old_dir example_new_files) = Some "v1" /\
  lookup "stages.d/stage2.instance.conf" (dump_dir true false example_old_dir example_new_files) = Some "c1" /\
  (* one description object rendered twice: the same section both times, the object keeps its options (the one holding None too) *)
  fst (render_seq true dump_table 2 [example_cells] 0 [("v", "1")]) =
    [Some [("executable", "echo"); ("v", "1")]; Some [("executable", "echo"); ("v", "1")]] /\
  sget (snd (render_seq true dump_table 2 [example_cells] 0 [("v", "1")])) 0 = example_cells /\
  set_cells example_cells = [("command.executable", VStr "echo")].
Proof. vm_compute. repeat split; reflexivity. Qed.
