(* C19 — the two layers composed: the section of a component written into a stage file, read back from the
   text by the configparser layer (Text.v) and parsed by the reader of the options (Codec.v). *)
From Coq Require Import String Ascii List Bool ZArith.
Require Import V.Lib.PyStr V.Lib.JTree V.Dosini.Codec V.Dosini.Generated V.Dosini.Text V.Dosini.Model
  V.Dosini.Proofs V.Dosini.Tables V.Dosini.TextProofs.
Import ListNotations.
Open Scope string_scope.

(* inside the guard of the text layer the file is transparent: the reader of the options sees the entries
   that were written *)
Theorem via_file_transparent name c i :
  file_section c = Some i -> table_ok [(name, i)] = true -> via_file name c = parse_c i.
Proof.
  intros Hs Hg. unfold via_file. rewrite Hs.
  destruct (text_roundtrip _ Hg) as [txt [Hw Hr]]. rewrite Hw, Hr.
  cbn [lookup]. rewrite String.eqb_refl. reflexivity.
Qed.

Local Open Scope list_scope.
Theorem via_file_identity name c i :
  wf_comp dump_table parse_table known_keys c = true ->
  forallb (fun o => expressible (fst o)) (opts c) = true ->
  file_section c = Some i -> table_ok [(name, i)] = true ->
  via_file name c = Some c.
Proof.
  intros W E Hs Hg. rewrite (via_file_transparent name c i Hs Hg).
  unfold wf_comp in W. apply andb_true_iff in W as [Wo Wv].
  destruct (roundtrip_opts dump_table parse_table known_keys (opts c) measured_tables_ok Wo) as [l [Hl Hp]].
  unfold file_section in Hs. rewrite Hl in Hs. injection Hs as <-.
  unfold parse_c. rewrite parse_app, Hp, (parse_vars _ _ _ Wv). cbn [opts vars app]. rewrite app_nil_r.
  assert (N : forallb (fun o => match derived dump_table parse_table o with [] => true | _ => false end) (opts c) = true).
  { rewrite forallb_forall in *. intros o Ho. specialize (E o Ho).
    unfold expressible in E. unfold derived.
    destruct (lookup (fst o) dump_table) as [[ik d]|]; [|reflexivity].
    destruct (lookup ik parse_table) as [[[pa p] ex]|]; [|reflexivity].
    destruct ex; [reflexivity|discriminate]. }
  rewrite (flat_map_no_derived _ _ _ N). destruct c; reflexivity.
Qed.
