(* C19 — rendering a description in the legacy format as an OPERATION ON ONE OBJECT.

   Dosini.configuration_for_stage(flowir, n) (public: FlowIRExperimentConfiguration.configurationForStage and Dosini.dump go
   through it) and Dosini._flowir_component_to_dict(comp) are handed the dictionaries of the description itself, not a copy.
   Every option writer (_comp_command_to_dict, _comp_resource_manager_to_str, _comp_resource_request_to_dict,
   _comp_workflow_attributes_to_dict) goes through Dosini._translate_dict_to_dict(field, required, optional), which

       field = {key: field[key] for key in field if field[key] is not None}      (a NEW dictionary: the private copy)
       for key in set(optional) & set(field):  ret.update(optional[key](key, field[key]));  del field[key]

   i.e. it DELETES the entries it has rendered - from its private copy.  The dictionaries alive during a render are modelled
   as a store of objects addressed by position; the description is object [i]; the private copy is allocated at the end of
   the store; `del` updates the object the local name `field` is bound to.  That the description is the same after the render
   (and so a second render, or Dosini.dump of the same object, writes the same files) is then a theorem about the code as it
   stands (RenderProofs.v), and false of the variant without the private copy (Refuted.v).

   Abstraction: the nested dictionaries of one component (command, resourceManager.config/.lsf/.kubernetes, resourceRequest,
   workflowAttributes[.optimizer/.memoization[.disable]]) are one object holding the dotted option paths; an option whose value
   is None is a cell holding None. *)
From Coq Require Import String Ascii List Bool Arith.
Require Import V.Lib.PyStr V.Lib.JTree V.Dosini.Codec V.Dosini.Generated V.Dosini.Model.
Import ListNotations.
Open Scope string_scope.
Open Scope list_scope.

Definition cell := (string * option val)%type.
Definition obj := list cell.
Definition store := list obj.

Definition sget (s : store) (i : nat) : obj := nth i s [].
Fixpoint sset (s : store) (i : nat) (o : obj) : store :=
  match s, i with
  | [], _ => []
  | _ :: r, O => o :: r
  | x :: r, S j => x :: sset r j o
  end.
Definition salloc (s : store) (o : obj) : store * nat := (s ++ [o], length s).

Definition del_key (k : string) (o : obj) : obj := filter (fun c => negb (String.eqb (fst c) k)) o.
Definition not_none (c : cell) : bool := negb (is_none (snd c)).
(* the options that are set: what the description means (Codec.comp holds no None) *)
Definition set_cells (o : obj) : list (string * val) :=
  flat_map (fun c => match snd c with Some v => [(fst c, v)] | None => [] end) o.
Definition has_row (dt : list drow) (c : cell) : bool :=
  match lookup (fst c) dt with Some _ => true | None => false end.

(* the loop of _translate_dict_to_dict over the keys computed before it starts (optional & field); [j] is the object the local
   name `field` is bound to.  A value None is skipped (after the private copy there is none). *)
Fixpoint loop (dt : list drow) (keys : list cell) (s : store) (j : nat) (acc : option ini) : option ini * store :=
  match keys with
  | [] => (acc, s)
  | (k, v) :: r =>
      let acc' := match v with
                  | Some v => match acc, dump_opt dt (k, v) with Some a, Some e => Some (a ++ e) | _, _ => None end
                  | None => acc
                  end in
      loop dt r (sset s j (del_key k (sget s j))) j acc'
  end.

(* copy = true: the code as it stands *)
Definition translate (copy : bool) (dt : list drow) (s : store) (i : nat) : option ini * store :=
  let '(s1, j) := if copy then salloc s (filter not_none (sget s i)) else (s, i) in
  loop dt (filter (has_row dt) (sget s1 j)) s1 j (Some []).

(* Dosini._flowir_component_to_dict: comp_dict = deepcopy(variables), updated with what the writers extract *)
Definition render (copy : bool) (dt : list drow) (s : store) (i : nat) (vs : list (string * string)) : option ini * store :=
  let '(r, s') := translate copy dt s i in
  (match r with Some l => Some (l ++ vs) | None => None end, s').

(* n renders of the SAME description object, one after the other: the sections written, the store afterwards *)
Fixpoint render_seq (copy : bool) (dt : list drow) (n : nat) (s : store) (i : nat) (vs : list (string * string))
  : list (option ini) * store :=
  match n with
  | O => ([], s)
  | S m => let '(r, s1) := render copy dt s i vs in
           let '(rs, s2) := render_seq copy dt m s1 i vs in (r :: rs, s2)
  end.

(* ---- correspondence: (cells of the component handed to the writers - None included -, its variables, number of renders,
   the sections the real Dosini._flowir_component_to_dict / Dosini.configuration_for_stage returned one after the other, the
   cells of the SAME component object afterwards) *)
Definition cell_eqb (a b : option val) : bool :=
  match a, b with
  | Some x, Some y => val_eqb x y
  | None, None => true
  | _, _ => false
  end.
Definition check_render_case (x : obj * list (string * string) * nat * list (option ini) * obj) : bool :=
  let '(o, vs, n, outs, after) := x in
  let '(rs, s') := render_seq true dump_table n [o] 0 vs in
  Nat.eqb (length rs) (length outs) &&
  forallb (fun p : option ini * option ini =>
             match fst p, snd p with
             | Some a, Some b => al_eqb String.eqb a b
             | None, None => true
             | _, _ => false
             end) (combine rs outs) &&
  al_eqb cell_eqb (sget s' 0) after.
