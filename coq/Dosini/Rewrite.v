(* C19 — two parts of the instance-level structure of the legacy format (total computable definitions):

   1. TYPED variables and the [META] section of a stage file.  The values of FlowIR variables are YAML scalars (text, int,
      float, bool: a variables file layered with conf._patch_in_variable_files keeps the YAML type, FlowIR built by a program);
      a reference %(name)s resolves to str(value).  Dosini.configuration_for_stage stores, for an instance, the global
      variables updated with the variables of the stage (copy.deepcopy(global_variables); .update(stage_variables)) in the
      section META with cfg.set(META, name, str(value)); for a package the stage variables alone.  The variables of a component
      share the section of the component, also rendered with str (Dosini._flowir_component_to_dict + cfg.set(.., str(v))).

   2. The configuration DIRECTORY over a sequence of writes.  Dosini.dump writes into a directory that may already hold the files
      of an earlier description.  A directory is modelled as the list (relative file name, content); [dump_dir] is the directory
      after Dosini.dump(flowir, dir, update_existing, is_instance) given the directory before and the files the same call writes
      into an EMPTY directory (for an instance: a directory holding nothing but the variables files of the directory before, which an
      instance never rewrites and whose writing changes what the stage files hold, see check_meta_case):
        update_existing=True : "do a cleanup first" - stage files of the flavour being written (stages.d/stage*.instance.conf for
            an instance, the other stages.d/stage*.conf for a package) and, for a package, experiment*.conf and every
            variables.d/*.conf are removed; then every file is written, except that an instance never overwrites a variables
            file (variables.conf, variables.d/<platform>.conf) that exists;
        update_existing=False: a file that exists is kept as it is, the missing ones are written.
      What Dosini.load_from_directory(dir, is_instance=True) reads: experiment.instance.conf, stages.d/stage*.instance.conf
      (glob), output.conf, status.conf [reads_instance]; for a package: experiment*.conf, the other stage files, variables.conf,
      variables.d/*.conf, output.conf, status.conf [reads_package]. *)
From Coq Require Import String Ascii List Bool ZArith.
Require Import V.Lib.PyStr V.Lib.JTree V.Dosini.Codec V.Dosini.Text.
Import ListNotations.
Open Scope string_scope.
Local Open Scope list_scope.

(* ------------------------------------------------------------------ 1. typed variables *)
Definition tvars := list (string * val).

Definition has {A} (k : string) (m : list (string * A)) : bool :=
  match lookup k m with Some _ => true | None => false end.

(* a.update(b) for dictionaries (distinct keys): the keys of a keep their place and take the value of b when b has the
   key; the new keys of b follow in the order of b *)
Definition update {A} (a b : list (string * A)) : list (string * A) :=
  map (fun kv => (fst kv, match lookup (fst kv) b with Some w => w | None => snd kv end)) a ++
  filter (fun kv => negb (has (fst kv) a)) b.

(* cfg.set(section, name, str(value)); a list is no value of a variable (FlowIR rejects it) *)
Fixpoint render_vars (l : tvars) : option ini :=
  match l with
  | [] => Some []
  | (k, v) :: r => match pystr v, render_vars r with
                   | Some s, Some i => Some ((k, s) :: i)
                   | _, _ => None
                   end
  end.

Definition scalar (v : val) : bool := match v with VList _ => false | _ => true end.

Definition meta_vars (is_instance : bool) (g s : tvars) : tvars := if is_instance then update g s else s.
Definition meta_section (is_instance : bool) (g s : tvars) : option ini := render_vars (meta_vars is_instance g s).

(* what a reference %(n)s of a component of the stage resolves to in the description that is written: the variable of the
   stage, else the global one *)
Definition resolved (g s : tvars) (n : string) : option val :=
  match lookup n s with Some v => Some v | None => lookup n g end.

Definition text_of (o : option val) : option string := match o with Some v => pystr v | None => None end.

(* the META section through the text layer: written with add_section/set/write, read back from the text.  A stage without
   any variable has no META section *)
Definition meta_via_file (is_instance : bool) (g s : tvars) : option ini :=
  match meta_section is_instance g s with
  | Some [] => Some []
  | Some i => match write_table [("META", i)] with
              | Some txt => match read_text txt with
                            | Some (_, t') => lookup "META" t'
                            | None => None
                            end
              | None => None
              end
  | None => None
  end.

(* case = (global variables, variables of the stage, blueprint entries, entries of [META] read from the stage file of the instance).
   Blueprint entries: the write that also writes variables.conf (the first one into a directory) folds the options of the blueprint of
   the stage, rendered by the writers of the options, into the variables of the stage of the description it was handed
   (this_stage.update(..) in Dosini._dump_variables acts on the dictionary of the description); a later write, which leaves the
   variables file alone, does not.  Empty for every write but the first. *)
Definition check_meta_case (x : tvars * tvars * tvars * option ini) : bool :=
  let '(g, s, b, o) := x in
  match meta_via_file true g (update s b), o with
  | Some i, Some j => al_eqb String.eqb i j
  | None, None => true
  | _, _ => false
  end.

(* ------------------------------------------------------------------ 2. the directory over a sequence of writes *)
Definition dir := list (string * string).

Definition ends_with (suffix s : string) : bool := prefixb (rev_str suffix) (rev_str s).
Definition starts_with (p s : string) : bool := prefixb p s.

Definition is_stage_file (f : string) : bool := starts_with "stages.d/stage" f && ends_with ".conf" f.
Definition is_instance_stage (f : string) : bool := is_stage_file f && ends_with ".instance.conf" f.
Definition is_package_stage (f : string) : bool := is_stage_file f && negb (ends_with ".instance.conf" f).
Definition is_experiment_file (f : string) : bool :=
  starts_with "experiment" f && ends_with ".conf" f && negb (occurs "/" f).
Definition is_platform_variables (f : string) : bool := starts_with "variables.d/" f && ends_with ".conf" f.
Definition is_variables_file (f : string) : bool := String.eqb f "variables.conf" || is_platform_variables f.

(* the files the cleanup of Dosini.dump(update_existing=True) removes *)
Definition cleaned (is_instance : bool) (f : string) : bool :=
  if is_instance then is_instance_stage f
  else is_package_stage f || is_experiment_file f || is_platform_variables f.

(* the files a write never replaces although update_existing is set *)
Definition never_replaced (is_instance : bool) (f : string) : bool := is_instance && is_variables_file f.

(* old files first (those that survive, with the content they end with), then the new files *)
Definition dump_dir (is_instance update : bool) (old fresh : dir) : dir :=
  if update then
    let kept := filter (fun e => negb (cleaned is_instance (fst e))) old in
    map (fun e => (fst e, if never_replaced is_instance (fst e) then snd e
                          else match lookup (fst e) fresh with Some c => c | None => snd e end)) kept ++
    filter (fun e => negb (has (fst e) kept)) fresh
  else
    old ++ filter (fun e => negb (has (fst e) old)) fresh.

Definition reads_instance (f : string) : bool :=
  String.eqb f "experiment.instance.conf" || is_instance_stage f || String.eqb f "output.conf" || String.eqb f "status.conf".
Definition reads_package (f : string) : bool :=
  (is_experiment_file f && negb (String.eqb f "experiment.instance.conf")) || is_package_stage f || is_variables_file f ||
  String.eqb f "output.conf" || String.eqb f "status.conf".
Definition reads (is_instance : bool) (f : string) : bool := if is_instance then reads_instance f else reads_package f.

(* what a load sees of a directory *)
Definition seen (is_instance : bool) (d : dir) : dir := filter (fun e => reads is_instance (fst e)) d.

(* the same write WITHOUT the cleanup (every file written over what exists): the model of a dump that forgets it *)
Definition overwrite_dir (is_instance : bool) (old fresh : dir) : dir :=
  map (fun e => (fst e, if never_replaced is_instance (fst e) then snd e
                        else match lookup (fst e) fresh with Some c => c | None => snd e end)) old ++
  filter (fun e => negb (has (fst e) old)) fresh.

(* case = (is_instance, update_existing, directory before, files of the same write into an empty directory,
   directory after); contents are compared by their digests *)
Definition check_dir_case (x : bool * bool * dir * dir * dir) : bool :=
  let '(ii, up, old, fresh, after) := x in al_eqb String.eqb (dump_dir ii up old fresh) after.
