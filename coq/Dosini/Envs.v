(* C19 — the environment file of an instance (experiment.instance.conf / experiment.conf) and the readers that turn the
   sections of a file into dictionaries.

   Writer: Dosini._dump_experiment_root_conf — a [SANDBOX] section holding `applications` / `virtualenvs` (','.join of the
   lists; only when the list is not empty) followed by one section [ENV-<NAME upper-cased>] per environment, holding the
   variables of the environment IN ORDER; an environment WITHOUT variables is a section without entries.
   Readers: environment_to_dict (one dictionary per section of the file, created when the section is met - not when its first
   option is stored - so that a section without options is an empty dictionary; options of [DEFAULT] are substituted: the
   writer never emits a [DEFAULT] section and the model covers files without defaults only), then
   Dosini.parse_environment_dicts (ENV- prefix dropped, SANDBOX / ENVIRONMENT kept under their name; a dictionary, so a later
   section of the same name replaces an earlier one in place; `applications` split(','), strip, empty items dropped;
   `virtualenvs` split(','), strip; the SANDBOX entry is then removed).

   The text layer in between is Text.v (write_table / read_text); table_ok admits sections without entries. *)
From Coq Require Import String Ascii List Bool.
Require Import V.Lib.PyStr V.Lib.JTree V.Dosini.Codec V.Dosini.Text V.Dosini.Stages.
Import ListNotations.
Open Scope string_scope.

Definition upper_ascii (a : ascii) : ascii := if is_lower a then ascii_of_nat (nat_of_ascii a - 32) else a.
Fixpoint upper (s : string) : string :=
  match s with EmptyString => EmptyString | String a r => String (upper_ascii a) (upper r) end.

(* what the property observes of the file: the environments (name, variables in order), the application dependencies and
   the virtual environments of the default platform *)
Record root := mkRoot { r_envs : list (string * entries); r_apps : list string; r_venvs : list string }.

Definition nonnil {A} (l : list A) : bool := match l with [] => false | _ => true end.

Definition sandbox_settings (r : root) : entries :=
  ((if nonnil (r_apps r) then [("applications", join "," (r_apps r))] else []) ++
   (if nonnil (r_venvs r) then [("virtualenvs", join "," (r_venvs r))] else []))%list.

Definition env_section (e : string * entries) : string * entries := ("ENV-" ++ upper (fst e), snd e).

(* _dump_experiment_root_conf, for documents without an environment called SANDBOX (the format reserves the name; such a
   document is outside the model: None) *)
Definition write_root (r : root) : option table :=
  if al_mem "SANDBOX" (r_envs r) then None
  else Some ((match sandbox_settings r with [] => [] | s => [("SANDBOX", s)] end) ++ map env_section (r_envs r))%list.

(* environment_to_dict on what the configparser layer read: (defaults, sections) *)
Definition env_to_dict (f : entries * table) : option table :=
  match fst f with
  | [] => Some (filter (fun s => negb (String.eqb (fst s) "DEFAULT")) (snd f))
  | _ => None          (* substitution of [DEFAULT] options: not modelled, never written *)
  end.

Definition virtual_section (n : string) : bool := String.eqb (upper n) "SANDBOX" || String.eqb (upper n) "ENVIRONMENT".

Fixpoint collect_envs (t : table) (acc : list (string * entries)) : option (list (string * entries)) :=
  match t with
  | [] => Some acc
  | (n, es) :: r =>
      if prefixb "ENV-" (upper n) then collect_envs r (al_set (drop 4 n) es acc)
      else if virtual_section n then collect_envs r (al_set n es acc)
      else None          (* Exception('Invalid name for environment') *)
  end.

Definition comma_items (v : string) : list string := map strip (split_on "," v).

(* parse_environment_dicts for the default platform *)
Definition parse_envs (t : table) : option root :=
  match collect_envs t [] with
  | None => None
  | Some envs =>
      match lookup "SANDBOX" envs with
      | None => Some (mkRoot envs [] [])
      | Some sb =>
          Some (mkRoot (filter (fun e => negb (String.eqb (fst e) "SANDBOX")) envs)
                       (match lookup "applications" sb with Some v => filter nonempty (comma_items v) | None => [] end)
                       (match lookup "virtualenvs" sb with Some v => comma_items v | None => [] end))
      end
  end.

(* the whole path: document -> sections -> text -> sections -> dictionaries -> document *)
Definition root_via_file (r : root) : option root :=
  match write_root r with
  | Some t => match write_table t with
              | Some txt => match read_text txt with
                            | Some f => match env_to_dict f with Some d => parse_envs d | None => None end
                            | None => None
                            end
              | None => None
              end
  | None => None
  end.

(* what a document becomes: the names of the environments upper-cased (FlowIR looks environments up ignoring case) *)
Definition upper_names (r : root) : root :=
  mkRoot (map (fun e => (upper (fst e), snd e)) (r_envs r)) (r_apps r) (r_venvs r).

(* the guard of the round trip: names distinct ignoring case and none of them SANDBOX; items of the two lists not empty,
   without a comma, without blanks at their ends *)
Definition item_ok (w : string) : bool :=
  nonempty w && all_chars (fun a => negb (Ascii.eqb a ",")) w && String.eqb (strip w) w.
Definition root_ok (r : root) : bool :=
  nodupb (map (fun e => upper (fst e)) (r_envs r)) &&
  negb (mem "SANDBOX" (map (fun e => upper (fst e)) (r_envs r))) &&
  forallb item_ok (r_apps r) && forallb item_ok (r_venvs r).

(* ------------------------------------------------------------------ checkers of the correspondence *)
Definition slist_eqb : list string -> list string -> bool := list_eqb String.eqb.
Definition root_eqb (a b : root) : bool :=
  table_eqb (r_envs a) (r_envs b) && slist_eqb (r_apps a) (r_apps b) && slist_eqb (r_venvs a) (r_venvs b).
Definition oroot_eqb (a b : option root) : bool :=
  match a, b with Some x, Some y => root_eqb x y | None, None => true | _, _ => false end.
Definition otable_eqb (a b : option table) : bool :=
  match a, b with Some x, Some y => table_eqb x y | None, None => true | _, _ => false end.

(* case = (document, sections of the file written by _dump_experiment_root_conf as the real configparser reader gives them
   back (None = the writer or the reader raised), what environment_to_dict + parse_environment_dicts make of the file) *)
Definition sections_via_text (r : root) : option table :=
  match write_root r with
  | Some t0 => match write_table t0 with
               | Some txt => match read_text txt with Some f => Some (snd f) | None => None end
               | None => None
               end
  | None => None
  end.
Definition check_env_case (x : root * option table * option root) : bool :=
  let '(r, t, o) := x in
  otable_eqb (sections_via_text r) t && oroot_eqb (root_via_file r) o &&
  (if root_ok r && match write_root r with Some t => table_ok t | None => false end
   then oroot_eqb o (Some (upper_names r)) && otable_eqb (write_root r) t else true).

(* case = ((defaults, sections) read by the configparser layer from a file without defaults, result of environment_to_dict) *)
Definition check_dict_case (x : (entries * table) * option table) : bool :=
  otable_eqb (env_to_dict (fst x)) (snd x).
