(* GENERATED on every run of ./check C19 by harness/c19_gen.py from the code under test.
   The committed copy only lets setup.sh build the development; it is never the source of truth:
   harness/c19.py re-measures both tables and rewrites this file before the proofs are built. *)
From Coq Require Import String List ZArith.
Import ListNotations.
Require Import V.Dosini.Codec.
Open Scope string_scope.

(* FlowIR option path, (ini key, rendering applied by the writer) *)
Definition dump_table : list drow :=
  [
   ("references"%string, ("references"%string, DJoin));
   ("workflowAttributes.restartHookFile"%string, ("restart-hook-file"%string, DStr));
   ("workflowAttributes.aggregate"%string, ("aggregate"%string, DBool));
   ("workflowAttributes.replicate"%string, ("replicate"%string, DStr));
   ("workflowAttributes.isMigratable"%string, ("isMigratable"%string, DBool));
   ("workflowAttributes.repeatInterval"%string, ("repeat-interval"%string, DStr));
   ("workflowAttributes.repeatRetries"%string, ("repeatRetries"%string, DStr));
   ("workflowAttributes.maxRestarts"%string, ("max-restarts"%string, DStr));
   ("workflowAttributes.shutdownOn"%string, ("shutdown-on"%string, DJoin));
   ("workflowAttributes.restartHookOn"%string, ("restart-hook-on"%string, DJoin));
   ("workflowAttributes.memoization.disable.strong"%string, ("memoization-disable-strong"%string, DBool));
   ("workflowAttributes.memoization.disable.fuzzy"%string, ("memoization-disable-fuzzy"%string, DBool));
   ("workflowAttributes.memoization.embeddingFunction"%string, ("memoization-embedding-function"%string, DStr));
   ("workflowAttributes.optimizer.disable"%string, ("optimizerDisable"%string, DBool));
   ("workflowAttributes.optimizer.exploitChance"%string, ("optimizerExploitChance"%string, DStr));
   ("workflowAttributes.optimizer.exploitTarget"%string, ("optimizerExploitTarget"%string, DStr));
   ("workflowAttributes.optimizer.exploitTargetLow"%string, ("optimizerExploitTargetLow"%string, DStr));
   ("workflowAttributes.optimizer.exploitTargetHigh"%string, ("optimizerExploitTargetHigh"%string, DStr));
   ("resourceManager.config.backend"%string, ("job-type"%string, DStr));
   ("resourceManager.config.walltime"%string, ("walltime"%string, DStr));
   ("resourceManager.lsf.statusRequestInterval"%string, ("statusRequestInterval"%string, DStr));
   ("resourceManager.lsf.queue"%string, ("queue"%string, DStr));
   ("resourceManager.lsf.reservation"%string, ("reservation"%string, DStr));
   ("resourceManager.lsf.resourceString"%string, ("resourceString"%string, DStr));
   ("resourceManager.lsf.dockerImage"%string, ("lsf-docker-image"%string, DStr));
   ("resourceManager.lsf.dockerProfileApp"%string, ("lsf-docker-profile-app"%string, DStr));
   ("resourceManager.lsf.dockerOptions"%string, ("lsf-docker-options"%string, DStr));
   ("resourceManager.kubernetes.image"%string, ("k8s-image"%string, DStr));
   ("resourceManager.kubernetes.image-pull-secret"%string, ("k8s-image-pull-secret"%string, DStr));
   ("resourceManager.kubernetes.namespace"%string, ("k8s-namespace"%string, DStr));
   ("resourceManager.kubernetes.api-key-var"%string, ("k8s-api-key-var"%string, DStr));
   ("resourceManager.kubernetes.host"%string, ("k8s-host"%string, DStr));
   ("resourceManager.kubernetes.cpuUnitsPerCore"%string, ("k8s-cpu-units-per-core"%string, DStr));
   ("resourceManager.kubernetes.gracePeriod"%string, ("k8s-grace-period"%string, DStr));
   ("resourceRequest.numberProcesses"%string, ("numberProcesses"%string, DStr));
   ("resourceRequest.numberThreads"%string, ("numberThreads"%string, DStr));
   ("resourceRequest.ranksPerNode"%string, ("ranksPerNode"%string, DStr));
   ("resourceRequest.threadsPerCore"%string, ("threadsPerCore"%string, DStr));
   ("resourceRequest.memory"%string, ("memory"%string, DStr));
   ("command.executable"%string, ("executable"%string, DStr));
   ("command.arguments"%string, ("arguments"%string, DStr));
   ("command.resolvePath"%string, ("resolvePath"%string, DBool));
   ("command.expandArguments"%string, ("expandArguments"%string, DStr));
   ("command.interpreter"%string, ("interpreter"%string, DStr));
   ("executors.main.docker.docker-args"%string, ("docker-args"%string, DStr));
   ("executors.main.docker.docker-image"%string, ("docker-image"%string, DStr));
   ("command.environment"%string, ("environment"%string, DStr));
   ("executors.pre.lsf-dm-in.payload"%string, ("rstage-in"%string, DStr));
   ("executors.post.lsf-dm-out.payload"%string, ("rstage-out"%string, DStr))
  ].

(* ini key, (FlowIR option path, conversion applied by the reader, options derived on the side) *)
Definition parse_table : list prow :=
  [
   ("aggregate"%string, ("workflowAttributes.aggregate"%string, PBool, []));
   ("arguments"%string, ("command.arguments"%string, PStr, []));
   ("docker-args"%string, ("executors.main.docker.docker-args"%string, PStr, []));
   ("docker-image"%string, ("executors.main.docker.docker-image"%string, PStr, []));
   ("environment"%string, ("command.environment"%string, PStr, []));
   ("executable"%string, ("command.executable"%string, PStr, []));
   ("expandArguments"%string, ("command.expandArguments"%string, PStr, []));
   ("interpreter"%string, ("command.interpreter"%string, PStr, []));
   ("isMigratable"%string, ("workflowAttributes.isMigratable"%string, PBool, []));
   ("job-type"%string, ("resourceManager.config.backend"%string, PStr, []));
   ("k8s-api-key-var"%string, ("resourceManager.kubernetes.api-key-var"%string, PStr, []));
   ("k8s-cpu-units-per-core"%string, ("resourceManager.kubernetes.cpuUnitsPerCore"%string, PFloat, []));
   ("k8s-grace-period"%string, ("resourceManager.kubernetes.gracePeriod"%string, PInt, []));
   ("k8s-host"%string, ("resourceManager.kubernetes.host"%string, PStr, []));
   ("k8s-image"%string, ("resourceManager.kubernetes.image"%string, PStr, []));
   ("k8s-image-pull-secret"%string, ("resourceManager.kubernetes.image-pull-secret"%string, PStr, []));
   ("k8s-namespace"%string, ("resourceManager.kubernetes.namespace"%string, PStr, []));
   ("lsf-docker-image"%string, ("resourceManager.lsf.dockerImage"%string, PStr, []));
   ("lsf-docker-options"%string, ("resourceManager.lsf.dockerOptions"%string, PStr, []));
   ("lsf-docker-profile-app"%string, ("resourceManager.lsf.dockerProfileApp"%string, PStr, []));
   ("max-restarts"%string, ("workflowAttributes.maxRestarts"%string, PInt, []));
   ("memoization-disable-fuzzy"%string, ("workflowAttributes.memoization.disable.fuzzy"%string, PBool, []));
   ("memoization-disable-strong"%string, ("workflowAttributes.memoization.disable.strong"%string, PBool, []));
   ("memoization-embedding-function"%string, ("workflowAttributes.memoization.embeddingFunction"%string, PStr, []));
   ("memory"%string, ("resourceRequest.memory"%string, PMem, []));
   ("numberProcesses"%string, ("resourceRequest.numberProcesses"%string, PInt, []));
   ("numberThreads"%string, ("resourceRequest.numberThreads"%string, PInt, []));
   ("optimizerDisable"%string, ("workflowAttributes.optimizer.disable"%string, PBool, []));
   ("optimizerExploitChance"%string, ("workflowAttributes.optimizer.exploitChance"%string, PFloat, []));
   ("optimizerExploitTarget"%string, ("workflowAttributes.optimizer.exploitTarget"%string, PFloat, []));
   ("optimizerExploitTargetHigh"%string, ("workflowAttributes.optimizer.exploitTargetHigh"%string, PFloat, []));
   ("optimizerExploitTargetLow"%string, ("workflowAttributes.optimizer.exploitTargetLow"%string, PFloat, []));
   ("queue"%string, ("resourceManager.lsf.queue"%string, PStr, []));
   ("ranksPerNode"%string, ("resourceRequest.ranksPerNode"%string, PInt, []));
   ("references"%string, ("references"%string, PList, []));
   ("repeat-interval"%string, ("workflowAttributes.repeatInterval"%string, PFloat, [("workflowAttributes.isRepeat"%string, (VBool true))]));
   ("repeatRetries"%string, ("workflowAttributes.repeatRetries"%string, PInt, []));
   ("replicate"%string, ("workflowAttributes.replicate"%string, PInt, []));
   ("reservation"%string, ("resourceManager.lsf.reservation"%string, PStr, []));
   ("resolvePath"%string, ("command.resolvePath"%string, PBool, []));
   ("resourceString"%string, ("resourceManager.lsf.resourceString"%string, PStr, []));
   ("restart-hook-file"%string, ("workflowAttributes.restartHookFile"%string, PStr, []));
   ("restart-hook-on"%string, ("workflowAttributes.restartHookOn"%string, PList, []));
   ("rstage-in"%string, ("executors.pre.lsf-dm-in.payload"%string, PStr, []));
   ("rstage-out"%string, ("executors.post.lsf-dm-out.payload"%string, PStr, []));
   ("shutdown-on"%string, ("workflowAttributes.shutdownOn"%string, PList, []));
   ("statusRequestInterval"%string, ("resourceManager.lsf.statusRequestInterval"%string, PFloat, []));
   ("threadsPerCore"%string, ("resourceRequest.threadsPerCore"%string, PInt, []));
   ("walltime"%string, ("resourceManager.config.walltime"%string, PFloat, []))
  ].

(* Dosini.known_flowir_options(): keys removed from the section by parse_component *)
Definition known_keys : list string :=
  ["aggregate"%string; "arguments"%string; "docker-args"%string; "docker-image"%string; "environment"%string; "executable"%string; "expandArguments"%string; "interpreter"%string; "isMigratable"%string; "job-type"%string; "k8s-api-key-var"%string; "k8s-cpu-units-per-core"%string; "k8s-grace-period"%string; "k8s-host"%string; "k8s-image"%string; "k8s-image-pull-secret"%string; "k8s-namespace"%string; "lsf-docker-image"%string; "lsf-docker-options"%string; "lsf-docker-profile-app"%string; "max-restarts"%string; "memoization-disable-fuzzy"%string; "memoization-disable-strong"%string; "memoization-embedding-function"%string; "memory"%string; "numberProcesses"%string; "numberThreads"%string; "optimizerDisable"%string; "optimizerExploitChance"%string; "optimizerExploitTarget"%string; "optimizerExploitTargetHigh"%string; "optimizerExploitTargetLow"%string; "queue"%string; "ranksPerNode"%string; "references"%string; "repeat-interval"%string; "repeatRetries"%string; "replicate"%string; "reservation"%string; "resolvePath"%string; "resourceString"%string; "restart-hook-file"%string; "restart-hook-on"%string; "rstage-in"%string; "rstage-out"%string; "shutdown-on"%string; "statusRequestInterval"%string; "threadsPerCore"%string; "walltime"%string].

(* known keys that are removed and stored nowhere *)
Definition dropped_keys : list string :=
  [].

(* every probed option path; those for which the writers emit nothing *)
Definition option_paths : list string :=
  ["references"%string; "workflowAttributes.restartHookFile"%string; "workflowAttributes.aggregate"%string; "workflowAttributes.replicate"%string; "workflowAttributes.isMigratable"%string; "workflowAttributes.isMigrated"%string; "workflowAttributes.repeatInterval"%string; "workflowAttributes.repeatRetries"%string; "workflowAttributes.maxRestarts"%string; "workflowAttributes.shutdownOn"%string; "workflowAttributes.restartHookOn"%string; "workflowAttributes.isRepeat"%string; "workflowAttributes.memoization.disable.strong"%string; "workflowAttributes.memoization.disable.fuzzy"%string; "workflowAttributes.memoization.embeddingFunction"%string; "workflowAttributes.optimizer.disable"%string; "workflowAttributes.optimizer.exploitChance"%string; "workflowAttributes.optimizer.exploitTarget"%string; "workflowAttributes.optimizer.exploitTargetLow"%string; "workflowAttributes.optimizer.exploitTargetHigh"%string; "resourceManager.config.backend"%string; "resourceManager.config.walltime"%string; "resourceManager.lsf.statusRequestInterval"%string; "resourceManager.lsf.queue"%string; "resourceManager.lsf.reservation"%string; "resourceManager.lsf.resourceString"%string; "resourceManager.lsf.dockerImage"%string; "resourceManager.lsf.dockerProfileApp"%string; "resourceManager.lsf.dockerOptions"%string; "resourceManager.kubernetes.image"%string; "resourceManager.kubernetes.qos"%string; "resourceManager.kubernetes.image-pull-secret"%string; "resourceManager.kubernetes.namespace"%string; "resourceManager.kubernetes.api-key-var"%string; "resourceManager.kubernetes.host"%string; "resourceManager.kubernetes.cpuUnitsPerCore"%string; "resourceManager.kubernetes.gracePeriod"%string; "resourceManager.kubernetes.podSpec"%string; "resourceManager.docker.image"%string; "resourceManager.docker.imagePullPolicy"%string; "resourceManager.docker.platform"%string; "resourceRequest.numberProcesses"%string; "resourceRequest.numberThreads"%string; "resourceRequest.ranksPerNode"%string; "resourceRequest.threadsPerCore"%string; "resourceRequest.memory"%string; "resourceRequest.gpus"%string; "command.executable"%string; "command.arguments"%string; "command.resolvePath"%string; "command.expandArguments"%string; "command.interpreter"%string; "executors.main.docker.docker-args"%string; "executors.main.docker.docker-image"%string; "command.environment"%string; "executors.pre.lsf-dm-in.payload"%string; "executors.post.lsf-dm-out.payload"%string].
Definition inexpressible : list string :=
  ["resourceManager.docker.image"%string; "resourceManager.docker.imagePullPolicy"%string; "resourceManager.docker.platform"%string; "resourceManager.kubernetes.podSpec"%string; "resourceManager.kubernetes.qos"%string; "resourceRequest.gpus"%string; "workflowAttributes.isMigrated"%string; "workflowAttributes.isRepeat"%string].

(* Dosini.options_for_backend(b) for every backend the code knows: the names validate_component accepts for a
   component of that backend; a name that is not a known key is kept as a variable of the component *)
Definition backend_options : list (string * list string) :=
  [("docker"%string, ["executable"%string]); ("kubernetes"%string, ["executable"%string; "k8s-api-key-var"%string; "k8s-grace-period"%string; "k8s-host"%string; "k8s-image"%string; "k8s-image-pull-secret"%string; "k8s-namespace"%string]); ("loadleveler"%string, ["executable"%string; "queue"%string]); ("local"%string, ["executable"%string]); ("lsf"%string, ["executable"%string; "lsf-docker-image"%string; "lsf-docker-options"%string; "lsf-docker-profile-app"%string; "queue"%string; "reservation"%string; "resourceString"%string; "walltime"%string]); ("simulator"%string, ["executable"%string; "queue"%string; "reservation"%string; "resourceString"%string; "sim_expected_exit_code"%string; "sim_range_execution_time"%string; "sim_range_schedule_overhead"%string; "walltime"%string]); ("slurm"%string, ["executable"%string; "queue"%string])].
