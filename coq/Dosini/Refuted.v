(* C19 — parts of the statement that were false of the pinned code (both repaired by fix: commits; the
   witnesses stay in the corpus of harness/c19.py) and a boundary of the format. *)
From Coq Require Import String List Bool ZArith.
Require Import V.Lib.JTree V.Dosini.Codec V.Dosini.Generated V.Dosini.Model.
Import ListNotations.
Open Scope string_scope.

(* F19 (fixed).  The pinned reader had no branch for the ini key max-restarts (it compared the key with
   the FlowIR name maxRestarts): the key was recognised, removed and stored nowhere.  With that row taken
   out of the measured reader table the check on the tables fails at exactly that option and a component
   that sets maxRestarts comes back without it. *)
Definition pinned_parse_table : list prow := remove_key "max-restarts" parse_table.

Theorem C19_pinned_max_restarts_refuted :
  tables_ok dump_table pinned_parse_table known_keys = false /\
  first_bad_row dump_table pinned_parse_table known_keys =
    Some ("workflowAttributes.maxRestarts", ("max-restarts", DStr)) /\
  exists c, opts c <> [] /\ roundtrip dump_table pinned_parse_table known_keys c = Some (mkComp [] []).
Proof.
  split; [|split]; try (vm_compute; reflexivity).
  exists (mkComp [("workflowAttributes.maxRestarts", VInt 4)] []).
  split; [discriminate|vm_compute; reflexivity].
Qed.
Print Assumptions C19_pinned_max_restarts_refuted.

(* F19b (fixed).  The pinned writers of the boolean options rendered str(value).lower(): a variable
   reference with an upper-case letter comes back as a reference to another variable. *)
Definition pinned_dump_table : list drow :=
  map (fun r : drow => let '(path, (ik, d)) := r in
                       (path, (ik, match d with DBool => DLower | _ => d end))) dump_table.

Theorem C19_pinned_bool_reference_refuted :
  tables_ok pinned_dump_table parse_table known_keys = false /\
  exists c, roundtrip pinned_dump_table parse_table known_keys c
            = Some (mkComp [("command.resolvePath", VStr "%(doresolve)s")] []) /\
            c = mkComp [("command.resolvePath", VStr "%(DoResolve)s")] [].
Proof.
  split; [vm_compute; reflexivity|].
  eexists. split; [|reflexivity]. vm_compute. reflexivity.
Qed.
Print Assumptions C19_pinned_bool_reference_refuted.

(* Boundary (not a defect: the section of a component is one flat namespace): a variable named like an
   option key is read back as that option. *)
Theorem C19_variable_named_like_option_refuted :
  exists c, roundtrip_c c <> Some c /\ opts c = [].
Proof.
  exists (mkComp [] [("queue", "fast")]). split; [|reflexivity]. vm_compute. discriminate.
Qed.
Print Assumptions C19_variable_named_like_option_refuted.
